"""C19 — standard-library Vector, Queue and Map behave as sequence, FIFO and ordered map.

Theorems: lean/CbProps/C19.lean — the functional model of stdlib/std/map.cb (CbModel/Avl.lean) keeps the
BST order, correct stored heights and the AVL balance under insert and remove, refines a finite map,
keeps count = number of nodes, and satisfies the Fibonacci size bound (height <= 1.44 log2(n+2));
sort of the sequence model is a sorted permutation.
Tie: the real .cb containers run in the interpreter built from the working tree on generated operation
sequences; after EVERY map operation a Cb-side traversal prints the whole tree (keys, values, stored
heights), which must equal the model's tree (shape-exact); Vector/Queue answers and contents must equal
the list model.  With the CB_VERIF hook the malloc/free log is checked for "each node freed exactly once".
"""
import json, os
import common
from common import Rng, esc

PID = "C19"
MAP_THEOREMS = ["insert_inv", "remove_inv", "lookup_insert", "lookup_remove", "size_insert", "size_remove", "fib_le_size",
                "height_eq_real", "height_bound_144", "map_count_and_inv"]
SEQ_THEOREMS = ["sort_sorted", "sort_perm", "queue_fifo", "queue_history_fifo", "queue_clear_resets", "vec_pushBack_popBack",
                "vec_pushFront_popFront", "vec_at_pushBack", "vec_at_pushFront", "vec_length_step", "vec_at_deleteAt", "vec_find_spec"]
_has_map = os.path.exists(os.path.join(common.LEAN, "CbProofs", "Avl.lean"))
THEOREMS = {"CbProps.C19": ["CbProps.C19." + t for t in (MAP_THEOREMS if _has_map else []) + SEQ_THEOREMS]}

MAP_HDR = """import stdlib.std.map;
void dump(MapNode<int, int>* n) {
    if (n == nullptr) { print("."); return; }
    print("(");
    dump(n->left);
    print(n->key, n->value, n->height);
    dump(n->right);
    print(")");
}
"""


def map_program(ops):
    L = [MAP_HDR, "int main() {", "    Map<int, int> m;"]
    for op in ops:
        f = op.split(" ")
        if f[0] == "i":
            L.append("    m.insert(%s, %s); dump(m.root); println(\" %%d\", m.size());" % (f[1], f[2]))
        elif f[0] == "r":
            L.append("    m.remove(%s); dump(m.root); println(\" %%d\", m.size());" % f[1])
        elif f[0] == "g":
            L.append("    println(m.get(%s, -1));" % f[1])
        elif f[0] == "c":
            L.append("    println(m.contains(%s));" % f[1])
        elif f[0] == "s":
            L.append("    println(m.size());")
        elif f[0] == "h":
            L.append("    println(m.get_tree_height());")
        elif f[0] == "x":
            L.append("    m.clear(); dump(m.root); println(\" %d\", m.size());")
    L += ["    println(\"END\");", "    return 0;", "}"]
    return "\n".join(L) + "\n"


def gen_map_ops(r, n, keyspace):
    ops = []
    for _ in range(n):
        k = r.below(100)
        key = r.range(-keyspace // 2, keyspace)
        if k < 45:
            ops.append("i %d %d" % (key, r.range(-99, 999)))
        elif k < 72:
            ops.append("r %d" % key)
        elif k < 82:
            ops.append("g %d" % key)
        elif k < 90:
            ops.append("c %d" % key)
        elif k < 94:
            ops.append("s")
        elif k < 98:
            ops.append("h")
        else:
            ops.append("x")
    return ops


def monotone_map_ops(n, desc=False):
    """ascending / descending insertions: the worst case for an unbalanced tree"""
    ks = list(range(n))
    if desc:
        ks.reverse()
    return ["i %d %d" % (k, k * 10) for k in ks] + ["h", "s"] + ["r %d" % k for k in ks[::2]] + ["h", "s"]


VEC_HDR = "import stdlib.std.vector;\n"


def vec_program(ops, ety="int"):
    L = [VEC_HDR, "void show(Vector<%s> v) {" % ety, "    print(\"[\");", "    long n = v.get_length();",
         "    for (long i = 0; i < n; i++) { if (i > 0) { print(\",\"); } print(v.at(i)); }", "    println(\"]\");", "}",
         "int main() {", "    Vector<%s> v;" % ety]
    for op in ops:
        f = op.split(" ")
        c = {"pb": "v.push_back(%s);", "pf": "v.push_front(%s);", "ob": "v.pop_back();", "of": "v.pop_front();",
             "d": "v.delete_at(%s);", "sa": "v.smaller();", "sd": "v.greater();", "so": "v.sort();", "x": "v.clear();"}
        if f[0] in c:
            L.append("    " + (c[f[0]] % f[1] if "%s" in c[f[0]] else c[f[0]]) + " show(v);")
        elif f[0] == "a":
            L.append("    println(v.at(%s));" % f[1])
        elif f[0] == "f":
            L.append("    println(v.find(%s));" % f[1])
        elif f[0] == "l":
            L.append("    println(v.get_length());")
    L += ["    println(\"END\");", "    return 0;", "}"]
    return "\n".join(L) + "\n"


def gen_vec_ops(r, n, wide=0):
    """wide: 0 small values, 1 values over the whole int range, 2 values beyond 32 bits (Vector<long>)"""
    def val():
        if wide and r.chance(55):
            m = 2147483647 if wide == 1 else 9000000000
            return r.choice([m, -m, m - r.below(50), -m + r.below(50), r.range(-m, m)])
        return r.range(-50, 50)
    ops, ln = [], 0
    for _ in range(n):
        k = r.below(100)
        if k < 30 or ln == 0:
            ops.append(("pb %d" if r.chance(60) else "pf %d") % val()); ln += 1
        elif k < 42:
            ops.append(r.choice(["ob", "of"])); ln -= 1
        elif k < 50:
            ops.append("d %d" % r.below(ln)); ln -= 1
        elif k < 68:
            ops.append("a %d" % r.below(ln))
        elif k < 78:
            ops.append("f %d" % val())
        elif k < 88:
            ops.append(r.choice(["sa", "sd", "so"]))
        elif k < 96:
            ops.append("l")
        else:
            ops.append("x"); ln = 0
    return ops


Q_HDR = "import stdlib.std.queue;\n"


def queue_program(ops):
    L = [Q_HDR, "int main() {", "    Queue<int> q;"]
    for op in ops:
        f = op.split(" ")
        if f[0] == "p":
            L.append("    q.push(%s); println(\"-\");" % f[1])
        elif f[0] == "o":
            L.append("    println(q.pop());")
        elif f[0] == "t":
            L.append("    println(q.top());")
        elif f[0] == "s":
            L.append("    println(q.size());")
        elif f[0] == "e":
            L.append("    println(q.empty());")
        elif f[0] == "x":
            L.append("    q.clear(); println(\"-\");")
    L += ["    println(\"END\");", "    return 0;", "}"]
    return "\n".join(L) + "\n"


def gen_queue_ops(r, n):
    ops, ln = [], 0
    for _ in range(n):
        k = r.below(100)
        if k < 40 or ln == 0:
            ops.append("p %d" % r.range(-99, 99)); ln += 1
        elif k < 65:
            ops.append("o"); ln -= 1
        elif k < 78:
            ops.append("t")
        elif k < 88:
            ops.append("s")
        elif k < 96:
            ops.append("e")
        else:
            ops.append("x"); ln = 0
    return ops


def main(a):
    v = common.Verdict(PID, a.tier, a.seed)
    driver_ok, failed = common.lean_obligations(v, ["CbProofs", "CbProps.C19"], THEOREMS)
    exe, blog = common.build_impl()
    if exe is None or not driver_ok:
        v.violation("cannot build the interpreter / driver: " + (blog or "")[-600:], {"log": (blog or "")[-2000:]}, no_input=True)
        return v.finish()
    srcdir = os.path.dirname(exe)
    links = {"stdlib": os.path.join(srcdir, "stdlib")}
    drv = common.driver_path()
    quick = a.tier == "quick"
    r = Rng(a.seed, 191)
    cases = []   # (kind, ops)
    if a.replay:
        rp = json.load(open(a.replay))
        cases = [(rp["kind"], rp["ops"])]
    else:
        for n in (8, 16, 33, 70):
            cases.append(("map", monotone_map_ops(n)))
            cases.append(("map", monotone_map_ops(n, desc=True)))
        for _ in range(60 if quick else 3000):
            cases.append(("map", gen_map_ops(r, r.range(10, 60 if quick else 200), r.choice([6, 12, 40]))))
        for _ in range(40 if quick else 2000):
            cases.append(("vec", gen_vec_ops(r, r.range(5, 40 if quick else 150))))
        for _ in range(16 if quick else 800):
            cases.append(("vecw", gen_vec_ops(r, r.range(5, 30 if quick else 100), 1)))
            cases.append(("vecl", gen_vec_ops(r, r.range(5, 30 if quick else 100), 2)))
        for _ in range(30 if quick else 1500):
            cases.append(("queue", gen_queue_ops(r, r.range(5, 40 if quick else 150))))
    render = {"map": map_program, "vec": vec_program, "queue": queue_program, "vecw": vec_program,
              "vecl": lambda ops: vec_program(ops, "long")}
    cmd = {"map": "c19map", "vec": "c19vec", "queue": "c19queue", "vecw": "c19vec", "vecl": "c19vec"}
    expected = {}
    for kind in ("map", "vec", "queue", "vecw", "vecl"):
        idx = [i for i, c in enumerate(cases) if c[0] == kind]
        if not idx:
            continue
        # v.sort() without a comparator is the ascending sort of the model
        _, out, _ = common.run_lines_parallel([drv, cmd[kind]], [esc(";".join("sa" if o_ == "so" else o_ for o_ in cases[i][1])) for i in idx])
        for i, o in zip(idx, out):
            expected[i] = "".join(x + "\n" for x in o.split("|")) + "END\n" if o else "END\n"
    progs = [render[k](ops) for (k, ops) in cases]
    outs = common.run_programs(exe, progs, cwd_links=links, timeout=30, env={"CB_VERIF_TRACE": "trace.txt"},
                               collect="trace.txt")
    findings = common.load_findings(PID)
    leak_finding = [f for f in findings if f["id"] == "scope_exit_leak"]
    twice_finding = [f for f in json.load(open(os.path.join(common.ROOT, "known_findings.json")))["findings"]
                     if f["id"] == "ptr_init_twice"]
    heap = {"allocs": 0, "frees": 0, "programs_with_trace": 0, "scope_exit_leaks": 0}
    nontrivial = set()
    rep = 0
    dist = {}
    samples = []
    for i, ((kind, ops), o) in enumerate(zip(cases, outs)):
        dist[kind] = dist.get(kind, 0) + 1
        nontrivial.add(hash(expected[i]))
        if i % 29 == 0 and len(samples) < 6:
            samples.append({"kind": kind, "ops": ops[:12], "expected_tail": expected[i][-120:]})
        # heap discipline from the CB_VERIF alloc/free log: a free of an address that is not live is a
        # double/invalid free; nodes still live at exit beyond the container's final size are leaks
        live, bad_free, na, nf = set(), None, 0, 0
        for line in o[3].split("\n"):
            f = line.split(" ")
            if f[0] == "alloc":
                live.add(f[1]); na += 1
            elif f[0] == "free":
                nf += 1
                if f[1] in live:
                    live.remove(f[1])
                elif bad_free is None:
                    bad_free = line
        if o[3]:
            heap["programs_with_trace"] += 1
        heap["allocs"] += na
        heap["frees"] += nf
        final_size = model_final_size(kind, ops)
        created = model_created(kind, ops)
        # under finding ptr_init_twice every executed `T* p = malloc(..)` allocates twice and leaks the first block
        allowance = (final_size if leak_finding else 0) + (na // 2 if twice_finding else 0)
        if bad_free is not None and rep < 3:
            rep += 1
            v.violation("%s: a node is released twice (or was never allocated): %s" % (kind, bad_free),
                        {"kind": kind, "ops": ops, "program": progs[i], "trace_tail": o[3][-800:]})
        elif o[3] and len(live) > allowance and rep < 3:
            rep += 1
            v.violation("%s: %d blocks are still allocated at exit; the container holds %d elements and created %d "
                        "nodes (allowance under the listed findings: %d) — a removed node was not released" % (
                            kind, len(live), final_size, created, allowance),
                        {"kind": kind, "ops": ops, "program": progs[i], "trace_tail": o[3][-800:]})
        elif len(live) > 0:
            heap["scope_exit_leaks"] += 1
        if o[0] != expected[i] or o[1] != "ok":
            if rep >= 3:
                continue
            rep += 1
            # shrink: shortest failing prefix, then drop single operations
            ops2 = shrink_ops(exe, drv, links, kind, ops, render, cmd)
            v.violation("%s: container output differs from the model after operations %s" % (kind, ops2[-6:]),
                        {"kind": kind, "ops": ops2, "program": render[kind](ops2), "impl_stdout": o[0][-600:],
                         "impl_exit_class": o[1], "impl_stderr": o[2], "expected": expected[i][-600:]})
    if heap["scope_exit_leaks"]:
        if leak_finding:
            v.known_finding(leak_finding[0]["what"] + " [%d programs]" % heap["scope_exit_leaks"])
        else:
            v.violation("nodes still allocated when the container's scope is left (%d programs)" % heap["scope_exit_leaks"],
                        {"kind": "heap", "note": "every program leaves main with live nodes; see trace"})
    # element types other than int (fixed short histories, oracle written out from the abstract data types)
    et = element_type_cases()
    eo = common.run_programs(exe, [c["program"] for c in et], cwd_links=links, timeout=20)
    listed = {f["id"]: f for f in findings}
    et_known = {}
    for c, o in zip(et, eo):
        nontrivial.add(("elem", c["id"]))
        if o[0] == c["expect_stdout"] and o[1] == "ok":
            continue
        if c["finding"] and c["finding"] in listed:
            et_known[c["finding"]] = et_known.get(c["finding"], 0) + 1
            continue
        v.violation("element-type case %s: expected %r got %r (%s)" % (c["id"], c["expect_stdout"], o[0][-120:], o[1]),
                    {"kind": "element-type", "case": c["id"], "program": c["program"], "expected": c["expect_stdout"], "impl_stdout": o[0],
                     "impl_exit_class": o[1], "impl_stderr": o[2][-300:]})
    for fid, n_ in et_known.items():
        v.known_finding(listed[fid]["what"] + " [%d fixed programs]" % n_)
    v.coverage.update({"heap_log": heap, "element_type_programs": len(et)})
    v.coverage.update({
        "evaluations": len(cases) + len(et), "distinct_nontrivial": len(nontrivial),
        "rule": "operation sequences on the real stdlib containers; Map: after every insert/remove/clear the whole tree "
                "(keys, values, stored heights) and size are printed and compared with the Lean AVL model (shape-exact), "
                "plus get/contains/size/height answers; ascending and descending insertion runs of 8..70 keys; Vector and "
                "Queue: answers and full contents after every mutation vs the list model. non-trivial = distinct expected "
                "output", "samples": samples, "cases_by_container": dist, "exhaustive": False})
    v.assumptions += ["Vector/Queue are tied to the abstract list model (their linked-list code is not mirrored)",
                      "at()/delete_at() out of range and pop on an empty container are not generated",
                      "the random histories use Vector<int> (small and full-range values), Vector<long> and Queue<int> / Map<int,int>; other element "
                      "types (string, double, long in queues, string keys / values in maps) only in 8 fixed programs"]
    return v.finish()


def element_type_cases():
    """the same short histories at element types other than int: the container holds what was put into it"""
    H = "import stdlib.std.vector;\nimport stdlib.std.map;\nimport stdlib.std.queue;\n"
    cases = []

    def c(cid, body, out, fid=None):
        cases.append({"id": cid, "program": H + "int main() {\n" + body + "    println(\"END\");\n    return 0;\n}\n", "expect_stdout": out + "END\n", "finding": fid})
    c("vector-long", "    Vector<long> v;\n    v.push_back(5000000000);\n    v.push_front(0 - 7000000000);\n    v.push_back(3);\n    println(v.at(0), v.at(1), v.at(2), v.get_length());\n    v.pop_front();\n    println(v.at(0), v.get_length());\n",
      "-7000000000 5000000000 3 3\n5000000000 2\n")
    c("queue-long", "    Queue<long> q;\n    q.push(5000000000);\n    q.push(7);\n    println(q.pop(), q.size());\n    println(q.pop(), q.size());\n", "5000000000 1\n7 0\n")
    c("map-string-int", "    Map<string, int> m;\n    m.insert(\"k1\", 1);\n    m.insert(\"k0\", 5);\n    m.insert(\"k1\", 9);\n    println(m.get(\"k1\", 0), m.get(\"k0\", 0), m.get(\"zz\", -1), m.size());\n", "9 5 -1 2\n")
    c("map-int-string", "    Map<int, string> n;\n    n.insert(1, \"one\");\n    n.insert(2, \"two\");\n    println(n.get(2, \"none\"), n.get(1, \"none\"), n.get(3, \"none\"), n.size());\n", "two one none 2\n")
    c("vector-string", "    Vector<string> v;\n    v.push_back(\"b\");\n    v.push_back(\"c\");\n    v.push_front(\"a\");\n    println(v.at(0), v.at(1), v.at(2), v.get_length());\n", "a b c 3\n", "string_and_double_elements")
    c("queue-string", "    Queue<string> q;\n    q.push(\"b\");\n    q.push(\"c\");\n    println(q.pop(), q.size());\n", "b 1\n", "string_and_double_elements")
    c("vector-double", "    Vector<double> d;\n    d.push_back(2.5);\n    d.push_back(1.25);\n    println(d.at(0), d.at(1), d.get_length());\n", "2.5 1.25 2\n", "string_and_double_elements")
    c("queue-double", "    Queue<double> q;\n    q.push(2.5);\n    q.push(0.75);\n    println(q.pop(), q.pop(), q.size());\n", "2.5 0.75 0\n", "string_and_double_elements")
    return cases


def model_final_size(kind, ops):
    if kind == "map":
        d = set()
        for op in ops:
            f = op.split(" ")
            if f[0] == "i":
                d.add(f[1])
            elif f[0] == "r":
                d.discard(f[1])
            elif f[0] == "x":
                d.clear()
        return len(d)
    n = 0
    for op in ops:
        f = op.split(" ")
        if f[0] in ("pb", "pf", "p"):
            n += 1
        elif f[0] in ("ob", "of", "d", "o") and n > 0:
            n -= 1
        elif f[0] == "x":
            n = 0
    return n


def model_created(kind, ops):
    """number of node creations"""
    if kind == "map":
        d, n = set(), 0
        for op in ops:
            f = op.split(" ")
            if f[0] == "i":
                if f[1] not in d:
                    n += 1
                d.add(f[1])
            elif f[0] == "r":
                d.discard(f[1])
            elif f[0] == "x":
                d.clear()
        return n
    return sum(1 for op in ops if op.split(" ")[0] in ("pb", "pf", "p"))


def run_case(exe, drv, links, kind, ops, render, cmd):
    _, out, _ = common.run_lines([drv, cmd[kind]], [esc(";".join(ops))])
    exp = ("".join(x + "\n" for x in out[0].split("|")) if out and out[0] else "") + "END\n"
    o = common.run_programs(exe, [render[kind](ops)], cwd_links=links, timeout=30)[0]
    return o[0] != exp or o[1] != "ok"


def shrink_ops(exe, drv, links, kind, ops, render, cmd):
    lo, hi = 1, len(ops)
    # shortest failing prefix (failures are monotone in the prefix once output diverges)
    while lo < hi:
        mid = (lo + hi) // 2
        if run_case(exe, drv, links, kind, ops[:mid], render, cmd):
            hi = mid
        else:
            lo = mid + 1
    ops = ops[:hi]
    i = 0
    while i < len(ops) - 1 and len(ops) > 1:
        cand = ops[:i] + ops[i + 1:]
        if run_case(exe, drv, links, kind, cand, render, cmd):
            ops = cand
        else:
            i += 1
    return ops
