/-
  C05 — mirror of `Variable::calculate_flat_index` (src/backend/interpreter/core/interpreter.h)
  and the row-major specification.  Core Lean only.
-/
namespace CbModel.FlatIndex

/-- the C++ loop, run over (index, extent) pairs from the LAST dimension to the first:
    state = (flat_index, multiplier); `none` = "Array index out of bounds" -/
def loopRev : List (Int × Nat) → Int → Int → Option (Int × Int)
  | [], flat, mult => some (flat, mult)
  | (i, d) :: r, flat, mult =>
      if i < 0 ∨ i ≥ (d : Int) then none else loopRev r (flat + i * mult) (mult * d)

/-- `calculate_flat_index`: dimension-count check, then the loop from the last dimension -/
def flatIndex (dims : List Nat) (idxs : List Int) : Option Int :=
  if idxs.length ≠ dims.length then none
  else (loopRev (idxs.zip dims).reverse 0 1).map (·.1)

def prodDims : List (Int × Nat) → Int
  | [] => 1
  | (_, d) :: r => d * prodDims r

/-- specification: row-major address, first index most significant -/
def rowMajor : List (Int × Nat) → Option Int
  | [] => some 0
  | (i, d) :: r =>
      if i < 0 ∨ i ≥ (d : Int) then none
      else (rowMajor r).map (fun k => i * prodDims r + k)

def inRange (ps : List (Int × Nat)) : Prop := ∀ p ∈ ps, 0 ≤ p.1 ∧ p.1 < (p.2 : Int)

instance (ps : List (Int × Nat)) : Decidable (inRange ps) := by unfold inRange; infer_instance

/-! flat array store used by the driver -/

def arrayGet (dims : List Nat) (cells : List Int) (idxs : List Int) : Option Int :=
  match flatIndex dims idxs with
  | some k => cells[k.toNat]?
  | none => none

def arraySet (dims : List Nat) (cells : List Int) (idxs : List Int) (v : Int) : Option (List Int) :=
  match flatIndex dims idxs with
  | some k => if k.toNat < cells.length then some (cells.set k.toNat v) else none
  | none => none

end CbModel.FlatIndex
