/-
  C14 / C15 — the cooperative scheduler (event_loop/simple_event_loop.cpp, statement_list_executor.cpp,
  control_flow_executor.cpp, evaluate_await) as a small-step machine with an explicit control stack.
  One C++ stack, nested scheduler loops: `await` inside a task and the "one pop after every statement of a
  function body" rule call back into the scheduler from inside a running step; the control stack makes that
  nesting explicit.  Fragment: task bodies and main are lists of top-level statements — println of a tag, `yield`,
  a counted `for` loop of printlns, an async call stored in a future variable, `await` of a future variable (the
  value is printed), `return v`.  Core Lean only.
-/
namespace CbModel.Sched

inductive Stmt where
  | mark (tag : Nat)
  | yieldS
  | loop (n : Nat) (tags : List Nat)
  | spawn (f : Nat) (slot : Nat)
  | await (slot : Nat)                -- int v<slot> = await s<slot>;
  | show (slot : Nat)                 -- println("got", v<slot>);
  | ret (v : Int)
  deriving Repr, DecidableEq, Inhabited

structure Prog where
  funcs : List (List Stmt)     -- async function bodies
  main : List Stmt
  deriving Repr, Inhabited

/-- scheduler trace events (hook H3) and program output -/
inductive Ev where
  | spawn (id f : Nat)
  | cycle (q : List Nat)
  | step (id : Nat)
  | suspend (id : Nat) (kind : Nat)        -- 0 = auto stmt, 1 = auto loop, 2 = yield
  | done (id : Nat)
  | awaitMain (id : Nat) | resumeMain (id : Nat)
  | awaitTask (cur id : Nat) | resumeTask (cur id : Nat)
  | yieldStmt (cur : Nat)
  | skip (id w : Nat)                      -- popped, still blocked on unfinished w, pushed back without running
  | giveUp (target : Nat)                  -- (not traced by the hook) a wait loop ended because the queue ran empty
  | out (ctx : Nat) (tag : Nat)            -- println of a tag; ctx 0 = main, otherwise the task id
  | got (ctx : Nat) (v : Int)              -- the awaited value, printed by the awaiting code
  deriving Repr, DecidableEq, Inhabited

structure Task where
  fn : Nat
  idx : Nat
  iter : Nat
  finished : Bool
  result : Int
  slots : List (Nat × Nat)                 -- future variable ↦ task id
  vals : List (Nat × Int)                  -- awaited values
  waiting : Bool                           -- set by `await` inside the task, cleared at its next pop once the target finished
  waitingFor : Nat
  deriving Repr, Inhabited

inductive Frame where
  | main (pc iter : Nat)                   -- about to execute main statement pc
  | mainAfter (pc : Nat)                   -- statement pc completed: one pop if any task was ever registered
  | mainLoopPops (pc iter remaining : Nat) -- run_background_tasks_one_cycle after a main-loop iteration
  | mainAwaitRet (pc target : Nat)
  | task (id : Nat)                        -- inside execute_one_step(id), about to run its current statement
  | taskAwaitRet (id target : Nat)
  | wait (target : Nat)                    -- run_until_complete(target)
  | pop1                                   -- run_one_cycle
  deriving Repr, DecidableEq, Inhabited

structure Cfg where
  queue : List Nat
  tasks : List Task                        -- task id = index + 1; never erased
  stack : List Frame
  mainSlots : List (Nat × Nat)
  mainVals : List (Nat × Int)
  trace : List Ev                          -- newest first
  deriving Repr, Inhabited

def lookupSlot (s : List (Nat × Nat)) (k : Nat) : Nat :=
  match s with
  | [] => 0
  | (a, b) :: r => if a = k then b else lookupSlot r k

def lookupVal (s : List (Nat × Int)) (k : Nat) : Int :=
  match s with
  | [] => 0
  | (a, b) :: r => if a = k then b else lookupVal r k

def getTask (c : Cfg) (id : Nat) : Task := c.tasks.getD (id - 1) ⟨0, 0, 0, true, 0, [], [], false, 0⟩

def setTask (c : Cfg) (id : Nat) (t : Task) : Cfg := { c with tasks := c.tasks.set (id - 1) t }

def body (p : Prog) (t : Task) : List Stmt := p.funcs.getD t.fn []

def emit (c : Cfg) (e : Ev) : Cfg := { c with trace := e :: c.trace }

def emits (c : Cfg) (es : List Ev) : Cfg := { c with trace := es.reverse ++ c.trace }

def popFrame (c : Cfg) : Cfg := { c with stack := c.stack.tail }

def setTop (c : Cfg) (f : Frame) : Cfg := { c with stack := f :: c.stack.tail }

def pushFrame (c : Cfg) (f : Frame) : Cfg := { c with stack := f :: c.stack }

/-- the statement of task `id` has completed inside its step: advance, then suspend (back of the queue) or finish -/
def finishStmt (p : Prog) (c : Cfg) (id : Nat) : Cfg :=
  let t := getTask c id
  let t' := { t with idx := t.idx + 1, iter := 0 }
  if t.idx + 1 < (body p t).length then
    popFrame (emit { (setTask c id t') with queue := c.queue ++ [id] } (.suspend id 0))
  else
    popFrame (emit (setTask c id { t' with finished := true }) (.done id))

def newTask (f : Nat) : Task := ⟨f, 0, 0, false, 0, [], [], false, 0⟩

/-- one transition; `none` = the program has ended (main returned) -/
def stepCfg (p : Prog) (c : Cfg) : Option Cfg :=
  match c.stack with
  | [] => none
  | .pop1 :: _ =>
    let c := emit c (.cycle c.queue)
    match c.queue with
    | [] => some (popFrame c)
    | h :: q =>
      let c := { c with queue := q }
      let t := getTask c h
      if t.finished then some (popFrame c)
      else if t.waiting && !(getTask c t.waitingFor).finished then
        -- still blocked: pushed back without running
        some (popFrame (emit { c with queue := q ++ [h] } (.skip h t.waitingFor)))
      else
      let t := { t with waiting := false }
      let c := setTask c h t
      if (body p t).length ≤ t.idx then
        -- index already past the end (a body that ends in `yield`): an empty step that finishes the task
        some (popFrame (emits (setTask c h { t with finished := true }) [.step h, .done h]))
      else some (setTop (emit c (.step h)) (.task h))
  | .task id :: _ =>
    let t := getTask c id
    match (body p t)[t.idx]? with
    | none => some (popFrame c)
    | some (.mark tag) => some (finishStmt p (emit c (.out id tag)) id)
    | some .yieldS =>
      some (popFrame (emits { (setTask c id { t with idx := t.idx + 1 }) with queue := c.queue ++ [id] }
        [.yieldStmt id, .suspend id 2]))
    | some (.loop n tags) =>
      if t.iter < n then
        some (popFrame (emits { (setTask c id { t with iter := t.iter + 1 }) with queue := c.queue ++ [id] }
          (tags.map (Ev.out id) ++ [.suspend id 1])))
      else some (finishStmt p c id)
    | some (.spawn f slot) =>
      let nid := c.tasks.length + 1
      let c := { c with tasks := c.tasks ++ [newTask f], queue := c.queue ++ [nid] }
      let t := getTask c id
      some (finishStmt p (emit (setTask c id { t with slots := (slot, nid) :: t.slots }) (.spawn nid f)) id)
    | some (.await slot) =>
      let target := lookupSlot t.slots slot
      let c := setTask c id { t with waiting := true, waitingFor := target }
      some (pushFrame (setTop (emit c (.awaitTask id target)) (.taskAwaitRet id target)) (.wait target))
    | some (.show slot) => some (finishStmt p (emit c (.got id (lookupVal t.vals slot))) id)
    | some (.ret v) =>
      some (popFrame (emit (setTask c id { t with finished := true, result := v }) (.done id)))
  | .taskAwaitRet id target :: _ =>
    let t := getTask c id
    let slot := match (body p t)[t.idx]? with | some (.await s) => s | _ => 0
    let c := setTask c id { t with vals := (slot, (getTask c target).result) :: t.vals }
    some (finishStmt p (emit c (.resumeTask id target)) id)
  | .wait target :: _ =>
    if (getTask c target).finished then some (popFrame c)
    else if c.queue.isEmpty then some (popFrame (emit c (.giveUp target)))
    else some (pushFrame c .pop1)
  | .main pc iter :: _ =>
    match p.main[pc]? with
    | none => some { c with stack := [] }                    -- main returns: unfinished tasks are dropped
    | some (.mark tag) => some (setTop (emit c (.out 0 tag)) (.mainAfter pc))
    | some .yieldS => some (setTop c (.mainAfter pc))
    | some (.loop n tags) =>
      if iter < n then
        let c := emits c (tags.map (Ev.out 0))
        if c.queue.isEmpty then some (setTop c (.main pc (iter + 1)))
        else some (setTop c (.mainLoopPops pc (iter + 1) c.tasks.length))
      else some (setTop c (.mainAfter pc))
    | some (.spawn f slot) =>
      let nid := c.tasks.length + 1
      let c := { c with tasks := c.tasks ++ [newTask f], queue := c.queue ++ [nid], mainSlots := (slot, nid) :: c.mainSlots }
      some (setTop (emit c (.spawn nid f)) (.mainAfter pc))
    | some (.await slot) =>
      let target := lookupSlot c.mainSlots slot
      some (pushFrame (setTop (emit c (.awaitMain target)) (.mainAwaitRet pc target)) (.wait target))
    | some (.show slot) => some (setTop (emit c (.got 0 (lookupVal c.mainVals slot))) (.mainAfter pc))
    | some (.ret _) => some { c with stack := [] }
  | .mainAwaitRet pc target :: _ =>
    let slot := match p.main[pc]? with | some (.await s) => s | _ => 0
    let c := { c with mainVals := (slot, (getTask c target).result) :: c.mainVals }
    some (setTop (emit c (.resumeMain target)) (.mainAfter pc))
  | .mainAfter pc :: _ =>
    if c.tasks.isEmpty then some (setTop c (.main (pc + 1) 0))
    else some (pushFrame (setTop c (.main (pc + 1) 0)) .pop1)
  | .mainLoopPops pc iter remaining :: _ =>
    match remaining with
    | 0 => some (setTop c (.main pc iter))
    | r + 1 =>
      if c.queue.isEmpty then some (setTop c (.main pc iter))
      else some (pushFrame (setTop c (.mainLoopPops pc iter r)) .pop1)

def initCfg : Cfg := ⟨[], [], [.main 0 0], [], [], []⟩

def runFrom (p : Prog) : Nat → Cfg → Cfg
  | 0, c => c
  | fuel + 1, c => match stepCfg p c with
    | none => c
    | some c' => runFrom p fuel c'

def run (p : Prog) (fuel : Nat) : Cfg := runFrom p fuel initCfg

/-- the printed tags of one context, oldest first -/
def outsOf (ctx : Nat) (tr : List Ev) : List Nat :=
  tr.reverse.filterMap fun e => match e with
    | .out c tag => if c = ctx then some tag else none
    | _ => none

/-- what a body prints when run alone up to statement `idx` (exclusive) plus `iter` iterations of statement idx -/
def marksOf : List Stmt → List Nat
  | [] => []
  | .mark t :: r => t :: marksOf r
  | .loop n tags :: r => (List.replicate n tags).flatten ++ marksOf r
  | .ret _ :: _ => []
  | _ :: r => marksOf r

/-- reachable configurations -/
inductive Reach (p : Prog) : Cfg → Prop where
  | init : Reach p initCfg
  | step {c c' : Cfg} : Reach p c → stepCfg p c = some c' → Reach p c'

end CbModel.Sched

namespace CbModel.Sched

/-! ## notions used by the property theorems -/

def onStack (id : Nat) (st : List Frame) : Prop :=
  Frame.task id ∈ st ∨ ∃ t, Frame.taskAwaitRet id t ∈ st

def validId (c : Cfg) (id : Nat) : Prop := 1 ≤ id ∧ id ≤ c.tasks.length

/-- the scheduler's bookkeeping invariant -/
structure Inv (c : Cfg) : Prop where
  nodup : c.queue.Nodup
  queued_valid : ∀ id ∈ c.queue, validId c id
  queued_unfinished : ∀ id ∈ c.queue, (getTask c id).finished = false
  running_not_queued : ∀ id, onStack id c.stack → id ∉ c.queue
  running_valid : ∀ id, onStack id c.stack → validId c id
  running_unfinished : ∀ id, onStack id c.stack → (getTask c id).finished = false

/-- `a` is ahead of `b` in the queue -/
def Before (a b : Nat) (l : List Nat) : Prop := ∃ l1 l2 l3, l = l1 ++ a :: l2 ++ b :: l3

def stmtMarks : Stmt → List Nat
  | .mark t => [t]
  | .loop n tags => (List.replicate n tags).flatten
  | _ => []

/-- what the statements before `idx` print, plus the completed iterations of a loop at `idx` -/
def progressMarks (b : List Stmt) (idx iter : Nat) : List Nat :=
  (b.take idx).flatMap stmtMarks ++
    (match b[idx]? with
     | some (.loop _ tags) => (List.replicate iter tags).flatten
     | _ => [])

/-- `sleep(ms)`: the deadline is fixed at the call, the task stays asleep while now < wake -/
def sleepWake (callTime ms : Nat) : Nat := callTime + ms
def staysAsleep (now wake : Nat) : Bool := now < wake

end CbModel.Sched
