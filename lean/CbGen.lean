import CbGen.RangeTable
