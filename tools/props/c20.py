"""C20 — foreign calls pass arguments and results unchanged for every supported signature.

Theorems: lean/CbProps/C20.lean (for any call table whose rows pass rowOK the cast equals the declared C type and
arguments are taken in declaration order; a non-overlapping table is a function; 32-bit int marshalling).
Obligations (lean/CbOblig/C20.lean, decide) on the table regenerated from FFIManager::callFunction on every run.
Tie: translator + an echo library compiled by the check: every supported signature x boundary values x every
argument position, and unsupported signatures (which must be reported and must not be called).
"""
import json, os, subprocess
import common

PID = "C20"
THEOREMS = {"CbOblig.C20": ["CbOblig.C20.ffiTable_rows_ok", "CbOblig.C20.ffiTable_no_overlap"],
            "CbProps.C20": ["CbProps.C20." + t for t in ["cast_matches_declared", "args_in_declaration_order",
                                                          "lookup_deterministic", "int_roundtrip_32", "toInt32_range", "toInt32_congr", "toInt32_unique", "toInt32_idem"]]}

DECLS = """use foreign.echo {
    double d1(double a);
    double d2_0(double a, double b);
    double d2_1(double a, double b);
    double d4_0(double a, double b, double c, double d);
    double d4_1(double a, double b, double c, double d);
    double d4_2(double a, double b, double c, double d);
    double d4_3(double a, double b, double c, double d);
    double di(int a);
    double conv(double a);
    int only1(int a);
    int i0();
    int i1(int a);
    int i2_0(int a, int b);
    int i2_1(int a, int b);
    long li(int a);
    void v0();
    void vi(int a);
    int getseen();
    int u_iii(int a, int b, int c);
    double u_ddd(double a, double b, double c);
    long u_ll(long a);
    int u_id(double a);
    float u_ff(float a);
    double u_dl(long a);
    void u_vd(double a);
    long u_l0();
}
"""

DVALS = [("0.0", 0.0), ("1.5", 1.5), ("-2.25", -2.25), ("123456789.125", 123456789.125), ("1e300", 1e300),
         ("-1e-300", -1e-300), ("0.1", 0.1), ("9007199254740993.0", 9007199254740992.0)]
IVALS = [0, 1, -1, 2147483647, -2147483647, -2147483648, 65536]


def cases(extra=0, seed=1):
    """extra: number of additional random int / double values (thorough tier)"""
    global DVALS, IVALS
    if extra:
        r = common.Rng(seed, 201)
        iv = list(IVALS) + [r.range(-2**31, 2**31 - 1) for _ in range(extra)]
        dv = list(DVALS)
        for _ in range(extra):
            m, e = r.range(-2**52, 2**52), r.range(-60, 60)
            x = float(m) * (2.0 ** e)
            dv.append((repr(x), x))
        IVALS, DVALS = iv, [d for d in dv if "e" not in d[0] or True]
    out = []

    def prog(body):
        return DECLS + "int main() {\n" + body + "    println(\"END\");\n    return 0;\n}\n"
    # doubles: the result must compare equal to the argument that was passed in that position (bit-exact for
    # these values: the comparison is done by the interpreter on the returned double)
    for (txt, _) in DVALS:
        out.append(("d1 " + txt, prog("    double x = %s;\n    double r = echo.d1(x);\n    println(r == x);\n" % txt), "1\nEND\n", "ok", None))
        for k in range(2):
            out.append(("d2_%d %s" % (k, txt), prog("    double x = %s;\n    double o = 77.5;\n    double r = echo.d2_%d(%s);\n    println(r == x, r == o);\n" % (
                txt, k, "x, o" if k == 0 else "o, x")), "1 0\nEND\n", "ok", None))
        for k in range(4):
            args = ["o1", "o2", "o3", "o4"]
            args[k] = "x"
            out.append(("d4_%d %s" % (k, txt), prog("    double x = %s;\n    double o1 = 11.5; double o2 = 22.5; double o3 = 33.5; double o4 = 44.5;\n"
                                                     "    double r = echo.d4_%d(%s);\n    println(r == x);\n" % (txt, k, ", ".join(args))), "1\nEND\n", "ok", None))
    for v in IVALS:
        lit = str(v) if v != -2147483648 else "(-2147483647 - 1)"
        out.append(("i1 %d" % v, prog("    int x = %s;\n    println(echo.i1(x));\n" % lit), "%d\nEND\n" % v, "ok", None))
        out.append(("i2_0 %d" % v, prog("    int x = %s;\n    println(echo.i2_0(x, 5), echo.i2_1(5, x), echo.i2_0(5, x), echo.i2_1(x, 5));\n" % lit),
                    "%d %d 5 5\nEND\n" % (v, v), "ok", None))
        out.append(("li %d" % v, prog("    int x = %s;\n    long r = echo.li(x);\n    println(r);\n" % lit), "%d\nEND\n" % (v * 4294967296 + 7), "ok", None))
        out.append(("di %d" % v, prog("    int x = %s;\n    double r = echo.di(x);\n    double e = x;\n    println(r * 2.0 == e);\n" % lit), "1\nEND\n", "ok", None))
        out.append(("vi %d" % v, prog("    int x = %s;\n    echo.vi(x);\n    println(echo.getseen());\n" % lit), "%d\nEND\n" % v, "ok", None))
    # a long argument to an int parameter crosses as static_cast<int>: CbModel.Ffi.toInt32 (mirrored here; the four fixed
    # values are also evaluated in Lean, CbProps/C20.lean); the result position shows it went through unchanged otherwise
    wv = [4294967301, 2147483648, -2147483649, 123456789012345]
    if extra:
        wv += [r.range(-2**62, 2**62) for _ in range(extra)]
    for w in wv:
        t = ((w + 2147483648) % 4294967296) - 2147483648
        out.append(("wrap %d" % w, prog("    long x = %d;\n    println(echo.i1(x));\n    println(echo.i2_1(5, x), echo.i2_0(x, 5));\n    long r = echo.li(x);\n    println(r);\n" % w),
                    "%d\n%d %d\n%d\nEND\n" % (t, t, t, t * 4294967296 + 7), "ok", None))
    out.append(("i0", prog("    println(echo.i0());\n"), "-2147483648\nEND\n", "ok", None))
    out.append(("v0", prog("    echo.v0();\n    println(echo.getseen());\n"), "42\nEND\n", "ok", None))
    # unqualified calls take the same route
    out.append(("unqualified i1", prog("    println(i1(12345));\n"), "12345\nEND\n", "ok", None))
    out.append(("unqualified d2_1", prog("    double x = 2.25;\n    double r = d2_1(9.5, x);\n    println(r == x);\n"), "1\nEND\n", "ok", None))
    # arguments that are themselves foreign calls, or Cb calls that call into the foreign module (argument evaluation is
    # re-entrant: the inner call must not disturb the arguments the outer call has already collected)
    out.append(("nested qualified i2", prog("    println(echo.i2_0(9, echo.i1(20)), echo.i2_1(9, echo.i1(20)), echo.i2_0(echo.i1(7), 3), echo.i2_1(echo.i1(7), echo.i1(8)));\n"),
                "9 20 7 8\nEND\n", "ok", None))
    out.append(("nested qualified d2", prog("    double a = echo.d2_0(9.5, echo.d1(0.25));\n    double b = echo.d2_1(9.5, echo.d1(0.25));\n    double c = echo.d4_2(1.5, echo.d1(2.5), echo.d2_1(0.5, 3.5), echo.d1(4.5));\n    println(a == 9.5, b == 0.25, c == 3.5);\n"),
                "1 1 1\nEND\n", "ok", None))
    out.append(("nested unqualified", prog("    println(i2_0(9, i1(20)), i2_1(9, i1(20)), i2_1(i1(7), i1(8)));\n    double b = d2_1(9.5, d1(0.25));\n    println(b == 0.25);\n"),
                "9 20 8\n1\nEND\n", "ok", None))
    out.append(("nested mixed", prog("    println(echo.i2_1(i1(1), i2_0(echo.i1(5), 6)), i2_0(echo.i1(3), echo.i1(4)));\n    long r = echo.li(echo.i2_1(1, 2));\n    println(r);\n"),
                "5 3\n%d\nEND\n" % (2 * 4294967296 + 7), "ok", None))
    out.append(("nested through a Cb function", DECLS + "int twice_i(int v) { return echo.i1(v) + echo.i1(v); }\ndouble keep_d(double v) { return d1(v); }\nint main() {\n"
                "    println(echo.i2_0(1, twice_i(4)), echo.i2_1(1, twice_i(4)));\n    double b = echo.d2_1(1.0, keep_d(4.5));\n    println(b == 4.5);\n    println(\"END\");\n    return 0;\n}\n",
                "1 8\n1\nEND\n", "ok", None))
    # two foreign modules that define functions of the same name: a qualified call reaches the library it names
    TWO = DECLS + "use foreign.echo2 {\n    int i1(int a);\n    double d1(double a);\n    int i2_0(int a, int b);\n    int only2(int a);\n    int conv(int a);\n    void vi(int a);\n    int getseen();\n}\n"
    out.append(("two modules same names", TWO + "int main() {\n    println(echo.i1(5), echo2.i1(5), echo.i1(6), echo2.i1(6));\n    double a = echo.d1(1.5);\n    double b = echo2.d1(1.5);\n"
                "    println(a == 1.5, b == 3.0);\n    println(echo.i2_0(1, 2), echo2.i2_0(1, 2));\n    echo.vi(10);\n    echo2.vi(20);\n    println(echo.getseen(), echo2.getseen());\n"
                "    double c = echo.conv(6.0);\n    println(c == 6.5, echo2.conv(6), echo2.only2(4), echo.only1(4));\n    println(\"END\");\n    return 0;\n}\n",
                "5 1005 6 1006\n1 1\n1 9\n10 21\n1 42 12 20\nEND\n", "ok", None))
    out.append(("function of the other module", TWO + "int main() {\n    println(\"before\");\n    println(echo2.only1(1));\n    println(\"after\");\n    return 0;\n}\n", None, "error", None))
    # unsupported signatures: a diagnostic and a non-zero exit, and the native function must not have run
    for name, call in [("u_iii", "echo.u_iii(1, 2, 3)"), ("u_ddd", "echo.u_ddd(1.5, 2.5, 3.5)"), ("u_ll", "echo.u_ll(5)"),
                       ("u_id", "echo.u_id(1.5)"), ("u_ff", "echo.u_ff(1.5)"), ("u_dl", "echo.u_dl(5)"), ("u_l0", "echo.u_l0()"),
                       ("u_iii-unq", "u_iii(1, 2, 3)"), ("u_ddd-unq", "u_ddd(1.5, 2.5, 3.5)"), ("u_ll-unq", "u_ll(5)")]:
        out.append(("unsupported " + name, prog("    println(\"before\");\n    %s;\n    println(\"after\");\n" % call), None, "error", None))
    out.append(("unsupported u_vd", prog("    println(\"before\");\n    echo.u_vd(1.5);\n    println(\"after\");\n"), None, "error",
                "ffi_void_unsupported_silent"))
    # argument expressions with effects: evaluated exactly once, the native function receives that value (qualified and
    # unqualified calls, int and double parameters)
    NT = DECLS + "int ticket = 0;\nint next_ticket() {\n    ticket = ticket + 1;\n    return ticket;\n}\ndouble next_half() {\n    ticket = ticket + 1;\n    return ticket + 0.5;\n}\n"
    for q in ("echo.", ""):
        out.append(("effect args %sincr" % q, prog("    int k = 4;\n    println(%si1(k++), k);\n    println(%si1(++k), k);\n    println(%si2_1(k++, k++), k);\n" % (q, q, q)),
                    "4 5\n6 6\n7 8\nEND\n", "ok", None))
        out.append(("effect args %scall" % q, NT + "int main() {\n    println(%si2_0(next_ticket(), next_ticket()), %si2_1(next_ticket(), next_ticket()), ticket);\n"
                    "    println(%si1(%si1(next_ticket())), ticket);\n    double r = %sd2_1(next_half(), next_half());\n    println(r == 7.5, ticket);\n"
                    "    %svi(next_ticket());\n    println(%sgetseen(), ticket);\n    println(\"END\");\n    return 0;\n}\n" % (q, q, q, q, q, q, q),
                    "1 4 4\n5 5\n1 7\n8 8\nEND\n", "ok", None))
    # a double result used as an operand (unary minus, mixed arithmetic, comparison, argument of println) keeps its value
    out.append(("double result as operand", prog("    double x = -echo.d1(1.5);\n    println(x == -1.5);\n    double y = echo.d1(1.5) + 1;\n    println(y == 2.5);\n"
                                                  "    println(echo.d1(2.5) > 2.25, echo.d1(1.5) * 2.0 == 3.0);\n    double z = 10 - d1(0.25);\n    println(z == 9.75);\n"),
                "1\n1\n1 1\n1\nEND\n", "ok", "ffi_double_result_truncated_in_expression"))
    # an int argument to a double parameter is converted, not dropped
    out.append(("int argument to double parameter", prog("    int k = 4;\n    println(echo.d1(3) == 3.0, echo.d1(k) == 4.0, d2_1(1, 2) == 2.0);\n"),
                "1 1 1\nEND\n", "ok", "ffi_int_argument_to_double_parameter"))
    # wrong argument count
    out.append(("arity i1()", prog("    println(echo.i1());\n"), None, "error", None))
    out.append(("arity i1(1,2)", prog("    println(echo.i1(1, 2));\n"), None, "error", None))
    return out


def main(a):
    v = common.Verdict(PID, a.tier, a.seed)
    tfailed = common.run_translators(v, ["ffi"])
    driver_ok, failed = common.lean_obligations(v, ["CbGen", "CbProps.C20", "CbOblig.C20"], THEOREMS)
    failed = tfailed + failed
    exe, blog = common.build_impl()
    if exe is None:
        v.violation("cannot build the interpreter: " + (blog or "")[-600:], {"log": (blog or "")[-2000:]}, no_input=True)
        return v.finish()
    d = common.scratch()
    libdir = os.path.join(d, "ffi_stdlib", "foreign")
    os.makedirs(libdir, exist_ok=True)
    r = common.run(["gcc", "-shared", "-fPIC", "-O1", "-o", os.path.join(libdir, "libecho.so"), os.path.join(common.HARNESS, "echo.c")])
    if r.returncode == 0:
        r = common.run(["gcc", "-shared", "-fPIC", "-O1", "-o", os.path.join(libdir, "libecho2.so"), os.path.join(common.HARNESS, "echo2.c")])
    if r.returncode != 0:
        v.violation("cannot build the echo library: " + r.stdout[-400:], {"log": r.stdout[-2000:]}, no_input=True)
        return v.finish()
    cs = cases(0 if a.tier == "quick" else 150, a.seed)
    if a.replay:
        rp = json.load(open(a.replay))
        cs = [c for c in cs if c[0] == rp["case"]]
    outs = common.run_programs(exe, [c[1] for c in cs], cwd_links={"stdlib": os.path.join(d, "ffi_stdlib")}, timeout=10, jobs=1)
    findings = {f["id"]: f for f in common.load_findings(PID)}
    known = {}
    samples = []
    nontriv = set()
    rep = 0
    base = os.path.join(d, "run", "w0")
    for (cid, prog, exp_out, exp_cls, fid), o in zip(cs, outs):
        nontriv.add(cid)
        ok = o[1] == exp_cls and (exp_out is None or o[0] == exp_out)
        if exp_cls == "error":
            ok = ok and "after" not in o[0] and o[2].strip() != ""      # a diagnostic on stderr
        if len(samples) < 5 and len(nontriv) % 17 == 1:
            samples.append({"case": cid, "expected_exit": exp_cls, "expected_stdout": exp_out})
        if ok:
            continue
        if fid and fid in findings:
            known[fid] = findings[fid]
            continue
        if rep < 4:
            rep += 1
            v.violation("FFI case %s: expected %s / %r, got %s / %r / stderr %r" % (cid, exp_cls, exp_out, o[1], o[0][-100:], o[2][-160:]),
                        {"case": cid, "program": prog, "expected_class": exp_cls, "expected_stdout": exp_out,
                         "impl_stdout": o[0], "impl_exit_class": o[1], "impl_stderr": o[2]})
    # no unsupported native function may have been entered
    called = [n for n in os.listdir(base)] if os.path.isdir(base) else []
    called = [n for n in called if n.startswith("called_")]
    for n in called:
        fid = "ffi_void_unsupported_silent" if n == "called_u_vd" else None
        if fid and fid in findings:
            known[fid] = findings[fid]
        else:
            v.violation("the native function %s was called although its signature cannot be marshalled" % n[7:],
                        {"case": "marker " + n, "note": "marker file written by harness/echo.c"})
    for f in known.values():
        v.known_finding(f["what"])
    if failed and v.violations == 0:
        v.violation("obligations no longer check: %s; no failing call found by the echo suite" % ", ".join(failed),
                    {"failed_obligations": failed}, no_input=True)
    v.coverage.update({"evaluations": len(cs), "distinct_nontrivial": len(nontriv),
                       "rule": "every supported signature of the regenerated table x boundary values (doubles incl. 1e300, "
                               "-1e-300, 0.1, 2^53; ints incl. INT_MIN/INT_MAX) x every argument position (per-position echo "
                               "functions), qualified and unqualified calls, 64-bit long results; unsupported signatures "
                               "(3 ints, 3 doubles, long/double mixes, float, long()) must give a diagnostic, exit 1 and must "
                               "not enter the native function (marker files); wrong argument counts",
                       "samples": samples, "exhaustive": True})
    v.assumptions += ["x86-64 SysV calling convention; dlopen/dlsym", "double equality is evaluated by the interpreter itself"]
    return v.finish()
