import CbGen.RangeTable
import CbGen.Ladder
