/-
  C16 — print/println/format strings and string interpolation render values exactly.
  Theorems about the rendering model CbModel/Render.lean (used by the reference semantics).
-/
import CbProofs.Render
namespace CbProps.C16
open CbModel.Render

/-- the decimal form determines the value: reading back what was printed gives the number, for
    every integer -/
theorem parseDec_renderDec (n : Int) : parseDec (renderDec n) = n := by
  unfold renderDec
  split
  · rename_i h
    simp only [parseDec, parseNat_renderNat]
    omega
  · rename_i h
    have hne := renderNat_ne_nil n.natAbs
    cases hr : renderNat n.natAbs with
    | nil => exact absurd hr hne
    | cons c r =>
      have hc := renderNat_head_ne_minus n.natAbs c r hr
      have : parseDec (c :: r) = (parseNat (c :: r) : Int) := by
        unfold parseDec
        split
        · rename_i heq; simp only [List.cons.injEq] at heq; exact absurd heq.1 hc
        · rfl
      rw [this, ← hr, parseNat_renderNat]
      omega

/-- different numbers never print alike -/
theorem renderDec_injective (a b : Int) (h : renderDec a = renderDec b) : a = b := by
  rw [← parseDec_renderDec a, ← parseDec_renderDec b, h]

/-- hexadecimal rendering is the 64-bit two's-complement pattern, exactly -/
theorem parseHex_renderHex (u : Bool) (n : Int) : parseHex (renderHex u n) = toU64 n := by
  unfold renderHex
  rw [parseHex_map u _ (natDigits_lt 16 (by decide) _), ofDigits_natDigits]

theorem toU64_lt (n : Int) : toU64 n < 18446744073709551616 := by
  unfold toU64
  have := Int.emod_lt_of_pos n (show (0 : Int) < 18446744073709551616 by decide)
  have h0 := Int.emod_nonneg n (show (18446744073709551616 : Int) ≠ 0 by decide)
  omega

/-- padding never truncates, produces exactly the requested width when the text is shorter, and
    keeps the text as a suffix -/
theorem padLeft_length (w : Nat) (c : Char) (s : List Char) :
    (padLeft w c s).length = max w s.length := by
  simp [padLeft]; omega

theorem padLeft_suffix (w : Nat) (c : Char) (s : List Char) : s <:+ padLeft w c s :=
  ⟨_, rfl⟩

/-- left-aligned fields (`%-Nd`, `:<N`): same width law, the text is kept as a PREFIX and only the pad character follows -/
theorem padRight_length (w : Nat) (c : Char) (s : List Char) :
    (padRight w c s).length = max w s.length := by
  simp [padRight]; omega

theorem padRight_prefix (w : Nat) (c : Char) (s : List Char) :
    s <+: padRight w c s ∧ ∀ x ∈ (padRight w c s).drop s.length, x = c := by
  refine ⟨⟨_, rfl⟩, ?_⟩
  intro x hx
  simp [padRight] at hx
  exact hx.2

/-- `%0Nd` / `:0Nd` on a negative number: the sign comes first, then zeros, then the digits -/
theorem zero_pad_sign_first (w : Nat) (n : Int) (h : n < 0) :
    zeroPadDec w n = '-' :: (List.replicate (w - 1 - (renderNat n.natAbs).length) '0' ++ renderNat n.natAbs) := by
  simp [zeroPadDec, h, padLeft]

theorem zero_pad_length (w : Nat) (n : Int) : (zeroPadDec w n).length = max w (renderDec n).length := by
  unfold zeroPadDec renderDec
  split <;> simp [padLeft] <;> omega

theorem unesc_cons_other (c : Char) (t : List Char) (h1 : c ≠ '{') (h2 : c ≠ '}') :
    unescBraces (c :: t) = c :: unescBraces t := by
  conv => lhs; unfold unescBraces
  split <;> simp_all

theorem esc_cons_other (c : Char) (t : List Char) (h1 : c ≠ '{') (h2 : c ≠ '}') :
    escBraces (c :: t) = c :: escBraces t := by
  conv => lhs; unfold escBraces
  split <;> simp_all

/-- `{{` / `}}` in interpolated text denote single braces: escaping then unescaping is the identity -/
theorem unescape_escape_braces (s : List Char) : unescBraces (escBraces s) = s := by
  induction s with
  | nil => rfl
  | cons c r ih =>
    by_cases h1 : c = '{'
    · subst h1; simp [escBraces, unescBraces, ih]
    · by_cases h2 : c = '}'
      · subst h2; simp [escBraces, unescBraces, ih]
      · rw [esc_cons_other c r h1 h2, unesc_cons_other c _ h1 h2, ih]

theorem printfGo_cons_other (fuel : Nat) (c : Char) (r : List Char) (args : List PArg) (hc : c ≠ '%') :
    printfGo (fuel + 1) (c :: r) args = ((c :: (printfGo fuel r args).1), (printfGo fuel r args).2) := by
  conv => lhs; unfold printfGo
  split <;> simp_all

/-- text without a percent sign is printed verbatim by the printf machinery (any bytes, UTF-8 included) -/
theorem printf_text_verbatim (s : List Char) (h : '%' ∉ s) : printf s [] = s := by
  unfold printf
  have key : ∀ fuel (t : List Char), t.length < fuel → '%' ∉ t → printfGo fuel t [] = (t, []) := by
    intro fuel
    induction fuel with
    | zero => intro t ht; omega
    | succ fuel ih =>
      intro t ht hp
      cases t with
      | nil => simp [printfGo]
      | cons c r =>
        have hc : c ≠ '%' := fun e => hp (e ▸ List.mem_cons_self)
        have hr : '%' ∉ r := fun e => hp (List.mem_cons_of_mem _ e)
        rw [printfGo_cons_other fuel c r [] hc, ih r (by simp at ht; omega) hr]
  rw [key _ s (Nat.lt_succ_self _) h]
  rfl

/-! non-vacuity -/
example : renderDec (-42) = ['-', '4', '2'] := by
  simp [renderDec, renderNat, natDigits, digitChar]
example : zeroPadDec 5 (-42) = ['-', '0', '0', '4', '2'] := by
  simp [zeroPadDec, padLeft, renderNat, natDigits, digitChar]

end CbProps.C16
