// line protocol shared with the Lean driver: one case per line, TAB-separated, escaped fields
#pragma once
#include <iostream>
#include <string>
#include <vector>
namespace proto {
inline std::string unescape(const std::string &s) {
    std::string o;
    for (size_t i = 0; i < s.size(); i++) {
        if (s[i] == '\\' && i + 1 < s.size()) {
            char c = s[i + 1];
            if (c == 'n') { o += '\n'; i++; continue; }
            if (c == 't') { o += '\t'; i++; continue; }
            if (c == 'r') { o += '\r'; i++; continue; }
            if (c == '\\') { o += '\\'; i++; continue; }
        }
        o += s[i];
    }
    return o;
}
inline std::string escape(const std::string &s) {
    std::string o;
    for (char c : s) {
        if (c == '\n') o += "\\n";
        else if (c == '\t') o += "\\t";
        else if (c == '\r') o += "\\r";
        else if (c == '\\') o += "\\\\";
        else o += c;
    }
    return o;
}
inline std::vector<std::string> fields(const std::string &line) {
    std::vector<std::string> f;
    std::string cur;
    for (char c : line) {
        if (c == '\t') { f.push_back(unescape(cur)); cur.clear(); }
        else cur += c;
    }
    f.push_back(unescape(cur));
    return f;
}
inline std::string join(const std::vector<std::string> &f) {
    std::string o;
    for (size_t i = 0; i < f.size(); i++) { if (i) o += '\t'; o += escape(f[i]); }
    return o;
}
} // namespace proto
