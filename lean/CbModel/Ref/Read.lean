/- S-expression → CbRef syntax (the generators emit S-expressions) -/
import CbModel.Sexp
import CbModel.Ref.Syntax
namespace CbModel.Ref
open CbModel (Sexp)

def readTy (s : String) : Option Ty :=
  match s with
  | "tiny" => some ⟨.tiny, false⟩ | "utiny" => some ⟨.tiny, true⟩
  | "short" => some ⟨.short, false⟩ | "ushort" => some ⟨.short, true⟩
  | "int" => some ⟨.int, false⟩ | "uint" => some ⟨.int, true⟩
  | "long" => some ⟨.long, false⟩ | "ulong" => some ⟨.long, true⟩
  | "char" => some ⟨.char, false⟩ | "uchar" => some ⟨.char, true⟩
  | "bool" => some ⟨.bool, false⟩
  | _ => none

def readBinOp (s : String) : Option BinOp :=
  match s with
  | "add" => some .add | "sub" => some .sub | "mul" => some .mul | "div" => some .div
  | "mod" => some .mod | "shl" => some .shl | "shr" => some .shr | "band" => some .band
  | "bor" => some .bor | "bxor" => some .bxor | "lt" => some .lt | "le" => some .le
  | "gt" => some .gt | "ge" => some .ge | "eq" => some .eq | "ne" => some .ne
  | "land" => some .land | "lor" => some .lor
  | _ => none

def readUnOp (s : String) : Option UnOp :=
  match s with
  | "neg" => some .neg | "not" => some .not | "bnot" => some .bnot
  | _ => none

mutual
partial def readExpr (s : Sexp) : Option Expr :=
  match s with
  | .list [.atom "lit", .atom n] => n.toInt?.map Expr.lit
  | .list [.atom "var", .atom x] => some (.var x)
  | .list (.atom "idx" :: .atom x :: is) => (readExprs is).map (Expr.idx x)
  | .list [.atom "fld", .atom x, .atom f] => some (.fld x f)
  | .list (.atom "fldidx" :: .atom x :: .atom f :: is) => (readExprs is).map (Expr.fldIdx x f)
  | .list [.atom "bin", .atom op, a, b] => do
      let o ← readBinOp op; let a ← readExpr a; let b ← readExpr b; pure (.bin o a b)
  | .list [.atom "un", .atom op, a] => do
      let o ← readUnOp op; let a ← readExpr a; pure (.un o a)
  | .list [.atom "tern", c, a, b] => do
      let c ← readExpr c; let a ← readExpr a; let b ← readExpr b; pure (.tern c a b)
  | .list (.atom "call" :: .atom f :: args) => (readExprs args).map (Expr.call f)
  | .list [.atom "incdec", .atom pre, .atom inc, lv] => do
      let lv ← readExpr lv; pure (.incdec (pre == "pre") (inc == "inc") lv)
  | .list [.atom "paren", e] => (readExpr e).map Expr.paren
  | _ => none
partial def readExprs (l : List Sexp) : Option (List Expr) := l.mapM readExpr
end

def readSpec (s : String) : Option CbModel.Render.ISpec :=
  match s.toList with
  | ['x'] => some (.hex false)
  | ['X'] => some (.hex true)
  | ['b'] => some .bin
  | 'z' :: w => (String.ofList w).toNat?.map (fun n => .dec true n)
  | 'd' :: w => (String.ofList w).toNat?.map (fun n => .dec false n)
  | _ => none

def readItem (s : Sexp) : Option PItem :=
  match s with
  | .list [.atom "s", .str t] => some (.str t)
  | .list [.atom "e", e] => (readExpr e).map PItem.expr
  | .list [.atom "ef", .atom sp, e] => do
      let sp ← readSpec sp; let e ← readExpr e; pure (.exprF e sp)
  | _ => none

def readNats (l : List Sexp) : Option (List Nat) :=
  l.mapM fun s => match s with | .atom n => n.toNat? | _ => none

mutual
partial def readStmt (s : Sexp) : Option Stmt :=
  match s with
  | .list (.atom "decl" :: .atom fl :: .atom ty :: .atom x :: rest) => do
      let t ← readTy ty
      let init ← (match rest with
        | [] => some none
        | [e] => (readExpr e).map some
        | _ => none)
      pure (.decl (fl.contains 'c') (fl.contains 's') t x init)
  | .list (.atom "declarr" :: .atom fl :: .atom ty :: .atom x :: .list (.atom "dims" :: ds) :: rest) => do
      let t ← readTy ty
      let dims ← readNats ds
      let init ← (match rest with
        | [] => some none
        | [.list (.atom "init" :: es)] => (readExprs es).map some
        | _ => none)
      pure (.declArr (fl.contains 'c') t x dims init)
  | .list [.atom "declstruct", .atom sn, .atom x] => some (.declStruct sn x)
  | .list (.atom "declstructinit" :: .atom fl :: .atom sn :: .atom x :: es) =>
      (readExprs es).map (Stmt.declStructInit (fl.contains 'c') sn x)
  | .list [.atom "assign", lv, e] => do
      let lv ← readExpr lv; let e ← readExpr e; pure (.assign lv e)
  | .list [.atom "compound", .atom op, lv, e] => do
      let o ← readBinOp op; let lv ← readExpr lv; let e ← readExpr e; pure (.compound o lv e)
  | .list [.atom "expr", e] => (readExpr e).map Stmt.expr
  | .list (.atom "print" :: items) => (items.mapM readItem).map Stmt.print
  | .list (.atom "printi" :: items) => (items.mapM readItem).map Stmt.printI
  | .list (.atom "printf" :: .str fmt :: items) => (items.mapM readItem).map (Stmt.printF fmt)
  | .list (.atom "printraw" :: items) => (items.mapM readItem).map Stmt.printRaw
  | .list [.atom "if", c, .list t] => do
      let c ← readExpr c; let t ← readStmts t; pure (.ifS c t none)
  | .list [.atom "if", c, .list t, .list e] => do
      let c ← readExpr c; let t ← readStmts t; let e ← readStmts e; pure (.ifS c t (some e))
  | .list [.atom "while", c, .list b] => do
      let c ← readExpr c; let b ← readStmts b; pure (.whileS c b)
  | .list [.atom "for", i, c, u, .list b] => do
      let i ← (match i with | .atom "-" => some none | s => (readStmt s).map some)
      let c ← readExpr c
      let u ← (match u with | .atom "-" => some none | s => (readStmt s).map some)
      let b ← readStmts b
      pure (.forS i c u b)
  | .list [.atom "break"] => some .brk
  | .list [.atom "continue"] => some .cont
  | .list [.atom "ret"] => some (.ret none)
  | .list [.atom "ret", e] => (readExpr e).map (fun e => Stmt.ret (some e))
  | .list (.atom "block" :: ss) => (readStmts ss).map Stmt.block
  | _ => none
partial def readStmts (l : List Sexp) : Option (List Stmt) := l.mapM readStmt
end

def readParam (s : Sexp) : Option Param :=
  match s with
  | .list [.atom ty, .atom x] => (readTy ty).map fun t => ⟨t, x, none, false⟩
  | .list [.atom ty, .atom x, .atom d] => do
      let t ← readTy ty; let d ← d.toInt?; pure ⟨t, x, some d, false⟩
  | .list [.atom ty, .atom x, .atom d, .atom "c"] => do
      let t ← readTy ty
      if d == "-" then pure ⟨t, x, none, true⟩ else do
        let d ← d.toInt?; pure ⟨t, x, some d, true⟩
  | _ => none

def readFunc (s : Sexp) : Option Func :=
  match s with
  | .list [.atom "func", .atom name, .atom ret, .list (.atom "params" :: ps), .list body] => do
      let r ← (if ret == "void" then some none else (readTy ret).map some)
      let ps ← ps.mapM readParam
      let b ← readStmts body
      pure ⟨name, r, ps, b⟩
  | _ => none

def readField (s : Sexp) : Option FieldDef :=
  match s with
  | .list (.atom "field" :: .atom ty :: .atom x :: ds) => do
      let t ← readTy ty; let d ← readNats ds; pure ⟨t, x, d⟩
  | _ => none

def readStruct (s : Sexp) : Option StructDef :=
  match s with
  | .list (.atom "struct" :: .atom name :: fs) => (fs.mapM readField).map fun f => ⟨name, f⟩
  | _ => none

def readProg (s : Sexp) : Option Prog :=
  match s with
  | .list [.atom "prog", .list (.atom "structs" :: ss), .list (.atom "globals" :: gs),
           .list (.atom "funcs" :: fs)] => do
      let ss ← ss.mapM readStruct
      let gs ← readStmts gs
      let fs ← fs.mapM readFunc
      pure ⟨ss, gs, fs⟩
  | _ => none

end CbModel.Ref
