/-
  C18 — imports expose exactly the exports, once, independent of repetition and order.
  Property theorems over the mechanism model (CbModel/Imports.lean).  Statements are fixed; proofs only.
-/
import CbModel.Imports
import CbProofs.Imports
namespace CbProps.C18
open CbModel.Imports

/-- **Exactly the exports.**  After importing a module that was not loaded, a name resolves to the body the
    module exports under it if it exports one, and otherwise to whatever it resolved to before — an item the
    module does not export is never registered -/
theorem import_exact (mods : List Module) (s s' : St) (p : String) (m : Module)
    (hn : p ∉ s.loaded) (hm : findModule mods p = some m) (h : importM mods s p = some s') (n : String) :
    lookup s'.table n = match exportedBody m n with
      | some b => some b
      | none => lookup s.table n := by
  exact CbProofs.Imports.import_exact mods s s' p m hn hm h n

/-- a hidden (non-exported) item of an imported module cannot be named: if nothing else provides the name, it
    stays unresolved -/
theorem hidden_not_visible (mods : List Module) (s s' : St) (p : String) (m : Module) (n : String)
    (hn : p ∉ s.loaded) (hm : findModule mods p = some m) (h : importM mods s p = some s')
    (hidden : ∀ it ∈ m.items, it.name = n → it.exported = false) (hbefore : lookup s.table n = none) :
    lookup s'.table n = none := by
  rw [CbProofs.Imports.import_exact mods s s' p m hn hm h n]
  have : exportedBody m n = none := by
    apply CbProofs.Imports.lookup_foldl_none
    intro it hit hname
    simp only [exportsOf, List.mem_filter] at hit
    have := hidden it hit.1 hname
    rw [this] at hit
    exact absurd hit.2 (by decide)
  rw [this]
  exact hbefore

/-- **Once.**  Importing a module a second time changes nothing -/
theorem import_idempotent (mods : List Module) (s s' : St) (p : String) (h : importM mods s p = some s') :
    importM mods s' p = some s' := by
  by_cases hp : p ∈ s.loaded
  · simp only [importM, if_pos hp] at h
    cases h
    simp only [importM, if_pos hp]
  · have hl := (CbProofs.Imports.importM_loaded mods s s' p h p).2 (Or.inr rfl)
    simp only [importM, if_pos hl]

/-- **Characterisation.**  After any sequence of imports (with repetitions, in any order) from the initial state,
    over modules with unique paths whose export sets are disjoint: a name resolves to body b exactly when one of
    the imported modules exports it as b -/
theorem lookup_after_imports (mods : List Module) (ps : List String) (s : St)
    (hu : UniquePaths mods) (hd : DisjointExports mods) (h : importAll mods init ps = some s) (n : String) (b : Nat) :
    lookup s.table n = some b ↔ ∃ m ∈ mods, m.path ∈ ps ∧ exportedBody m n = some b := by
  exact CbProofs.Imports.lookup_after_imports mods ps s hu hd h n b

/-- **Independent of repetition and order.**  Two import lists that mention the same set of modules give the
    same meaning to every name -/
theorem imports_order_and_repetition_irrelevant (mods : List Module) (ps qs : List String) (s t : St)
    (hu : UniquePaths mods) (hd : DisjointExports mods)
    (hs : importAll mods init ps = some s) (ht : importAll mods init qs = some t)
    (hsame : ∀ p, p ∈ ps ↔ p ∈ qs) (n : String) :
    lookup s.table n = lookup t.table n := by
  have h1 := fun b => CbProofs.Imports.lookup_after_imports mods ps s hu hd hs n b
  have h2 := fun b => CbProofs.Imports.lookup_after_imports mods qs t hu hd ht n b
  apply Option.ext
  intro b
  rw [h1 b, h2 b]
  constructor
  · rintro ⟨m, a, b, c⟩; exact ⟨m, a, (hsame _).1 b, c⟩
  · rintro ⟨m, a, b, c⟩; exact ⟨m, a, (hsame _).2 b, c⟩

theorem lookup_foldl_register_isSome (items : List Item) (t : Table) (n : String)
    (h : (lookup t n).isSome) : (lookup (items.foldl register t) n).isSome := by
  induction items generalizing t with
  | nil => simpa using h
  | cons it r ih =>
    apply ih
    simp only [register, lookup]
    split <;> simp_all

/-- **Imports only add.**  A name that resolves before an `import` still resolves after it (possibly to a newer
    registration), and every module loaded before stays loaded — an import never hides or unloads anything -/
theorem import_never_hides (mods : List Module) (s s' : St) (p : String) (n : String)
    (h : importM mods s p = some s') (hn : (lookup s.table n).isSome) :
    (lookup s'.table n).isSome ∧ (∀ q ∈ s.loaded, q ∈ s'.loaded) ∧ p ∈ s'.loaded := by
  unfold importM at h
  split at h
  · cases h; exact ⟨hn, fun _ hq => hq, by assumption⟩
  · split at h
    · cases h
    · cases h
      exact ⟨lookup_foldl_register_isSome _ _ _ hn, fun q hq => List.mem_cons_of_mem _ hq, List.mem_cons_self⟩

/-- non-vacuity: two modules, one hidden item, disjoint exports -/
example :
    let m1 : Module := ⟨"a.b.m1", [⟨"f", true, 1⟩, ⟨"h", false, 2⟩]⟩
    let m2 : Module := ⟨"m2", [⟨"g", true, 3⟩]⟩
    (importAll [m1, m2] init ["m2", "a.b.m1", "m2"]).map (fun s => (lookup s.table "f", lookup s.table "h", lookup s.table "g"))
      = some (some 1, none, some 3) := by
  decide

end CbProps.C18
