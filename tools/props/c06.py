"""C06 — destructors and defers run exactly once, LIFO, on every scope-exit path.

Theorems: lean/CbProps/C06.lean — the mechanism model of the two cleanup stacks (pushes/pops placed where the
interpreter performs them) produces, for every skeleton program, exactly the trace of the structured
specification and leaves both stacks balanced; in the specification every object is destroyed exactly once.
Tie: skeleton programs -> Cb programs whose constructors, destructors, defers and ordinary statements print
tags; the interpreter's stdout must equal the model's trace.  Exhaustive small skeletons + random deeper ones.
Compound objects (value members with destructors): lean/CbProps/C06Compound.lean — the expected trace `expand` equals the
visible trace of the skeleton with every compound object written as members-first-then-object.
"""
import itertools, json, os
import common
from common import Rng, esc

PID = "C06"
THEOREMS = {"CbProps.C06": ["CbProps.C06." + t for t in [
    "exec_refines", "run_refines_spec", "spec_destroyed_once", "callee_leaves_caller_frames"]],
    "CbProps.C06Compound": ["CbProps.C06Compound." + t for t in ["compound_is_members_then_object", "members_destroyed_once"]]}

HDR = """struct R { int id; };
impl R {
    self(int i) { self.id = i; println("c%d", i); }
    ~self() { println("d%d", self.id); }
}
"""

# objects whose value members have destructors: W has a destructor of its own, P has none.  Constructing one is
# constructing its members and then the object, so at scope exit the object goes first, then b, then a.
HDR2 = """struct W { R a; R b; int tag; };
impl W {
    self(int t) { self.tag = t; self.a.id = t * 100 + 1; self.b.id = t * 100 + 2; println("c%d", t); }
    ~self() { println("d%d", self.tag); }
}
struct P { R a; R b; int tag; };
impl P {
    self(int t) { self.tag = t; self.a.id = t * 100 + 1; self.b.id = t * 100 + 2; println("c%d", t); }
}
"""


def oform(n, mode):
    """0: flat object, 1: W (own destructor + members), 2: P (members only)"""
    return n % 3 if mode == 1 else 0


def expand(spec, mode):
    """the specification trace of a skeleton whose objects are rendered in compound forms"""
    if mode == 0:
        return spec
    out = []
    for e in spec:
        if e[0] == "d":
            n = int(e[1:])
            f = oform(n, mode)
            if f != 2:
                out.append(e)
            if f != 0:
                out += ["d%d" % (n * 100 + 2), "d%d" % (n * 100 + 1)]
        else:
            out.append(e)
    return out


def compound_in_loop(funcs, mode):
    """does a compound object stand lexically inside a loop body? (cell of an interim finding)"""
    def go(sk, inl):
        k = sk[0]
        if k == "obj":
            return inl and oform(sk[1], mode) != 0
        if k == "block":
            return any(go(x, inl) for x in sk[1])
        if k == "if":
            return any(go(x, inl) for x in sk[2])
        if k == "loop":
            return any(go(x, True) for x in sk[2])
        return False
    return any(go(s, False) for f in funcs for s in f)


def sx(sk):
    k = sk[0]
    if k in ("obj", "defer", "mark", "call"):
        return "(%s %d)" % (k, sk[1])
    if k == "block":
        return "(block %s)" % " ".join(sx(x) for x in sk[1])
    if k == "if":
        return "(if %d %s)" % (sk[1], " ".join(sx(x) for x in sk[2]))
    if k == "loop":
        return "(loop %d %s)" % (sk[1], " ".join(sx(x) for x in sk[2]))
    return "(%s)" % k


def render_stmt(sk, ind, ctr, is_main, mode=0):
    p = "    " * ind
    k = sk[0]
    if k == "obj":
        ctr[0] += 1
        return p + "%s o%d(%d);\n" % ("RWP"[oform(sk[1], mode)], ctr[0], sk[1])
    if k == "defer":
        return p + "defer println(\"f%d\");\n" % sk[1]
    if k == "mark":
        return p + "println(\"m%d\");\n" % sk[1]
    if k == "call":
        if mode == 2:
            # the callee returns a string and is called through a function pointer (another copy of the call code)
            ctr[0] += 1
            return p + "string* cb%d = &fn%d;\n" % (ctr[0], sk[1]) + p + "string s%d = cb%d();\n" % (ctr[0], ctr[0])
        return p + "fn%d();\n" % sk[1]
    if k == "block":
        return p + "{\n" + "".join(render_stmt(x, ind + 1, ctr, is_main, mode) for x in sk[1]) + p + "}\n"
    if k == "if":
        return p + "if (%d) {\n" % sk[1] + "".join(render_stmt(x, ind + 1, ctr, is_main, mode) for x in sk[2]) + p + "}\n"
    if k == "loop":
        ctr[0] += 1
        v = "i%d" % ctr[0]
        body = "".join(render_stmt(x, ind + 1, ctr, is_main, mode) for x in sk[2])
        form = (ctr[0] * 5 + sk[1]) % 3
        if form == 0:
            return p + "for (int %s = 0; %s < %d; %s++) {\n" % (v, v, sk[1], v) + body + p + "}\n"
        if form == 1:
            # the counter is declared before the loop: the init clause declares nothing
            return p + "int %s = 0;\n" % v + p + "for (%s = 0; %s < %d; %s++) {\n" % (v, v, sk[1], v) + body + p + "}\n"
        # while loop; the counter is advanced at the top of the body so that `continue` still makes progress
        return (p + "int %s = 0;\n" % v + p + "while (%s < %d) {\n" % (v, sk[1]) + p + "    %s = %s + 1;\n" % (v, v) +
                body + p + "}\n")
    if k == "ret":
        return p + ("return 0;\n" if is_main else ("return \"r\";\n" if mode == 2 else "return;\n"))
    if k == "brk":
        return p + "break;\n"
    if k == "cont":
        return p + "continue;\n"
    raise ValueError(k)


def render(funcs, mode=0):
    ctr = [0]
    out = [HDR + (HDR2 if mode == 1 else "")]
    for i in range(len(funcs) - 1, 0, -1):
        if mode == 2:
            out.append("string fn%d() {\n%s    return \"e\";\n}\n" % (i, "".join(render_stmt(s, 1, ctr, False, mode) for s in funcs[i])))
        else:
            out.append("void fn%d() {\n%s}\n" % (i, "".join(render_stmt(s, 1, ctr, False, mode) for s in funcs[i])))
    out.append("int main() {\n%s    return 0;\n}\n" % "".join(render_stmt(s, 1, ctr, True, mode) for s in funcs[0]))
    return "".join(out)


def model_line(funcs):
    return esc("(funcs %s)" % " ".join("(f %s)" % " ".join(sx(s) for s in f) for f in funcs))


# ---------------------------------------------------------------- generators

def small_bodies(depth, in_loop, ids):
    """all statement lists of length <= 2 over the skeleton alphabet, to a nesting depth"""
    atoms = [("obj", 1), ("defer", 2), ("mark", 3), ("ret",)]
    if in_loop:
        atoms += [("brk",), ("cont",)]
    items = list(atoms)
    if depth > 0:
        for b in small_lists(depth - 1, in_loop, 2):
            items.append(("block", b))
        for b in small_lists(depth - 1, True, 1):
            items.append(("loop", 2, b))
    return items


def small_lists(depth, in_loop, maxlen):
    its = small_bodies(depth, in_loop, None)
    out = [[]]
    for n in range(1, maxlen + 1):
        for combo in itertools.product(its, repeat=n):
            out.append(list(combo))
    return out


def renumber(funcs):
    """give every obj/defer/mark a distinct id so that events identify their site"""
    n = [0]

    def go(sk):
        k = sk[0]
        if k in ("obj", "defer", "mark"):
            n[0] += 1
            return (k, n[0])
        if k == "block":
            return ("block", [go(x) for x in sk[1]])
        if k == "if":
            return ("if", sk[1], [go(x) for x in sk[2]])
        if k == "loop":
            return ("loop", sk[1], [go(x) for x in sk[2]])
        return sk
    return [[go(s) for s in f] for f in funcs]


def exhaustive(quick):
    """callee bodies of <= 2 statements at depth 1 inside a caller that owns an object and a defer and calls
    the callee from inside a loop body and from its top level"""
    bodies = small_lists(1, False, 2)
    if quick:
        bodies = bodies[::3] + [b for b in bodies if any(s[0] == "ret" for s in b)][::2]
    for b in bodies:
        main = [("obj", 0), ("defer", 0), ("call", 1), ("mark", 0), ("loop", 2, [("obj", 0), ("call", 1), ("mark", 0)]),
                ("block", [("defer", 0), ("call", 1)]), ("mark", 0)]
        yield renumber([main, b])


def rand_list(r, depth, in_loop, nfuncs, budget):
    out = []
    for _ in range(r.range(1, 4)):
        if budget[0] <= 0:
            break
        budget[0] -= 1
        k = r.below(100)
        if k < 22:
            out.append(("obj", 0))
        elif k < 38:
            out.append(("defer", 0))
        elif k < 52:
            out.append(("mark", 0))
        elif k < 64 and depth > 0:
            out.append(("block", rand_list(r, depth - 1, in_loop, nfuncs, budget)))
        elif k < 72 and depth > 0:
            out.append(("if", r.below(2), rand_list(r, depth - 1, in_loop, nfuncs, budget)))
        elif k < 82 and depth > 0:
            out.append(("loop", r.range(0, 3), rand_list(r, depth - 1, True, nfuncs, budget)))
        elif k < 90 and nfuncs > 0:
            out.append(("call", r.range(1, nfuncs)))
        elif k < 94:
            out.append(("ret",))
            break
        elif in_loop:
            out.append((r.choice(["brk", "cont"]),))
            break
        else:
            out.append(("mark", 0))
    return out


def random_programs(seed, n):
    r = Rng(seed, 61)
    for _ in range(n):
        nf = r.range(1, 3)
        funcs = []
        for i in range(nf + 1):
            # function i may call only functions with a larger number (no recursion)
            funcs.append(rand_list(r, r.range(1, 4), False, 0 if i == nf else nf, [r.range(3, 14)]))
        # calls must go "downwards"
        def fix(sk, i):
            if sk[0] == "call":
                return ("call", max(sk[1], i + 1)) if i < nf else ("mark", 0)
            if sk[0] == "block":
                return ("block", [fix(x, i) for x in sk[1]])
            if sk[0] == "if":
                return ("if", sk[1], [fix(x, i) for x in sk[2]])
            if sk[0] == "loop":
                return ("loop", sk[1], [fix(x, i) for x in sk[2]])
            return sk
        funcs = [[fix(s, i) for s in f] for i, f in enumerate(funcs)]
        yield renumber(funcs)


def main(a):
    v = common.Verdict(PID, a.tier, a.seed)
    has_proofs = os.path.exists(os.path.join(common.LEAN, "CbProps", "C06.lean"))
    driver_ok, failed = common.lean_obligations(v, ["CbProofs"] + (["CbProps.C06", "CbProps.C06Compound"] if has_proofs else []),
                                                THEOREMS if has_proofs else {})
    exe, blog = common.build_impl()
    if exe is None or not driver_ok:
        v.violation("cannot build the interpreter / driver: " + (blog or "")[-600:], {"log": (blog or "")[-2000:]}, no_input=True)
        return v.finish()
    drv = common.driver_path()
    quick = a.tier == "quick"
    if a.replay:
        rp = json.load(open(a.replay))
        progs, modes = [rp["funcs"]], [rp.get("mode", 0)]
    else:
        base = list(exhaustive(quick)) + list(random_programs(a.seed, 400 if quick else 30000))
        # every skeleton once with flat objects and once with objects whose value members have destructors
        # ... and (programs with calls) once with string-returning callees called through function pointers
        withcalls = [f for f in base if any("call" in sx(s_) for fn_ in f for s_ in fn_)]
        progs, modes = base + base + withcalls, [0] * len(base) + [1] * len(base) + [2] * len(withcalls)
    listed = {f["id"]: f for f in json.load(open(os.path.join(common.ROOT, "known_findings.json"))).get("findings", [])
              if f["property"] == PID}
    known_cells = {}
    _, mo, _ = common.run_lines_parallel([drv, "c06"], [model_line(f) for f in progs])
    srcs = [render(f, md) for f, md in zip(progs, modes)]
    outs = common.run_programs(exe, srcs, timeout=10)
    rep = 0
    nontrivial = set()
    samples = []
    strict = 0
    for k, (f, m, o) in enumerate(zip(progs, mo, outs)):
        fld = m.split("\t")
        if len(fld) != 8 or fld[0] == "oof":
            continue
        mech, spec = fld[1].split(), fld[3].split()
        if mech != spec or fld[4] != "0" or fld[5] != "0":
            strict += 1      # the model itself deviates from its specification (a proof obligation would fail)
        if modes[k] == 1:
            # the expected trace of the compound rendering is computed by the Lean model (CbModel.Cleanup.expand, the function
            # of theorem compound_is_members_then_object); the Python copy only cross-checks the driver
            if fld[7] != "1" or expand(spec, 1) != fld[6].split():
                strict += 1
            spec = fld[6].split()
        got = o[0].split()
        if any(e[0] in "df" for e in spec):
            nontrivial.add((modes[k], fld[3]))
        if k % 53 == 0 and len(samples) < 6:
            samples.append({"skeleton": model_line(f)[:300], "mode": modes[k], "trace": " ".join(spec)[:200]})
        if got != spec or o[1] != "ok":
            fid = "member_destructors_skipped_on_redeclaration"
            if fid in listed and modes[k] == 1 and compound_in_loop(f, 1) and o[1] == "ok":
                known_cells[fid] = known_cells.get(fid, 0) + 1
                continue
            if rep >= 3:
                continue
            rep += 1
            v.violation("cleanup trace differs from the specification: expected %s got %s (%s)" % (
                " ".join(spec)[-160:], " ".join(got)[-160:], o[1]),
                {"funcs": f, "mode": modes[k], "program": srcs[k], "expected": spec, "got": got, "mechanism_model": mech,
                 "impl_exit_class": o[1], "impl_stderr": o[2]})
    for fid, n in known_cells.items():
        v.known_finding(listed[fid]["what"] + " [%d generated programs]" % n)
    if not a.replay:
        v.replay_witnesses(exe, list(listed.values()), already=set(known_cells))
    if strict:
        v.violation("the mechanism model deviates from its own specification on %d generated skeletons" % strict,
                    {"theorem": "CbProps.C06.run_refines_spec"}, no_input=True)
    v.coverage.update({
        "evaluations": len(progs), "distinct_nontrivial": len(nontrivial),
        "rule": "skeleton programs (objects with destructors, defers, blocks, if, for with break/continue, calls, return "
                "at any depth) rendered to Cb; stdout tags vs the specification trace (and the mechanism model's trace). "
                "exhaustive: every callee body of <= 2 statements to nesting depth 1 (blocks, loops, return/break/continue) "
                "called from 3 sites of a caller that owns cleanup; random: depth <= 4, <= 3 functions. non-trivial = "
                "distinct expected trace containing a destructor or defer event",
        "samples": samples, "exhaustive": not quick,
        "object_forms": "every skeleton is rendered twice: with flat objects R, and with objects chosen by id among R, "
                        "W (own destructor and two value members with destructors) and P (no own destructor, two such "
                        "members); a compound object counts as its members constructed first, then the object",
        "known_finding_programs": known_cells})
    v.assumptions += ["recursion and cleanup inside async tasks are not generated",
                      "the return expression is not part of the skeleton (its evaluation relative to cleanup is not checked)"]
    return v.finish()
