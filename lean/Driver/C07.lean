import CbModel.Heap
import CbModel.Sexp
import Driver.Proto
namespace Driver
open CbModel.Heap CbModel

partial def sexpToVal : Sexp → Option (Val Int)
  | .atom a => a.toInt?.map Val.leaf
  | .str _ => none
  | .list l => (l.mapM sexpToVal).map Val.node

def parsePath (s : String) : Option Path :=
  ((s.splitOn ".").filter (· ≠ "")).mapM String.toNat?

def parseAcc (s : String) : Option Acc :=
  match s.splitOn ":" with
  | ["d", p] => (parsePath p).map Acc.direct
  | ["p", k, p] => do let k ← k.toNat?; let p ← parsePath p; pure (Acc.via k p)
  | _ => none

def showInts (l : List Int) : String := " ".intercalate (l.map toString)

/-- fields: root value "(1 (2 3) (6 7))", pointer targets "0;3.1", operations "w d:0.0 5;c d:1 d:0;r p:0:0;n;s 0 d:1".
    output: one item per operation separated by ';' — the flattened object graph after a w/c/s/n operation, the
    flattened value read for an r operation ("none" when the access does not resolve) -/
def c07Line (fs : List (List Char)) : String :=
  match fs.map String.ofList with
  | [root, ptrs, ops] =>
    let r0 := (Sexp.parse root).bind sexpToVal
    let ps : Option (List Path) := ((ptrs.splitOn ";").filter (· ≠ "")).mapM parsePath
    match r0, ps with
    | some r0, some ps =>
      let rec go (os : List String) (s : St Int) (acc : List String) : List String :=
        match os with
        | [] => acc.reverse
        | o :: rest =>
          match (o.splitOn " ").filter (· ≠ "") with
          | ["w", a, n] =>
            match parseAcc a, n.toInt? with
            | some a, some n => let s' := step s (.write a n); go rest s' (showInts (flatten s'.root) :: acc)
            | _, _ => ("bad-op" :: acc).reverse
          | ["a", a, n] =>
            match parseAcc a, n.toInt? with
            | some a, some n => let s' := step s (.upd a (· + n)); go rest s' (showInts (flatten s'.root) :: acc)
            | _, _ => ("bad-op" :: acc).reverse
          | ["c", d, c] =>
            match parseAcc d, parseAcc c with
            | some d, some c => let s' := step s (.copy d c); go rest s' (showInts (flatten s'.root) :: acc)
            | _, _ => ("bad-op" :: acc).reverse
          | ["s", k, a] =>
            match k.toNat?, parseAcc a with
            | some k, some a => let s' := step s (.reseat k a); go rest s' (showInts (flatten s'.root) :: acc)
            | _, _ => ("bad-op" :: acc).reverse
          | ["n"] => go rest (step s .nop) (showInts (flatten s.root) :: acc)
          | ["r", a] =>
            match parseAcc a with
            | some a => go rest s ((match read s a with | some v => showInts (flatten v) | none => "none") :: acc)
            | none => ("bad-op" :: acc).reverse
          | _ => ("bad-op" :: acc).reverse
      ";".intercalate (go ((ops.splitOn ";").filter (· ≠ "")) ⟨r0, ps⟩ [])
    | _, _ => "bad-op"
  | _ => "bad-op"

end Driver
