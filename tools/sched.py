"""Shared by C14 / C15: generator and renderer for async task programs in the fragment of CbModel/Sched.lean,
and the comparison of the interpreter's scheduler trace (hook H3) and stdout with the model's events."""
import common
from common import esc


def enc_stmt(s):
    k = s[0]
    if k == "m":
        return "m%d" % s[1]
    if k == "y":
        return "y"
    if k == "l":
        return "l%d:%s" % (s[1], ",".join(map(str, s[2])))
    if k == "s":
        return "s%d:%d" % (s[1], s[2])
    if k == "a":
        return "a%d" % s[1]
    if k == "p":
        return "p%d" % s[1]
    if k == "r":
        return "r%d" % s[1]
    raise ValueError(s)


def model_line(funcs, main):
    return esc("|".join(";".join(enc_stmt(s) for s in f) for f in funcs)) + "\t" + esc(";".join(enc_stmt(s) for s in main))


def render_body(body, ind, uid):
    L = []
    for s in body:
        k = s[0]
        if k == "m":
            L.append(ind + "println(%d);\n" % s[1])
        elif k == "y":
            L.append(ind + "yield;\n")
        elif k == "l":
            uid[0] += 1
            v = "i%d" % uid[0]
            prints = "".join(ind + "    println(%d);\n" % t for t in s[2])
            if uid[0] % 3 == 1:
                # rendering only: every iteration ends through `continue` (same prints, same iteration boundaries)
                prints += ind + "    if (%s >= 0) {\n" % v + ind + "        continue;\n" + ind + "    }\n" + ind + "    println(-999);\n"
            L.append(ind + "for (int %s = 0; %s < %d; %s++) {\n" % (v, v, s[1], v) + prints + ind + "}\n")
        elif k == "s":
            L.append(ind + "Future<int> s%d = f%d();\n" % (s[2], s[1]))
        elif k == "a":
            L.append(ind + "int v%d = await s%d;\n" % (s[1], s[1]))
        elif k == "p":
            L.append(ind + "println(\"got\", v%d);\n" % s[1])
        elif k == "r":
            L.append(ind + "return %d;\n" % s[1])
    return "".join(L)


def render(funcs, main):
    uid = [0]
    out = []
    # callees are declared before their callers: a function only spawns functions with a larger index
    for i in range(len(funcs) - 1, -1, -1):
        out.append("async int f%d() {\n%s}\n" % (i, render_body(funcs[i], "    ", uid)))
    out.append("int main() {\n%s    return 0;\n}\n" % render_body(main, "    ", uid))
    return "".join(out)


def gen_body(r, own, nfuncs, is_main, tag, size):
    """own = index of this function (-1 for main); may spawn only functions with a larger index"""
    body = []
    slots = []      # spawned future slots
    awaited = []
    nslot = [0]
    for _ in range(size):
        k = r.below(100)
        cands = [j for j in range(own + 1, nfuncs)]
        if k < 30:
            tag[0] += 1
            body.append(("m", tag[0]))
        elif k < 40 and not is_main:
            body.append(("y",))
        elif k < 52:
            n = r.range(0, 3)
            ts = []
            for _ in range(r.range(1, 2)):
                tag[0] += 1
                ts.append(tag[0])
            body.append(("l", n, ts))
        elif k < 72 and cands:
            slot = nslot[0]
            nslot[0] += 1
            body.append(("s", r.choice(cands), slot))
            slots.append(slot)
        elif k < 88 and slots:
            slot = r.choice(slots)
            if slot in awaited and r.chance(70):
                continue
            if slot in awaited:
                # awaiting the same future again: redeclaring v<slot> is not possible, print the stored value again
                body.append(("p", slot))
            else:
                body.append(("a", slot))
                awaited.append(slot)
        elif awaited:
            body.append(("p", r.choice(awaited)))
        else:
            tag[0] += 1
            body.append(("m", tag[0]))
    if not is_main:
        if r.chance(85):
            body.append(("r", r.range(-50, 50)))
        elif r.chance(50):
            body.append(("y",))
    return body


def gen_program(r, max_funcs=4, size=6):
    nf = r.range(1, max_funcs)
    tag = [0]
    funcs = [gen_body(r, i, nf, False, tag, r.range(1, size)) for i in range(nf)]
    main = gen_body(r, -1, nf, True, tag, r.range(2, size + 3))
    if not any(s[0] == "s" for s in main):
        main.insert(0, ("s", 0, 90))
        if r.chance(70):
            main.append(("a", 90))
            main.append(("p", 90))
    return funcs, main


GIVEUPS = []      # give-up events of the last split_events call (a wait loop that ended with its target unfinished)


def split_events(model_out):
    """model output -> (trace events, stdout lines, ended)"""
    evs, st = model_out.rsplit("|", 1)
    trace, out = [], []
    giveups = GIVEUPS
    del giveups[:]
    for e in evs.split(";"):
        if not e:
            continue
        if e.startswith("out "):
            out.append(e.split()[2])
        elif e.startswith("got "):
            out.append("got " + e.split()[2])
        elif e.startswith("giveup "):
            giveups.append(e)
        else:
            trace.append(e)
    return trace, out, st == "end"


def impl_trace(side, nfuncs):
    """hook lines -> the model's vocabulary (function names are already f<k>)"""
    out = []
    for l in side.split("\n"):
        l = l.strip()
        if not l or l.startswith("parse_iter") or l.startswith("alloc") or l.startswith("free"):
            continue
        out.append(l)
    return out
