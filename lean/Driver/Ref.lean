import CbModel.Ref.Read
import CbModel.Ref.Print
import CbModel.Ref.Eval
import Driver.Proto
namespace Driver
open CbModel CbModel.Ref

def errName : ErrKind → String
  | .divzero => "divzero" | .range => "range" | .bounds => "bounds" | .const => "const"
  | .arity => "arity" | .other => "other"

/-- field: program S-expression.  Output: status, predicted stdout, Cb source text -/
def refLine (fs : List (List Char)) : String :=
  match fs with
  | [src] =>
    match (Sexp.parse (String.ofList src)).bind readProg with
    | none => "bad-op"
    | some p =>
      let (oc, out) := runProg p 2500
      let st := match oc with
        | .exit0 => "exit0"
        | .exit1 k => "exit1:" ++ errName k
        | .undef => "undef"
        | .oof => "oof"
      joinFields [st.toList, (String.join out).toList, (showProg p).toList]
  | _ => "bad-op"

end Driver
