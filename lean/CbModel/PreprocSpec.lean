/-
  Specification side of C17: a preprocessor source as a *tree* of conditional blocks, and the
  selection semantics on that tree (which never visits an unselected branch).
-/
import CbModel.Preproc
namespace CbModel.Preproc

/-- a non-structural line -/
inductive Plain where
  | text (s : List Char)
  | define (n : List Char) (m : Macro)
  | undef (n : List Char)
  | error | warning | nop | bad | unknown
  deriving Repr, BEq, DecidableEq

def Plain.toDir : Plain → Dir
  | .text s => .text s
  | .define n m => .define n m
  | .undef n => .undef n
  | .error => .error
  | .warning => .warning
  | .nop => .nop
  | .bad => .bad
  | .unknown => .unknown

mutual
inductive Items where
  | nil
  | line (p : Plain) (rest : Items)
  | cond (neg : Bool) (n : List Char) (body : Items) (tail : Tail) (rest : Items)
inductive Tail where
  | endif
  | elif (n : List Char) (body : Items) (tail : Tail)
  | els (body : Items)
end

mutual
def flatten : Items → List Dir
  | .nil => []
  | .line p rest => p.toDir :: flatten rest
  | .cond neg n body tail rest =>
      (if neg then Dir.ifndef n else Dir.ifdef n) :: (flatten body ++ (flattenT tail ++ flatten rest))
def flattenT : Tail → List Dir
  | .endif => [Dir.endif]
  | .elif n body tail => Dir.elif n :: (flatten body ++ flattenT tail)
  | .els body => Dir.els :: (flatten body ++ [Dir.endif])
end

/-- what the specification tracks: no conditional stack -/
structure Acc where
  defs : Defs
  out : List (List Char)
  errs : Nat
  deriving Repr

/-- an active non-structural line -/
def plainAct (a : Acc) : Plain → Acc
  | .text s => { a with out := a.out ++ [expandLine a.defs s] }
  | .define n m => { a with defs := a.defs.set n m }
  | .undef n => { a with defs := a.defs.erase n }
  | .error => { a with errs := a.errs + 1 }
  | .warning => a
  | .nop => a
  | .bad => { a with errs := a.errs + 1, out := a.out ++ [errorLine []] }
  | .unknown => { a with errs := a.errs + 1, out := a.out ++ [errorLine []] }

mutual
/-- selection: only the chosen branch of each conditional is visited -/
def sel (a : Acc) : Items → Acc
  | .nil => a
  | .line p rest => sel (plainAct a p) rest
  | .cond neg n body tail rest =>
      if (a.defs.isDef n != neg) then sel (sel a body) rest else sel (selT a tail) rest
def selT (a : Acc) : Tail → Acc
  | .endif => a
  | .elif n body tail => if a.defs.isDef n then sel a body else selT a tail
  | .els body => sel a body
end

def St.acc (st : St) : Acc := ⟨st.defs, st.out, st.errs⟩
def St.ofAcc (a : Acc) (stack : List Cond) : St := ⟨a.defs, stack, a.out, a.errs⟩

end CbModel.Preproc
