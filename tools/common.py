"""Shared machinery of the Cb verification checks (see DESIGN.md §2).

Every check:  builds what it needs from the *current* working tree of the repository
(CB_VERIF_SRC, default /repo) in a private scratch directory that is removed at exit,
(re)builds the Lean project, audits the property theorems, runs model and implementation
on the same inputs, and produces a verdict + evidence/<ID>.json.
"""
import atexit, fcntl, hashlib, json, os, random, re, shutil, signal, subprocess, sys, tempfile, time

ROOT = os.path.dirname(os.path.dirname(os.path.abspath(__file__)))
SRC = os.environ.get("CB_VERIF_SRC", "/repo")
LEAN = os.path.join(ROOT, "lean")
HARNESS = os.path.join(ROOT, "harness")
SCRATCH_BASE = os.environ.get("CB_VERIF_SCRATCH", "/var/tmp")
JOBS = int(os.environ.get("CB_VERIF_JOBS", "16"))
GUARD = "CB_VERIF"
ALLOWED_AXIOMS = {"propext", "Classical.choice", "Quot.sound"}

_scratch = None


def log(*a):
    print(*a, file=sys.stderr, flush=True)


def scratch():
    """private scratch directory, removed when the check exits"""
    global _scratch
    if _scratch is None:
        sweep_stale()
        _scratch = tempfile.mkdtemp(prefix="cbverif.%d." % os.getpid(), dir=SCRATCH_BASE)
        atexit.register(_cleanup)
        for s in (signal.SIGTERM, signal.SIGINT, signal.SIGHUP):
            signal.signal(s, _sig)
    return _scratch


def _cleanup():
    global _scratch
    if _scratch and os.path.isdir(_scratch):
        shutil.rmtree(_scratch, ignore_errors=True)
    _scratch = None


def _sig(signum, frame):
    _cleanup()
    os._exit(128 + signum)


def sweep_stale():
    now = time.time()
    try:
        for n in os.listdir(SCRATCH_BASE):
            if n.startswith("cbverif."):
                p = os.path.join(SCRATCH_BASE, n)
                try:
                    if now - os.path.getmtime(p) > 2 * 3600:
                        shutil.rmtree(p, ignore_errors=True)
                except OSError:
                    pass
    except OSError:
        pass


def run(cmd, **kw):
    kw.setdefault("stdout", subprocess.PIPE)
    kw.setdefault("stderr", subprocess.STDOUT)
    kw.setdefault("text", True)
    return subprocess.run(cmd, **kw)


# ------------------------------------------------------------------------------------------
# Lean side
# ------------------------------------------------------------------------------------------

class LeanLock:
    def __enter__(self):
        os.makedirs(os.path.join(LEAN, ".lake"), exist_ok=True)
        self.f = open(os.path.join(LEAN, ".lake", "verif.lock"), "w")
        fcntl.flock(self.f, fcntl.LOCK_EX)
        return self

    def __exit__(self, *a):
        fcntl.flock(self.f, fcntl.LOCK_UN)
        self.f.close()


def lake_build(targets):
    """build targets one at a time; returns {target: (ok, log)}"""
    res = {}
    with LeanLock():
        for t in targets:
            r = run(["lake", "build", t], cwd=LEAN)
            res[t] = (r.returncode == 0, r.stdout[-6000:])
    return res


def run_translators(v, names):
    """regenerate lean/CbGen/*.lean from the working tree; a translator that cannot recognise the
    source is a failed obligation (the committed snapshot of the table stays in place)"""
    failed = []
    with LeanLock():
        for n in names:
            e = dict(os.environ)
            e["CB_VERIF_SRC"] = SRC
            r = run([sys.executable, os.path.join(ROOT, "tools", "translate", n + ".py")], env=e)
            ok = r.returncode == 0
            v.obligation("translator:" + n, ok, r.stdout.strip()[-300:])
            if not ok:
                failed.append("translator:" + n)
                log(r.stdout)
    return failed


def driver_path():
    return os.path.join(LEAN, ".lake", "build", "bin", "cbdriver")


def run_lines(argv, lines, cwd=None, timeout=3600):
    """feed lines to a line-protocol process, return its output lines"""
    data = "".join(l + "\n" for l in lines)
    r = subprocess.run(argv, input=data, stdout=subprocess.PIPE, stderr=subprocess.PIPE, text=True,
                       cwd=cwd, timeout=timeout)
    out = r.stdout.split("\n")
    if out and out[-1] == "":
        out.pop()
    return r.returncode, out, r.stderr


def run_lines_parallel(argv, lines, chunks=JOBS, cwd=None, timeout=3600):
    """same, splitting the input over several processes (order preserved)"""
    if len(lines) < 64 or chunks <= 1:
        return run_lines(argv, lines, cwd=cwd, timeout=timeout)
    n = (len(lines) + chunks - 1) // chunks
    parts = [lines[i:i + n] for i in range(0, len(lines), n)]
    procs = []
    for p in parts:
        pr = subprocess.Popen(argv, stdin=subprocess.PIPE, stdout=subprocess.PIPE, stderr=subprocess.PIPE,
                              text=True, cwd=cwd)
        procs.append((pr, p))
    import threading
    results = [None] * len(procs)

    def work(i):
        pr, p = procs[i]
        try:
            o, e = pr.communicate("".join(l + "\n" for l in p), timeout=timeout)
        except subprocess.TimeoutExpired:
            pr.kill()
            o, e = pr.communicate()
        results[i] = (pr.returncode, o, e)
    ths = [threading.Thread(target=work, args=(i,)) for i in range(len(procs))]
    [t.start() for t in ths]
    [t.join() for t in ths]
    rc, out, err = 0, [], ""
    for (c, o, e) in results:
        rc = rc or c
        ol = o.split("\n")
        if ol and ol[-1] == "":
            ol.pop()
        out += ol
        err += e
    return rc, out, err


FORBIDDEN = re.compile(r"\b(sorry|admit|native_decide|bv_decide|implemented_by|unsafe)\b|^\s*axiom\s|maxHeartbeats\s+0")


def strip_lean_comments(text):
    # remove /- ... -/ (nested) and -- line comments; keeps string literals approximately
    out, i, depth = [], 0, 0
    n = len(text)
    while i < n:
        if text.startswith("/-", i):
            depth += 1
            i += 2
        elif depth and text.startswith("-/", i):
            depth -= 1
            i += 2
        elif depth:
            if text[i] == "\n":
                out.append("\n")
            i += 1
        elif text.startswith("--", i):
            while i < n and text[i] != "\n":
                i += 1
        else:
            out.append(text[i])
            i += 1
    return "".join(out)


def grep_forbidden(dirs=("CbModel", "CbGen", "CbProofs", "CbProps", "CbOblig")):
    hits = []
    for d in dirs:
        for base, _, files in os.walk(os.path.join(LEAN, d)):
            for f in files:
                if f.endswith(".lean"):
                    p = os.path.join(base, f)
                    txt = strip_lean_comments(open(p).read())
                    for k, line in enumerate(txt.split("\n"), 1):
                        if FORBIDDEN.search(line):
                            hits.append("%s:%d: %s" % (os.path.relpath(p, LEAN), k, line.strip()))
    return hits


def print_axioms(module, theorems):
    """returns {theorem: set(axioms)} or {theorem: None} when the theorem does not check"""
    d = scratch()
    res = {}
    src = "import %s\n" % module + "".join("#print axioms %s\n" % t for t in theorems)
    p = os.path.join(d, "axioms_%s.lean" % module.replace(".", "_"))
    open(p, "w").write(src)
    with LeanLock():
        r = run(["lake", "env", "lean", p], cwd=LEAN)
    text = r.stdout
    for t in theorems:
        m = re.search(r"'%s' depends on axioms: \[([^\]]*)\]" % re.escape(t), text, re.S)
        if m:
            res[t] = set(a.strip() for a in m.group(1).replace("\n", " ").split(",") if a.strip())
        elif re.search(r"'%s' does not depend on any axioms" % re.escape(t), text):
            res[t] = set()
        else:
            res[t] = None
    return res, text


# ------------------------------------------------------------------------------------------
# implementation side
# ------------------------------------------------------------------------------------------

def copy_src(sub="src"):
    """copy the repository working tree (sources only) into the scratch dir"""
    d = os.path.join(scratch(), sub)
    if not os.path.isdir(d):
        r = run(["rsync", "-a", "--exclude", "*.o", "--exclude", "/main", "--exclude", ".git",
                 "--exclude", "/tests", "--exclude", "/docs", "--exclude", "/vscode-extension",
                 "--exclude", "/release_notes", "--exclude", "*.dSYM",
                 SRC.rstrip("/") + "/", d + "/"])
        if r.returncode != 0:
            raise RuntimeError("rsync failed: " + r.stdout)
    return d


def build_impl(sanitize=False):
    """out-of-tree build of the interpreter from the working tree with -DCB_VERIF.
    returns (path to main | None, log)"""
    d = copy_src("src_san" if sanitize else "src")
    flags = "-g0 -O1 -std=c++17 -I. -Isrc -Isrc/backend/interpreter -D%s" % GUARD
    tag = "main"
    if sanitize:
        flags = "-g -O1 -std=c++17 -fsanitize=address,undefined -fno-sanitize-recover=all -fno-omit-frame-pointer " \
                "-I. -Isrc -Isrc/backend/interpreter -D%s" % GUARD
    r = run(["make", "-j%d" % JOBS, "main", "CFLAGS=" + flags] +
            (["LDFLAGS=-fsanitize=address,undefined"] if sanitize else []), cwd=d)
    exe = os.path.join(d, "main")
    if r.returncode != 0 or not os.path.exists(exe):
        return None, r.stdout[-4000:]
    return exe, r.stdout[-500:]


def build_harness(name, sources, extra_flags=()):
    """compile harness/<name>.cpp against the working tree's sources.
    sources: repo-relative .cpp files compiled from the working tree."""
    d = scratch()
    out = os.path.join(d, name)
    cmd = ["g++", "-O1", "-std=c++17", "-I" + SRC, "-I" + os.path.join(SRC, "src"),
           "-I" + os.path.join(SRC, "src/backend/interpreter"), "-I" + HARNESS,
           "-D" + GUARD] + list(extra_flags) + [os.path.join(HARNESS, name + ".cpp")] + \
          [os.path.join(SRC, s) for s in sources] + ["-o", out]
    r = run(cmd)
    if r.returncode != 0:
        return None, r.stdout[-4000:]
    return out, ""


# ------------------------------------------------------------------------------------------
# PRNG (SplitMix64) — every random choice derives from VERIF_SEED
# ------------------------------------------------------------------------------------------

M64 = (1 << 64) - 1


class Rng:
    def __init__(self, seed, stream=0):
        self.s = (seed * 0x9E3779B97F4A7C15 + stream * 0xBF58476D1CE4E5B9 + 0x1234567) & M64

    def next(self):
        self.s = (self.s + 0x9E3779B97F4A7C15) & M64
        z = self.s
        z = ((z ^ (z >> 30)) * 0xBF58476D1CE4E5B9) & M64
        z = ((z ^ (z >> 27)) * 0x94D049BB133111EB) & M64
        return z ^ (z >> 31)

    def below(self, n):
        return self.next() % n if n > 0 else 0

    def range(self, a, b):
        return a + self.below(b - a + 1)

    def choice(self, xs):
        return xs[self.below(len(xs))]

    def chance(self, num, den=100):
        return self.below(den) < num

    def shuffle(self, xs):
        xs = list(xs)
        for i in range(len(xs) - 1, 0, -1):
            j = self.below(i + 1)
            xs[i], xs[j] = xs[j], xs[i]
        return xs


def esc(s):
    return s.replace("\\", "\\\\").replace("\n", "\\n").replace("\t", "\\t").replace("\r", "\\r")


def unesc(s):
    o, i = [], 0
    while i < len(s):
        if s[i] == "\\" and i + 1 < len(s) and s[i + 1] in "ntr\\":
            o.append({"n": "\n", "t": "\t", "r": "\r", "\\": "\\"}[s[i + 1]])
            i += 2
        else:
            o.append(s[i])
            i += 1
    return "".join(o)


# ------------------------------------------------------------------------------------------
# verdicts, known findings, evidence
# ------------------------------------------------------------------------------------------

def load_findings(pid):
    p = os.path.join(ROOT, "known_findings.json")
    if not os.path.exists(p):
        return []
    data = json.load(open(p))
    return [f for f in data.get("findings", []) if f["property"] == pid]


class Verdict:
    def __init__(self, pid, tier, seed):
        self.pid, self.tier, self.seed = pid, tier, seed
        self.t0 = time.time()
        self.violations = 0
        self.known = 0
        self.obligations = []   # (name, ok, detail)
        self.coverage = {}
        self.assumptions = []
        self.notes = []

    def obligation(self, name, ok, detail=""):
        self.obligations.append((name, bool(ok), detail))

    def violation(self, what, replay_obj, no_input=False):
        os.makedirs(os.path.join(ROOT, "replays"), exist_ok=True)
        h = hashlib.sha1(json.dumps(replay_obj, sort_keys=True).encode()).hexdigest()[:10]
        path = os.path.join(ROOT, "replays", "%s_%s.json" % (self.pid, h))
        replay_obj = dict(replay_obj)
        replay_obj.setdefault("property", self.pid)
        replay_obj.setdefault("what", what)
        json.dump(replay_obj, open(path, "w"), indent=1)
        self.violations += 1
        print("VIOLATION property=%s replay=%s%s" % (self.pid, path, " no-failing-input-found" if no_input else ""),
              flush=True)
        log("  " + what)

    def replay_witnesses(self, exe, findings, already=()):
        """every listed finding of this property is replayed from its witness (program + expected_stdout [+ files]) so that
        its KNOWN-FINDING line does not depend on whether this run's generators happened to hit it; a witness that behaves as
        the property demands now is only logged"""
        for f in findings:
            if f.get("property") != self.pid or f["id"] in already or "witness" not in f:
                continue
            try:
                w = json.load(open(os.path.join(ROOT, f["witness"])))
            except Exception:
                continue
            if "program" not in w or "expected_stdout" not in w:
                continue
            files = w.get("files") or {}
            if isinstance(files, str):
                import ast
                try:
                    files = ast.literal_eval(files)
                except Exception:
                    files = {}
            o = run_programs(exe, [(w["program"], (), files)], timeout=15)[0]
            if o[0] != w["expected_stdout"] or o[1] != "ok":
                self.known_finding(f["what"] + " [witness]")
            else:
                log("witness of listed finding %s now behaves as the property demands" % f["id"])

    def known_finding(self, what):
        self.known += 1
        print("KNOWN-FINDING: property=%s %s" % (self.pid, what), flush=True)

    def finish(self, level="proof"):
        # a proof obligation / translator / build that no longer checks is a violation even when the suites of this run found no
        # failing input: the property is then no longer shown to hold (brief: "names the theorem or correspondence that no longer
        # checks in the replay file and ends the VIOLATION line with the words no-failing-input-found")
        failed_obl = [n for (n, ok, d) in self.obligations if not ok]
        if failed_obl and self.violations == 0:
            self.violation("obligations no longer check: %s; the suites of this run found no input on which the implementation "
                           "violates the property" % ", ".join(failed_obl[:12]),
                           {"failed_obligations": failed_obl,
                            "details": {n: d[-600:] for (n, ok, d) in self.obligations if not ok}}, no_input=True)
        cov = dict(self.coverage)
        cov.setdefault("obligations", len(self.obligations))
        cov.setdefault("discharged", sum(1 for o in self.obligations if o[1]))
        cov["obligation_list"] = [{"name": n, "ok": ok, "detail": d} for (n, ok, d) in self.obligations]
        cov.setdefault("checker_cmd", "cd lean && lake build && lake env lean <#print axioms file> (tools/common.py)")
        cov.setdefault("trusted_base", [
            "Lean 4.33 kernel; axioms limited to propext, Classical.choice, Quot.sound (audited this run)",
            "tools/ translators and correspondence harness (differential testing, this run's inputs only)",
            "g++ and the Lean compiler (cbdriver outputs are compared with the implementation)"])
        cov.setdefault("evaluations", 0)
        cov.setdefault("distinct_nontrivial", 0)
        cov["known_findings_reported"] = self.known
        ev = {"property_id": self.pid, "tier": self.tier, "seed": self.seed, "level": level,
              "coverage": cov, "assumptions": self.assumptions, "wall_s": round(time.time() - self.t0, 2),
              "violations": self.violations}
        # evidence describes runs against /repo itself; development runs against another tree
        # (CB_VERIF_SRC, used for seeded mutants) do not overwrite it
        evdir = os.path.join(ROOT, "evidence") if os.path.realpath(SRC) == "/repo" else os.path.join(scratch(), "evidence")
        os.makedirs(evdir, exist_ok=True)
        # the file describes THIS run; the most recent run of the other tier is kept as a clearly labelled summary
        try:
            old = json.load(open(os.path.join(evdir, "%s.json" % self.pid)))
            if old.get("tier") != self.tier:
                oc = old.get("coverage", {})
                cov["previous_run_of_other_tier"] = {
                    "tier": old.get("tier"), "seed": old.get("seed"), "wall_s": old.get("wall_s"),
                    "evaluations": oc.get("evaluations"), "distinct_nontrivial": oc.get("distinct_nontrivial"),
                    "obligations": oc.get("obligations"), "discharged": oc.get("discharged"),
                    "violations": old.get("violations"), "distribution": oc.get("distribution"),
                    "note": "summary of an earlier run, copied from the evidence file that run wrote; not measured by this run"}
            elif "previous_run_of_other_tier" in old.get("coverage", {}):
                cov["previous_run_of_other_tier"] = old["coverage"]["previous_run_of_other_tier"]
        except Exception:
            pass
        json.dump(ev, open(os.path.join(evdir, "%s.json" % self.pid), "w"), indent=1)
        log("%s %s: %d obligations (%d ok), %d evaluations, %d violations, %d known findings, %.1fs" % (
            self.pid, self.tier, len(self.obligations), cov["discharged"], cov["evaluations"],
            self.violations, self.known, time.time() - self.t0))
        return 1 if self.violations else 0


def lean_obligations(v, modules, theorems_by_module, always=("CbModel", "cbdriver")):
    """Build the model + driver, then the proof modules, then audit axioms.
    Returns (driver_ok, failed_obligation_names)."""
    failed = []
    res = lake_build(list(always))
    for t, (ok, lg) in res.items():
        if not ok:
            log(lg)
            v.obligation("build:" + t, False, lg[-1500:])
            failed.append("build:" + t)
    driver_ok = not failed
    res = lake_build(modules)
    for t, (ok, lg) in res.items():
        v.obligation("build:" + t, ok, "" if ok else lg[-1500:])
        if not ok:
            log(lg)
            failed.append("build:" + t)
    hits = grep_forbidden()
    v.obligation("no sorry/admit/axiom/native_decide in lean sources", not hits, "; ".join(hits[:5]))
    if hits:
        failed.append("forbidden:" + hits[0])
    for mod, thms in theorems_by_module.items():
        if not res.get(mod, (True, ""))[0]:
            for t in thms:
                v.obligation("theorem:" + t, False, "module does not build")
                failed.append("theorem:" + t)
            continue
        ax, text = print_axioms(mod, thms)
        for t in thms:
            a = ax[t]
            ok = a is not None and a <= ALLOWED_AXIOMS
            v.obligation("theorem:" + t, ok, "axioms: " + (", ".join(sorted(a)) if a is not None else "NOT FOUND"))
            if not ok:
                failed.append("theorem:" + t)
    if getattr(v, "tier", "quick") == "thorough":
        # independent re-check of the compiled proof modules by leanchecker (one module per call)
        with LeanLock():
            for mod in theorems_by_module:
                if not res.get(mod, (True, ""))[0]:
                    continue
                r = run(["lake", "env", "leanchecker", mod], cwd=LEAN)
                ok = r.returncode == 0
                v.obligation("leanchecker:" + mod, ok, "" if ok else r.stdout[-600:])
                if not ok:
                    failed.append("leanchecker:" + mod)
    return driver_ok, failed


def parse_args(argv):
    import argparse
    ap = argparse.ArgumentParser()
    ap.add_argument("pid")
    ap.add_argument("--tier", default=os.environ.get("VERIF_TIER", "quick"), choices=["quick", "thorough"])
    ap.add_argument("--replay", default=None)
    a = ap.parse_args(argv)
    a.seed = int(os.environ.get("VERIF_SEED", "1"))
    return a


# ------------------------------------------------------------------------------------------
# running Cb programs on the interpreter built from the working tree
# ------------------------------------------------------------------------------------------

def exit_class(rc):
    if rc == 0:
        return "ok"
    if rc is None:
        return "timeout"
    if rc < 0 or rc >= 128:
        return "signal"
    return "error"


SANITIZER_LINE_RE = re.compile(r"^.*(?:ERROR: AddressSanitizer|runtime error:|ERROR: LeakSanitizer|UndefinedBehaviorSanitizer).*$", re.M)


def run_programs(exe, programs, timeout=10, jobs=JOBS, args=(), cwd_links=None, env=None, collect=None):
    """run each program text (str) or (text, extra_args); returns list of (stdout, exit_class, stderr_tail).
    Each worker has its own directory inside the scratch dir."""
    from concurrent.futures import ThreadPoolExecutor
    base = os.path.join(scratch(), "run")
    os.makedirs(base, exist_ok=True)
    dirs = []
    for j in range(jobs):
        d = os.path.join(base, "w%d" % j)
        os.makedirs(d, exist_ok=True)
        if cwd_links:
            for name, target in cwd_links.items():
                lp = os.path.join(d, name)
                if not os.path.lexists(lp):
                    os.symlink(target, lp)
        dirs.append(d)
    import queue
    free = queue.Queue()
    for d in dirs:
        free.put(d)
    e = dict(os.environ)
    if env:
        e.update(env)

    def one(k):
        p = programs[k]
        extra = list(args)
        files = None
        if isinstance(p, tuple):
            if len(p) == 3:
                p, ex, files = p
            else:
                p, ex = p
            extra = extra + list(ex)
        d = free.get()
        try:
            fn = os.path.join(d, "t.cb")
            with open(fn, "w") as f:
                f.write(p)
            if files:
                for name, content in files.items():
                    fp = os.path.join(d, name)
                    os.makedirs(os.path.dirname(fp), exist_ok=True)
                    with open(fp, "w") as f:
                        f.write(content)
            if collect:
                cp = os.path.join(d, collect)
                if os.path.exists(cp):
                    os.remove(cp)
            try:
                r = subprocess.run([exe, "t.cb"] + extra, cwd=d, stdout=subprocess.PIPE, stderr=subprocess.PIPE,
                                   timeout=timeout, env=e)
                err_full = r.stderr.decode("utf-8", "replace")
                err_tail = err_full[-400:]
                # a sanitizer report is long (shadow-byte dump): its headline must survive the truncation
                sm = SANITIZER_LINE_RE.search(err_full)
                if sm and sm.group(0) not in err_tail:
                    err_tail = sm.group(0)[:300] + "\n[...]\n" + err_tail
                res = (r.stdout.decode("utf-8", "replace"), exit_class(r.returncode), err_tail)
                if collect:
                    cp = os.path.join(d, collect)
                    side = open(cp, errors="replace").read() if os.path.exists(cp) else ""
                    res = res + (side,)
                return res
            except subprocess.TimeoutExpired as ex_:
                if os.environ.get("CB_VERIF_LOG_TIMEOUTS"):
                    with open(os.environ["CB_VERIF_LOG_TIMEOUTS"], "a") as lf:
                        lf.write("=====TIMEOUT\n" + p)
                res = ((ex_.stdout or b"").decode("utf-8", "replace"), "timeout", "")
                if collect:
                    cp = os.path.join(d, collect)
                    res = res + ((open(cp, errors="replace").read() if os.path.exists(cp) else ""),)
                return res
        finally:
            free.put(d)
    with ThreadPoolExecutor(max_workers=jobs) as ex:
        return list(ex.map(one, range(len(programs))))
