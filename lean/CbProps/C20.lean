/-
  C20 — foreign calls pass arguments and results unchanged for every supported signature.
-/
import CbModel.Ffi
namespace CbProps.C20
open CbModel.Ffi

/-- **The cast matches the declaration.**  For ANY call table whose rows pass `rowOK`, a declared signature
    that a row accepts is called through a function pointer of exactly the declared C type, and the k-th C
    argument is the k-th Cb argument, extracted as its declared type requires. -/
theorem cast_matches_declared (r : Row) (s : Sig) (hok : rowOK r = true) (hm : r.matches s = true) :
    r.castRet = s.ret ∧ r.castParams = s.params ∧
    r.argVia = (List.range s.params.length).map (fun k => (extractionFor (s.params.getD k ""), k)) := by
  simp only [rowOK, Bool.and_eq_true, List.all_eq_true, beq_iff_eq] at hok
  simp only [Row.matches, Bool.and_eq_true, List.contains_iff_mem, beq_iff_eq] at hm
  obtain ⟨⟨h1, h2⟩, h3⟩ := hok
  obtain ⟨hm1, hm2⟩ := hm
  refine ⟨(h1 s.ret hm1).symm, ?_, ?_⟩
  · rw [← h2, hm2]
  · rw [h3, hm2]

/-- arguments are passed in declaration order: position k of the C call is Cb argument k -/
theorem args_in_declaration_order (r : Row) (hok : rowOK r = true) (k : Nat) (hk : k < r.params.length) :
    (r.argVia.getD k ("", 0)).2 = k := by
  simp only [rowOK, Bool.and_eq_true, beq_iff_eq] at hok
  rw [hok.2]
  simp [List.getD, hk]

/-- the table is a function: at most one branch accepts a declared signature -/
theorem lookup_deterministic (t : List Row) (h : noOverlap t = true) (s : Sig) (r1 r2 : Row)
    (h1 : r1 ∈ t) (h2 : r2 ∈ t) (m1 : r1.matches s = true) (m2 : r2.matches s = true) : r1 = r2 := by
  simp only [noOverlap, decide_eq_true_eq] at h
  simp only [Row.matches, Bool.and_eq_true, List.contains_iff_mem, beq_iff_eq] at m1 m2
  induction t with
  | nil => simp at h1
  | cons a rest ih =>
    simp only [keys, List.flatMap_cons] at h
    rw [List.nodup_append] at h
    obtain ⟨hna, hnr, hdisj⟩ := h
    simp only [List.mem_cons] at h1 h2
    have key : ∀ r, r ∈ rest → r.matches s = true → (s.ret, s.params) ∈ keys rest := by
      intro r hr hm
      simp only [Row.matches, Bool.and_eq_true, List.contains_iff_mem, beq_iff_eq] at hm
      simp only [keys, List.mem_flatMap, List.mem_map]
      exact ⟨r, hr, s.ret, hm.1, by rw [hm.2]⟩
    have keya : ∀ r, r = a → r.matches s = true → (s.ret, s.params) ∈ a.rets.map (fun x => (x, a.params)) := by
      intro r hr hm
      subst hr
      simp only [Row.matches, Bool.and_eq_true, List.contains_iff_mem, beq_iff_eq] at hm
      simp only [List.mem_map]
      exact ⟨s.ret, hm.1, by rw [hm.2]⟩
    have mm1 : r1.matches s = true := by simp [Row.matches, m1]
    have mm2 : r2.matches s = true := by simp [Row.matches, m2]
    rcases h1 with rfl | h1 <;> rcases h2 with rfl | h2
    · rfl
    · exact absurd rfl (hdisj _ (keya r1 rfl mm1) _ (key r2 h2 mm2))
    · exact absurd rfl (hdisj _ (keya r2 rfl mm2) _ (key r1 h1 mm1))
    · exact ih h1 h2 hnr

/-- ints cross the boundary as 32-bit values: every value in the 32-bit range is unchanged -/
theorem int_roundtrip_32 (v : Int) (h : -2147483648 ≤ v ∧ v ≤ 2147483647) : fromInt32 (toInt32 v) = v := by
  unfold toInt32 fromInt32; omega

/-- and `static_cast<int>` always lands in the 32-bit range -/
theorem toInt32_range (v : Int) : -2147483648 ≤ toInt32 v ∧ toInt32 v ≤ 2147483647 := by
  unfold toInt32; omega

/-- out-of-range values wrap exactly like C's conversion: the result differs from the value by a multiple of 2^32 … -/
theorem toInt32_congr (v : Int) : (toInt32 v - v) % 4294967296 = 0 := by
  unfold toInt32; omega

/-- … and it is the ONLY 32-bit value that does (so range + congruence pin the marshalled value down) -/
theorem toInt32_unique (v w : Int) (hr : -2147483648 ≤ w ∧ w ≤ 2147483647) (hc : (w - v) % 4294967296 = 0) :
    w = toInt32 v := by
  unfold toInt32; omega

/-- marshalling twice is marshalling once (a value returned by one foreign call can be passed to the next unchanged) -/
theorem toInt32_idem (v : Int) : toInt32 (toInt32 v) = toInt32 v := by
  unfold toInt32; omega

/-- the four fixed `wrap` cases of tools/props/c20.py: the expected outputs there are these values (the implementation is run on them) -/
example : toInt32 4294967301 = 5 ∧ toInt32 2147483648 = -2147483648 ∧ toInt32 (-2147483649) = 2147483647 ∧
    toInt32 123456789012345 = -2045911175 := by decide

end CbProps.C20
