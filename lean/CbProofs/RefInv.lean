/-
  Instances of the generic preservation theorem:
  (A) output only grows (C01/C16), (B) every integer cell stays inside its declared range (C04).
-/
import CbProofs.RefPres
namespace CbModel.Ref

/-! ## frame-changing primitives leave `out` alone -/

theorem bind_out_of {m : M α} {f : α → M β} (hm : ∀ s, (m s).2.out = s.out)
    (hf : ∀ a s, (f a s).2.out = s.out) : ∀ s, ((m >>= f) s).2.out = s.out := by
  intro s
  show ((M.bind m f) s).2.out = s.out
  have h1 := hm s
  unfold M.bind
  split <;> rename_i heq <;> rw [heq] at h1 <;> simp only at h1 <;> first
    | (rw [hf]; exact h1) | exact h1

theorem getVar_out (x : String) (s : St) : (getVar x s).2.out = s.out := by
  rw [ro_getVar x s]

theorem putVar_out (x : String) (v : Val) (s : St) : (putVar x v s).2.out = s.out := by
  unfold putVar; repeat' split
  all_goals rfl

theorem liftRes_out (r : Res α) (s : St) : ((liftRes r : M α) s).2.out = s.out := rfl
theorem undefM_out (s : St) : ((undefM : M α) s).2.out = s.out := rfl

theorem writeRef_out (r : LRef) (n : Int) (s : St) : (writeRef r n s).2.out = s.out := by
  unfold writeRef
  apply bind_out_of (getVar_out _)
  intro v s
  exact bind_out_of (liftRes_out _) (fun _ => putVar_out _ _) s

theorem declareLocal_out (x : String) (v : Val) (s : St) : (declareLocal x v s).2.out = s.out := rfl
theorem declareStatic_out (x : String) (v : Val) (s : St) : (declareStatic x v s).2.out = s.out := rfl

theorem declInt_out (st c : Bool) (ty : Ty) (x : String) (v : Int) (s : St) :
    (declInt st c ty x v s).2.out = s.out := by
  unfold declInt
  apply bind_out_of (liftRes_out _)
  intro v' s; split
  · exact declareStatic_out _ _ s
  · exact declareLocal_out _ _ s

theorem declArrInit_out (c : Bool) (ty : Ty) (x : String) (dims : List Nat) (vs : List Int) (s : St) :
    (declArrInit c ty x dims vs s).2.out = s.out := by
  unfold declArrInit; split
  · rfl
  · exact bind_out_of (liftRes_out _) (fun _ => declareLocal_out _ _) s

theorem declStructInitVar_out (c : Bool) (sd : StructDef) (x : String) (vs : List Int) (s : St) :
    (declStructInitVar c sd x vs s).2.out = s.out := by
  unfold declStructInitVar
  exact bind_out_of (liftRes_out _) (fun _ => declareLocal_out _ _) s

/-! ## (A) output prefix -/

def OutPrefix (o : List String) (s : St) : Prop := ∃ suf, s.out = o ++ suf

theorem outPrefix_of_out_eq {o : List String} {s s' : St} (h : s'.out = s.out) (hs : OutPrefix o s) :
    OutPrefix o s' := by
  obtain ⟨suf, hsuf⟩ := hs; exact ⟨suf, by rw [h, hsuf]⟩

theorem primOK_outPrefix (o : List String) : PrimOK (OutPrefix o) where
  emit := by
    intro str s ⟨suf, hs⟩
    exact ⟨suf ++ [str], by simp [emit, hs]⟩
  writeRef := fun r n s hs => outPrefix_of_out_eq (writeRef_out r n s) hs
  declInt := fun st c ty x v s hs => outPrefix_of_out_eq (declInt_out st c ty x v s) hs
  declArrInit := fun c ty x dims vs s hs => outPrefix_of_out_eq (declArrInit_out c ty x dims vs s) hs
  declDefault := fun _ _ _ _ _ hs => hs
  declStructVar := fun _ _ _ hs => hs
  declStructInitVar := fun c sd x vs s hs => outPrefix_of_out_eq (declStructInitVar_out c sd x vs s) hs
  enterCall := by
    intro α fn args m hm s hs
    unfold enterCall
    show OutPrefix o ((M.bind (liftRes (bindParams fn.params args)) _) s).2
    unfold M.bind liftRes
    split <;> rename_i heq <;> simp only [Prod.mk.injEq] at heq <;> obtain ⟨_, rfl⟩ := heq <;> try exact hs
    rename_i fr _
    unfold withFrame
    have := hm { s with frame := fr, fname := fn.name } hs
    simp only
    exact outPrefix_of_out_eq rfl this

/-! ## (B) range invariant -/

def InRange (t : Ty) (v : Int) : Prop := t.range.1 ≤ v ∧ v ≤ t.range.2

def CellOK : Cell → Prop
  | .int t v _ => InRange t v
  | .arr t _ cells _ => ∀ v ∈ cells, InRange t v

def ValOK : Val → Prop
  | .cell c => CellOK c
  | .struct _ fs => ∀ kc ∈ fs, CellOK kc.2

def FrameOK (f : Frame) : Prop := ∀ kv ∈ f, ValOK kv.2

def RangeInv (s : St) : Prop := FrameOK s.globals ∧ FrameOK s.frame ∧ FrameOK s.statics

theorem zero_inRange (t : Ty) : InRange t 0 := by
  obtain ⟨b, u⟩ := t
  cases b <;> cases u <;> simp [InRange, Ty.range]

theorem storeChecked_inRange (t : Ty) (v v' : Int) (h : storeChecked t v = .ok v') : InRange t v' := by
  unfold storeChecked at h
  split at h
  · rename_i hb
    split at h
    · rename_i h01
      simp only [Res.ok.injEq] at h; subst h
      obtain ⟨b, u⟩ := t
      simp only at hb; subst hb
      rcases h01 with rfl | rfl <;> simp [InRange, Ty.range]
    · simp at h
  · split at h
    · simp only [Res.ok.injEq] at h; subst h
      exact zero_inRange t
    · split at h
      · rename_i hr
        simp only [Res.ok.injEq] at h; subst h
        exact hr
      · simp at h

theorem storeAllR_inRange (t : Ty) (vs vs' : List Int) (h : storeAllR t vs = .ok vs') :
    ∀ v ∈ vs', InRange t v := by
  induction vs generalizing vs' with
  | nil => simp [storeAllR] at h; subst h; simp
  | cons v vs ih =>
    unfold storeAllR at h
    split at h <;> simp only [Res.ok.injEq, reduceCtorEq] at h
    rename_i v1 r h1 h2
    subst h
    intro x hx
    simp only [List.mem_cons] at hx
    rcases hx with rfl | hx
    · exact storeChecked_inRange t v _ h1
    · exact ih r h2 x hx

theorem defaultCell_ok (t : Ty) (dims : List Nat) (c : Bool) : CellOK (defaultCell t dims c) := by
  unfold defaultCell; split
  · exact zero_inRange t
  · intro v hv; rw [List.eq_of_mem_replicate hv]; exact zero_inRange t

theorem writeCell_ok (c c' : Cell) (idxs : List Int) (v : Int) (hc : CellOK c)
    (h : writeCell c idxs v = .ok c') : CellOK c' := by
  unfold writeCell at h
  split at h
  · split at h
    · simp at h
    · split at h <;> simp only [Res.ok.injEq, reduceCtorEq] at h
      rename_i hsc; subst h
      exact storeChecked_inRange _ _ _ hsc
  · split at h
    · simp at h
    · split at h
      · simp at h
      · split at h
        · rename_i hsc
          split at h <;> simp only [Res.ok.injEq, reduceCtorEq] at h
          rename_i cells' hset
          subst h
          unfold FlatIndex.arraySet at hset
          split at hset
          · split at hset <;> simp only [Option.some.injEq, reduceCtorEq] at hset
            subst hset
            intro x hx
            rcases List.mem_or_eq_of_mem_set hx with h1 | h1
            · exact hc x h1
            · subst h1; exact storeChecked_inRange _ _ _ hsc
          · simp at hset
        · simp at h
        · simp at h
  · simp at h

theorem fieldFind_ok (fs : List (String × Cell)) (f : String) (c : Cell)
    (hfs : ∀ kc ∈ fs, CellOK kc.2) (h : fieldFind fs f = some c) : CellOK c := by
  induction fs with
  | nil => simp [fieldFind] at h
  | cons kc r ih =>
    obtain ⟨k, w⟩ := kc
    unfold fieldFind at h
    split at h
    · simp only [Option.some.injEq] at h; subst h
      exact hfs (k, w) List.mem_cons_self
    · exact ih (fun x hx => hfs x (List.mem_cons_of_mem _ hx)) h

theorem fieldSet_ok (fs : List (String × Cell)) (f : String) (c : Cell)
    (hfs : ∀ kc ∈ fs, CellOK kc.2) (hc : CellOK c) : ∀ kc ∈ fieldSet fs f c, CellOK kc.2 := by
  induction fs with
  | nil => simp [fieldSet]
  | cons kc r ih =>
    obtain ⟨k, w⟩ := kc
    unfold fieldSet
    split
    · intro x hx
      simp only [List.mem_cons] at hx
      rcases hx with rfl | hx
      · exact hc
      · exact hfs x (List.mem_cons_of_mem _ hx)
    · intro x hx
      simp only [List.mem_cons] at hx
      rcases hx with rfl | hx
      · exact hfs (k, w) List.mem_cons_self
      · exact ih (fun y hy => hfs y (List.mem_cons_of_mem _ hy)) x hx

theorem frameFind_ok (f : Frame) (x : String) (v : Val) (hf : FrameOK f) (h : f.find x = some v) :
    ValOK v := by
  induction f with
  | nil => simp [Frame.find] at h
  | cons kv r ih =>
    obtain ⟨k, w⟩ := kv
    unfold Frame.find at h
    split at h
    · simp only [Option.some.injEq] at h; subst h
      exact hf (k, w) List.mem_cons_self
    · exact ih (fun y hy => hf y (List.mem_cons_of_mem _ hy)) h

theorem frameSet_ok (f : Frame) (x : String) (v : Val) (hf : FrameOK f) (hv : ValOK v) :
    FrameOK (f.set x v) := by
  induction f with
  | nil => simp [Frame.set, FrameOK]
  | cons kv r ih =>
    obtain ⟨k, w⟩ := kv
    unfold Frame.set
    split
    · intro y hy
      simp only [List.mem_cons] at hy
      rcases hy with rfl | hy
      · exact hv
      · exact hf y (List.mem_cons_of_mem _ hy)
    · intro y hy
      simp only [List.mem_cons] at hy
      rcases hy with rfl | hy
      · exact hf (k, w) List.mem_cons_self
      · exact ih (fun z hz => hf z (List.mem_cons_of_mem _ hz)) y hy

theorem frameDeclare_ok (f : Frame) (x : String) (v : Val) (hf : FrameOK f) (hv : ValOK v) :
    FrameOK (f.declare x v) := by
  unfold Frame.declare; split
  · exact frameSet_ok f x v hf hv
  · intro y hy
    simp only [List.mem_append, List.mem_singleton] at hy
    rcases hy with hy | rfl
    · exact hf y hy
    · exact hv

theorem getVar_ok (x : String) (s : St) (v : Val) (hs : RangeInv s) (h : (getVar x s).1 = .ok v) :
    ValOK v := by
  unfold getVar at h
  split at h
  · rename_i w hw; simp only [Res.ok.injEq] at h; subst h; exact frameFind_ok _ _ _ hs.2.1 hw
  · split at h
    · rename_i w hw; simp only [Res.ok.injEq] at h; subst h; exact frameFind_ok _ _ _ hs.2.2 hw
    · split at h
      · rename_i w hw; simp only [Res.ok.injEq] at h; subst h; exact frameFind_ok _ _ _ hs.1 hw
      · simp at h

theorem putVar_range (x : String) (v : Val) (hv : ValOK v) : Preserves RangeInv (putVar x v) := by
  intro s hs
  unfold putVar
  split
  · exact ⟨hs.1, frameSet_ok _ _ _ hs.2.1 hv, hs.2.2⟩
  · split
    · exact ⟨hs.1, hs.2.1, frameSet_ok _ _ _ hs.2.2 hv⟩
    · split
      · exact ⟨frameSet_ok _ _ _ hs.1 hv, hs.2.1, hs.2.2⟩
      · exact hs

/-- bind where the continuation may use that the first computation ran in a state satisfying Inv
    and returned `a` -/
theorem pres_bind_val {Inv : St → Prop} {m : M α} {f : α → M β} (hro : ReadOnly m)
    (hf : ∀ a s, Inv s → (m s).1 = .ok a → Inv (f a s).2) : Preserves Inv (m >>= f) := by
  intro s hs
  show Inv ((M.bind m f) s).2
  have h2 := hro s
  unfold M.bind
  split <;> rename_i heq <;> rw [heq] at h2 <;> simp only at h2 <;> subst h2 <;> try exact hs
  exact hf _ _ hs (by rw [heq])

theorem liftRes_bind_range {r : Res α} {f : α → M β}
    (hf : ∀ a, r = .ok a → Preserves RangeInv (f a)) : Preserves RangeInv (liftRes r >>= f) := by
  intro s hs
  show RangeInv ((M.bind (liftRes r) f) s).2
  unfold M.bind liftRes
  split <;> rename_i heq <;> simp only [Prod.mk.injEq] at heq <;> obtain ⟨h1, rfl⟩ := heq <;> try exact hs
  exact hf _ h1 _ hs

theorem writeVal_ok (v v' : Val) (f : Option String) (idxs : List Int) (n : Int) (hv : ValOK v)
    (h : writeVal v f idxs n = .ok v') : ValOK v' := by
  unfold writeVal at h
  split at h
  · rename_i c
    split at h <;> simp only [Res.ok.injEq, reduceCtorEq] at h
    rename_i c' hc'
    subst h
    exact writeCell_ok c c' _ _ hv hc'
  · rename_i sn fs f
    split at h
    · rename_i c hfind
      split at h <;> simp only [Res.ok.injEq, reduceCtorEq] at h
      rename_i c' hc'
      subst h
      exact fieldSet_ok fs f c' hv (writeCell_ok c c' _ _ (fieldFind_ok fs f c hv hfind) hc')
    · simp at h
  · simp at h

theorem writeRef_range (r : LRef) (n : Int) : Preserves RangeInv (writeRef r n) := by
  unfold writeRef
  refine pres_bind_val (Inv := RangeInv) (ro_getVar _) ?_
  intro v s hs hget
  have hv := getVar_ok _ _ _ hs hget
  exact liftRes_bind_range (fun v' hv' => putVar_range _ _ (writeVal_ok v v' _ _ _ hv hv')) s hs

theorem declareLocal_range (x : String) (v : Val) (hv : ValOK v) : Preserves RangeInv (declareLocal x v) :=
  fun _ hs => ⟨hs.1, frameDeclare_ok _ _ _ hs.2.1 hv, hs.2.2⟩

theorem declareStatic_range (x : String) (v : Val) (hv : ValOK v) :
    Preserves RangeInv (declareStatic x v) := by
  intro s hs
  refine ⟨hs.1, hs.2.1, ?_⟩
  intro y hy
  simp only [declareStatic, List.mem_append, List.mem_singleton] at hy
  rcases hy with hy | rfl
  · exact hs.2.2 y hy
  · exact hv

theorem bindParams_ok (ps : List Param) (args : List Int) (fr : Frame)
    (h : bindParams ps args = .ok fr) : FrameOK fr := by
  induction ps generalizing args fr with
  | nil =>
    cases args with
    | nil => simp [bindParams] at h; subst h; simp [FrameOK]
    | cons a as => simp [bindParams] at h
  | cons p ps ih =>
    cases args with
    | nil =>
      unfold bindParams at h
      split at h
      · split at h <;> simp only [Res.ok.injEq, reduceCtorEq] at h
        rename_i v fr' h1 h2
        subst h
        intro y hy
        simp only [List.mem_cons] at hy
        rcases hy with rfl | hy
        · exact storeChecked_inRange _ _ _ h1
        · exact ih [] fr' h2 y hy
      · simp at h
    | cons a as =>
      unfold bindParams at h
      split at h <;> simp only [Res.ok.injEq, reduceCtorEq] at h
      rename_i v fr' h1 h2
      subst h
      intro y hy
      simp only [List.mem_cons] at hy
      rcases hy with rfl | hy
      · exact storeChecked_inRange _ _ _ h1
      · exact ih as fr' h2 y hy

theorem structVal_ok (sd : StructDef) : ValOK (structVal sd) := by
  intro kc hkc
  simp only [List.mem_map] at hkc
  obtain ⟨fd, _, rfl⟩ := hkc
  exact defaultCell_ok _ _ _

theorem initFields_ok (c : Bool) (fds : List FieldDef) (vs : List Int) (fs : List (String × Cell))
    (h : initFields c fds vs = .ok fs) : ∀ kc ∈ fs, CellOK kc.2 := by
  induction fds generalizing vs fs with
  | nil => simp [initFields] at h; subst h; simp
  | cons fd fds ih =>
    unfold initFields at h
    split at h
    · split at h <;> simp only [Res.ok.injEq, reduceCtorEq] at h
      rename_i v' r h1 h2
      subst h
      intro kc hkc
      simp only [List.mem_cons] at hkc
      rcases hkc with rfl | hkc
      · exact storeChecked_inRange _ _ _ h1
      · exact ih _ r h2 kc hkc
    · split at h <;> simp only [Res.ok.injEq, reduceCtorEq] at h
      rename_i r h2
      subst h
      intro kc hkc
      simp only [List.mem_cons] at hkc
      rcases hkc with rfl | hkc
      · exact defaultCell_ok _ _ _
      · exact ih _ r h2 kc hkc

theorem primOK_range : PrimOK RangeInv where
  emit := fun _ _ hs => hs
  writeRef := writeRef_range
  declInt := by
    intro st c ty x v
    unfold declInt
    apply liftRes_bind_range
    intro v' hv'
    have : ValOK (.cell (.int ty v' c)) := storeChecked_inRange _ _ _ hv'
    split
    · exact declareStatic_range _ _ this
    · exact declareLocal_range _ _ this
  declArrInit := by
    intro c ty x dims vs
    unfold declArrInit
    split
    · exact pres_undef
    · apply liftRes_bind_range
      intro vs' hvs'
      exact declareLocal_range _ _ (storeAllR_inRange _ _ _ hvs')
  declDefault := fun c ty x dims => declareLocal_range _ _ (defaultCell_ok ty dims c)
  declStructVar := fun sd x => declareLocal_range _ _ (structVal_ok sd)
  declStructInitVar := by
    intro c sd x vs
    unfold declStructInitVar
    apply liftRes_bind_range
    intro fs hfs
    exact declareLocal_range _ _ (initFields_ok c _ _ fs hfs)
  enterCall := by
    intro α fn args m hm
    unfold enterCall
    apply liftRes_bind_range
    intro fr hfr s hs
    unfold withFrame
    have h1 := hm { s with frame := fr, fname := fn.name } ⟨hs.1, bindParams_ok _ _ _ hfr, hs.2.2⟩
    exact ⟨h1.1, hs.2.1, h1.2.2⟩

end CbModel.Ref
