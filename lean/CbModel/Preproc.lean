/-
  Mechanism model of src/frontend/preprocessor/preprocessor.cpp (C17).

  `step` mirrors `Preprocessor::process` / `processDirective` / `handle*` /
  `shouldSkipOutput` on one classified line; `classify` mirrors the text-level
  splitting of a line into directive name and content; `expandLine` is the
  token-level *specification* of macro expansion (the position-based multi-pass
  algorithm of `expandMacros` is not mirrored; its agreement with this
  specification is what the correspondence check tests).
  Core Lean only.
-/
namespace CbModel.Preproc

/-! ## characters (C locale `isspace`, `isalnum`) -/

def isSpaceC (c : Char) : Bool :=
  c == ' ' || c == '\t' || c == '\n' || c == '\x0b' || c == '\x0c' || c == '\r'

def isIdentC (c : Char) : Bool :=
  ('a' ≤ c && c ≤ 'z') || ('A' ≤ c && c ≤ 'Z') || ('0' ≤ c && c ≤ '9') || c == '_'

def trimL (s : List Char) : List Char := s.dropWhile isSpaceC
def trimR (s : List Char) : List Char := (s.reverse.dropWhile isSpaceC).reverse
def trim (s : List Char) : List Char := trimR (trimL s)

/-! ## macro table -/

structure Macro where
  body : List Char
  fnLike : Bool
  deriving Repr, BEq, DecidableEq

abbrev Defs := List (List Char × Macro)

def Defs.isDef (d : Defs) (n : List Char) : Bool := d.any (fun p => p.1 == n)
def Defs.find (d : Defs) (n : List Char) : Option Macro :=
  match d with
  | [] => none
  | (k, m) :: r => if k == n then some m else Defs.find r n
def Defs.erase (d : Defs) (n : List Char) : Defs := d.filter (fun p => !(p.1 == n))
def Defs.set (d : Defs) (n : List Char) (m : Macro) : Defs := (n, m) :: Defs.erase d n

/-! ## macro expansion: token-level specification -/

inductive Seg where
  | word (w : List Char)     -- maximal run of identifier characters
  | str (s : List Char)      -- a complete string literal, quotes included
  | other (c : Char)         -- any other single character
  deriving Repr, BEq, DecidableEq

/-- scan the remainder of a string literal (after the opening quote); returns the
    literal's tail including the closing quote, and the rest, or `none` when unterminated. -/
def scanStr : List Char → Option (List Char × List Char)
  | [] => none
  | '\\' :: c :: r => (scanStr r).map (fun (a, b) => ('\\' :: c :: a, b))
  | '\\' :: [] => none
  | '"' :: r => some (['"'], r)
  | c :: r => (scanStr r).map (fun (a, b) => (c :: a, b))

def spanIdent : List Char → List Char × List Char
  | [] => ([], [])
  | c :: r => if isIdentC c then let (a, b) := spanIdent r; (c :: a, b) else ([], c :: r)

/-- Segment a line.  Outside a literal a backslash hides the next character from the quote
    scanner (as the implementation's scanner does); an unterminated literal is ordinary text. -/
def segment (fuel : Nat) (s : List Char) : List Seg :=
  match fuel with
  | 0 => []
  | fuel + 1 =>
    match s with
    | [] => []
    | '\\' :: c :: r =>
        if isIdentC c then
          -- the escaped character still belongs to a word for the boundary test
          Seg.other '\\' :: segment fuel (c :: r)
        else Seg.other '\\' :: Seg.other c :: segment fuel r
    | '"' :: r =>
        match scanStr r with
        | some (lit, rest) => Seg.str ('"' :: lit) :: segment fuel rest
        | none => Seg.other '"' :: segment fuel r
    | c :: r =>
        if isIdentC c then
          let (w, rest) := spanIdent (c :: r)
          Seg.word w :: segment fuel rest
        else Seg.other c :: segment fuel r

def Seg.text : Seg → List Char
  | .word w => w
  | .str s => s
  | .other c => [c]

def unseg (l : List Seg) : List Char := l.flatMap Seg.text

/-- expansion of one segment: only a `word` that names an object-like macro changes; `rec` expands
    the macro's body.  `active` are the macros whose expansion is in progress: a macro is not expanded
    again inside its own expansion (`#define A A + 1`, cycles A -> B -> A stop after one round) -/
def expSeg (defs : Defs) (active : List (List Char)) (rec : List (List Char) → List Char → List Char) : Seg → List Char
  | .word w =>
    match defs.find w with
    | some m => if m.fnLike then w else if active.contains w then w else rec (w :: active) m.body
    | none => w
  | .str s => s
  | .other c => [c]

/-- expand one line: every word that names an object-like macro is replaced by the expansion of
    its body (depth-limited by `depth`; every nesting level adds a macro to `active`, so a depth of
    one more than the number of definitions is never reached). -/
def expandChars (defs : Defs) : Nat → List (List Char) → List Char → List Char
  | 0, _, s => s
  | depth + 1, active, s => (segment (s.length + 1) s).flatMap (expSeg defs active (expandChars defs depth))

/-- the depth the preprocessor model uses: more than any chain of distinct macros can need -/
def expandLine (defs : Defs) (s : List Char) : List Char := expandChars defs (defs.length + 1) [] s

/-! ## directives -/

inductive Dir where
  | ifdef (n : List Char)
  | ifndef (n : List Char)
  | elif (n : List Char)
  | els
  | endif
  | define (n : List Char) (m : Macro)
  | undef (n : List Char)
  | error
  | warning
  | nop                      -- `#` alone, `#include`
  | bad                      -- known directive with a missing operand
  | badCond                  -- #ifdef / #ifndef with no name: error, nothing pushed
  | unknown
  | text (s : List Char)
  deriving Repr, BEq, DecidableEq

def splitWord (s : List Char) (stop : Char → Bool) : List Char × List Char :=
  (s.takeWhile (fun c => !stop c), s.dropWhile (fun c => !stop c))

/-- mirror of `handleDefine`'s parsing of its content -/
def classifyDefine (content : List Char) : Dir :=
  if content.isEmpty then .bad else
  let (name, rest) := splitWord content (fun c => c == ' ' || c == '\t' || c == '(')
  match rest with
  | [] => .define content ⟨['1'], false⟩
  | '(' :: _ =>
      -- function-like: body is what follows the first ')'
      let afterOpen := rest
      let (_, fromClose) := splitWord afterOpen (fun c => c == ')')
      match fromClose with
      | [] => .bad
      | _ :: body => .define name ⟨trim body, true⟩
  | _ :: body => .define name ⟨trim body, false⟩

/-- mirror of the head of `process` + `processDirective` -/
def classify (line : List Char) : Dir :=
  let t := trim line
  match t with
  | '#' :: r =>
    let t2 := trim r
    if t2.isEmpty then .nop else
    let (d, rest) := splitWord t2 (fun c => c == ' ' || c == '\t')
    let content := match rest with | [] => [] | _ :: r' => trim r'
    let ds := String.ofList d
    if ds == "ifdef" then (if content.isEmpty then .badCond else .ifdef content)
    else if ds == "ifndef" then (if content.isEmpty then .badCond else .ifndef content)
    else if ds == "elif" || ds == "elseif" then .elif content
    else if ds == "else" then .els
    else if ds == "endif" then .endif
    else if ds == "define" then classifyDefine content
    else if ds == "undef" then (if content.isEmpty then .bad else .undef content)
    else if ds == "error" then .error
    else if ds == "warning" then .warning
    else if ds == "include" then .nop
    else .unknown
  | _ => .text line

/-! ## the conditional stack machine -/

structure Cond where
  met : Bool
  elseSeen : Bool
  taken : Bool
  deriving Repr, BEq, DecidableEq

structure St where
  defs : Defs
  stack : List Cond          -- head = innermost
  out : List (List Char)     -- emitted lines, oldest first
  errs : Nat
  deriving Repr

def skipping (stack : List Cond) : Bool := stack.any (fun c => !c.met)


def errorLine (s : List Char) : List Char :=
  "// ".toList ++ s ++ " [preprocessor error]".toList

/-- one source line.  `raw` is the text of the line (used only for the comment the
    implementation emits after a failed directive). -/
def step (st : St) (d : Dir) (raw : List Char := []) : St :=
  let fail (s : St) : St :=
    if skipping s.stack then { s with errs := s.errs + 1 }
    else { s with errs := s.errs + 1, out := s.out ++ [errorLine raw] }
  match d with
  | .text s =>
      if skipping st.stack then st
      else { st with out := st.out ++ [expandLine st.defs s] }
  | .ifdef n =>
      let b := st.defs.isDef n
      { st with stack := ⟨b, false, b⟩ :: st.stack }
  | .ifndef n =>
      let b := !st.defs.isDef n
      { st with stack := ⟨b, false, b⟩ :: st.stack }
  | .badCond => fail st
  | .elif n =>
      match st.stack with
      | [] => fail st
      | c :: r =>
        if c.elseSeen then fail st
        else if c.taken then { st with stack := { c with met := false } :: r }
        else
          let b := st.defs.isDef n
          { st with stack := ⟨b, false, b⟩ :: r }
  | .els =>
      match st.stack with
      | [] => fail st
      | c :: r =>
        if c.elseSeen then fail st
        else { st with stack := ⟨!c.taken, true, c.taken⟩ :: r }
  | .endif =>
      match st.stack with
      | [] => fail st
      | _ :: r => { st with stack := r }
  | .define n m => if skipping st.stack then st else { st with defs := st.defs.set n m }
  | .undef n => if skipping st.stack then st else { st with defs := st.defs.erase n }
  | .error => if skipping st.stack then st else { st with errs := st.errs + 1 }
  | .warning => st
  | .nop => st
  | .bad => if skipping st.stack then st else fail st
  | .unknown => if skipping st.stack then st else fail st

def run (st : St) (ds : List Dir) : St := ds.foldl (fun s d => step s d) st

/-- end of input: an unclosed conditional is an error -/
def finish (st : St) : St := if st.stack.isEmpty then st else { st with errs := st.errs + 1 }

/-! ## text-level entry point (what the driver runs) -/

def splitLines (src : List Char) : List (List Char) :=
  let rec go (cur : List Char) : List Char → List (List Char)
    | [] => if cur.isEmpty then [] else [cur.reverse]
    | '\n' :: r => cur.reverse :: go [] r
    | c :: r => go (c :: cur) r
  go [] src

def builtinDefs (file : List Char) (line : Nat) : Defs → Defs := fun d =>
  (d.set "__FILE__".toList ⟨'"' :: file ++ ['"'], false⟩).set "__LINE__".toList
    ⟨(toString line).toList, false⟩

def initialDefs : Defs :=
  [("__DATE__".toList, ⟨"\"?\"".toList, false⟩), ("__TIME__".toList, ⟨"\"?\"".toList, false⟩),
   ("__VERSION__".toList, ⟨"\"0.13.0\"".toList, false⟩)]

def processText (cmdDefs : List (List Char × List Char)) (file src : List Char) : St :=
  let d0 : Defs := cmdDefs.foldl (fun d (n, v) => d.set n ⟨v, false⟩) initialDefs
  let rec loop (st : St) (ln : Nat) : List (List Char) → St
    | [] => st
    | l :: r =>
      let st := { st with defs := builtinDefs file ln st.defs }
      loop (step st (classify l) l) (ln + 1) r
  finish (loop ⟨d0, [], [], 0⟩ 1 (splitLines src))

end CbModel.Preproc
