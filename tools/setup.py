#!/usr/bin/env python3
"""MANIFEST.setup_cmd: build the Lean project from the files on disk (offline)."""
import os, subprocess, sys
sys.path.insert(0, os.path.dirname(os.path.abspath(__file__)))
import common
r = subprocess.run(["lake", "build"], cwd=common.LEAN)
sys.exit(r.returncode)
