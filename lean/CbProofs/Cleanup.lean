/-
  C06: the cleanup-stack mechanism refines the structured specification (joint induction on fuel over
  exec / execList / iter, with frame-neutral lemmas for blocks and calls), and the counting invariant of
  the specification.
-/
import CbModel.Cleanup
namespace CbModel.Cleanup

/-- what the innermost frames still owe -/
def pending (d x : List Nat) : List Ev := runDefers d ++ runDtors x

/-! ### unfolding lemmas -/

def callSig : Sig → Sig
  | .oof => .oof
  | _ => .norm

theorem exec_block (fs : Funcs) (fuel : Nat) (body : List Sk) (s : St) :
    exec fs (fuel+1) (.block body) s =
      ((execList fs fuel body (pushBoth s)).1, popBoth (execList fs fuel body (pushBoth s)).2) := rfl

theorem sexec_block (fs : Funcs) (fuel : Nat) (body : List Sk) (sc : Scope) :
    sexec fs (fuel+1) (.block body) sc =
      ((sexecList fs fuel body ⟨[], []⟩).1, sc,
        (sexecList fs fuel body ⟨[], []⟩).2.2 ++ exitScope (sexecList fs fuel body ⟨[], []⟩).2.1) := rfl

theorem exec_loop (fs : Funcs) (fuel n : Nat) (body : List Sk) (s : St) :
    exec fs (fuel+1) (.loop n body) s =
      ((iter fs fuel n body { s with D := [] :: s.D }).1,
        popDefer (iter fs fuel n body { s with D := [] :: s.D }).2) := rfl

theorem sexec_loop (fs : Funcs) (fuel n : Nat) (body : List Sk) (sc : Scope) :
    sexec fs (fuel+1) (.loop n body) sc = siter fs fuel n body sc := rfl

theorem exec_call_none (fs : Funcs) (fuel f : Nat) (s : St) (h : fs[f]? = none) :
    exec fs (fuel+1) (.call f) s = (.oof, s) := by
  simp only [exec, h]

theorem exec_call_some (fs : Funcs) (fuel f : Nat) (s : St) (body : List Sk) (h : fs[f]? = some body) :
    exec fs (fuel+1) (.call f) s =
      (callSig (execList fs fuel body (pushBoth s)).1, popBoth (execList fs fuel body (pushBoth s)).2) := by
  simp only [exec, h]
  generalize execList fs fuel _ (pushBoth s) = r
  obtain ⟨sg, s1⟩ := r
  cases sg <;> rfl

theorem sexec_call_none (fs : Funcs) (fuel f : Nat) (sc : Scope) (h : fs[f]? = none) :
    sexec fs (fuel+1) (.call f) sc = (.oof, sc, []) := by
  simp only [sexec, h]

theorem sexec_call_some (fs : Funcs) (fuel f : Nat) (sc : Scope) (body : List Sk) (h : fs[f]? = some body) :
    sexec fs (fuel+1) (.call f) sc =
      (callSig (sexecList fs fuel body ⟨[], []⟩).1, sc,
          (sexecList fs fuel body ⟨[], []⟩).2.2 ++ exitScope (sexecList fs fuel body ⟨[], []⟩).2.1) := by
  simp only [sexec, h]
  generalize sexecList fs fuel _ _ = r
  obtain ⟨sg, s1, e⟩ := r
  cases sg <;> rfl

/-! ### the relations -/

/-- the invariant of `exec_refines` -/
def Rel (Dr Xr : List (List Nat)) (o : List Ev) (r : Sig × St) (q : Sig × Scope × List Ev) : Prop :=
  r.1 = q.1 ∧ ∃ d' x', r.2.D = d' :: Dr ∧ r.2.X = x' :: Xr ∧
    (r.1 ≠ .ret → r.1 ≠ .oof → d' = q.2.1.defers ∧ x' = q.2.1.objs ∧ r.2.out = o ++ q.2.2) ∧
    (r.1 = .ret → r.2.out ++ pending d' x' = o ++ q.2.2 ++ exitScope q.2.1)

/-- frame-neutral statements (blocks, calls, loops' iterations): the stacks are exactly restored -/
def FRel (D X : List (List Nat)) (sc : Scope) (o : List Ev) (r : Sig × St)
    (q : Sig × Scope × List Ev) : Prop :=
  r.1 = q.1 ∧ r.2.D = D ∧ r.2.X = X ∧ q.2.1 = sc ∧ (r.1 ≠ .oof → r.2.out = o ++ q.2.2)

def ExecOK (fs : Funcs) (fuel : Nat) : Prop :=
  ∀ (sk : Sk) (d x : List Nat) (Dr Xr : List (List Nat)) (o : List Ev),
    Rel Dr Xr o (exec fs fuel sk ⟨d :: Dr, x :: Xr, o⟩) (sexec fs fuel sk ⟨d, x⟩)

def ListOK (fs : Funcs) (fuel : Nat) : Prop :=
  ∀ (l : List Sk) (d x : List Nat) (Dr Xr : List (List Nat)) (o : List Ev),
    Rel Dr Xr o (execList fs fuel l ⟨d :: Dr, x :: Xr, o⟩) (sexecList fs fuel l ⟨d, x⟩)

def IterOK (fs : Funcs) (fuel : Nat) : Prop :=
  ∀ (n : Nat) (body : List Sk) (D X : List (List Nat)) (o : List Ev) (sc : Scope),
    FRel D X sc o (iter fs fuel n body ⟨D, X, o⟩) (siter fs fuel n body sc)

def BlockOK (fs : Funcs) (fuel : Nat) : Prop :=
  ∀ (body : List Sk) (D X : List (List Nat)) (o : List Ev) (sc : Scope),
    FRel D X sc o (exec fs fuel (.block body) ⟨D, X, o⟩) (sexec fs fuel (.block body) sc)

def CallOK (fs : Funcs) (fuel : Nat) : Prop :=
  ∀ (f : Nat) (D X : List (List Nat)) (o : List Ev) (sc : Scope),
    FRel D X sc o (exec fs fuel (.call f) ⟨D, X, o⟩) (sexec fs fuel (.call f) sc)

/-- a pushed frame pair around a statement list: after `popBoth` everything is as before and the output
    grew by the list's events plus the inner scope's exit events -/
theorem frame_ok {fs : Funcs} {fuel : Nat} (hL : ListOK fs fuel) (body : List Sk)
    (D X : List (List Nat)) (o : List Ev) :
    let r := execList fs fuel body (pushBoth ⟨D, X, o⟩)
    let q := sexecList fs fuel body ⟨[], []⟩
    r.1 = q.1 ∧ (popBoth r.2).D = D ∧ (popBoth r.2).X = X ∧
      (r.1 ≠ .oof → (popBoth r.2).out = o ++ q.2.2 ++ exitScope q.2.1) := by
  intro r q
  have H := hL body [] [] D X o
  change Rel D X o r q at H
  generalize r = r at *
  generalize q = q at *
  obtain ⟨sg, D1, X1, o1⟩ := r
  obtain ⟨sg', ⟨d1, x1⟩, e1⟩ := q
  obtain ⟨h1, d', x', hD, hX, hn, hr⟩ := H
  simp only at h1 hD hX hn hr
  subst h1 hD hX
  refine ⟨rfl, ?_, ?_, ?_⟩
  · simp [popBoth, popDefer, popDtor]
  · simp [popBoth, popDefer, popDtor]
  · intro hoof
    simp only [ne_eq] at hoof
    by_cases hret : sg = .ret
    · have := hr hret
      simp [popBoth, popDefer, popDtor, pending, exitScope, List.append_assoc] at this ⊢
      exact this
    · obtain ⟨rfl, rfl, rfl⟩ := hn hret hoof
      simp [popBoth, popDefer, popDtor, exitScope, List.append_assoc]


theorem block_ok_succ {fs : Funcs} {fuel : Nat} (hL : ListOK fs fuel) : BlockOK fs (fuel+1) := by
  intro body D X o sc
  have H := frame_ok hL body D X o
  rw [exec_block, sexec_block]
  exact ⟨H.1, H.2.1, H.2.2.1, rfl, fun h => by simpa [List.append_assoc] using H.2.2.2 h⟩

theorem block_ok_zero (fs : Funcs) : BlockOK fs 0 := by
  intro body D X o sc
  simp [FRel, exec, sexec]

theorem callSig_ne_oof {sg : Sig} : callSig sg ≠ .oof ↔ sg ≠ .oof := by
  cases sg <;> simp [callSig]

theorem call_ok_succ {fs : Funcs} {fuel : Nat} (hL : ListOK fs fuel) : CallOK fs (fuel+1) := by
  intro f D X o sc
  cases hf : fs[f]? with
  | none =>
    rw [exec_call_none _ _ _ _ hf, sexec_call_none _ _ _ _ hf]
    simp [FRel]
  | some body =>
    have H := frame_ok hL body D X o
    rw [exec_call_some _ _ _ _ _ hf, sexec_call_some _ _ _ _ _ hf]
    refine ⟨by simp only [H.1], H.2.1, H.2.2.1, rfl, fun h => ?_⟩
    simpa [List.append_assoc] using H.2.2.2 (callSig_ne_oof.1 h)

theorem call_ok_zero (fs : Funcs) : CallOK fs 0 := by
  intro f D X o sc
  simp [FRel, exec, sexec]

/-- a frame-neutral statement satisfies the `exec_refines` invariant -/
theorem Rel_of_FRel {d x : List Nat} {Dr Xr : List (List Nat)} {o : List Ev} {r : Sig × St}
    {q : Sig × Scope × List Ev} (h : FRel (d :: Dr) (x :: Xr) ⟨d, x⟩ o r q) : Rel Dr Xr o r q := by
  obtain ⟨h1, hD, hX, hsc, ho⟩ := h
  refine ⟨h1, d, x, hD, hX, ?_, ?_⟩
  · intro _ hoof
    rw [hsc]; exact ⟨rfl, rfl, ho hoof⟩
  · intro hret
    rw [ho (by rw [hret]; decide), hsc]
    simp [pending, exitScope]

theorem Rel_append {Dr Xr : List (List Nat)} {o e1 : List Ev} {r : Sig × St}
    {q : Sig × Scope × List Ev} (h : Rel Dr Xr (o ++ e1) r q) :
    Rel Dr Xr o r (q.1, q.2.1, e1 ++ q.2.2) := by
  obtain ⟨h1, d', x', hD, hX, hn, hr⟩ := h
  refine ⟨h1, d', x', hD, hX, ?_, ?_⟩
  · intro a b
    simpa [List.append_assoc] using hn a b
  · intro a
    simpa [List.append_assoc] using hr a

theorem FRel_append {D X : List (List Nat)} {sc : Scope} {o e1 : List Ev} {r : Sig × St}
    {q : Sig × Scope × List Ev} (h : FRel D X sc (o ++ e1) r q) :
    FRel D X sc o r (q.1, q.2.1, e1 ++ q.2.2) := by
  obtain ⟨h1, hD, hX, hsc, ho⟩ := h
  exact ⟨h1, hD, hX, hsc, fun a => by simpa [List.append_assoc] using ho a⟩

theorem exec_ok_zero (fs : Funcs) : ExecOK fs 0 := by
  intro sk d x Dr Xr o
  simp [Rel, exec, sexec]

theorem list_ok_zero (fs : Funcs) : ListOK fs 0 := by
  intro sk d x Dr Xr o
  simp [Rel, execList, sexecList]

theorem iter_ok_zero (fs : Funcs) : IterOK fs 0 := by
  intro n body D X o sc
  simp [FRel, iter, siter]

theorem exec_ok_succ {fs : Funcs} {fuel : Nat} (hE : ExecOK fs fuel) (hL : ListOK fs fuel)
    (hI : IterOK fs fuel) : ExecOK fs (fuel+1) := by
  intro sk d x Dr Xr o
  cases sk with
  | obj id => simp [Rel, exec, sexec, addTop]
  | defer id => simp [Rel, exec, sexec, addTop]
  | mark id => simp [Rel, exec, sexec]
  | block body => exact Rel_of_FRel (block_ok_succ hL body _ _ o _)
  | ifS taken body =>
    cases taken with
    | true => simpa [exec, sexec] using hE (.block body) d x Dr Xr o
    | false => simp [Rel, exec, sexec]
  | loop n body =>
    rw [exec_loop, sexec_loop]
    have H := hI n body ([] :: d :: Dr) (x :: Xr) o ⟨d, x⟩
    apply Rel_of_FRel
    obtain ⟨h1, hD, hX, hsc, ho⟩ := H
    refine ⟨h1, ?_, ?_, hsc, ?_⟩
    · simp [popDefer, hD]
    · simp only [popDefer, hD]; exact hX
    · intro a; simp only [popDefer, hD]
      simpa [runDefers] using ho a
  | call f => exact Rel_of_FRel (call_ok_succ hL f _ _ o _)
  | ret => simp [Rel, exec, sexec, preReturn, pending, exitScope, runDefers, runDtors]
  | brk => simp [Rel, exec, sexec]
  | cont => simp [Rel, exec, sexec]


theorem list_ok_succ {fs : Funcs} {fuel : Nat} (hE : ExecOK fs fuel) (hL : ListOK fs fuel) :
    ListOK fs (fuel+1) := by
  intro l d x Dr Xr o
  cases l with
  | nil => simp [Rel, execList, sexecList]
  | cons sk rest =>
    have H := hE sk d x Dr Xr o
    rw [execList.eq_3, sexecList.eq_3]
    generalize exec fs fuel sk _ = r at H ⊢
    generalize sexec fs fuel sk _ = q at H ⊢
    obtain ⟨sg, D1, X1, o1⟩ := r
    obtain ⟨sg', ⟨d1, x1⟩, e1⟩ := q
    have H' := H
    obtain ⟨h1, d', x', hD, hX, hn, hr⟩ := H'
    simp only at h1 hD hX hn hr
    subst h1 hD hX
    cases sg with
    | norm =>
      obtain ⟨rfl, rfl, rfl⟩ := hn (by decide) (by decide)
      exact Rel_append (hL rest _ _ Dr Xr (o ++ e1))
    | ret => exact H
    | brk => exact H
    | cont => exact H
    | oof => exact H

theorem iter_ok_succ {fs : Funcs} {fuel : Nat} (hB : BlockOK fs fuel) (hI : IterOK fs fuel) :
    IterOK fs (fuel+1) := by
  intro n body D X o sc
  cases n with
  | zero => simp [FRel, iter, siter]
  | succ n =>
    have H := hB body D X o sc
    rw [iter.eq_3, siter.eq_3]
    generalize exec fs fuel (.block body) _ = r at H ⊢
    generalize sexec fs fuel (.block body) _ = q at H ⊢
    obtain ⟨sg, D1, X1, o1⟩ := r
    obtain ⟨sg', sc1, e1⟩ := q
    have H' := H
    obtain ⟨h1, hD, hX, hsc, ho⟩ := H'
    simp only at h1 hD hX hsc ho
    subst h1 hD hX hsc
    cases sg with
    | norm =>
      obtain rfl := ho (by decide)
      exact FRel_append (hI n body _ _ (o ++ e1) _)
    | cont =>
      obtain rfl := ho (by decide)
      exact FRel_append (hI n body _ _ (o ++ e1) _)
    | brk =>
      obtain rfl := ho (by decide)
      simp [FRel]
    | ret => exact H
    | oof => exact H

theorem all_ok (fs : Funcs) (fuel : Nat) :
    ExecOK fs fuel ∧ ListOK fs fuel ∧ IterOK fs fuel ∧ BlockOK fs fuel ∧ CallOK fs fuel := by
  induction fuel with
  | zero => exact ⟨exec_ok_zero fs, list_ok_zero fs, iter_ok_zero fs, block_ok_zero fs, call_ok_zero fs⟩
  | succ fuel ih =>
    obtain ⟨hE, hL, hI, hB, _⟩ := ih
    exact ⟨exec_ok_succ hE hL hI, list_ok_succ hE hL, iter_ok_succ hB hI, block_ok_succ hL,
      call_ok_succ hL⟩

/-- One statement, executed by the mechanism on top of arbitrary enclosing frames `Dr`, `Xr`, versus the
    specification run in the scope `⟨d, x⟩`:
    * same signal;
    * the enclosing frames are untouched and the depth is restored (stacks balanced);
    * unless the statement returns, the innermost frames hold exactly the scope's registrations and the
      output grew by exactly the specification's events;
    * when it returns, output plus what the innermost frames still owe equals the specification's events
      plus the scope's exit events (the pre-return cleanup only moves the innermost scope's exit earlier). -/
theorem exec_refines (fs : Funcs) (fuel : Nat) (sk : Sk) (d x : List Nat) (Dr Xr : List (List Nat))
    (o : List Ev) :
    let r := exec fs fuel sk ⟨d :: Dr, x :: Xr, o⟩
    let q := sexec fs fuel sk ⟨d, x⟩
    r.1 = q.1 ∧ ∃ d' x', r.2.D = d' :: Dr ∧ r.2.X = x' :: Xr ∧
      (r.1 ≠ .ret → r.1 ≠ .oof → d' = q.2.1.defers ∧ x' = q.2.1.objs ∧ r.2.out = o ++ q.2.2) ∧
      (r.1 = .ret → r.2.out ++ pending d' x' = o ++ q.2.2 ++ exitScope q.2.1) :=
  (all_ok fs fuel).1 sk d x Dr Xr o

/-- **Whole programs.**  If the run finishes, the mechanism's trace IS the specification's trace, and both
    stacks are empty again. -/
theorem run_refines_spec (fs : Funcs) (fuel : Nat) (h : (run fs fuel).1 ≠ .oof) :
    (run fs fuel).1 = (srun fs fuel).1 ∧ (run fs fuel).2.out = (srun fs fuel).2 ∧
    (run fs fuel).2.D = [] ∧ (run fs fuel).2.X = [] := by
  obtain ⟨h1, hD, hX, _, ho⟩ := (all_ok fs fuel).2.2.2.2 0 [] [] [] ⟨[], []⟩
  refine ⟨h1, ?_, hD, hX⟩
  have := ho h
  simp only [List.nil_append] at this
  exact this


/-! ### the specification destroys every object exactly once -/

def cD (id : Nat) (evs : List Ev) : Nat := (evs.filter (· == Ev.dtor id)).length
def cC (id : Nat) (evs : List Ev) : Nat := (evs.filter (· == Ev.ctor id)).length

@[simp] theorem cD_nil (id : Nat) : cD id [] = 0 := rfl
@[simp] theorem cC_nil (id : Nat) : cC id [] = 0 := rfl
@[simp] theorem cD_append (id : Nat) (a b : List Ev) : cD id (a ++ b) = cD id a + cD id b := by
  simp [cD]
@[simp] theorem cC_append (id : Nat) (a b : List Ev) : cC id (a ++ b) = cC id a + cC id b := by
  simp [cC]

theorem beq_dtor (a b : Nat) : (Ev.dtor a == Ev.dtor b) = (a == b) := rfl
theorem beq_ctor (a b : Nat) : (Ev.ctor a == Ev.ctor b) = (a == b) := rfl

@[simp] theorem cD_runDefers (id : Nat) (l : List Nat) : cD id (runDefers l) = 0 := by
  induction l with
  | nil => rfl
  | cons a l ih =>
    have : runDefers (a :: l) = runDefers l ++ [Ev.dfr a] := by simp [runDefers]
    rw [this, cD_append, ih]; rfl
@[simp] theorem cC_runDefers (id : Nat) (l : List Nat) : cC id (runDefers l) = 0 := by
  induction l with
  | nil => rfl
  | cons a l ih =>
    have : runDefers (a :: l) = runDefers l ++ [Ev.dfr a] := by simp [runDefers]
    rw [this, cC_append, ih]; rfl
@[simp] theorem cC_runDtors (id : Nat) (l : List Nat) : cC id (runDtors l) = 0 := by
  induction l with
  | nil => rfl
  | cons a l ih =>
    have : runDtors (a :: l) = runDtors l ++ [Ev.dtor a] := by simp [runDtors]
    rw [this, cC_append, ih]; rfl
@[simp] theorem cD_runDtors (id : Nat) (l : List Nat) : cD id (runDtors l) = l.count id := by
  induction l with
  | nil => rfl
  | cons a l ih =>
    have : runDtors (a :: l) = runDtors l ++ [Ev.dtor a] := by simp [runDtors]
    rw [this, cD_append, ih, List.count_cons]
    simp only [cD, List.filter_cons, beq_dtor, List.filter_nil]
    by_cases h : (a == id) = true <;> simp [h]

@[simp] theorem cD_exitScope (id : Nat) (sc : Scope) : cD id (exitScope sc) = sc.objs.count id := by
  simp [exitScope]
@[simp] theorem cC_exitScope (id : Nat) (sc : Scope) : cC id (exitScope sc) = 0 := by
  simp [exitScope]

def Cnt (id : Nat) (sc : Scope) (q : Sig × Scope × List Ev) : Prop :=
  q.1 ≠ .oof → cD id q.2.2 + q.2.1.objs.count id = cC id q.2.2 + sc.objs.count id


@[simp] theorem cD_single_ctor (id a : Nat) : cD id [Ev.ctor a] = 0 := rfl
@[simp] theorem cD_single_mark (id a : Nat) : cD id [Ev.mark a] = 0 := rfl
@[simp] theorem cC_single_mark (id a : Nat) : cC id [Ev.mark a] = 0 := rfl

theorem cC_single_ctor (id a : Nat) : cC id [Ev.ctor a] = if a == id then 1 else 0 := by
  simp only [cC, List.filter_cons, beq_ctor, List.filter_nil]
  by_cases h : (a == id) = true <;> simp [h]

def SExecOK (fs : Funcs) (id fuel : Nat) : Prop := ∀ sk sc, Cnt id sc (sexec fs fuel sk sc)
def SListOK (fs : Funcs) (id fuel : Nat) : Prop := ∀ l sc, Cnt id sc (sexecList fs fuel l sc)
def SIterOK (fs : Funcs) (id fuel : Nat) : Prop := ∀ n body sc, Cnt id sc (siter fs fuel n body sc)

theorem Cnt_frame {fs : Funcs} {id fuel : Nat} (hL : SListOK fs id fuel) (body : List Sk) (sc : Scope)
    (h : (sexecList fs fuel body ⟨[], []⟩).1 ≠ .oof) :
    cD id ((sexecList fs fuel body ⟨[], []⟩).2.2 ++ exitScope (sexecList fs fuel body ⟨[], []⟩).2.1)
        + sc.objs.count id =
      cC id ((sexecList fs fuel body ⟨[], []⟩).2.2 ++ exitScope (sexecList fs fuel body ⟨[], []⟩).2.1)
        + sc.objs.count id := by
  have := hL body ⟨[], []⟩ h
  simp at this ⊢
  omega

theorem Cnt_append {id : Nat} {sc sc1 : Scope} {e1 : List Ev} {q : Sig × Scope × List Ev}
    (h1 : cD id e1 + sc1.objs.count id = cC id e1 + sc.objs.count id) (h2 : Cnt id sc1 q) :
    Cnt id sc (q.1, q.2.1, e1 ++ q.2.2) := by
  intro h
  have := h2 h
  simp at this ⊢
  omega

theorem sexec_cnt_succ {fs : Funcs} {id fuel : Nat} (hE : SExecOK fs id fuel) (hL : SListOK fs id fuel)
    (hI : SIterOK fs id fuel) : SExecOK fs id (fuel+1) := by
  intro sk sc
  cases sk with
  | obj a =>
    intro _
    simp [sexec, List.count_append, cC_single_ctor, List.count_singleton]
    omega
  | defer a => simp [Cnt, sexec]
  | mark a => simp [Cnt, sexec]
  | block body =>
    rw [sexec_block]
    exact fun h => Cnt_frame hL body sc h
  | ifS taken body =>
    cases taken with
    | true => simpa [sexec] using hE (.block body) sc
    | false => simp [Cnt, sexec]
  | loop n body => exact hI n body sc
  | call f =>
    cases hf : fs[f]? with
    | none => rw [sexec_call_none _ _ _ _ hf]; simp [Cnt]
    | some body =>
      rw [sexec_call_some _ _ _ _ _ hf]
      exact fun h => Cnt_frame hL body sc (callSig_ne_oof.1 h)
  | ret => simp [Cnt, sexec]
  | brk => simp [Cnt, sexec]
  | cont => simp [Cnt, sexec]

theorem slist_cnt_succ {fs : Funcs} {id fuel : Nat} (hE : SExecOK fs id fuel) (hL : SListOK fs id fuel) :
    SListOK fs id (fuel+1) := by
  intro l sc
  cases l with
  | nil => simp [Cnt, sexecList]
  | cons sk rest =>
    have H := hE sk sc
    rw [sexecList.eq_3]
    generalize sexec fs fuel sk _ = q at H ⊢
    obtain ⟨sg, sc1, e1⟩ := q
    cases sg with
    | norm => exact Cnt_append (H (by simp)) (hL rest sc1)
    | ret => exact H
    | brk => exact H
    | cont => exact H
    | oof => exact H

theorem siter_cnt_succ {fs : Funcs} {id fuel : Nat} (hE : SExecOK fs id fuel) (hI : SIterOK fs id fuel) :
    SIterOK fs id (fuel+1) := by
  intro n body sc
  cases n with
  | zero => simp [Cnt, siter]
  | succ n =>
    have H := hE (.block body) sc
    rw [siter.eq_3]
    generalize sexec fs fuel (.block body) _ = q at H ⊢
    obtain ⟨sg, sc1, e1⟩ := q
    cases sg with
    | norm => exact Cnt_append (H (by simp)) (hI n body sc1)
    | cont => exact Cnt_append (H (by simp)) (hI n body sc1)
    | brk => exact fun _ => H (by simp)
    | ret => exact H
    | oof => exact H

theorem cnt_all (fs : Funcs) (id fuel : Nat) :
    SExecOK fs id fuel ∧ SListOK fs id fuel ∧ SIterOK fs id fuel := by
  induction fuel with
  | zero =>
    refine ⟨?_, ?_, ?_⟩
    · intro sk sc; simp [Cnt, sexec]
    · intro l sc; simp [Cnt, sexecList]
    · intro n body sc; simp [Cnt, siter]
  | succ fuel ih =>
    obtain ⟨hE, hL, hI⟩ := ih
    exact ⟨sexec_cnt_succ hE hL hI, slist_cnt_succ hE hL, siter_cnt_succ hE hI⟩

/-- In the specification every constructed object is destroyed exactly once: for a finished run the number
    of `dtor id` events equals the number of `ctor id` events, for every id. -/
theorem spec_destroyed_once (fs : Funcs) (fuel : Nat) (id : Nat) (h : (srun fs fuel).1 ≠ .oof) :
    ((srun fs fuel).2.filter (· == Ev.dtor id)).length = ((srun fs fuel).2.filter (· == Ev.ctor id)).length := by
  have H := (cnt_all fs id fuel).1 (.call 0) ⟨[], []⟩ h
  have hsc : (sexec fs fuel (.call 0) ⟨[], []⟩).2.1.objs = [] := by
    cases fuel with
    | zero => rfl
    | succ fuel =>
      cases hf : fs[0]? with
      | none => rw [sexec_call_none _ _ _ _ hf]
      | some body => rw [sexec_call_some _ _ _ _ _ hf]
  rw [hsc] at H
  simp only [List.count_nil, Nat.add_zero] at H
  exact H

end CbModel.Cleanup
