#!/usr/bin/env python3
"""Translator: the precedence ladder of the expression parser -> lean/CbGen/Ladder.lean.
Reads src/frontend/recursive_parser/parsers/expression_parser.cpp (one function per binary level:
`ASTNode *left = parseNEXT(); while (check(T1) || check(T2) ...) {...}`), parseUnary's prefix operators,
and RecursiveParser::parseTernary (condition = parseLogicalOr(), both branches = parseTernary())."""
import os, re, sys

SRC = os.environ.get("CB_VERIF_SRC", "/repo")
SYM = {"TOK_OR": "||", "TOK_AND": "&&", "TOK_BIT_OR": "|", "TOK_BIT_XOR": "^", "TOK_BIT_AND": "&", "TOK_EQ": "==",
       "TOK_NE": "!=", "TOK_LT": "<", "TOK_LE": "<=", "TOK_GT": ">", "TOK_GE": ">=", "TOK_LEFT_SHIFT": "<<",
       "TOK_RIGHT_SHIFT": ">>", "TOK_PLUS": "+", "TOK_MINUS": "-", "TOK_MUL": "*", "TOK_DIV": "/", "TOK_MOD": "%",
       "TOK_NOT": "!", "TOK_BIT_NOT": "~",
       "TOK_ASSIGN": "=", "TOK_PLUS_ASSIGN": "+=", "TOK_MINUS_ASSIGN": "-=", "TOK_MUL_ASSIGN": "*=", "TOK_DIV_ASSIGN": "/=",
       "TOK_MOD_ASSIGN": "%=", "TOK_AND_ASSIGN": "&=", "TOK_OR_ASSIGN": "|=", "TOK_XOR_ASSIGN": "^=", "TOK_LSHIFT_ASSIGN": "<<=",
       "TOK_RSHIFT_ASSIGN": ">>="}


def functions(text, cls):
    """name -> body of every `ASTNode *cls::name() {...}`"""
    out = {}
    for m in re.finditer(r"ASTNode \*%s::(\w+)\(\)\s*\{" % cls, text):
        i = m.end()
        depth = 1
        while depth and i < len(text):
            depth += {"{": 1, "}": -1}.get(text[i], 0)
            i += 1
        out[m.group(1)] = text[m.end():i]
    return out


def main():
    ep = open(os.path.join(SRC, "src/frontend/recursive_parser/parsers/expression_parser.cpp")).read()
    rp = open(os.path.join(SRC, "src/frontend/recursive_parser/recursive_parser.cpp")).read()
    fs = functions(ep, "ExpressionParser")
    tern = functions(rp, "RecursiveParser").get("parseTernary")
    if tern is None or "ASTNode *condition = parseLogicalOr();" not in tern or tern.count("parseTernary()") < 2:
        raise ValueError("parseTernary: expected `condition = parseLogicalOr()` and two recursive parseTernary() calls")
    levels = []
    cur = "parseLogicalOr"
    seen = set()
    while cur != "parseUnary":
        if cur in seen or cur not in fs:
            raise ValueError("ladder: cannot follow level function %s" % cur)
        seen.add(cur)
        body = fs[cur]
        m = re.search(r"ASTNode \*left = (\w+)\(\);\s*while \((.*?)\)\s*\{(.*?)\n    \}", body, re.S)
        if not m:
            raise ValueError("ladder: %s does not have the shape `left = next(); while (check(..)) {..}`" % cur)
        nxt, cond, loop = m.group(1), m.group(2), m.group(3)
        if cond.strip() == "true":
            # `while (true) { [bool split_right_shift = check(TOK_GT) && has_split_gt_token_;]
            #                 if (!split_right_shift && !check(A) && !check(B)) { break; } ... }`
            # (the split flag only re-joins a `>>` that the lexer cut into two `>` inside generic bodies: the
            # operator consumed is still `>>`)
            nocomment = re.sub(r"//[^\n]*", "", loop)
            bm = re.search(r"if \((.*?)\)\s*\{\s*break;\s*\}", nocomment, re.S)
            if not bm:
                raise ValueError("ladder: %s: `while (true)` without a recognisable break test" % cur)
            bcond = bm.group(1)
            toks = re.findall(r"!parser_->check\(TokenType::(\w+)\)", bcond)
            rest = re.sub(r"!parser_->check\(TokenType::\w+\)|&&|\s", "", bcond)
            if rest == "!split_right_shift":
                if not re.search(r"bool split_right_shift = parser_->check\(TokenType::TOK_GT\) &&\s*parser_->has_split_gt_token_;", nocomment) \
                        or "TOK_RIGHT_SHIFT" not in toks:
                    raise ValueError("ladder: %s: split_right_shift is not the re-joined `>>`" % cur)
                rest = ""
            if not toks or rest:
                raise ValueError("ladder: unrecognised break test in %s: %s" % (cur, bcond))
        else:
            toks = re.findall(r"check\(TokenType::(\w+)\)", cond)
            if not toks or re.sub(r"parser_->check\(TokenType::\w+\)|\|\||\s", "", cond):
                raise ValueError("ladder: unrecognised loop condition in %s: %s" % (cur, cond))
        if not re.search(r"ASTNode \*right = %s\(\);" % nxt, loop):
            raise ValueError("ladder: %s does not take its right operand from %s (associativity changed?)" % (cur, nxt))
        levels.append((cur, [SYM[t] for t in toks]))
        cur = nxt
    # the assignment level: `left = parseTernary(); if (check(A1) || check(A2) ...) { ...; right = parseAssignment(); ... }`
    pa = fs.get("parseAssignment")
    if pa is None:
        raise ValueError("parseAssignment not found")
    pa_nc = re.sub(r"//[^\n]*", "", pa)
    if not re.search(r"ASTNode \*left = parseTernary\(\);", pa_nc):
        raise ValueError("parseAssignment: the left side is not taken from parseTernary()")
    am = re.search(r"\n    if \(((?:\s*parser_->check\(TokenType::TOK_\w*ASSIGN\)\s*(?:\|\|)?)+)\)\s*\{", pa_nc)
    if not am:
        raise ValueError("parseAssignment: operator test not recognised")
    assign_toks = re.findall(r"TokenType::(\w+)", am.group(1))
    if not re.search(r"ASTNode \*right = parseAssignment\(\);", pa_nc):
        raise ValueError("parseAssignment: the right side is not taken from parseAssignment() (right-associativity changed?)")
    if pa_nc.count("parseAssignment()") != 1 or pa_nc.count("parseTernary()") != 1:
        raise ValueError("parseAssignment: unexpected additional calls of parseAssignment() / parseTernary()")
    if 'parser_->error("Invalid assignment target")' not in pa_nc:
        raise ValueError("parseAssignment: the rejection of a non-lvalue target was not found")
    if "parseExpression" not in fs or not re.search(r"return parseAssignment\(\);", fs["parseExpression"]):
        raise ValueError("parseExpression does not start at parseAssignment()")
    assign_ops = [SYM[t] for t in assign_toks]
    un = fs["parseUnary"]
    m = re.search(r"if \(((?:parser_->check\(TokenType::TOK_(?:NOT|MINUS|BIT_NOT|BIT_AND|MUL)\)\s*(?:\|\|)?\s*)+)\)", un)
    if not m:
        raise ValueError("parseUnary: prefix operator test not recognised")
    unary = [SYM[t] for t in re.findall(r"TokenType::(\w+)", m.group(1))]
    out = ["/- GENERATED by tools/translate/ladder.py from expression_parser.cpp / recursive_parser.cpp — do not edit -/",
           "import CbModel.Ladder", "namespace CbGen", "",
           "/-- binary levels from the loosest to the tightest, as the parser's functions chain them:",
           "    " + " -> ".join(n for n, _ in levels) + " -> parseUnary -/",
           "def ladder : CbModel.Ladder.Table :=",
           "  { levels := [" + ", ".join("[" + ", ".join('"%s"' % s for s in ops) + "]" for _, ops in levels) + "],",
           "    unary := [" + ", ".join('"%s"' % s for s in unary) + "] }", "",
           "/-- the operators tested by parseAssignment (left = parseTernary(), right = parseAssignment()) -/",
           "def assignOps : List String := [" + ", ".join('"%s"' % s for s in assign_ops) + "]", "", "end CbGen", ""]
    new = "\n".join(out)
    dst = os.path.join(os.path.dirname(os.path.dirname(os.path.dirname(os.path.abspath(__file__)))), "lean/CbGen/Ladder.lean")
    old = open(dst).read() if os.path.exists(dst) else None
    if old != new:
        open(dst, "w").write(new)
    print("ladder: %d levels, unary %s, %d assignment operators%s" % (len(levels), unary, len(assign_ops), "" if old == new else " (updated)"))


if __name__ == "__main__":
    try:
        main()
    except Exception as e:
        print("TRANSLATOR-ERROR: %s" % e)
        sys.exit(3)
