/-
  Correctness of the precedence-ladder parser model against the grammar it implements:
  every token string that *derives* a tree (with redundant parentheses anywhere) parses to that tree.
-/
import CbModel.Ladder
namespace CbModel.Ladder

/-- levels are pairwise disjoint -/
def Table.WF (t : Table) : Prop :=
  ∀ i j s, s ∈ t.opsAt i → s ∈ t.opsAt j → i = j

/-- the grammar: `Derives t k e ts` — the tokens `ts` are an expression of parser level `k` whose tree
    is `e`.  Parentheses never appear in the tree: `paren` may be applied anywhere, any number of
    times. -/
inductive Derives (t : Table) : Nat → LExpr → List Tok → Prop where
  | atom (s : String) : Derives t (t.n + 1) (.atom s) [.atom s]
  | paren {e : LExpr} {ts : List Tok} : Derives t 0 e ts → Derives t (t.n + 1) e (.lp :: (ts ++ [.rp]))
  | un {op : String} {a : LExpr} {ts : List Tok} : op ∈ t.unary → Derives t (t.n + 1) a ts →
      Derives t (t.n + 1) (.un op a) (.op op :: ts)
  | lift {k : Nat} {e : LExpr} {ts : List Tok} : k ≤ t.n → Derives t (k + 1) e ts → Derives t k e ts
  | bin {k : Nat} {op : String} {a b : LExpr} {ta tb : List Tok} : 1 ≤ k → k ≤ t.n → op ∈ t.opsAt (k - 1) →
      Derives t k a ta → Derives t (k + 1) b tb → Derives t k (.bin op a b) (ta ++ .op op :: tb)
  | tern {c a b : LExpr} {tc ta tb : List Tok} : Derives t 1 c tc → Derives t 0 a ta → Derives t 0 b tb →
      Derives t 0 (.tern c a b) (tc ++ .q :: (ta ++ .colon :: tb))

/-! ## fuel monotonicity -/

mutual
theorem parse_mono (t : Table) : ∀ (f k : Nat) (ts : List Tok) (r : LExpr × List Tok),
    parse t f k ts = some r → parse t (f + 1) k ts = some r
  | 0, _, _, _, h => by simp [parse] at h
  | f + 1, k, ts, r, h => by
    unfold parse at h ⊢
    split at h
    · -- ternary level
      rename_i hk
      rw [if_pos hk]
      cases h1 : parse t f 1 ts with
      | none => simp [h1] at h
      | some cr =>
        obtain ⟨c, r0⟩ := cr
        rw [parse_mono t f 1 ts _ h1]
        simp only [h1] at h
        cases r0 with
        | nil => simpa using h
        | cons tk r1 =>
          cases tk with
          | q =>
            simp only at h ⊢
            cases h2 : parse t f 0 r1 with
            | none => simp [h2] at h
            | some ar =>
              obtain ⟨a, r2⟩ := ar
              rw [parse_mono t f 0 r1 _ h2]
              simp only [h2] at h
              cases r2 with
              | nil => simp at h
              | cons tk2 r3 =>
                cases tk2 with
                | colon =>
                  simp only at h ⊢
                  cases h3 : parse t f 0 r3 with
                  | none => simp [h3] at h
                  | some br =>
                    rw [parse_mono t f 0 r3 _ h3]
                    simpa [h3] using h
                | _ => simp at h
          | _ => simpa using h
    · rename_i hk
      rw [if_neg hk]
      split at h
      · rename_i hkn
        rw [if_pos hkn]
        cases h1 : parse t f (k + 1) ts with
        | none => simp [h1] at h
        | some lr =>
          obtain ⟨l, r0⟩ := lr
          rw [parse_mono t f (k + 1) ts _ h1]
          simp only [h1] at h ⊢
          exact loop_mono t f k l r0 r h
      · rename_i hkn
        rw [if_neg hkn]
        cases ts with
        | nil => simp at h
        | cons tk r0 =>
          cases tk with
          | op s =>
            simp only at h ⊢
            split at h
            · rename_i hs
              rw [if_pos hs]
              cases h1 : parse t f k r0 with
              | none => simp [h1] at h
              | some ar =>
                rw [parse_mono t f k r0 _ h1]
                simpa [h1] using h
            · simp at h
          | atom s => simpa using h
          | lp =>
            simp only at h ⊢
            cases h1 : parse t f 0 r0 with
            | none => simp [h1] at h
            | some er =>
              obtain ⟨e, r1⟩ := er
              rw [parse_mono t f 0 r0 _ h1]
              simpa [h1] using h
          | rp => simp at h
          | q => simp at h
          | colon => simp at h
theorem loop_mono (t : Table) : ∀ (f k : Nat) (l : LExpr) (ts : List Tok) (r : LExpr × List Tok),
    loop t f k l ts = some r → loop t (f + 1) k l ts = some r
  | 0, _, _, _, _, h => by simp [loop] at h
  | f + 1, k, l, ts, r, h => by
    unfold loop at h ⊢
    cases ts with
    | nil => simpa using h
    | cons tk r0 =>
      simp only at h ⊢
      cases hop : isOpAt t (k - 1) tk with
      | none => simpa [hop] using h
      | some s =>
        simp only [hop] at h ⊢
        cases h1 : parse t f (k + 1) r0 with
        | none => simp [h1] at h
        | some br =>
          obtain ⟨b, r1⟩ := br
          rw [parse_mono t f (k + 1) r0 _ h1]
          simp only [h1] at h ⊢
          exact loop_mono t f k _ r1 r h
end

theorem parse_mono_le (t : Table) {f f' k : Nat} {ts : List Tok} {r : LExpr × List Tok}
    (h : parse t f k ts = some r) (hle : f ≤ f') : parse t f' k ts = some r := by
  induction hle with
  | refl => exact h
  | step _ ih => exact parse_mono t _ k ts r ih

theorem loop_mono_le (t : Table) {f f' k : Nat} {l : LExpr} {ts : List Tok} {r : LExpr × List Tok}
    (h : loop t f k l ts = some r) (hle : f ≤ f') : loop t f' k l ts = some r := by
  induction hle with
  | refl => exact h
  | step _ ih => exact loop_mono t _ k l ts r ih

/-! ## stop conditions -/

/-- the head of `R` is not a binary operator of table level `j` or tighter -/
def noOpFrom (t : Table) (j : Nat) (R : List Tok) : Prop :=
  ∀ s r, R = .op s :: r → ∀ i, j ≤ i → s ∉ t.opsAt i

/-- the head of `R` continues no expression at all -/
def StopAll (t : Table) (R : List Tok) : Prop := noOpFrom t 0 R ∧ ∀ r, R ≠ .q :: r

theorem noOpFrom_mono {t : Table} {j j' : Nat} {R : List Tok} (h : noOpFrom t j R) (hle : j ≤ j') :
    noOpFrom t j' R := fun s r hR i hi => h s r hR i (Nat.le_trans hle hi)

theorem loop_stop (t : Table) (f k : Nat) (e : LExpr) (R : List Tok)
    (h : ∀ s r, R = .op s :: r → s ∉ t.opsAt (k - 1)) : loop t (f + 1) k e R = some (e, R) := by
  unfold loop
  cases R with
  | nil => rfl
  | cons tk r =>
    simp only
    have : isOpAt t (k - 1) tk = none := by
      unfold isOpAt
      cases tk with
      | op s => simp [h s r rfl]
      | _ => rfl
    rw [this]

theorem loop_step (t : Table) (f k : Nat) (l : LExpr) (s : String) (r : List Tok)
    (hs : s ∈ t.opsAt (k - 1)) :
    loop t (f + 1) k l (.op s :: r) =
      match parse t f (k + 1) r with
      | some (b, r1) => loop t f k (.bin s l b) r1
      | none => none := by
  conv => lhs; unfold loop
  simp only [isOpAt, hs, ↓reduceIte]
  cases parse t f (k + 1) r with
  | none => rfl
  | some p => cases p; rfl

theorem opsAt_top (t : Table) : t.opsAt t.n = [] := by
  simp [Table.opsAt, Table.n]

/-- at the unary/primary level the loop has nothing to consume -/
theorem loop_top (t : Table) (f : Nat) (e : LExpr) (R : List Tok) (r : LExpr × List Tok)
    (h : loop t f (t.n + 1) e R = some r) : r = (e, R) := by
  cases f with
  | zero => simp [loop] at h
  | succ f =>
    rw [loop_stop t f (t.n + 1) e R (by intro s r _; simp [opsAt_top])] at h
    exact (Option.some.inj h).symm

theorem parse_level (t : Table) (f k : Nat) (ts : List Tok) (h1 : 1 ≤ k) (h2 : k ≤ t.n) :
    parse t (f + 1) k ts =
      match parse t f (k + 1) ts with
      | none => none
      | some (l, r) => loop t f k l r := by
  conv => lhs; unfold parse
  rw [if_neg (by omega), if_pos h2]
  cases parse t f (k + 1) ts with
  | none => rfl
  | some p => cases p; rfl

/-! ## the parser accepts every derivation and returns its tree -/

/-- what the induction proves at each level -/
def Goal (t : Table) (k : Nat) (e : LExpr) (ts : List Tok) : Prop :=
  (k = 0 → ∀ R, StopAll t R → ∃ f, parse t f 0 (ts ++ R) = some (e, R)) ∧
  (1 ≤ k → ∀ R r, noOpFrom t k R → (∃ f, loop t f k e R = some r) → ∃ f, parse t f k (ts ++ R) = some r)

theorem derives_level_le {t : Table} {k : Nat} {e : LExpr} {ts : List Tok} (h : Derives t k e ts) :
    k ≤ t.n + 1 := by
  induction h with
  | atom => exact Nat.le_refl _
  | paren => exact Nat.le_refl _
  | un => exact Nat.le_refl _
  | lift hk => omega
  | bin _ hk => omega
  | tern => omega

theorem derives_goal (t : Table) (hwf : t.WF) {k : Nat} {e : LExpr} {ts : List Tok}
    (h : Derives t k e ts) : Goal t k e ts := by
  induction h with
  | atom s =>
    refine ⟨by omega, ?_⟩
    intro _ R r _ ⟨f, hf⟩
    have := loop_top t f _ R r hf
    subst this
    refine ⟨1, ?_⟩
    unfold parse
    rw [if_neg (by omega), if_neg (by omega)]
    rfl
  | @paren e ts _ ih =>
    refine ⟨by omega, ?_⟩
    intro _ R r _ ⟨f, hf⟩
    have := loop_top t f _ R r hf
    subst this
    obtain ⟨f0, h0⟩ := ih.1 rfl (.rp :: R)
      ⟨by intro s r hR; simp at hR, by intro r hR; simp at hR⟩
    refine ⟨f0 + 1, ?_⟩
    unfold parse
    rw [if_neg (by omega), if_neg (by omega)]
    simp only [List.cons_append, List.append_assoc, List.singleton_append, List.nil_append]
    rw [h0]
  | @un op a ts hop _ ih =>
    refine ⟨by omega, ?_⟩
    intro hk R r _ ⟨f, hf⟩
    have := loop_top t f _ R r hf
    subst this
    have hnone : noOpFrom t (t.n + 1) R := by
      intro s r _ i hi
      have h0 : t.levels[i]? = none := List.getElem?_eq_none (by unfold Table.n at hi; omega)
      simp [Table.opsAt, List.getD_eq_getElem?_getD, h0]
    obtain ⟨f0, h0⟩ := ih.2 hk R (a, R) hnone
      ⟨1, loop_stop t 0 _ a R (by intro s r _; simp [opsAt_top])⟩
    refine ⟨f0 + 1, ?_⟩
    unfold parse
    rw [if_neg (by omega), if_neg (by omega)]
    simp only [List.cons_append, hop, ↓reduceIte, h0]
  | @lift k e ts hk _ ih =>
    constructor
    · intro hk0 R hR
      subst hk0
      -- parse 1 returns (e, R): the level-1 loop stops at R
      obtain ⟨f1, h1⟩ := ih.2 (Nat.le_refl 1) R (e, R) (noOpFrom_mono hR.1 (Nat.zero_le _))
        ⟨1, loop_stop t 0 1 e R (fun s r hs => hR.1 s r hs 0 (Nat.le_refl _))⟩
      refine ⟨f1 + 1, ?_⟩
      unfold parse
      rw [if_pos rfl, h1]
      cases R with
      | nil => rfl
      | cons tk r =>
        cases tk with
        | q => exact absurd rfl (hR.2 r)
        | _ => rfl
    · intro hk1 R r hR ⟨f, hf⟩
      obtain ⟨f1, h1⟩ := ih.2 (by omega) R (e, R) (noOpFrom_mono hR (Nat.le_succ _))
        ⟨1, loop_stop t 0 (k + 1) e R (fun s r hs => by
          have := hR s r hs k (Nat.le_refl _); simpa using this)⟩
      refine ⟨max f1 f + 1, ?_⟩
      rw [parse_level t _ k _ hk1 hk, parse_mono_le t h1 (Nat.le_max_left _ _)]
      exact loop_mono_le t hf (Nat.le_max_right _ _)
  | @bin k op a b ta tb hk1 hkn hop _ _ iha ihb =>
    refine ⟨by omega, ?_⟩
    intro _ R r hR ⟨f, hf⟩
    -- the right operand: parse (k+1) (tb ++ R) = (b, R)
    obtain ⟨fb, hb⟩ := ihb.2 (by omega) R (b, R) (noOpFrom_mono hR (Nat.le_succ _))
      ⟨1, loop_stop t 0 (k + 1) b R (fun s r hs => by
        have := hR s r hs k (Nat.le_refl _); simpa using this)⟩
    -- so the loop from `a` over `op :: tb ++ R` reaches the loop from `bin op a b` over R
    have hloop : loop t (max fb f + 1) k a (.op op :: (tb ++ R)) = some r := by
      rw [loop_step t _ k a op _ hop, parse_mono_le t hb (Nat.le_max_left _ _)]
      exact loop_mono_le t hf (Nat.le_max_right _ _)
    have hstop : noOpFrom t k (.op op :: (tb ++ R)) := by
      intro s r' hs i hi hmem
      simp only [List.cons.injEq, Tok.op.injEq] at hs
      obtain ⟨rfl, _⟩ := hs
      have := hwf (k - 1) i _ hop hmem
      omega
    obtain ⟨fa, ha⟩ := iha.2 hk1 (.op op :: (tb ++ R)) r hstop ⟨_, hloop⟩
    exact ⟨fa, by simpa [List.append_assoc] using ha⟩
  | @tern c a b tc ta tb _ _ _ ihc iha ihb =>
    refine ⟨?_, by omega⟩
    intro _ R hR
    obtain ⟨fb, hb⟩ := ihb.1 rfl R hR
    obtain ⟨fa, ha⟩ := iha.1 rfl (.colon :: (tb ++ R))
      ⟨by intro s r hs; simp at hs, by intro r hs; simp at hs⟩
    obtain ⟨fc, hc⟩ := ihc.2 (Nat.le_refl 1) (.q :: (ta ++ .colon :: (tb ++ R))) (c, _)
      (by intro s r hs; simp at hs)
      ⟨1, loop_stop t 0 1 c _ (by intro s r hs; simp at hs)⟩
    refine ⟨max fc (max fa fb) + 1, ?_⟩
    unfold parse
    rw [if_pos rfl]
    simp only [List.append_assoc, List.cons_append]
    rw [parse_mono_le t hc (Nat.le_max_left _ _)]
    simp only
    rw [parse_mono_le t ha (Nat.le_trans (Nat.le_max_left _ _) (Nat.le_max_right _ _))]
    simp only
    rw [parse_mono_le t hb (Nat.le_trans (Nat.le_max_right _ _) (Nat.le_max_right _ _))]

/-- **Main theorem.**  A complete expression, however redundantly parenthesised, parses to its tree. -/
theorem parse_of_derives (t : Table) (hwf : t.WF) {e : LExpr} {ts : List Tok} (h : Derives t 0 e ts) :
    ∃ f, parse t f 0 ts = some (e, []) := by
  obtain ⟨f, hf⟩ := (derives_goal t hwf h).1 rfl []
    ⟨by intro s r hs; simp at hs, by intro r hs; simp at hs⟩
  exact ⟨f, by simpa using hf⟩

/-- the result does not depend on the fuel once there is enough of it -/
theorem parse_fuel_independent (t : Table) {f f' k : Nat} {ts : List Tok} {r r' : LExpr × List Tok}
    (h : parse t f k ts = some r) (h' : parse t f' k ts = some r') : r = r' := by
  have h1 := parse_mono_le t h (Nat.le_max_left f f')
  have h2 := parse_mono_le t h' (Nat.le_max_right f f')
  rw [h1] at h2
  exact Option.some.inj h2

end CbModel.Ladder

namespace CbModel.Ladder

/-! ## the printers produce derivations -/

/-- every operator of the tree is in the table -/
def WFE (t : Table) : LExpr → Prop
  | .atom _ => True
  | .un op a => op ∈ t.unary ∧ WFE t a
  | .bin op a b => (∃ i, i < t.n ∧ op ∈ t.opsAt i) ∧ WFE t a ∧ WFE t b
  | .tern c a b => WFE t c ∧ WFE t a ∧ WFE t b

theorem lift_to {t : Table} {l : Nat} {e : LExpr} {ts : List Tok} (h : Derives t l e ts) :
    ∀ k, k ≤ l → Derives t k e ts := by
  have hl := derives_level_le h
  have key : ∀ d k, l = k + d → Derives t k e ts := by
    intro d
    induction d generalizing l with
    | zero => intro k hk; simp at hk; subst hk; exact h
    | succ d ih =>
      intro k hk
      have h' : Derives t (k + d) e ts := Derives.lift (by omega) (by rw [show k + d + 1 = l by omega]; exact h)
      exact ih h' (derives_level_le h') k rfl
  intro k hk
  exact key (l - k) k (by omega)

theorem paren_to {t : Table} {e : LExpr} {ts : List Tok} (h : Derives t 0 e ts) (k : Nat) (hk : k ≤ t.n + 1) :
    Derives t k e (.lp :: (ts ++ [.rp])) :=
  lift_to (Derives.paren h) k hk

theorem levelOf_bin {t : Table} {op : String} {a b : LExpr} (h : ∃ i, i < t.n ∧ op ∈ t.opsAt i) :
    1 ≤ levelOf t (.bin op a b) ∧ levelOf t (.bin op a b) ≤ t.n ∧
    op ∈ t.opsAt (levelOf t (.bin op a b) - 1) := by
  obtain ⟨i, hi, hmem⟩ := h
  have hlt : i < t.levels.length := hi
  have hget : ∀ j (hj : j < t.levels.length), t.opsAt j = t.levels[j] := by
    intro j hj
    simp [Table.opsAt, List.getD_eq_getElem?_getD, List.getElem?_eq_getElem hj]
  cases hf : opLevel t op with
  | none =>
    exfalso
    unfold opLevel at hf
    rw [List.findIdx?_eq_none_iff] at hf
    have := hf (t.levels[i]) (List.getElem_mem hlt)
    rw [hget i hlt] at hmem
    simp [hmem] at this
  | some j =>
    have hlev : levelOf t (.bin op a b) = j + 1 := by simp only [levelOf, hf]
    rw [hlev]
    unfold opLevel at hf
    rw [List.findIdx?_eq_some_iff_getElem] at hf
    obtain ⟨hj, hjm, _⟩ := hf
    refine ⟨by omega, by unfold Table.n; omega, ?_⟩
    simp only [Nat.add_sub_cancel]
    rw [hget j hj]
    simpa using hjm

theorem printMin_derives (t : Table) (e : LExpr) (hw : WFE t e) :
    ∀ k, k ≤ t.n + 1 → Derives t k e (printMin t k e) := by
  induction e with
  | atom s => intro k hk; exact lift_to (Derives.atom s) k hk
  | un op a ih =>
    intro k hk
    have hbody : Derives t (t.n + 1) (.un op a) (.op op :: printMin t (t.n + 1) a) :=
      Derives.un hw.1 (ih hw.2 _ (Nat.le_refl _))
    unfold printMin
    simp only [hk, ↓reduceIte]
    exact lift_to hbody k hk
  | bin op a b iha ihb =>
    intro k hk
    obtain ⟨hl1, hln, hmem⟩ := levelOf_bin (a := a) (b := b) hw.1
    have hbody := Derives.bin hl1 hln hmem (iha hw.2.1 _ (by omega)) (ihb hw.2.2 _ (by omega))
    unfold printMin
    simp only
    split
    · rename_i hctx
      simpa using lift_to hbody k hctx
    · have := paren_to (lift_to hbody 0 (Nat.zero_le _)) k hk
      simpa using this
  | tern c a b ihc iha ihb =>
    intro k hk
    have hbody := Derives.tern (ihc hw.1 1 (by omega)) (iha hw.2.1 0 (by omega)) (ihb hw.2.2 0 (by omega))
    unfold printMin
    simp only
    split
    · rename_i hctx; subst hctx
      simpa using hbody
    · have := paren_to hbody k hk
      simpa using this

theorem printFull_derives (t : Table) (e : LExpr) (hw : WFE t e) : Derives t 0 e (printFull t e) := by
  induction e with
  | atom s => exact lift_to (Derives.atom s) 0 (Nat.zero_le _)
  | un op a ih =>
    have hp := paren_to (ih hw.2) (t.n + 1) (Nat.le_refl _)
    have := lift_to (Derives.un hw.1 hp) 0 (Nat.zero_le _)
    simpa [printFull] using this
  | bin op a b iha ihb =>
    obtain ⟨hl1, hln, hmem⟩ := levelOf_bin (a := a) (b := b) hw.1
    have ha := paren_to (iha hw.2.1) (levelOf t (.bin op a b)) (by omega)
    have hb := paren_to (ihb hw.2.2) (levelOf t (.bin op a b) + 1) (by omega)
    have := lift_to (Derives.bin hl1 hln hmem ha hb) 0 (Nat.zero_le _)
    simpa [printFull] using this
  | tern c a b ihc iha ihb =>
    have hc := paren_to (ihc hw.1) 1 (by omega)
    have ha := paren_to (iha hw.2.1) 0 (Nat.zero_le _)
    have hb := paren_to (ihb hw.2.2) 0 (Nat.zero_le _)
    have := Derives.tern hc ha hb
    simpa [printFull] using this

end CbModel.Ladder
