/-
  C06 — objects whose value members have destructors ("compound objects").
  The harness renders an `obj n` of a skeleton in one of three forms, chosen by `n % 3`:
    0  a flat object                       (constructor prints c n, destructor prints d n)
    1  W: own destructor + two value members with destructors (ids n*100+1, n*100+2; the members'
       constructors print nothing)
    2  P: no destructor of its own, the same two members
  The reading of the property: a compound object is its members constructed first (in declaration
  order), then the object itself — all in the scope of the declaration.  `desugar` writes that reading down
  as a skeleton with flat objects only; `expand` is what the harness expects to see for the original
  skeleton; `view` is what one sees of the desugared skeleton's trace (member constructors are silent,
  a P object has no destructor of its own).  The theorem (CbProps/C06Compound.lean) says the two coincide.
  Core Lean only.
-/
import CbModel.Cleanup
namespace CbModel.Cleanup

def oform (n : Nat) : Nat := n % 3
def mem1 (n : Nat) : Nat := n * 100 + 1
def mem2 (n : Nat) : Nat := n * 100 + 2

mutual
/-- members first, then the object -/
def desugarSk : Sk → List Sk
  | .obj n => if oform n = 0 then [.obj n] else [.obj (mem1 n), .obj (mem2 n), .obj n]
  | .block b => [.block (desugarList b)]
  | .ifS t b => [.ifS t (desugarList b)]
  | .loop k b => [.loop k (desugarList b)]
  | sk => [sk]
def desugarList : List Sk → List Sk
  | [] => []
  | sk :: r => desugarSk sk ++ desugarList r
end

def desugar (fs : Funcs) : Funcs := fs.map desugarList

/-- what the harness expects for the ORIGINAL skeleton: the destructor event of a compound object is followed by
    its members' destructor events in reverse declaration order; a P object has no destructor event of its own -/
def expandEv : Ev → List Ev
  | .dtor n =>
      if oform n = 0 then [.dtor n]
      else if oform n = 1 then [.dtor n, .dtor (mem2 n), .dtor (mem1 n)]
      else [.dtor (mem2 n), .dtor (mem1 n)]
  | e => [e]

def expand (evs : List Ev) : List Ev := evs.flatMap expandEv

/-- what is visible of the DESUGARED skeleton's trace: the members' constructors print nothing (ids >= 100 are
    member ids when every object id of the skeleton is below 100), a P object has no destructor of its own -/
def visible : Ev → Bool
  | .ctor n => n < 100
  | .dtor n => !(n < 100 && oform n = 2)
  | _ => true

def view (evs : List Ev) : List Ev := evs.filter visible

mutual
/-- every object id of the skeleton is in 1..99 (the harness numbers sites from 1 and stays below 100) -/
def idsOkSk : Sk → Bool
  | .obj n => 0 < n && n < 100
  | .block b => idsOkList b
  | .ifS _ b => idsOkList b
  | .loop _ b => idsOkList b
  | _ => true
def idsOkList : List Sk → Bool
  | [] => true
  | sk :: r => idsOkSk sk && idsOkList r
end

def idsOk (fs : Funcs) : Bool := fs.all idsOkList

end CbModel.Cleanup
