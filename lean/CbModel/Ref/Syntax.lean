/-
  CbRef — abstract syntax of the sequential core fragment of Cb (the fragment the properties
  C01, C03, C04, C08, C09 quantify over).  Core Lean only.
-/
import CbModel.Render
namespace CbModel.Ref

inductive Base where
  | tiny | short | int | long | char | bool
  deriving Repr, BEq, DecidableEq, Inhabited

structure Ty where
  base : Base
  uns : Bool := false
  deriving Repr, BEq, DecidableEq, Inhabited

inductive BinOp where
  | add | sub | mul | div | mod | shl | shr | band | bor | bxor
  | lt | le | gt | ge | eq | ne | land | lor
  deriving Repr, BEq, DecidableEq, Inhabited

inductive UnOp where
  | neg | not | bnot
  deriving Repr, BEq, DecidableEq, Inhabited

inductive Expr where
  | lit (n : Int)
  | var (x : String)
  | idx (x : String) (is : List Expr)          -- a[i][j]
  | fld (x : String) (f : String)              -- s.f
  | fldIdx (x : String) (f : String) (is : List Expr)   -- s.f[i]
  | bin (op : BinOp) (a b : Expr)
  | un (op : UnOp) (a : Expr)
  | tern (c a b : Expr)
  | call (f : String) (args : List Expr)
  | incdec (pre : Bool) (inc : Bool) (lv : Expr)   -- ++x x++ --x x--   (lv is var/idx/fld)
  | paren (e : Expr)                           -- explicit redundant parentheses (C02)
  deriving Repr, Inhabited

inductive PItem where
  | str (s : String)
  | expr (e : Expr)
  | exprF (e : Expr) (sp : CbModel.Render.ISpec)     -- {e:x} {e:05d} … (interpolation only)
  deriving Repr, Inhabited

inductive Stmt where
  | decl (const : Bool) (static : Bool) (ty : Ty) (x : String) (init : Option Expr)
  | declArr (const : Bool) (ty : Ty) (x : String) (dims : List Nat) (init : Option (List Expr))
  | declStruct (sname : String) (x : String)
  | declStructInit (const : Bool) (sname : String) (x : String) (inits : List Expr)  -- S x = {f: e, …}
  | assign (lv : Expr) (e : Expr)
  | compound (op : BinOp) (lv : Expr) (e : Expr)
  | expr (e : Expr)
  | print (items : List PItem)                 -- println(a, b, "s")
  | printI (parts : List PItem)                -- println("text {e} text")
  | printF (fmt : String) (args : List PItem)  -- println("fmt %d %s", a, "s")
  | printRaw (items : List PItem)              -- print(a, b): no newline
  | ifS (c : Expr) (t : List Stmt) (e : Option (List Stmt))
  | whileS (c : Expr) (body : List Stmt)
  | forS (init : Option Stmt) (c : Expr) (upd : Option Stmt) (body : List Stmt)
  | brk
  | cont
  | ret (e : Option Expr)
  | block (ss : List Stmt)
  deriving Repr, Inhabited

structure Param where
  ty : Ty
  name : String
  dflt : Option Int := none
  const : Bool := false
  deriving Repr, Inhabited

structure Func where
  name : String
  ret : Option Ty             -- none = void
  params : List Param
  body : List Stmt
  deriving Repr, Inhabited

structure FieldDef where
  ty : Ty
  name : String
  dims : List Nat := []       -- [] = scalar
  deriving Repr, Inhabited

structure StructDef where
  name : String
  fields : List FieldDef
  deriving Repr, Inhabited

structure Prog where
  structs : List StructDef
  globals : List Stmt         -- decl / declArr / declStruct only
  funcs : List Func           -- `main` among them
  deriving Repr, Inhabited

end CbModel.Ref
