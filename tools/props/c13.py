"""C13 — match, Option/Result, `?`, try and checked preserve variants and payloads exactly.

Theorems: lean/CbProps/C13.lean (first-arm rule, non-exhaustive match fails, wildcard totality, `?` chains and
nests, try = Ok iff no error) + CbOblig.C13 (the classifier table regenerated from classify_runtime_error maps
the three documented messages to the three documented classes).
Tie: generated programs — (A) enum shapes x arm lists x scrutinee x transport mode, (B) `?` chains and nests with
the failing link at every position, (C) core expressions under try/checked (the reference semantics CbRef decides
whether the expression fails and with which class), (D) directly stated cases.  cbdriver c13 / ref predicts the
output; the interpreter must print the same.
"""
import itertools, json, os, re
import common, refrun
from common import Rng, esc
from props.refprops import all_findings

PID = "C13"
THEOREMS = {"CbProps.C13": ["CbProps.C13." + t for t in [
    "match_first_arm", "match_nonexhaustive_fails", "wildcard_is_total", "payload_preserved", "question_semantics",
    "nest_semantics", "try_ok_iff_no_error"]],
    "CbOblig.C13": ["CbOblig.C13.errClass_matches_sites"]}

INT_VALS = [0, -1, 1, 42, 2147483647, -2147483648]
LONG_VALS = [0, -7, 5000000000, -5000000000, 9223372036854775807]
STR_VALS = ["", "a", "0", "hi there", "x_y"]
MODES = ["local", "copyinit", "assign_var", "assign_ctor", "param_var", "param_ctor", "return_init", "return_direct",
         "return_param", "loop_break", "loop_continue", "fn_return", "gfn_explicit", "gfn_inferred"]
# the last three leave the matching arm by break / continue / return: exactly one arm runs and control goes where the statement says


class Shape:
    """an enum type: name as written, variant names, payload kinds ('none','int','long','string')"""
    def __init__(self, tname, vnames, kinds, decl):
        self.tname, self.vnames, self.kinds, self.decl = tname, vnames, kinds, decl

    def ctor(self, v, payload):
        if self.kinds[v] == "none":
            return "%s::%s" % (self.tname, self.vnames[v])
        return "%s::%s(%s)" % (self.tname, self.vnames[v], lit(self.kinds[v], payload))


def lit(kind, p):
    if kind == "string":
        return '"%s"' % p
    if p == -2147483648:
        return "-2147483648"
    return str(p)


def user_shape(kinds):
    names = ["V%d" % i for i in range(len(kinds))]
    decl = "enum E { %s };\n" % ", ".join(n if k == "none" else "%s(%s)" % (n, k) for n, k in zip(names, kinds))
    return Shape("E", names, list(kinds), decl)


def valued_shape(values):
    """a C-style enum with explicit member values (enum E { V0 = 1, V1 = 5, V2 }): variants are told apart by VALUE, which is
    neither the member's position nor unique to one position"""
    names = ["V%d" % i for i in range(len(values))]
    decl = "enum E { %s };\n" % ", ".join(n if v is None else "%s = %d" % (n, v) for n, v in zip(names, values))
    return Shape("E", names, ["none"] * len(values), decl)


def option_shape(t):
    return Shape("Option<%s>" % t, ["Some", "None"], [t, "none"], "")


def result_shape(t, e):
    return Shape("Result<%s, %s>" % (t, e), ["Ok", "Err"], [t, e], "")


def payload_text(kind, p):
    return {"none": ""}.get(kind, str(p))


def arm_src(sh, i, pat, tail=""):
    t = (" " + (tail % i if "%d" in tail else tail)) if tail else ""
    if pat == "_":
        return '_ => { println("arm%d");%s }' % (i, t)
    k = sh.kinds[pat]
    if k == "none":
        return '%s => { println("arm%d");%s }' % (sh.vnames[pat], i, t)
    return '%s(p%d) => { println("arm%d[", p%d, "]");%s }' % (sh.vnames[pat], i, i, i, t)


def match_src(sh, scrut, arms, ind="    ", tail=""):
    return ind + "match (%s) {\n" % scrut + "".join(ind + "    " + arm_src(sh, i, p, tail) + "\n" for i, p in enumerate(arms)) + ind + "}\n"


def render_match(sh, v, payload, arms, mode, other):
    """other = (variant, payload) of a second value used by the assign modes"""
    c = sh.ctor(v, payload)
    o = sh.ctor(*other)
    T = sh.tname
    pre = sh.decl
    body = ""
    if mode.startswith("return"):
        pre += "%s mk() {\n    return %s;\n}\n" % (T, c)
    if mode in ("param_var", "param_ctor", "return_param"):
        pre += "void show(%s x) {\n%s}\n" % (T, match_src(sh, "x", arms))
    if mode == "local":
        body = "    %s s = %s;\n" % (T, c) + match_src(sh, "s", arms)
    elif mode == "copyinit":
        body = "    %s t = %s;\n    %s s = t;\n" % (T, c, T) + match_src(sh, "s", arms)
    elif mode == "assign_var":
        body = "    %s t = %s;\n    %s s = %s;\n    s = t;\n" % (T, c, T, o) + match_src(sh, "s", arms)
    elif mode == "assign_ctor":
        body = "    %s s = %s;\n    s = %s;\n" % (T, o, c) + match_src(sh, "s", arms)
    elif mode == "param_var":
        body = "    %s t = %s;\n    show(t);\n" % (T, c)
    elif mode == "param_ctor":
        body = "    show(%s);\n" % c
    elif mode == "return_init":
        body = "    %s s = mk();\n" % T + match_src(sh, "s", arms)
    elif mode == "return_direct":
        body = match_src(sh, "mk()", arms)
    elif mode == "return_param":
        body = "    show(mk());\n"
    elif mode == "loop_break":
        body = ("    %s s = %s;\n    int n = 0;\n    while (n < 3) {\n        n = n + 1;\n" % (T, c) + match_src(sh, "s", arms, "        ", "break;") +
                "        println(\"after\", n);\n    }\n    println(\"n\", n);\n")
    elif mode == "loop_continue":
        body = ("    %s s = %s;\n    int n = 0;\n    while (n < 3) {\n        n = n + 1;\n" % (T, c) + match_src(sh, "s", arms, "        ", "continue;") +
                "        println(\"after\", n);\n    }\n    println(\"n\", n);\n")
    elif mode == "fn_return":
        pre += "int pick(%s x) {\n%s    println(\"fell\");\n    return -1;\n}\n" % (T, match_src(sh, "x", arms, "    ", "return 10 + %d;"))
        body = "    %s t = %s;\n    int rr = pick(t);\n    println(\"r\", rr);\n" % (T, c)
    elif mode in ("gfn_explicit", "gfn_inferred"):
        # the match stands in a GENERIC function (instantiated with an explicit type argument / an inferred one)
        pre += "int gpick<T>(%s x, T d) {\n%s    println(\"fell\");\n    return d;\n}\n" % (T, match_src(sh, "x", arms, "    ", "return 10 + %d;"))
        body = "    %s t = %s;\n    int rr = gpick%s(t, -1);\n    println(\"r\", rr);\n" % (T, c, "<int>" if mode == "gfn_explicit" else "")
    return pre + "int main() {\n" + body + "    println(\"END\");\n    return 0;\n}\n"


def tags_of(sh, v, payload, mode):
    """the circumstances of a case, for attributing a failure to a listed finding"""
    k = sh.kinds[v]
    t = set()
    if k == "string" and payload == "":
        t.add("str_empty")
    if k == "long" and not (-2**31 <= payload < 2**31):
        t.add("long_big")
    generic = sh.tname != "E"
    base = {"none": "unit", "string": "string"}.get(k, "num")
    t.add("%s+%s" % (mode, base))
    t.add("%s+%s+%s" % (mode, base, "generic" if generic else "user"))
    if all(x == "none" for x in sh.kinds):
        t.add("%s+allunit" % mode)
    return t


def expected_match(arm, sh, arms, v, payload, mode="local"):
    if arm == "none":
        return "", "error"
    i = int(arm)
    p = arms[i]
    line = "arm%d\n" % i if (p == "_" or sh.kinds[p] == "none") else "arm%d[ %s ]\n" % (i, payload_text(sh.kinds[p], payload))
    if mode == "loop_break":
        return line + "n 1\nEND\n", "ok"
    if mode == "loop_continue":
        return line * 3 + "n 3\nEND\n", "ok"
    if mode in ("fn_return", "gfn_explicit", "gfn_inferred"):
        return line + "r %d\nEND\n" % (10 + i), "ok"
    return line + "END\n", "ok"


def nested_payload_cases():
    """payloads that are themselves enum values (Option<Option<T> >, Option<Result<..> >): the inner value keeps variant and
    payload, and a binding named like a variable in scope hides it for the arm only"""
    SHOW = ("void show(Option<int> o) {\n    match (o) {\n        Some(n) => { println(\"  Some\", n); }\n        None => { println(\"  None\"); }\n    }\n}\n"
            "void showl(Option<long> o) {\n    match (o) {\n        Some(n) => { println(\"  SomeL\", n); }\n        None => { println(\"  NoneL\"); }\n    }\n}\n"
            "void showr(Result<int, string> x) {\n    match (x) {\n        Ok(v) => { println(\"  Ok\", v); }\n        Err(e) => { println(\"  Err\", e); }\n    }\n}\n")
    out = []
    for outer_v, inner in [(1, ("Some", 42)), (-5, ("None", None)), (7, ("Some", 0))]:
        ictor = "Option<int>::Some(%d)" % inner[1] if inner[0] == "Some" else "Option<int>::None"
        ishow = "  Some %d" % inner[1] if inner[0] == "Some" else "  None"
        for name in ("item", "fresh"):          # binding named like the variable in scope / a fresh name
            prog = (SHOW + "int main() {\n    Option<int> item = Option<int>::Some(%d);\n    Option<Option<int> > w = Option<Option<int> >::Some(%s);\n"
                    "    show(item);\n    match (w) {\n        Some(%s) => {\n            show(%s);\n        }\n        None => { println(\"wnone\"); }\n    }\n    show(item);\n"
                    "    println(\"END\");\n    return 0;\n}\n" % (outer_v, ictor, name, name))
            out.append(("opt-opt %s %s %d" % (name, inner[0], outer_v), prog, "  Some %d\n%s\n  Some %d\nEND\n" % (outer_v, ishow, outer_v)))
    # the outer value None: the arm with the binding is not taken
    out.append(("opt-opt outer-none", SHOW + "int main() {\n    Option<int> item = Option<int>::Some(3);\n    Option<Option<int> > w = Option<Option<int> >::None;\n"
                "    match (w) {\n        Some(item) => { show(item); }\n        None => { println(\"wnone\"); }\n    }\n    show(item);\n    println(\"END\");\n    return 0;\n}\n",
                "wnone\n  Some 3\nEND\n"))
    for rc, rs in [("Result<int, string>::Err(\"disk full\")", "failed disk full"), ("Result<int, string>::Ok(9)", "done 9")]:
        out.append(("opt-result nested " + rs.split()[0], SHOW + "int main() {\n    Result<int, string> r = Result<int, string>::Ok(7);\n"
                    "    Option<Result<int, string> > job = Option<Result<int, string> >::Some(%s);\n    showr(r);\n    match (job) {\n        Some(r) => {\n"
                    "            match (r) {\n                Ok(r) => { println(\"done\", r); }\n                Err(r) => { println(\"failed\", r); }\n            }\n        }\n"
                    "        None => { println(\"nojob\"); }\n    }\n    showr(r);\n    println(\"END\");\n    return 0;\n}\n" % rc,
                    "  Ok 7\n%s\n  Ok 7\nEND\n" % rs))
    out.append(("loop rebinding", SHOW + "int main() {\n    Option<int> slot = Option<int>::None;\n    for (int i = 0; i < 3; i++) {\n"
                "        Option<Option<int> > w = Option<Option<int> >::Some(Option<int>::Some(100 + i));\n        match (w) {\n            Some(slot) => { show(slot); }\n"
                "            None => { println(\"wnone\"); }\n        }\n        show(slot);\n    }\n    println(\"END\");\n    return 0;\n}\n",
                "  Some 100\n  None\n  Some 101\n  None\n  Some 102\n  None\nEND\n"))
    out.append(("long payload nested", SHOW + "int main() {\n    Option<long> lgv = Option<long>::Some(5);\n    Option<Option<long> > w = Option<Option<long> >::Some(Option<long>::Some(5000000000));\n"
                "    match (w) {\n        Some(lgv) => { showl(lgv); }\n        None => { println(\"wnone\"); }\n    }\n    showl(lgv);\n    println(\"END\");\n    return 0;\n}\n",
                "  SomeL 5000000000\n  SomeL 5\nEND\n"))
    return out


# ---------------------------------------------------------------- generators

def pick_payload(r, kind):
    if kind == "int":
        return r.choice(INT_VALS) if r.chance(70) else r.range(-100000, 100000)
    if kind == "long":
        return r.choice(LONG_VALS) if r.chance(70) else r.range(-10**12, 10**12)
    if kind == "string":
        return r.choice(STR_VALS)
    return None


def gen_match_cases(seed, n, quick):
    r = Rng(seed, 131)
    cases = []
    # exhaustive part: one fixed 3-variant shape, every arm list of length <= 3 over {V0,V1,V2,_}, every scrutinee
    sh = user_shape(["none", "int", "string"])
    pays = {0: None, 1: -2147483648, 2: "hi there"}
    syms = [0, 1, 2, "_"]
    lists = [list(c) for ln in (1, 2, 3) for c in itertools.product(syms, repeat=ln)]
    if quick:
        lists = lists[::2]
    for arms in lists:
        for v in range(3):
            cases.append((sh, v, pays[v], arms, "local", (1, 7)))
    # every mode x every payload kind x boundary payloads, arms = exhaustive in order
    shapes = [user_shape(["none", "int", "string", "long"]), user_shape(["none"]), user_shape(["none", "none", "none"]),
              valued_shape([1, 5, 10]), valued_shape([1, None, None]), valued_shape([2, 0, 1]), valued_shape([3, None, 1, None]),
              option_shape("int"), option_shape("long"), option_shape("string"),
              result_shape("int", "string"), result_shape("string", "int"), result_shape("long", "int")]
    for sh in shapes:
        for mode in MODES:
            for v, k in enumerate(sh.kinds):
                vals = {"int": INT_VALS, "long": LONG_VALS, "string": STR_VALS, "none": [None]}[k]
                if quick:
                    vals = vals[::2] if len(vals) > 2 else vals
                for p in vals:
                    ov = (v + 1) % len(sh.kinds)
                    other = (ov, pick_payload(r, sh.kinds[ov]))
                    cases.append((sh, v, p, list(range(len(sh.kinds))), mode, other))
    # random shapes / arms / modes
    for _ in range(n):
        nv = r.range(1, 5)
        kinds = [r.choice(["none", "int", "long", "string"]) for _ in range(nv)]
        sh = user_shape(kinds) if r.chance(70) else r.choice(shapes[3:7] if r.chance(30) else shapes[7:])
        nv = len(sh.kinds)
        v = r.below(nv)
        p = pick_payload(r, sh.kinds[v])
        arms = []
        for _ in range(r.range(1, nv + 1)):
            arms.append("_" if r.chance(15) else r.below(nv))
        if r.chance(50) and v not in arms and "_" not in arms:
            arms.insert(r.below(len(arms) + 1), v)
        ov = r.below(nv)
        cases.append((sh, v, p, arms, r.choice(MODES), (ov, pick_payload(r, sh.kinds[ov]))))
    return cases


def chain_program(kind, steps):
    """kind: 'rs' Result<int,string>, 'ri' Result<int,int>, 'o' Option<int>.  steps: list of ('o', v) / ('e', code)"""
    T = {"rs": "Result<int, string>", "ri": "Result<int, int>", "o": "Option<int>"}[kind]

    def ok(v):
        return "%s::%s(%s)" % (T, "Some" if kind == "o" else "Ok", v)

    def err(c):
        if kind == "o":
            return "%s::None" % T
        return "%s::Err(%s)" % (T, '"e%d"' % c if kind == "rs" else str(c))
    L = []
    for i, (t, v) in enumerate(steps):
        L.append("%s st%d() {\n    return %s;\n}\n" % (T, i, ok(v) if t == "o" else err(v)))
    L.append("%s chain() {\n    int acc = 0;\n" % T)
    for i in range(len(steps)):
        L.append("    int x%d = st%d()?;\n    println(\"m%d\");\n    acc = acc + x%d;\n" % (i, i, i, i))
    L.append("    return %s;\n}\n" % ok("acc"))
    L.append(show_fn(kind, T))
    L.append("int main() {\n    show(chain());\n    println(\"END\");\n    return 0;\n}\n")
    return "".join(L)


def show_fn(kind, T):
    if kind == "o":
        return "void show(%s r) {\n    match (r) {\n        Some(v) => { println(\"ok\", v); }\n        None => { println(\"none\"); }\n    }\n}\n" % T
    return "void show(%s r) {\n    match (r) {\n        Ok(v) => { println(\"ok\", v); }\n        Err(e) => { println(\"err\", e); }\n    }\n}\n" % T


def chain_expected(kind, line):
    st, val, n = line.split(":")
    marks = "".join("m%d\n" % i for i in range(int(n)))
    if st == "ok":
        return marks + "ok %s\nEND\n" % val
    if kind == "o":
        return marks + "none\nEND\n"
    return marks + ("err e%s\nEND\n" % val if kind == "rs" else "err %s\nEND\n" % val)


def nest_program(kind, levels, base):
    """levels outermost first: ('n', add) / ('e', code)"""
    T = {"rs": "Result<int, string>", "ri": "Result<int, int>", "o": "Option<int>"}[kind]

    def ok(v):
        return "%s::%s(%s)" % (T, "Some" if kind == "o" else "Ok", v)

    def err(c):
        if kind == "o":
            return "%s::None" % T
        return "%s::Err(%s)" % (T, '"e%d"' % c if kind == "rs" else str(c))
    d = len(levels)
    L = ["%s f%d() {\n    return %s;\n}\n" % (T, d, ok(base))]
    for i in range(d - 1, -1, -1):
        t, v = levels[i]
        if t == "e":
            L.append("%s f%d() {\n    return %s;\n}\n" % (T, i, err(v)))
        else:
            L.append("%s f%d() {\n    int v = f%d()?;\n    println(\"m%d\");\n    return %s;\n}\n" % (T, i, i + 1, d - 1 - i, ok("v + %d" % v if v >= 0 else "v - %d" % -v)))
    L.append(show_fn(kind, T))
    L.append("int main() {\n    show(f0());\n    println(\"END\");\n    return 0;\n}\n")
    return "".join(L)


def nest_expected(kind, line):
    st, val, ms = line.split(":")
    marks = "".join("m%s\n" % m for m in ms.split())
    if st == "ok":
        return marks + "ok %s\nEND\n" % val
    if kind == "o":
        return marks + "none\nEND\n"
    return marks + ("err e%s\nEND\n" % val if kind == "rs" else "err %s\nEND\n" % val)


def gen_chains(seed, n, quick):
    r = Rng(seed, 132)
    out = []
    kinds = ["rs", "ri", "o"]
    # exhaustive: depth 1..5, failing link at every position (or none)
    for kind in kinds:
        for d in range(1, 6):
            for fail in range(-1, d):
                vals = [r.choice([0, -1, 3, 7, 100, -50]) for _ in range(d)]
                steps = [("e", 40 + i) if i == fail else ("o", vals[i]) for i in range(d)]
                out.append(("chain", kind, steps, 0))
                levels = [("e", 40 + i) if i == fail else ("n", vals[i]) for i in range(d)]
                out.append(("nest", kind, levels, r.choice([0, 5, -3])))
    for _ in range(n):
        kind = r.choice(kinds)
        d = r.range(1, 5)
        steps = [("e", r.range(0, 99)) if r.chance(20) else ("o", r.range(-1000, 1000)) for _ in range(d)]
        out.append(("chain", kind, steps, 0))
        levels = [("e", r.range(0, 99)) if r.chance(15) else ("n", r.range(-1000, 1000)) for _ in range(d)]
        out.append(("nest", kind, levels, r.range(-100, 100)))
    return out


# --- try / checked over core expressions

def gen_expr(r, depth):
    k = r.below(100)
    if depth <= 0 or k < 25:
        c = r.below(100)
        if c < 35:
            return "(lit %d)" % r.choice([0, 1, 2, 3, 5, 7, -1, -4, 10, 100])
        if c < 75:
            return "(var g%d)" % r.below(4)
        return "(idx ga %s)" % gen_index(r, depth - 1)
    if k < 45:
        return "(bin %s %s %s)" % (r.choice(["div", "mod"]), gen_expr(r, depth - 1), gen_expr(r, depth - 1))
    if k < 85:
        return "(bin %s %s %s)" % (r.choice(["add", "sub", "mul"]), gen_expr(r, depth - 1), gen_expr(r, depth - 1))
    if k < 93:
        return "(idx ga %s)" % gen_index(r, depth - 1)
    return "(un neg %s)" % gen_expr(r, depth - 1)


def gen_index(r, depth):
    c = r.below(100)
    if c < 50:
        return "(lit %d)" % r.choice([0, 1, 2, 3, 4, 4, 5, -1, 7])
    if c < 75:
        return "(var g%d)" % r.below(4)
    return "(bin mod %s (lit 6))" % gen_expr(r, max(depth, 0))


def gen_try(seed, n):
    r = Rng(seed, 133)
    out = []
    for _ in range(n):
        gl = [r.choice([0, 0, 1, 2, 3, -2, 5, 9]) for _ in range(4)]
        ga = [r.range(-9, 9) for _ in range(5)]
        e = gen_expr(r, r.range(1, 4))
        sexp = ("(prog (structs) (globals %s (declarr - int ga (dims 5) (init %s))) (funcs (func t int (params) ((ret %s))) "
                "(func main int (params) ((print (e (call t))) (print (s \"END\")) (ret (lit 0))))))" % (
                    " ".join("(decl - int g%d (lit %d))" % (i, v) for i, v in enumerate(gl)),
                    " ".join("(lit %d)" % v for v in ga), e))
        out.append((sexp, r.choice(["try", "checked"])))
    return out


T_RE = re.compile(r"int t\(\) \{\n    return (.*);\n\}\n")


def try_program(source, kw):
    m = T_RE.search(source)
    if not m:
        return None
    src = source[:m.start()] + "Result<int, RuntimeError> t() {\n    return %s (%s);\n}\n" % (kw, m.group(1)) + source[m.end():]
    main = ("int main() {\n    match (t()) {\n        Ok(v) => { println(\"ok\", v); }\n        Err(e) => { println(\"err\", e); }\n    }\n"
            "    println(\"END\");\n    return 0;\n}\n")
    i = src.index("int main() {")
    return src[:i] + main


ERR_TEXT = {"divzero": ("DivisionByZeroError", "Division by zero"), "bounds": ("IndexOutOfBoundsError", "Array index out of bounds"),
            "nullptr": ("NullPointerError", "Null pointer dereference")}


def raw_cases():
    E = "enum E { A, B(int), C(string), D(long), F };\n"
    def c(cid, pre, body, out, cls="ok", finding=None):
        d = {"id": cid, "program": pre + "int main() {\n" + body + "\n    println(\"END\");\n    return 0;\n}\n", "expect_class": cls,
             "expect_stdout": out}
        if finding:
            d["finding"] = finding
        return d
    TR = "Result<int, RuntimeError> tp() {\n    int* p = nullptr;\n    return try *p;\n}\n"
    SH = "void cls(Result<int, RuntimeError> r) {\n    match (r) {\n        Ok(v) => { println(\"ok\", v); }\n        Err(e) => { println(\"err\", e); }\n    }\n}\n"
    return [
        c("try-nullptr", TR + SH, "    cls(tp());", "err NullPointerError: Null pointer dereference\nEND\n"),
        c("checked-negative-index", "Result<int, RuntimeError> ti(int i) {\n    int[3] a = [5, 6, 7];\n    return checked a[i];\n}\n" + SH,
          "    cls(ti(-1));\n    cls(ti(2));\n    cls(ti(3));", "err IndexOutOfBoundsError: Array index out of bounds\nok 7\nerr IndexOutOfBoundsError: Array index out of bounds\nEND\n"),
        c("try-continues-after-error", "Result<int, RuntimeError> td(int a, int b) {\n    return try (a / b);\n}\n" + SH,
          "    cls(td(1, 0));\n    cls(td(6, 3));\n    cls(td(1, 0));", "err DivisionByZeroError: Division by zero\nok 2\nerr DivisionByZeroError: Division by zero\nEND\n"),
        c("try-as-initialiser", SH, "    int a = 1;\n    int b = 0;\n    Result<int, RuntimeError> r = try (a / b);\n    cls(r);",
          "err DivisionByZeroError: Division by zero\nEND\n", finding="string_payload_lost_return_init"),
        c("binding-name-reused-int-then-string", E, "    E z = E::B(5);\n    match (z) {\n        B(s) => { println(\"B\", s); }\n        _ => { println(\"other\"); }\n    }\n"
          "    E y = E::C(\"str\");\n    match (y) {\n        C(s) => { println(\"C\", s); }\n        _ => { println(\"other\"); }\n    }", "B 5\nC str\nEND\n"),
        c("binding-name-reused-string-then-int", E, "    E y = E::C(\"str\");\n    match (y) {\n        C(s) => { println(\"C\", s); }\n        _ => { println(\"other\"); }\n    }\n"
          "    E z = E::B(5);\n    match (z) {\n        B(s) => { println(\"B\", s); }\n        _ => { println(\"other\"); }\n    }", "C str\nB 5\nEND\n"),
        c("binding-does-not-clobber-outer", E, "    int v = 99;\n    E z = E::B(5);\n    match (z) {\n        B(v) => { println(\"B\", v); }\n        _ => { println(\"other\"); }\n    }\n    println(v);",
          "B 5\n99\nEND\n"),
        c("nonexhaustive-stops", E, "    E f = E::F;\n    match (f) {\n        A => { println(\"A\"); }\n        B(v) => { println(\"B\"); }\n    }\n    println(\"after\");", "", cls="error"),
        c("match-in-loop-each-iteration", E, "    for (int i = 0; i < 3; i++) {\n        E x = E::B(i);\n        match (x) {\n            B(q) => { println(\"B\", q); }\n            _ => { println(\"other\"); }\n        }\n    }",
          "B 0\nB 1\nB 2\nEND\n"),
    ]


def main(a):
    v = common.Verdict(PID, a.tier, a.seed)
    common.run_translators(v, ["errclass"])
    driver_ok, failed = common.lean_obligations(v, ["CbProofs", "CbProps.C13", "CbOblig.C13"], THEOREMS)
    exe, blog = common.build_impl()
    if exe is None or not driver_ok:
        v.violation("cannot build the interpreter / driver: " + (blog or "")[-600:], {"log": (blog or "")[-2000:]}, no_input=True)
        return v.finish()
    drv = common.driver_path()
    quick = a.tier == "quick"
    findings = [f for f in all_findings() if f["property"] == PID]
    known_tags = {}
    for f in findings:
        for t in f.get("cells", []):
            known_tags[t] = f["id"]
    cell_known = {}
    reported = [0]
    nontrivial = set()
    dist = {}
    samples = []

    census = {}

    def fail(suite, what, replay, tags=()):
        if os.environ.get("CB_VERIF_CENSUS"):
            key = (suite, tuple(sorted(t for t in tags if t.count("+") != 1)))
            census.setdefault(key, []).append(what)
            return
        for t in tags:
            if t in known_tags:
                cell_known[known_tags[t]] = cell_known.get(known_tags[t], 0) + 1
                return
        if reported[0] >= 6:
            return
        reported[0] += 1
        replay["suite"] = suite
        v.violation("suite %s: %s" % (suite, what), replay)

    if a.replay:
        rp = json.load(open(a.replay))
        outs = common.run_programs(exe, [rp["program"]], timeout=10)
        o = outs[0]
        if o[0] != rp["expected_stdout"] or o[1] != rp["expected_class"]:
            v.violation("replay: expected %r (%s) got %r (%s)" % (rp["expected_stdout"][-100:], rp["expected_class"], o[0][-100:], o[1]), rp)
        return v.finish()

    # witnesses of listed findings: a witness that no longer fails is noted (the entry is then stale)
    wf = [f for f in findings if f.get("witness")]
    wp = [json.load(open(os.path.join(common.ROOT, f["witness"]))) for f in wf]
    wo = common.run_programs(exe, [w["program"] for w in wp], timeout=10)
    for f, w, o in zip(wf, wp, wo):
        if o[0] == w["expected_stdout"] and o[1] == "ok":
            common.log("  note: witness of listed finding %s no longer fails (stale entry)" % f["id"])
            v.coverage.setdefault("stale_findings", []).append(f["id"])
    # --- A: match
    mc = gen_match_cases(a.seed, 300 if quick else 60000, quick)
    lines = ["match\t%s\t%d" % (" ".join(str(p) for p in arms), vv) for (sh, vv, p, arms, mode, other) in mc]
    _, mo, _ = common.run_lines_parallel([drv, "c13"], lines)
    progs = [render_match(*c) for c in mc]
    outs = common.run_programs(exe, progs, timeout=10)
    dist["match"] = len(mc)
    for k, (c, m, o) in enumerate(zip(mc, mo, outs)):
        sh, vv, p, arms, mode, other = c
        exp, cls = expected_match(m, sh, arms, vv, p, mode)
        nontrivial.add(("match", tuple(sh.kinds), vv, tuple(arms), mode))
        if k % 97 == 0 and len(samples) < 4:
            samples.append({"suite": "match", "mode": mode, "arms": [str(x) for x in arms], "expected": exp[:60]})
        if cls == "error":
            bad = o[1] != "error" or o[0] != "" if mode not in ("loop_break", "loop_continue", "fn_return", "gfn_explicit", "gfn_inferred") else o[1] != "error"
        else:
            bad = o[0] != exp or o[1] != cls
        if bad:
            fail("match", "enum %s scrutinee %s via %s, arms %s: expected %r (%s) got %r (%s)" % (
                sh.kinds, sh.ctor(vv, p), mode, arms, exp, cls, o[0][-80:], o[1]),
                {"program": progs[k], "expected_stdout": exp, "expected_class": cls, "impl_stdout": o[0],
                 "impl_exit_class": o[1], "impl_stderr": o[2][-300:]}, tags_of(sh, vv, p, mode))
    # --- A2: enum-valued payloads and bindings that shadow a variable in scope
    nc = nested_payload_cases()
    no = common.run_programs(exe, [c[1] for c in nc], timeout=10)
    dist["nested-payload"] = len(nc)
    for (cid, prog, exp), o in zip(nc, no):
        nontrivial.add(("nested", cid))
        if o[0] != exp or o[1] != "ok":
            fail("nested-payload", "case %s: expected %r got %r (%s)" % (cid, exp, o[0][-120:], o[1]),
                 {"program": prog, "expected_stdout": exp, "expected_class": "ok", "impl_stdout": o[0], "impl_exit_class": o[1], "impl_stderr": o[2][-300:]}, set())
    # --- B: chains and nests
    ch = gen_chains(a.seed, 150 if quick else 25000, quick)
    lines = []
    for (t, kind, items, base) in ch:
        if t == "chain":
            lines.append("chain\t" + " ".join("%s%d" % (x, val) for x, val in items))
        else:
            lines.append("nest\t" + " ".join("%s:%d" % (x, val) for x, val in items) + "\t%d" % base)
    _, mo, _ = common.run_lines_parallel([drv, "c13"], lines)
    progs = [chain_program(kind, items) if t == "chain" else nest_program(kind, items, base) for (t, kind, items, base) in ch]
    outs = common.run_programs(exe, progs, timeout=10)
    dist["chains"] = len(ch)
    for k, (c, m, o) in enumerate(zip(ch, mo, outs)):
        t, kind, items, base = c
        exp = chain_expected(kind, m) if t == "chain" else nest_expected(kind, m)
        nontrivial.add((t, kind, m))
        if k % 61 == 0 and len(samples) < 8:
            samples.append({"suite": t, "kind": kind, "items": ["%s%d" % x for x in items], "expected": exp[:60]})
        if o[0] != exp or o[1] != "ok":
            fail(t, "%s %s %s: expected %r got %r (%s)" % (t, kind, items, exp, o[0][-80:], o[1]),
                 {"program": progs[k], "expected_stdout": exp, "expected_class": "ok", "impl_stdout": o[0],
                  "impl_exit_class": o[1], "impl_stderr": o[2][-300:]})
    # --- C: try / checked over core expressions
    tc = gen_try(a.seed, 250 if quick else 40000)
    res = refrun.model_run([s for s, _ in tc])
    progs, exps = [], []
    nerr = 0
    for (s, kw), r in zip(tc, res):
        prog = try_program(r.source, kw) if r.source else None
        if prog is None:
            continue
        if r.status == "exit0":
            val = r.stdout.split("\n")[0]
            exp = "ok %s\nEND\n" % val
        elif r.status in ("exit1:divzero", "exit1:bounds"):
            cls_, msg = ERR_TEXT[r.status.split(":")[1]]
            _, ml, _ = common.run_lines_parallel([drv, "c13"], ["try\t" + r.status.split(":")[1]])
            exp = "err %s: %s\nEND\n" % (ml[0], msg)
            if r.status == "exit1:divzero":
                # CbRef does not say whether `/` or `%` failed; both sites must be classified alike
                _, ml2, _ = common.run_lines_parallel([drv, "c13"], ["try\tmodzero"])
                exp = (exp, "err %s: Modulo by zero\nEND\n" % ml2[0])
            nerr += 1
        else:
            continue
        progs.append(prog)
        exps.append((exp, s, kw))
    outs = common.run_programs(exe, progs, timeout=10)
    dist["try"] = len(progs)
    for k, ((exp, s, kw), o) in enumerate(zip(exps, outs)):
        nontrivial.add(("try", exp, kw, hash(s) % 1000))
        if (o[0] not in exp if isinstance(exp, tuple) else o[0] != exp) or o[1] != "ok":
            fail("try", "%s over a core expression: expected %r got %r (%s)" % (kw, exp, o[0][-80:], o[1]),
                 {"program": progs[k], "sexp": s, "expected_stdout": exp, "expected_class": "ok", "impl_stdout": o[0],
                  "impl_exit_class": o[1], "impl_stderr": o[2][-300:]})
    # --- D: stated cases
    rc = raw_cases()
    outs = common.run_programs(exe, [c["program"] for c in rc], timeout=10)
    dist["stated"] = len(rc)
    listed = {f["id"] for f in findings}
    for c, o in zip(rc, outs):
        nontrivial.add(("stated", c["id"]))
        ok = o[1] == c["expect_class"] and (o[0] == c["expect_stdout"] or c["expect_class"] == "error")
        if ok:
            continue
        if c.get("finding") in listed:
            cell_known[c["finding"]] = cell_known.get(c["finding"], 0) + 1
            continue
        fail("stated", "case %s: expected %r (%s) got %r (%s)" % (c["id"], c["expect_stdout"], c["expect_class"], o[0][-80:], o[1]),
             {"program": c["program"], "expected_stdout": c["expect_stdout"], "expected_class": c["expect_class"],
              "impl_stdout": o[0], "impl_exit_class": o[1], "impl_stderr": o[2][-300:]})
    for key, whats in sorted(census.items()):
        common.log("CENSUS %s x%d: %s" % (key, len(whats), whats[0][:230]))
    for f in findings:
        if f["id"] in cell_known:
            v.known_finding(f["what"] + " [%d cases]" % cell_known[f["id"]])
        else:
            common.log("  note: listed finding %s did not occur in this run" % f["id"])
    v.coverage.update({
        "evaluations": sum(dist.values()), "distinct_nontrivial": len(nontrivial), "distribution": dist,
        "try_cases_with_error": nerr,
        "rule": "A: enum shapes (user enums of 1-5 variants with payload none/int/long/string, Option<T>, Result<T,E>) x arm lists "
                "(exhaustive: every list of <= 3 arms over a 3-variant enum + wildcard, every scrutinee) x 9 transport modes "
                "(local, copy-init, assignment from variable / constructor, parameter from variable / constructor, return into "
                "initialiser / match / parameter) x boundary payloads (0, -1, INT_MIN/MAX, beyond int for long, empty string); "
                "B: `?` chains (sequential) and nests (depth <= 5) over Result<int,string>, Result<int,int>, Option<int> with the "
                "failing link at every position, exhaustive + random; C: random core expressions (+ - * / % unary minus, global "
                "scalars, array elements with computed indexes) under try / checked, CbRef decides value or error class; "
                "D: stated cases (null pointer, continuation after an error, binding names). non-trivial = distinct case",
        "samples": samples, "exhaustive": not quick})
    v.assumptions += ["payload types int, long and string only (struct / nested enum payloads are not generated)",
                      "each generated program contains one match with binding names unique in the program (the stated cases "
                      "cover reuse)",
                      "try / checked operands are pure expressions over globals (no calls with side effects inside)"]
    return v.finish()
