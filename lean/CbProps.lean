import CbProps.C17
import CbProps.C05
import CbProps.C04
import CbProps.C01
import CbProps.C03
import CbProps.C08
import CbProps.C02
