/-
  C10 (partial) — a loop whose every successful step consumes input terminates within (length of the remaining
  input) iterations, by finishing or by failing — never by running on.  The hypothesis `Progress` is what the
  correspondence check observes on the real parser (CB_VERIF trace of parseProgram: the token position at the
  start of every iteration must increase strictly); memory safety and the absence of signals are NOT theorems —
  they are observed under sanitizers (see DESIGN.md §6 C10).
-/
import CbModel.Progress
namespace CbProps.C10
open CbModel.Progress

theorem loop_terminates_aux (step : Nat → Option Nat) (len : Nat) (h : Progress step len) :
    ∀ (d pos n fuel : Nat), len - pos ≤ d → d < fuel →
      ∃ k, k ≤ n + d ∧ (loop step len fuel pos n = .finished k ∨ loop step len fuel pos n = .failed k) := by
  intro d
  induction d with
  | zero =>
    intro pos n fuel hd hf
    cases fuel with
    | zero => omega
    | succ f =>
      have : len ≤ pos := by omega
      exact ⟨n, by omega, Or.inl (by simp [loop, this])⟩
  | succ d ih =>
    intro pos n fuel hd hf
    cases fuel with
    | zero => omega
    | succ f =>
      by_cases hle : len ≤ pos
      · exact ⟨n, by omega, Or.inl (by simp [loop, hle])⟩
      · cases hs : step pos with
        | none => exact ⟨n, by omega, Or.inr (by simp [loop, hle, hs])⟩
        | some q =>
          have hpq : pos < q := h pos q (by omega) hs
          obtain ⟨k, hk, hr⟩ := ih q (n + 1) f (by omega) (by omega)
          refine ⟨k, by omega, ?_⟩
          simpa [loop, hle, hs] using hr

/-- **Termination in time proportional to the input.**  With `len - pos + 1` units of fuel the loop never runs
    out: it finishes or fails after at most `len - pos` iterations -/
theorem progress_terminates (step : Nat → Option Nat) (len pos : Nat) (h : Progress step len) :
    ∃ k, k ≤ len - pos ∧
      (loop step len (len - pos + 1) pos 0 = .finished k ∨ loop step len (len - pos + 1) pos 0 = .failed k) := by
  obtain ⟨k, hk, hr⟩ := loop_terminates_aux step len h (len - pos) pos 0 (len - pos + 1) (Nat.le_refl _) (by omega)
  exact ⟨k, by omega, hr⟩

/-- the hook's observation is exactly the hypothesis: under `Progress` the visited positions increase strictly -/
theorem visited_increasing (step : Nat → Option Nat) (len : Nat) (h : Progress step len) :
    ∀ fuel pos, StrictlyIncreasing (visited step len fuel pos) := by
  intro fuel
  induction fuel with
  | zero => intro pos; simp [visited, StrictlyIncreasing]
  | succ f ih =>
    intro pos
    by_cases hle : len ≤ pos
    · simp [visited, hle, StrictlyIncreasing]
    · cases hs : step pos with
      | none => simp [visited, hle, hs, StrictlyIncreasing]
      | some q =>
        have hpq : pos < q := h pos q (by omega) hs
        have := ih q
        simp only [visited, hle, hs, if_false]
        -- visited … q starts with q (or is empty when f = 0)
        cases f with
        | zero => simp [visited, StrictlyIncreasing]
        | succ f' =>
          by_cases hle2 : len ≤ q
          · simp [visited, hle2, StrictlyIncreasing, hpq]
          · cases hs2 : step q with
            | none => simp [visited, hle2, hs2, StrictlyIncreasing, hpq]
            | some q2 =>
              simp only [visited, hle2, hs2, if_false] at this ⊢
              exact ⟨hpq, this⟩

/-- and the hypothesis cannot be dropped: a step that does not consume input makes the loop run out of any fuel -/
theorem no_progress_diverges (len : Nat) (hl : 0 < len) (fuel : Nat) :
    loop (fun p => some p) len fuel 0 0 = .outOfFuel := by
  suffices h : ∀ fuel n, loop (fun p => some p) len fuel 0 n = .outOfFuel from h fuel 0
  intro fuel
  induction fuel with
  | zero => intro n; rfl
  | succ f ih => intro n; simp [loop, Nat.not_le.mpr hl, ih]

example : Progress (fun p => if p % 3 = 2 then none else some (p + 2)) 10 := by
  intro p q _ h
  by_cases hp : p % 3 = 2 <;> simp [hp] at h
  omega

end CbProps.C10
