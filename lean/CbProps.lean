import CbProps.C17
