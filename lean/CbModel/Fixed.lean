import CbModel.Render
/-
  C16 — `{x:.Nf}`: fixed-point rendering of a floating-point value.
  Every finite double is exactly a rational num / den (den a power of two); `std::fixed << std::setprecision(N)` (and C's
  "%.Nf") print the decimal numeral with N fraction digits that is nearest to that exact value, ties to even.  The model works
  on the exact rational, so no floating-point arithmetic is involved: the harness supplies num / den of the double the
  literal denotes.  Core Lean only.
-/
namespace CbModel.Fixed
open CbModel.Render

/-- n / d rounded to the nearest natural number, ties to the even one (d > 0) -/
def roundHalfEven (n d : Nat) : Nat :=
  let q := n / d
  let r := n % d
  if 2 * r < d then q else if d < 2 * r then q + 1 else if q % 2 = 0 then q else q + 1

/-- the value scaled by 10^prec and rounded: the integer whose decimal digits are printed -/
def scaled (num den prec : Nat) : Nat := roundHalfEven (num * 10 ^ prec) den

/-- "%.{prec}f" of (-1)^neg * num / den; the sign is printed whenever the value is negative, also when it rounds to zero
    ("-0", "-0.00"), as printf does -/
def renderFixed (neg : Bool) (num den prec : Nat) : List Char :=
  let s := scaled num den prec
  (if neg then ['-'] else []) ++ renderNat (s / 10 ^ prec) ++
    (if prec = 0 then [] else '.' :: padLeft prec '0' (renderNat (s % 10 ^ prec)))

/-- reading a rendering back: (negative, integer part, fraction digits as a number, number of fraction digits) -/
def parseFixed (s : List Char) : Bool × Nat × Nat × Nat :=
  let neg := s.head? = some '-'
  let body := if neg then s.drop 1 else s
  let ip := body.takeWhile (· ≠ '.')
  let fp := (body.dropWhile (· ≠ '.')).drop 1
  (neg, parseNat ip, parseNat fp, fp.length)

end CbModel.Fixed
