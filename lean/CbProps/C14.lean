/-
  C14 — each async task runs its body once, in order; await returns exactly its result.
  Property theorems over the scheduler machine (CbModel/Sched.lean).  Statements are fixed; proofs only.
-/
import CbModel.Sched
import CbProofs.Sched
namespace CbProps.C14
open CbModel.Sched
open CbProofs.Sched

/-- **Body exactly once, in program order.**  In every reachable state, whatever the other tasks and the
    interleaving are, the lines printed so far by task `id` are exactly what the statements before its current
    statement print (each once, in order) plus the completed iterations of the loop it is in -/
theorem task_output_in_program_order (p : Prog) (c : Cfg) (h : Reach p c) (id : Nat) (hv : validId c id) :
    outsOf id c.trace = progressMarks (body p (getTask c id)) (getTask c id).idx (getTask c id).iter := by
  have hT := (reach_all p c h).2.2.2 id hv.1 hv.2
  exact hT.1

/-- … so a task that ran to the end of its body printed exactly what the body prints when run alone -/
theorem finished_task_printed_whole_body (p : Prog) (c : Cfg) (h : Reach p c) (id : Nat) (hv : validId c id)
    (hend : (getTask c id).idx = (body p (getTask c id)).length) :
    outsOf id c.trace = (body p (getTask c id)).flatMap stmtMarks := by
  rw [task_output_in_program_order p c h id hv, hend, pm_end]

/-- **A finished task never changes again**: its result, position and locals are final -/
theorem finished_is_final (p : Prog) (c c' : Cfg) (h : Reach p c) (hs : stepCfg p c = some c') (id : Nat)
    (hv : validId c id) (hf : (getTask c id).finished = true) : getTask c' id = getTask c id := by
  have hinv := reach_SInv p c h
  rw [SInv_iff] at hinv
  rw [getTask_eq] at hf ⊢
  rw [getTask_eq]
  obtain ⟨q, ts, stk, ms, mv, tr⟩ := c
  simp only [validId] at hinv hv hf ⊢
  have key : ∀ j, (j ∈ stackIds stk ∨ j ∈ q) → ∀ l t', tget (tset l j t') id = tget l id := by
    intro j hj l t'
    have := hinv.2 j hj
    refine tget_tset_ne _ _ _ _ this.1.1 hv.1 (fun e => ?_)
    subst e; simp [hf] at this
  clear hinv
  step_cases hs
  all_goals try subst_vars
  all_goals first
    | rfl
    | (simp [key, tget_append_old _ _ _ hv.1 hv.2]; done)
    | simp only [key _ (Or.inr (List.mem_cons_self ..))]

/-- **await delivers the awaited task's result**: when a task's nested wait returns, the value stored in the
    variable of the `await` statement is the result field of the awaited task at that moment -/
theorem await_in_task_delivers_result (p : Prog) (c c' : Cfg) (id target slot : Nat) (st : List Frame)
    (hs : c.stack = Frame.taskAwaitRet id target :: st) (hstmt : (body p (getTask c id))[(getTask c id).idx]? = some (.await slot))
    (hv : validId c id) (h : stepCfg p c = some c') :
    lookupVal (getTask c' id).vals slot = (getTask c target).result := by
  rw [getTask_eq] at hstmt ⊢
  rw [getTask_eq]
  obtain ⟨q, ts, stk, ms, mv, tr⟩ := c
  simp only [validId] at hs hv hstmt ⊢
  subst hs
  step_cases h
  · rename_i s hs2
    rw [hstmt] at hs2
    injection hs2 with hs2; injection hs2 with hs2; subst hs2
    rw [tget_tset_self _ _ _ (by rw [tset_length]; exact hv.2) hv.1, finTask_vals, tget_tset_self _ _ _ hv.2 hv.1]
    simp [lookupVal]
  · rename_i hs2
    exact absurd hstmt (fun e => hs2 _ e)

theorem await_in_main_delivers_result (p : Prog) (c c' : Cfg) (pc target slot : Nat) (st : List Frame)
    (hs : c.stack = Frame.mainAwaitRet pc target :: st) (hstmt : p.main[pc]? = some (.await slot))
    (h : stepCfg p c = some c') :
    lookupVal c'.mainVals slot = (getTask c target).result := by
  rw [getTask_eq]
  obtain ⟨q, ts, stk, ms, mv, tr⟩ := c
  simp only at hs ⊢
  subst hs
  step_cases h
  · rename_i s hs2
    rw [hstmt] at hs2
    injection hs2 with hs2; injection hs2 with hs2; subst hs2
    simp [lookupVal]
  · rename_i hs2
    exact absurd hstmt (fun e => hs2 _ e)

/-- non-vacuity: a concrete program (main spawns f0 and awaits it; f0 prints, loops twice, returns 7) reaches the end,
    the task printed its whole body and main got 7 -/
example :
    let p : Prog := ⟨[[.mark 1, .loop 2 [2], .ret 7]], [.spawn 0 0, .mark 9, .await 0, .show 0]⟩
    let c := run p 200
    c.stack = [] ∧ outsOf 1 c.trace = [1, 2, 2] ∧ c.trace.contains (.got 0 7) = true := by
  decide

end CbProps.C14
