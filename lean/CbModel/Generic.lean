/-
  C11 — the instantiation cache of generic functions.
  `keyL` mirrors generate_cache_key (generic_instantiation.cpp): name ++ "<" ++ args joined by "," ++ ">".
  `use` mirrors the call site: look the key up, instantiate and store on a miss.  Strings are `List Char`.
  Core Lean only.
-/
namespace CbModel.Generic

abbrev Str := List Char

/-- the three punctuation characters of the key format (the translator checks them against the C++) -/
structure KeyFormat where
  opn : Char
  sep : Char
  cls : Char
  deriving Repr, DecidableEq

def stdFormat : KeyFormat := ⟨'<', ',', '>'⟩

def joinSep (sep : Char) : List Str → Str
  | [] => []
  | [a] => a
  | a :: b :: r => a ++ sep :: joinSep sep (b :: r)

def keyL (name : Str) (args : List Str) : Str :=
  name ++ '<' :: (joinSep ',' args ++ ['>'])

/-- a type argument is well formed when its angle brackets are balanced and it has no comma outside them
    (`int`, `Box<int>`, `Pair<int,long>`; not `Pair<int` and not `int,long`) -/
def balanced : Str → Nat → Bool
  | [], d => d == 0
  | '<' :: r, d => balanced r (d + 1)
  | '>' :: r, d => d > 0 && balanced r (d - 1)
  | ',' :: r, d => d > 0 && balanced r d
  | _ :: r, d => balanced r d

def WFArg (a : Str) : Prop := a ≠ [] ∧ balanced a 0 = true
def WFName (n : Str) : Prop := '<' ∉ n

/-! ## the cache -/

abbrev Cache (Code : Type) := List (Str × Code)

def lookup {Code : Type} (c : Cache Code) (k : Str) : Option Code :=
  match c with
  | [] => none
  | (k', v) :: r => if k' = k then some v else lookup r k

/-- one generic call: returns the code that will be executed and the cache afterwards -/
def use {Code : Type} (inst : Str → List Str → Code) (c : Cache Code) (name : Str) (args : List Str) :
    Cache Code × Code :=
  match lookup c (keyL name args) with
  | some code => (c, code)
  | none => let code := inst name args; ((keyL name args, code) :: c, code)

/-- a history of generic calls, returning the code executed by each -/
def run {Code : Type} (inst : Str → List Str → Code) : Cache Code → List (Str × List Str) → List Code
  | _, [] => []
  | c, (n, as) :: r => let (c', code) := use inst c n as; code :: run inst c' r

end CbModel.Generic
