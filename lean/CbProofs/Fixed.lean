import CbModel.Fixed
import CbProofs.Render
/- helper lemmas for CbProps/C16Fixed.lean -/
namespace CbProofs.Fixed
open CbModel.Fixed CbModel.Render

/-! ## rounding -/

/-- decomposition used by all rounding lemmas -/
theorem rhe_cases (n d : Nat) (hd : 0 < d) :
    ∃ q r, n = d * q + r ∧ r < d ∧ n / d = q ∧ n % d = r ∧
      roundHalfEven n d = (if 2 * r < d then q else if d < 2 * r then q + 1 else if q % 2 = 0 then q else q + 1) := by
  refine ⟨n / d, n % d, (Nat.div_add_mod n d).symm, Nat.mod_lt n hd, rfl, rfl, rfl⟩

theorem round_nearest (n d : Nat) (hd : 0 < d) :
    2 * (roundHalfEven n d * d) ≤ 2 * n + d ∧ 2 * n ≤ 2 * (roundHalfEven n d * d) + d := by
  obtain ⟨q, r, hn, hr, -, -, he⟩ := rhe_cases n d hd
  rw [he]
  have h1 : (q + 1) * d = d * q + d := by rw [Nat.succ_mul, Nat.mul_comm]
  have h2 : q * d = d * q := Nat.mul_comm _ _
  split
  · rw [h2]; omega
  · split
    · rw [h1]; omega
    · split
      · rw [h2]; omega
      · rw [h1]; omega

theorem round_strict (n d : Nat) (hd : 0 < d) (h : 2 * (n % d) ≠ d) :
    2 * (roundHalfEven n d * d) < 2 * n + d ∧ 2 * n < 2 * (roundHalfEven n d * d) + d := by
  obtain ⟨q, r, hn, hr, -, hm, he⟩ := rhe_cases n d hd
  rw [he]; rw [hm] at h
  have h1 : (q + 1) * d = d * q + d := by rw [Nat.succ_mul, Nat.mul_comm]
  have h2 : q * d = d * q := Nat.mul_comm _ _
  split
  · rw [h2]; omega
  · split
    · rw [h1]; omega
    · omega

theorem round_exact (n d : Nat) (hd : 0 < d) (h : d ∣ n) : roundHalfEven n d = n / d := by
  have : n % d = 0 := Nat.mod_eq_zero_of_dvd h
  unfold roundHalfEven
  simp [this, hd]

theorem round_tie_even (n d : Nat) (_hd : 0 < d) (h : 2 * (n % d) = d) : roundHalfEven n d % 2 = 0 := by
  unfold roundHalfEven
  simp only [h, Nat.lt_irrefl, if_false]
  split <;> omega

theorem rhe_ge (n d : Nat) : n / d ≤ roundHalfEven n d := by
  unfold roundHalfEven; simp only; split; omega; split; omega; split <;> omega
theorem rhe_le (n d : Nat) : roundHalfEven n d ≤ n / d + 1 := by
  unfold roundHalfEven; simp only; split; omega; split; omega; split <;> omega

theorem round_mono (n m d : Nat) (hd : 0 < d) (h : n ≤ m) : roundHalfEven n d ≤ roundHalfEven m d := by
  have hq : n / d ≤ m / d := Nat.div_le_div_right h
  rcases Nat.lt_or_eq_of_le hq with hlt | heq
  · have := rhe_le n d; have := rhe_ge m d; omega
  · obtain ⟨q, r, hn, hr, hq1, -, he⟩ := rhe_cases n d hd
    obtain ⟨q', r', hn', hr', hq2, -, he'⟩ := rhe_cases m d hd
    have : q = q' := by omega
    subst this
    rw [he, he']
    have : r ≤ r' := by omega
    by_cases c1 : 2 * r < d <;> by_cases c2 : d < 2 * r <;> by_cases c3 : 2 * r' < d <;>
      by_cases c4 : d < 2 * r' <;> by_cases c5 : q % 2 = 0 <;> simp only [c1, c2, c3, c4, c5, if_true, if_false] <;> omega

/-! ## rendering and reading back -/

theorem digitChar_ne_dot : ∀ d, d < 10 → digitChar d ≠ '.' := by decide

theorem renderNat_mem (n : Nat) : ∀ c ∈ renderNat n, ∃ d, d < 10 ∧ c = digitChar d := by
  intro c hc
  unfold renderNat at hc
  rw [List.mem_map] at hc
  obtain ⟨d, hd, rfl⟩ := hc
  exact ⟨d, natDigits_lt 10 (by decide) n d hd, rfl⟩

theorem renderNat_ne_dot (n : Nat) : ∀ c ∈ renderNat n, c ≠ '.' := by
  intro c hc
  obtain ⟨d, hd, rfl⟩ := renderNat_mem n c hc
  exact digitChar_ne_dot d hd

theorem takeWhile_all (p : Char → Bool) (l r : List Char) (h : ∀ c ∈ l, p c = true) :
    (l ++ r).takeWhile p = l ++ r.takeWhile p := by
  induction l with
  | nil => rfl
  | cons a l ih =>
    simp only [List.cons_append, List.takeWhile_cons, h a List.mem_cons_self, if_true]
    rw [ih (fun c hc => h c (List.mem_cons_of_mem _ hc))]

theorem dropWhile_all (p : Char → Bool) (l r : List Char) (h : ∀ c ∈ l, p c = true) :
    (l ++ r).dropWhile p = r.dropWhile p := by
  induction l with
  | nil => rfl
  | cons a l ih =>
    simp only [List.cons_append, List.dropWhile_cons, h a List.mem_cons_self, if_true]
    exact ih (fun c hc => h c (List.mem_cons_of_mem _ hc))

theorem natDigits_length_le (k n : Nat) (h : n < 10 ^ (k + 1)) :
    (natDigits 10 (by decide) n).length ≤ k + 1 := by
  induction k generalizing n with
  | zero => unfold natDigits; simp at h; simp [h]
  | succ k ih =>
    unfold natDigits
    split
    · simp
    · have : n / 10 < 10 ^ (k + 1) := by
        rw [Nat.div_lt_iff_lt_mul (by decide)]; rw [Nat.pow_succ] at h; exact h
      have := ih (n / 10) this
      simp; omega

theorem renderNat_length_le (k n : Nat) (hk : 0 < k) (h : n < 10 ^ k) : (renderNat n).length ≤ k := by
  obtain ⟨k, rfl⟩ : ∃ j, k = j + 1 := ⟨k - 1, by omega⟩
  unfold renderNat
  rw [List.length_map]
  exact natDigits_length_le k n h

theorem padLeft_length (k : Nat) (c : Char) (s : List Char) (h : s.length ≤ k) : (padLeft k c s).length = k := by
  unfold padLeft; simp; omega

theorem digitVal_zero : digitVal '0' = 0 := by decide

theorem parseNat_replicate_zero (k : Nat) (s : List Char) : parseNat (List.replicate k '0' ++ s) = parseNat s := by
  induction k with
  | zero => simp
  | succ k ih =>
    rw [List.replicate_succ, List.cons_append]
    unfold parseNat at *
    rw [List.foldl_cons, digitVal_zero]
    exact ih

theorem parseNat_padLeft (k : Nat) (s : List Char) : parseNat (padLeft k '0' s) = parseNat s := by
  unfold padLeft; exact parseNat_replicate_zero _ _

/-- how `parseFixed` splits a rendering of the shape  sign ++ digits ++ tail  -/
theorem parseFixed_shape (neg : Bool) (ip : Nat) (tail : List Char) :
    parseFixed ((if neg then ['-'] else []) ++ renderNat ip ++ tail) =
      (neg, parseNat ((renderNat ip ++ tail).takeWhile (· ≠ '.')),
        parseNat (((renderNat ip ++ tail).dropWhile (· ≠ '.')).drop 1),
        (((renderNat ip ++ tail).dropWhile (· ≠ '.')).drop 1).length) := by
  cases neg with
  | true => simp [parseFixed]
  | false =>
    cases hr : renderNat ip with
    | nil => exact absurd hr (renderNat_ne_nil ip)
    | cons c r =>
      have hc : c ≠ '-' := renderNat_head_ne_minus ip c r hr
      simp [parseFixed, hc]

theorem parseFixed_noFrac (neg : Bool) (ip : Nat) :
    parseFixed ((if neg then ['-'] else []) ++ renderNat ip ++ []) = (neg, ip, 0, 0) := by
  rw [parseFixed_shape]
  have hp : ∀ c ∈ renderNat ip, (fun x : Char => decide (x ≠ '.')) c = true := by
    intro c hc; simpa using renderNat_ne_dot ip c hc
  rw [takeWhile_all _ _ _ hp, dropWhile_all _ _ _ hp]
  simp [parseNat_renderNat]
  rfl

theorem parseFixed_frac (neg : Bool) (ip : Nat) (rest : List Char) :
    parseFixed ((if neg then ['-'] else []) ++ renderNat ip ++ '.' :: rest) = (neg, ip, parseNat rest, rest.length) := by
  rw [parseFixed_shape]
  have hp : ∀ c ∈ renderNat ip, (fun x : Char => decide (x ≠ '.')) c = true := by
    intro c hc; simpa using renderNat_ne_dot ip c hc
  rw [takeWhile_all _ _ _ hp, dropWhile_all _ _ _ hp]
  simp [parseNat_renderNat]

theorem parseFixed_renderFixed (neg : Bool) (num den prec : Nat) :
    parseFixed (renderFixed neg num den prec) =
      (neg, scaled num den prec / 10 ^ prec, scaled num den prec % 10 ^ prec, prec) := by
  unfold renderFixed
  simp only
  by_cases hp : prec = 0
  · subst hp
    rw [if_pos rfl, parseFixed_noFrac]
    simp [Nat.mod_one]
  · rw [if_neg hp, parseFixed_frac, parseNat_padLeft, parseNat_renderNat, padLeft_length]
    exact renderNat_length_le _ _ (Nat.pos_of_ne_zero hp) (Nat.mod_lt _ (Nat.pow_pos (by decide)))

end CbProofs.Fixed
