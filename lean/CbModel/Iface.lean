/-
  C12 — interface dispatch.  A small object model: concrete types T_j have one int field `v`; every impl of
  interface I_i for type T_j provides three methods whose behaviour is fixed by four constants (a b c d):
    m0()  = self.v * a + b                      (observer)
    m1(k) : self.v = self.v + k * c             (mutator through self)
    m2()  : static s = s + d; return s          (impl-block static, one per (interface, type) pair)
    m3(k) : self.v = self.v + k * c; return self.v * a + b    (mutator that returns a value)
  A call through a pointer to an interface variable (`I* q = &p; q->m()`) denotes the same receiver as the call
  through the variable itself, so both forms are the same operation here.
  Interface variables hold a value (dynamic type, field).  Core Lean only.
-/
namespace CbModel.Iface

structure Impl where
  a : Int
  b : Int
  c : Int
  d : Int
  deriving Repr, Inhabited

/-- impl table: (interface, type) ↦ constants -/
abbrev Impls := List ((Nat × Nat) × Impl)

def Impls.get (t : Impls) (i j : Nat) : Option Impl :=
  match t with
  | [] => none
  | ((i', j'), m) :: r => if i' = i ∧ j' = j then some m else Impls.get r i j

structure St where
  conc : List (Nat × Int)               -- concrete variable n : (type, v)
  ifv : List (Option (Nat × Int))        -- interface variable n : unassigned | (dynamic type, v)
  statics : List ((Nat × Nat) × Int)     -- impl statics per (interface, type)
  out : List Int
  deriving Repr, Inhabited

def getStatic (s : List ((Nat × Nat) × Int)) (i j : Nat) : Int :=
  match s with
  | [] => 0
  | ((i', j'), v) :: r => if i' = i ∧ j' = j then v else getStatic r i j

def setStatic (s : List ((Nat × Nat) × Int)) (i j : Nat) (v : Int) : List ((Nat × Nat) × Int) :=
  match s with
  | [] => [((i, j), v)]
  | ((i', j'), w) :: r => if i' = i ∧ j' = j then ((i, j), v) :: r else ((i', j'), w) :: setStatic r i j v

inductive Op where
  | assign (p : Nat) (c : Nat)       -- I p = c;   (copies the concrete object into the interface variable)
  | obs (p : Nat)                    -- println(p.m0())
  | mut (p : Nat) (k : Int)          -- p.m1(k)
  | stat (p : Nat)                   -- println(p.m2())
  | rd (c : Nat)                     -- println(c.v)
  | wr (c : Nat) (k : Int)           -- c.v = k
  | viaParam (p : Nat)               -- f(p) where f(I x) { x.m1(1); println(x.m0()); }  (by value)
  | mutRet (p : Nat) (k : Int)       -- println(p.m3(k))   /   println(q->m3(k)) with I* q = &p
  deriving Repr, Inhabited

/-- `ifaceOf p` : the declared interface of interface variable p -/
def step (t : Impls) (ifaceOf : Nat → Nat) (s : St) : Op → Option St
  | .assign p c =>
    match s.conc[c]? with
    | some (j, v) =>
      match t.get (ifaceOf p) j with
      | some _ => if p < s.ifv.length then some { s with ifv := s.ifv.set p (some (j, v)) } else none
      | none => none            -- no impl of the interface for that type: rejected
    | none => none
  | .obs p =>
    match s.ifv[p]? with
    | some (some (j, v)) =>
      match t.get (ifaceOf p) j with
      | some m => some { s with out := s.out ++ [v * m.a + m.b] }
      | none => none
    | _ => none
  | .mut p k =>
    match s.ifv[p]? with
    | some (some (j, v)) =>
      match t.get (ifaceOf p) j with
      | some m => some { s with ifv := s.ifv.set p (some (j, v + k * m.c)) }
      | none => none
    | _ => none
  | .stat p =>
    match s.ifv[p]? with
    | some (some (j, _)) =>
      match t.get (ifaceOf p) j with
      | some m =>
        let nv := getStatic s.statics (ifaceOf p) j + m.d
        some { s with statics := setStatic s.statics (ifaceOf p) j nv, out := s.out ++ [nv] }
      | none => none
    | _ => none
  | .rd c =>
    match s.conc[c]? with
    | some (_, v) => some { s with out := s.out ++ [v] }
    | none => none
  | .wr c k =>
    match s.conc[c]? with
    | some (j, _) => some { s with conc := s.conc.set c (j, k) }
    | none => none
  | .mutRet p k =>
    match s.ifv[p]? with
    | some (some (j, v)) =>
      match t.get (ifaceOf p) j with
      | some m =>
        let nv := v + k * m.c
        some { s with ifv := s.ifv.set p (some (j, nv)), out := s.out ++ [nv * m.a + m.b] }
      | none => none
    | _ => none
  | .viaParam p =>
    match s.ifv[p]? with
    | some (some (j, v)) =>
      match t.get (ifaceOf p) j with
      | some m => some { s with out := s.out ++ [(v + 1 * m.c) * m.a + m.b] }   -- the callee works on a copy
      | none => none
    | _ => none

def runOps (t : Impls) (ifaceOf : Nat → Nat) (s : St) : List Op → Option St
  | [] => some s
  | op :: r => (step t ifaceOf s op).bind fun s' => runOps t ifaceOf s' r

end CbModel.Iface
