import CbProofs.Preproc
import CbProofs.PreprocExpand
import CbProofs.FlatIndex
import CbProofs.RefPres
