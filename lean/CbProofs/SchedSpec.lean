/- helper lemmas for CbProps/C14Spec.lean (add what you need) -/
import CbModel.SchedSpec
namespace CbProofs.SchedSpec
open CbModel.SchedSpec

theorem seqOutL_nil : seqOutL [] = [] := by simp [seqOutL]

theorem seqOutL_cons (c : Code) (r : List Code) : seqOutL (c :: r) = seqOut c ++ seqOutL r := by
  simp [seqOutL]

theorem seqOutL_append (a b : List Code) : seqOutL (a ++ b) = seqOutL a ++ seqOutL b := by
  induction a with
  | nil => simp [seqOutL]
  | cons c r ih => simp [seqOutL, ih, List.append_assoc]

theorem seqOut_mark (t : Nat) : seqOut (.mark t) = [t] := by simp [seqOut]
theorem seqOut_yieldS : seqOut .yieldS = [] := by simp [seqOut]
theorem seqOut_block (b : List Code) : seqOut (.block b) = seqOutL b := by simp [seqOut]
theorem seqOut_ifS (c : Bool) (b : List Code) :
    seqOut (.ifS c b) = if c then seqOutL b else [] := by simp [seqOut]
theorem seqOut_loop_zero (b : List Code) : seqOut (.loop 0 b) = [] := by simp [seqOut]
theorem seqOut_loop_succ (n : Nat) (b : List Code) :
    seqOut (.loop (n + 1) b) = seqOutL b ++ seqOut (.loop n b) := by
  simp [seqOut, List.replicate_succ, List.flatten_cons]

theorem runToYield_meaning (fuel : Nat) : ∀ k : List Code,
    (runToYield fuel k).1 ++ seqOutL (runToYield fuel k).2 = seqOutL k := by
  induction fuel with
  | zero => intro k; simp [runToYield]
  | succ fuel ih =>
    intro k
    cases k with
    | nil => simp [runToYield, seqOutL_nil]
    | cons c r =>
      cases c with
      | mark t =>
        have h := ih r
        simp only [runToYield, seqOutL_cons, seqOut_mark]
        simp [h]
      | yieldS => simp [runToYield, seqOutL_cons, seqOut_yieldS]
      | block b =>
        have h := ih (b ++ r)
        simp only [runToYield, seqOutL_cons, seqOut_block]
        rw [h, seqOutL_append]
      | ifS taken b =>
        cases taken with
        | true =>
          have h := ih (b ++ r)
          simp only [runToYield, seqOutL_cons, seqOut_ifS, if_true]
          rw [h, seqOutL_append]
        | false =>
          have h := ih r
          simp only [runToYield, seqOutL_cons, seqOut_ifS]
          simp [h]
      | loop n b =>
        cases n with
        | zero =>
          have h := ih r
          simp only [runToYield, seqOutL_cons, seqOut_loop_zero]
          simp [h]
        | succ n =>
          have h := ih (b ++ .loop n b :: r)
          simp only [runToYield, seqOutL_cons, seqOut_loop_succ]
          rw [h, seqOutL_append, seqOutL_cons, List.append_assoc]

/-- the per-task invariant kept by every turn -/
def Inv (bodies : List (List Code)) (ts : List TaskSt) : Prop :=
  ∀ (i : Nat) (b : List Code), bodies[i]? = some b → ∃ t : TaskSt, ts[i]? = some t ∧ t.out ++ seqOutL t.cont = seqOutL b

theorem inv_start (bodies : List (List Code)) : Inv bodies (start bodies) := by
  unfold Inv; intro i b hb
  refine ⟨⟨[], b⟩, ?_, by simp⟩
  simp [start, List.getElem?_map, hb]

theorem turn_other (fuel : Nat) (ts : List TaskSt) (i j : Nat) (h : i ≠ j) :
    (turn fuel ts j)[i]? = ts[i]? := by
  unfold turn
  cases hj : ts[j]? with
  | none => rfl
  | some t =>
    simp only
    rw [List.getElem?_set_ne (Ne.symm h)]

theorem turn_self (fuel : Nat) (ts : List TaskSt) (j : Nat) (t : TaskSt) (hj : ts[j]? = some t) :
    (turn fuel ts j)[j]? =
      some ⟨t.out ++ (runToYield fuel t.cont).1, (runToYield fuel t.cont).2⟩ := by
  have hlt : j < ts.length := by
    cases Nat.lt_or_ge j ts.length with
    | inl h => exact h
    | inr h => rw [List.getElem?_eq_none h] at hj; cases hj
  unfold turn
  rw [hj]
  simp only
  rw [List.getElem?_set_self hlt]

theorem inv_turn (bodies : List (List Code)) (fuel : Nat) (ts : List TaskSt) (j : Nat)
    (h : Inv bodies ts) : Inv bodies (turn fuel ts j) := by
  unfold Inv; intro i b hb
  obtain ⟨t, ht, hm⟩ := h i b hb
  by_cases hij : i = j
  · subst hij
    refine ⟨_, turn_self fuel ts i t ht, ?_⟩
    simp only
    rw [List.append_assoc, runToYield_meaning, hm]
  · exact ⟨t, by rw [turn_other fuel ts i j hij]; exact ht, hm⟩

theorem inv_runSchedule (bodies : List (List Code)) (sched : List (Nat × Nat)) :
    ∀ ts, Inv bodies ts → Inv bodies (runSchedule ts sched) := by
  induction sched with
  | nil => intro ts h; simpa [runSchedule] using h
  | cons p r ih =>
    intro ts h
    obtain ⟨i, fuel⟩ := p
    simp only [runSchedule]
    exact ih _ (inv_turn bodies fuel ts i h)

end CbProofs.SchedSpec
