"""C10 (partial) — no input crashes or hangs the front end or causes invalid memory access.

Theorems: lean/CbProps/C10.lean — a loop whose every successful step consumes input terminates within
(remaining input) iterations (progress_terminates); under that hypothesis the visited positions increase
strictly (visited_increasing); without it the loop diverges (no_progress_diverges).
Tie (what is observed, not proved): the interpreter is built from the working tree with ASan+UBSan and the
CB_VERIF hook H1; every input is run in parse-only mode; (a) the parse_iter trace must increase strictly (the
hypothesis of the theorem, observed on the real parser), (b) the process must end by itself with exit status 0/1,
a diagnostic on stderr when it rejects, no sanitizer report, within a time bound proportional to the input.
Inputs: the repository's .cb files (<= 8 KiB), token-level mutants (delete / duplicate / swap / truncate / byte
flips), synthetic nesting amplification (12 shapes x sizes up to 8 KiB), random bytes; plus generated pointer-free
core programs EXECUTED under the sanitizers.
PARTIAL: memory safety and the absence of signals are observed on the explored inputs only; the lexer and the
preprocessor loops have no trace (the preprocessor is covered by the model of C17).
"""
import glob, json, os, re
import common, gen_core, refrun
from common import Rng
from props.refprops import all_findings, all_gates

PID = "C10"
THEOREMS = {"CbProps.C10": ["CbProps.C10." + t for t in ["progress_terminates", "visited_increasing", "no_progress_diverges"]]}
SAN_RE = re.compile(r"AddressSanitizer|runtime error:|LeakSanitizer|UndefinedBehaviorSanitizer|stack-overflow|SUMMARY: ")
TOK_RE = re.compile(r"[A-Za-z_]\w*|\d+|\s+|\"(?:[^\"\\\n]|\\.)*\"|.", re.S)


def corpus(limit):
    files = sorted(glob.glob(os.path.join(common.SRC, "tests", "cases", "**", "*.cb"), recursive=True)) + \
        sorted(glob.glob(os.path.join(common.SRC, "stdlib", "**", "*.cb"), recursive=True)) + \
        sorted(glob.glob(os.path.join(common.SRC, "sample", "**", "*.cb"), recursive=True))
    out = []
    for f in files:
        try:
            t = open(f, encoding="utf-8", errors="replace").read()
        except OSError:
            continue
        if 0 < len(t.encode("utf-8")) <= 8192:
            out.append((os.path.relpath(f, common.SRC), t))
    return out


def mutate(r, text):
    toks = TOK_RE.findall(text)
    if len(toks) < 4:
        return text + "(", "append"
    k = r.below(100)
    i = r.below(len(toks))
    if k < 20:
        del toks[i]
        return "".join(toks), "delete"
    if k < 38:
        toks.insert(i, toks[i])
        return "".join(toks), "duplicate"
    if k < 55:
        j = r.below(len(toks))
        toks[i], toks[j] = toks[j], toks[i]
        return "".join(toks), "swap"
    if k < 75:
        return "".join(toks[:i]), "truncate"
    if k < 85:
        b = bytearray(text.encode("utf-8"))
        for _ in range(r.range(1, 4)):
            b[r.below(len(b))] = r.below(256)
        return b.decode("latin-1"), "byteflip"
    if k < 93:
        # replace a token by a structural one
        toks[i] = r.choice(["(", ")", "{", "}", "[", "]", "<", ">", ";", ",", "::", "?", ":", "\"", "'", "#", "/*", "*/", "//", "=>", "->", "."])
        return "".join(toks), "structural"
    n = r.range(2, 40)
    toks.insert(i, toks[i] * n)
    return "".join(toks)[:8192], "repeat"


def nesting(r):
    """synthetic pathological nesting, each <= 8 KiB"""
    out = []

    def prog(expr):
        return "int main() { int a = 1; int x = %s; return 0; }\n" % expr
    for n in (50, 300, 1000, 2000, 3900):
        out.append(("deep-paren-%d" % n, prog("(" * n + "1" + ")" * n)))
        out.append(("deep-block-%d" % n, "int main() { " + "{" * n + "int q = 1;" + "}" * n + " return 0; }\n"))
        out.append(("deep-unary-minus-%d" % n, prog("-" * n + "1")))
        out.append(("deep-unary-not-%d" % n, prog("!" * n + "1")))
        out.append(("deep-unary-tilde-%d" % n, prog("~" * n + "1")))
        out.append(("deep-deref-%d" % n, prog("*" * n + "a")))
        out.append(("deep-addr-%d" % n, prog("&" * n + "a")))
        out.append(("deep-unclosed-paren-%d" % n, prog("(" * n + "1")))
        out.append(("deep-unclosed-brace-%d" % n, "int main() { " + "{" * n))
        out.append(("deep-bracket-lit-%d" % n, "int main() { int[1] v = " + "[" * n + "1" + "]" * n + "; return 0; }\n"))
        out.append(("deep-brace-lit-%d" % n, "struct S { int a; }; int main() { S v = " + "{" * n + "1" + "}" * n + "; return 0; }\n"))
    for n in (50, 300, 800, 1300):
        out.append(("deep-index-%d" % n, prog("a" + "[a" * n + "]" * n)))
        out.append(("deep-call-%d" % n, "int f(int v) { return v; } int main() { int x = " + "f(" * n + "1" + ")" * n + "; return 0; }\n"))
        out.append(("deep-ternary-%d" % n, prog("1 ? " * n + "1" + " : 1" * n)))
        out.append(("deep-if-%d" % n, "int main() { " + "if (1) " * n + "return 0; }\n"))
        out.append(("deep-else-%d" % n, "int main() { " + "if (0) { } else " * n + "return 0; }\n"))
        out.append(("deep-generic-%d" % n, "int main() { " + "Box<" * n + "int" + ">" * n + " b; return 0; }\n"))
        out.append(("deep-angle-%d" % n, prog("a" + "<a" * n)))
        out.append(("deep-cast-%d" % n, prog("(int)" * n + "1")))
        out.append(("deep-member-%d" % n, prog("a" + ".b" * n)))
        out.append(("deep-arrow-%d" % n, prog("a" + "->b" * n)))
        out.append(("deep-interp-%d" % n, "int main() { println(\"" + "{" * n + "1" + "}" * n + "\"); return 0; }\n"))
        out.append(("long-binary-%d" % n, prog("1" + " + 1" * n)))
        out.append(("long-assign-%d" % n, "int main() { int a = 1; a" + " = a" * n + "; return 0; }\n"))
        out.append(("deep-lambda-%d" % n, prog("int func(int q) { return " * min(n, 250) + "1" + "; }" * min(n, 250))))
        out.append(("deep-macro-%d" % n, "".join("#define M%d M%d\n" % (i, i + 1) for i in range(min(n, 400))) + "#define M%d 1\nint main() { return M0; }\n" % min(n, 400)))
    box = "struct Box<T> { T v; };\n"
    for n in (50, 300, 800, 1300, 2000):
        ty = "Box<" * n + "int" + ">" * n
        out.append(("deep-generic-def-%d" % n, box + "int main() { " + ty + " b; return 0; }\n"))
        out.append(("deep-generic-param-%d" % n, box + "int f(" + ty + " b) { return 0; }\nint main() { return 0; }\n"))
        out.append(("deep-generic-ret-%d" % n, box + ty + " f() { }\nint main() { return 0; }\n"))
        out.append(("deep-generic-member-%d" % n, box + "struct H { " + ty + " m; };\nint main() { return 0; }\n"))
        out.append(("deep-generic-unclosed-%d" % n, box + "int main() { " + "Box<" * n + "int b; return 0; }\n"))
        out.append(("deep-pointer-type-%d" % n, "int main() { int" + "*" * n + " p; return 0; }\n"))
        out.append(("deep-array-dims-%d" % n, "int main() { int" + "[1]" * n + " v; return 0; }\n"))
        out.append(("deep-const-%d" % n, "int main() { " + "const " * n + "int c = 1; return 0; }\n"))
        out.append(("deep-fnptr-type-%d" % n, "int main() { " + "int(*" * min(n, 900) + "p" + ")(int)" * min(n, 900) + "; return 0; }\n"))
        out.append(("deep-macro-call-%d" % n, "#define F(x) (x + 1)\nint main() { int q = " + "F(" * n + "1" + ")" * n + "; return 0; }\n"))
        out.append(("wide-self-macro-%d" % n, "#define A" + " A" * n + "\nint main() { int A = 1; return 0; }\n" + "A " * n + "\n"))
        out.append(("wide-macro-body-%d" % n, "#define B" + " 1 +" * n + " 1\nint main() { int q = B; return 0; }\n" + "B; " * min(n, 300) + "\n"))
    for d in (4, 8, 12, 16, 20, 24):
        out.append(("double-macro-%d" % d, "".join("#define D%d D%d D%d\n" % (i, i + 1, i + 1) for i in range(d)) + "#define D%d 1\nint main() { return 0; }\nD0\n" % d))
    # regression inputs of repaired defects (and close variants)
    out.append(("regress-empty-type-params-0", "typedef MyInt = int;\nMyInt<int> f<>(int x) { return x; }\nint main() { return 0; }\n"))
    out.append(("regress-empty-type-params-1", "int f<>(int x) { return x; }\nint main() { return f<>(1); }\n"))
    out.append(("regress-empty-type-params-2", "struct Box<> { int v; };\nint main() { Box<> b; return 0; }\n"))
    out.append(("regress-empty-type-params-3", "Box<int> g<>() { }\n"))
    return [(k, p) for k, p in out if len(p.encode("utf-8")) <= 8192]


def exec_nesting():
    """well-formed pointer-free programs with long / deep (but accepted) constructs; they are EXECUTED"""
    out = []

    def prog(body):
        return "int f(int v) { return v; }\nint main() {\n    int a = 1;\n    int[4] z = [0, 0, 0, 0];\n%s    return 0;\n}\n" % body
    for n in (100, 300, 800, 1300, 1900):
        for op in ("+", "*", "&&", "||", "-", "|", "<"):
            out.append(("long-binary-exec%s-%d" % (op, n), prog("    int x = 1" + (" %s 1" % op) * n + ";\n    println(x);\n")))
        out.append(("long-strcat-exec-%d" % n, prog("    string s = \"a\"" + " + \"a\"" * n + ";\n    println(1);\n")))
        out.append(("long-assign-exec-%d" % n, prog("    a" + " = a" * n + ";\n    println(a);\n")))
        out.append(("long-stmts-exec-%d" % n, prog("    a = a + 1;\n" * n + "    println(a);\n")))
        out.append(("long-args-exec-%d" % n, prog("    println(" + ", ".join(["a"] * n) + ");\n")))
        out.append(("long-arraylit-exec-%d" % n, prog("    int[%d] w = [" % n + ", ".join(["1"] * n) + "];\n    println(w[%d]);\n" % (n - 1))))
        out.append(("long-member-exec-%d" % n, "struct S { int v; };\nint main() {\n    S s;\n    s.v = 1;\n    int x = s.v" + " + s.v" * n + ";\n    println(x);\n    return 0;\n}\n"))
    for n in (50, 100, 200, 300, 450):
        out.append(("deep-paren-exec-%d" % n, prog("    int x = " + "(" * n + "a" + ")" * n + ";\n    println(x);\n")))
        out.append(("deep-unary-exec-%d" % n, prog("    int x = " + "-" * n + "a;\n    println(x);\n")))
        out.append(("deep-not-exec-%d" % n, prog("    int x = " + "!" * n + "a;\n    println(x);\n")))
        out.append(("deep-call-exec-%d" % n, prog("    int x = " + "f(" * n + "a" + ")" * n + ";\n    println(x);\n")))
        out.append(("deep-index-exec-%d" % n, prog("    int x = " + "z[" * n + "0" + "]" * n + ";\n    println(x);\n")))
        out.append(("deep-ternary-exec-%d" % n, prog("    int x = " + "a ? " * n + "1" + " : 2" * n + ";\n    println(x);\n")))
        out.append(("deep-block-exec-%d" % n, prog("    " + "{ " * n + "a = a + 1; " + "} " * n + "\n    println(a);\n")))
        out.append(("deep-if-exec-%d" % n, prog("    " + "if (a) { " * n + "a = a + 1; " + "} " * n + "\n    println(a);\n")))
        out.append(("deep-else-exec-%d" % n, prog("    " + "if (a == 0) { } else " * n + "{ a = 5; }\n    println(a);\n")))
        out.append(("deep-while-exec-%d" % n, prog("    " + "while (a < 3) { " * n + "a = a + 1; " + "} " * n + "\n    println(a);\n")))
        out.append(("deep-recursion-exec-%d" % n, "int r(int k) { if (k == 0) { return 0; } return 1 + r(k - 1); }\nint main() { println(r(%d)); return 0; }\n" % (n * 10)))
    # print / println with conversion-looking text in every position and with too few / odd arguments: whatever is printed, the
    # run must end by itself without touching invalid memory
    forms = ['println(a, "x%d");', 'print("r:", "%s");', 'println("%d");', 'println("%");', 'println("%d %d", 1);', 'println("%s", 5);', 'println("%c", 300);',
             'println("%5", 1);', 'println("%-", 1);', 'println("%lld");', 'println("%.", 1);', 'println("%*d", 3, 4);', 'println("%n", 1);', 'println("%9999d", 1);',
             'println("%s %s", "a");', 'println("%d", "text");', 'println("%s");', 'println(a, "of", 4, "-> 75%d");', 'println("%%%d%%", 1);', 'println("%c%c%c", 65);',
             'println("%.99999f", 1.5);', 'println("%llllld", 1);', 'println("%hhd", 1);', 'println("%p", a);', 'println("%x %o %u", 255, 8, 3);', 'println("%e %g", 1.5, 2.5);',
             'println("{a:}");', 'println("{a:99999d}");', 'println("{a:0}");', 'println("{a:x:x}");', 'println("{a:.f}");', 'println("{a:.99999f}");', 'println("{}");',
             'println("{{a}");', 'println("{a}}");', 'println("{a:b}{a:X}{a:x}");', 'println("{a +}");', 'println("%s", "{a}");', 'println("{z[9]}");']
    for i, f in enumerate(forms):
        out.append(("exec-print-form-%d" % i, prog("    %s\n" % f)))
    # every kind of run-time error a pointer-free program can raise: the DIAGNOSTIC path itself (message formatting, unwinding
    # out of nested constructs, cleanup) must not crash; the run ends by itself with an error status
    EP = ("struct S { int v; tiny t; string n; int[3] arr; };\nenum E { A, B(int), C(string) };\n"
          "void setc(string& r, int i) { r[i] = 'J'; }\nchar getc(string& r, int i) { return r[i]; }\nint dz(int a, int b) { return a / b; }\nint deep(int k) { int[3] q = [1, 2, 3]; if (k == 0) { return q[5]; } return deep(k - 1) + 1; }\n")

    def ep(body):
        return EP + "int main() {\n    int a = 1;\n    int zero = 0;\n    int[4] z = [0, 1, 2, 3];\n    int[2][3] m = [[1, 2, 3], [4, 5, 6]];\n    string word = \"hello\";\n    string empty = \"\";\n    S s;\n    s.v = 1;\n%s    println(\"not reached?\");\n    return 0;\n}\n" % body
    errs = ['word[7] = \'!\';', 'word[0 - 1] = \'x\';', 'empty[0] = \'x\';', 'empty[3] = \'x\';', 'char c = word[9]; println(c);', 'char c = word[0 - 2]; println(c);',
            'word[100000] = \'x\';', 'string t = "日本語"; t[5] = \'x\';', 'string t = "日本語"; char c = t[7]; println(c);', 's.n = "ab"; s.n[4] = \'q\';',
            'z[4] = 1;', 'z[0 - 1] = 1;', 'println(z[4]);', 'println(z[a + 99999]);', 'm[2][0] = 1;', 'm[0][3] = 1;', 'println(m[1][0 - 1]);', 's.arr[3] = 1;', 'println(s.arr[0 - 1]);',
            'println(a / zero);', 'println(a % zero);', 'a /= zero;', 'a %= zero;', 'println(dz(5, zero));', 'long q = 5; println(q / zero);', 'double d = 1.5; println(d / zero);',
            'tiny t = 127; t++;', 'tiny t = 100; t = t + 100;', 's.t = 300;', 'short h = 40000;', 'int big_ = 2147483647; big_ += 1;', 'unsigned tiny u = 300;',
            'const int k = 1; k = 2;', 'const int[2] ck = [1, 2]; ck[0] = 5;', 'println(undefined_name);', 'undefined_fn(1);', 'dz(1);', 'dz(1, 2, 3);',
            'println(deep(30));', 'E e = E::B(5); match (e) { A => { println(1); } }', 'E e = E::C("x"); match (e) { B(v) => { println(v); } }',
            'for (int i = 0; i < 10; i++) { for (int j = 0; j < 10; j++) { if (i * j == 42) { println(z[i]); } } }',
            'while (a < 5) { a = a + 1; { { int w = z[a + 2]; println(w); } } }', 'int i = 0; while (true) { word[i] = \'y\'; i = i + 1; }',
            'string big2 = "a"; for (int i = 0; i < 12; i++) { big2 = big2 + big2; } big2[5000] = \'x\';',
            'word = word + word[2]; println(word);', 'word = word + 5; println(word);', "word = word + 'c'; println(word);", 'word = "a" + 1; println(word);', 'word += word[0]; println(word);',
            'word = word + 2.5; println(word);', 'word = 5 + word; println(word);', 'string t2 = word + a; println(t2);', 'word = word + true; println(word);', 'println(word + zero);',
            'string t5 = 5; println(t5);', 'string t6 = a; println(t6);', 'word = word - 1; println(word);', 'word = 2 - word; println(word);', 'word = word | 1; println(word);',
            'word = word * 2; println(word);', 'double dd = 2.5; string t7 = dd; println(t7);',
            'static string s4 = 4; println(s4);',
            'setc(word, 0); println(word);', 'setc(word, 100000); println(word);', 'println(getc(word, 1)); println(getc(word, 9));',
            'println("{z[9]}");', 'println("{a / zero}");', 'println("{word[9]}");', 'string r = "{m[5][5]}"; println(r);',
            'Option<int> o = Option<int>::None; match (o) { Some(v) => { println(v); } }', 'int x = z[z[3] + z[3]];', 'z[z[3] * 2] = z[9];']
    for i, f in enumerate(errs):
        slug = "emptystr" if f.startswith("empty[") else "strstatic" if f.startswith("static string") else "strmisc" if (f.startswith("string t5") or f.startswith("string t6") or "word - 1" in f or "2 - word" in f or "word | 1" in f or "word * 2" in f or "string t7" in f) else "strplus" if ("word + " in f or "+ word" in f or "word +=" in f or '"a" + 1' in f) else "strref" if ("setc(" in f or "getc(" in f) else ("strstore" if ("word[" in f and "= '" in f) or "t[5] =" in f or "s.n[4]" in f or "big2[" in f else "other")
        out.append(("exec-error-path-%s-%d" % (slug, i), ep("    %s\n" % f)))
    # struct definitions that share members (diamonds): the cycle check must stay polynomial
    for n in (8, 14, 20, 26, 32):
        out.append(("wide-struct-diamond-exec-%d" % n, "struct S0 { int x; };\n" + "".join("struct S%d { S%d a; S%d b; };\n" % (i, i - 1, i - 1) for i in range(1, n)) +
                    "int main() {\n    println(1);\n    return 0;\n}\n"))
    # integer values that look like addresses (above 2^32) stored in arrays / struct members / passed around and used in arithmetic
    for i, (decl, use) in enumerate([("long[2][2] b;\n    b[0][1] = 5000000000;", "b[0][1] + 1"), ("long[3] b = [5000000000, 140737488355327, 4294967296];", "b[0] + b[1] + b[2]"),
                                     ("long[2][2] b;\n    b[1][1] = 140737488355000;", "b[1][1] * 2 - b[1][1]"), ("S s;\n    s.v = 1;\n    long w = 93824992235520;", "w + s.v"),
                                     ("long[2][2][2] b;\n    b[1][0][1] = 94000000000000;", "b[1][0][1] - 1")]):
        out.append(("exec-addresslike-%d" % i, "struct S { int v; };\nint main() {\n    %s\n    long v = %s;\n    println(v);\n    return 0;\n}\n" % (decl, use)))
    return [(k, p) for k, p in out if len(p.encode("utf-8")) <= 8192]


def preproc_case(r):
    """a random sequence of preprocessor directives and code lines; conditionals are NOT kept balanced on purpose (unclosed
    #ifdef at end of input, #else / #endif without an opener, duplicate #else, directives with missing operands ...)"""
    names = ["X", "Y", "DEBUG", "N", "F"]
    lines = []
    for _ in range(r.range(1, 14)):
        k = r.below(100)
        nm = r.choice(names)
        if k < 14:
            lines.append("#define %s %s" % (nm, r.choice(["1", "42", "", "(1 + 2)", "Y", nm, "\"s\""])))
        elif k < 20:
            lines.append("#define %s(a, b) %s" % (nm, r.choice(["((a) + (b))", "a", "", "%s(a, b)" % nm, "a b"])))
        elif k < 26:
            lines.append("#undef %s" % r.choice([nm, ""]))
        elif k < 40:
            lines.append("#ifdef %s" % r.choice([nm, nm, ""]))
        elif k < 52:
            lines.append("#ifndef %s" % r.choice([nm, nm, ""]))
        elif k < 62:
            lines.append("#else")
        elif k < 76:
            lines.append("#endif")
        elif k < 80:
            lines.append(r.choice(["#", "#if 1", "#elif X", "#include \"x\"", "#pragma once", "# define X 1", "#error stop", "#defineX", "#ifdef"]))
        elif k < 90:
            lines.append("int v%d = %s;" % (len(lines), r.choice([nm, "%s(1, 2)" % nm, "1", "%s(" % nm, "%s(1" % nm])))
        else:
            lines.append(r.choice(["int main() { return 0; }", "int main() {", "}", "// #endif", "/* #ifdef X", "*/", "\"#endif\""]))
    text = "\n".join(lines) + ("\n" if r.chance(70) else "")
    if r.chance(25):
        text = text[:r.below(len(text) + 1)]
    return text


def progress_ok(trace):
    """every parser instance (second number of a parse_iter line) must show a strictly increasing progress measure"""
    by = {}
    n = 0
    for l in trace.split("\n"):
        f = l.split()
        if len(f) == 3 and f[0] == "parse_iter":
            by.setdefault(f[2], []).append(int(f[1]))
            n += 1
    for pid, pos in by.items():
        for a, b in zip(pos, pos[1:]):
            if not a < b:
                return False, ((a, pid), (b, pid)), n
    return True, None, n


def main(a):
    v = common.Verdict(PID, a.tier, a.seed)
    driver_ok, failed = common.lean_obligations(v, ["CbProps.C10"], THEOREMS)
    exe, blog = common.build_impl(sanitize=True)
    if exe is None:
        v.violation("cannot build the interpreter with sanitizers: " + (blog or "")[-600:], {"log": (blog or "")[-2000:]}, no_input=True)
        return v.finish(level="proof")
    quick = a.tier == "quick"
    findings = [f for f in all_findings() if f["property"] == PID]
    cell_of = {}
    for f in findings:
        for c in f.get("cells", []):
            cell_of[c] = f["id"]
    cell_known, census = {}, {}
    reported = [0]
    r = Rng(a.seed, 101)
    env = {"CB_VERIF_PARSE_ONLY": "1", "CB_VERIF_TRACE": "trace.txt",
           "ASAN_OPTIONS": "detect_leaks=0:abort_on_error=0:allocator_may_return_null=1", "UBSAN_OPTIONS": "print_stacktrace=0"}

    def judge(kind, name, text, o, parse_only=True, files=None, args=()):
        """o = (stdout, exit class, stderr tail[, trace])"""
        problems = []
        if o[1] not in ("ok", "error"):
            problems.append("ended by %s" % o[1])
        if SAN_RE.search(o[2] or ""):
            problems.append("sanitizer report: " + (SAN_RE.search(o[2]).group(0)))
        if o[1] == "error" and not (o[2] or "").strip():
            problems.append("rejected without a diagnostic on stderr")
        if parse_only and len(o) > 3:
            ok, where, n = progress_ok(o[3])
            if not ok:
                problems.append("parse loop did not consume input between iterations %s -> %s (hypothesis of CbProps.C10.progress_terminates)" % where)
        if not problems:
            return
        cell = kind.rsplit("-", 1)[0] if kind.startswith(("deep-", "long-", "wide-", "double-", "exec-print-form", "exec-error-path", "exec-addresslike")) else kind
        sig = (cell, problems[0].split(":")[0])
        if os.environ.get("CB_VERIF_CENSUS"):
            census.setdefault(sig, []).append("%s: %s | %s" % (name, "; ".join(problems), (o[2] or "")[-160:].replace("\n", " ")))
            return
        for key in (cell, "%s/%s" % (cell, o[1])):
            if key in cell_of:
                cell_known[cell_of[key]] = cell_known.get(cell_of[key], 0) + 1
                return
        if reported[0] >= 6:
            return
        reported[0] += 1
        v.violation("%s input %s: %s" % (kind, name, "; ".join(problems)),
                    {"program": text, "parse_only": parse_only, "kind": kind, "files": files or {}, "args": list(args),
                     "impl_exit_class": o[1], "impl_stderr": (o[2] or "")[-600:]})

    if a.replay:
        rp = json.load(open(a.replay))
        e = dict(env)
        if not rp.get("parse_only", True):
            e.pop("CB_VERIF_PARSE_ONLY")
        o = common.run_programs(exe, [(rp["program"], tuple(rp.get("args", [])), rp.get("files", {}))], timeout=20, env=e, collect="trace.txt")[0]
        judge(rp.get("kind", "replay"), "replay", rp["program"], o, rp.get("parse_only", True), files=rp.get("files"), args=rp.get("args", ()))
        return v.finish(level="proof")

    cor = corpus(8192)
    if quick:
        idx = sorted({r.below(len(cor)) for _ in range(220)})
        sample = [cor[i] for i in idx]
    else:
        sample = cor
    inputs = [("corpus", n, t) for n, t in sample]
    nm = 3 if quick else 12
    for n, t in sample:
        for _ in range(nm):
            m, how = mutate(r, t)
            inputs.append(("mutant-" + how, n, m))
    for k, p in nesting(r):
        inputs.append((k, k, p))
    for i in range(150 if quick else 6000):
        inputs.append(("preproc", "pp%d" % i, preproc_case(r)))
    # lexers that are NOT fed by the preprocessor: the nested parser of every {...} segment of an interpolated string, the
    # parser of an imported module, and --no-preprocess: inputs whose last token is cut off / a comment at end of input
    TAILS = ["// c", "/* c", "/* c *", "\"s", "'", "'a", "a +", "a.", "a ->", "(", "[1", "f(", "a ? b", "a ? b :", "x <", "Box<", "1e", "0x",
             "\\", "@", "#", "a // c", "a /* c */", "a /* c", "}", "{", "{{", "}}", "", " ", "a, b", "a;", "a = ", "\"q\"", "a:x", "a:", ":", "a:05", "a:.", "a:.2", "$"]
    for i, tail in enumerate(TAILS):
        inputs.append(("interp-tail", "it%d" % i, "int main() {\n    int a = 1;\n    int b = 2;\n    println(\"v = {%s}\");\n    return 0;\n}\n" % tail))
        inputs.append(("interp-tail", "iu%d" % i, "int main() {\n    int a = 1;\n    println(\"v = {%s\");\n    return 0;\n}\n" % tail))
    MODTAILS = ["// c", "/* c", "\"s", "'", "export int g(", "export struct S {", "export", "import", "import mt", "}", "#ifdef X", "export int g() { return 1; } //x",
                "export int g() { return 1; }", "\\", "\x00", "export enum E { A,", "export int g() { return 1; }\n\n\n// last"]
    mod_inputs = []
    for i, tail in enumerate(MODTAILS):
        mod_inputs.append(("module-tail", "mt%d" % i, ("import mt;\nint main() {\n    println(f(1));\n    return 0;\n}\n", (),
                                                         {"mt.cb": "export int f(int v) {\n    return v + 1;\n}\n" + tail})))
    for i in range(40 if quick else 600):
        ln = r.range(1, 600)
        inputs.append(("random-bytes", "rb%d" % i, bytes(r.below(256) for _ in range(ln)).decode("latin-1")))
        inputs.append(("random-ascii", "ra%d" % i, "".join(chr(r.range(32, 126)) if r.chance(92) else "\n" for _ in range(ln))))
    inputs += mod_inputs
    outs = common.run_programs(exe, [t for _, _, t in inputs], timeout=20, env=env, collect="trace.txt")
    # the same inputs with --no-preprocess (the lexer then sees the file as it is, e.g. without a final newline)
    npp = [(k, n, t) for (k, n, t) in inputs if isinstance(t, str) and (k in ("interp-tail", "random-ascii", "random-bytes") or k.startswith("mutant-truncate") or hash(n) % 7 == 0)]
    npp += [("nopp-tail", "np%d" % i, "int main() {\n    return 0;\n}\n" + tail) for i, tail in enumerate(TAILS)]
    outs_npp = common.run_programs(exe, [(t, ("--no-preprocess",), {}) for _, _, t in npp], timeout=20, env=env, collect="trace.txt")
    dist = {}
    nontrivial = set()
    rejected = 0
    iters = 0
    for (kind, name, text), o in zip(inputs, outs):
        base = kind.rsplit("-", 1)[0] if kind.startswith(("deep-", "long-", "wide-", "double-")) else kind
        dist[base] = dist.get(base, 0) + 1
        nontrivial.add((base, hash(str(text)) % 1000003))
        rejected += 1 if o[1] == "error" else 0
        if len(o) > 3:
            iters += progress_ok(o[3])[2]
        if isinstance(text, str):
            judge(kind, name, text, o)
        else:
            judge(kind, name, text[0], o, files=text[2])
    for (kind, name, text), o in zip(npp, outs_npp):
        dist["no-preprocess"] = dist.get("no-preprocess", 0) + 1
        nontrivial.add(("npp", hash(text) % 1000003))
        judge("nopp:" + kind, name, text, o, args=("--no-preprocess",))
    # executing well-formed pointer-free programs under the sanitizers
    ne = 120 if quick else 4000
    gates = all_gates()
    sexps = [gen_core.gen_program(a.seed, 102, k, gates, size=25, features={"calls": True})[0] for k in range(ne)]
    res = refrun.model_run(sexps)
    progs = [mr.source for mr in res if mr.source and refrun.expected_class(mr.status) is not None]
    e2 = dict(env)
    e2.pop("CB_VERIF_PARSE_ONLY")
    outs2 = common.run_programs(exe, progs, timeout=30, env=e2)
    dist["executed-core-programs"] = len(progs)
    for k, (p, o) in enumerate(zip(progs, outs2)):
        nontrivial.add(("exec", k))
        judge("exec-core", "gen%d" % k, p, o, parse_only=False)
    en = exec_nesting()
    outs3 = common.run_programs(exe, [p for _, p in en], timeout=30, env=e2)
    dist["executed-long-and-deep-programs"] = len(en)
    for (k, p), o in zip(en, outs3):
        nontrivial.add(("execnest", k))
        judge(k, k, p, o, parse_only=False)
    for key, whats in sorted(census.items(), key=lambda kv: str(kv[0])):
        common.log("CENSUS %s x%d: %s" % (key, len(whats), whats[0][:420]))
    for f in findings:
        if f["id"] in cell_known:
            v.known_finding(f["what"] + " [%d inputs]" % cell_known[f["id"]])
    v.coverage.update({
        "evaluations": len(inputs) + len(npp) + len(progs) + len(en), "distinct_nontrivial": len(nontrivial), "distribution": dist,
        "rejected_inputs": rejected, "parse_loop_iterations_observed": iters,
        "rule": "parse-only runs of the ASan+UBSan build: repository .cb files <= 8 KiB (quick: a sample of 220; thorough: all), "
                "%d token-level mutants of each (delete, duplicate, swap, truncate at a token boundary, byte flips, structural "
                "token replacement, token repetition), ~%d synthetic nesting inputs (parens, blocks, unary chains, literals, "
                "indexes, calls, ternaries, if/else chains, generic / pointer / array / const / function-pointer TYPE nesting in "
                "declarations, parameters, return types and members, casts, member chains, interpolation, macro chains, wide and "
                "self-referential and doubling macros) up to 8 KiB, random sequences of preprocessor directives with deliberately "
                "unbalanced conditionals, interpolation segments / imported modules / --no-preprocess runs whose text ends in a "
                "cut-off token or a comment at end of input (the lexers that are not fed by the preprocessor), "
                "random bytes / ASCII; full execution of generated pointer-free core programs and of %d well-formed programs with "
                "long operator chains / statement lists / argument lists / array literals and deep (accepted) nesting of parens, "
                "unary operators, calls, indexes, ternaries, blocks, if / else / while and recursion under the sanitizers. Verdict per "
                "input: exit status 0/1, diagnostic when rejected, no sanitizer report, strictly increasing parse_iter "
                "positions. non-trivial = distinct input" % (nm, len(nesting(r)), len(en)),
        "partial": "the theorems cover the termination argument only; crashes, invalid memory accesses and undefined operations are observed under sanitizers on the explored inputs, not proved",
        "exhaustive": False})
    v.assumptions += ["PARTIAL: absence of crashes / invalid memory accesses is observed under ASan+UBSan on the explored inputs, not proved",
                      "termination of the lexer and of parse routines between two parse_iter events is bounded by the run's timeout only",
                      "programs using raw pointers, heap built-ins or foreign functions are outside the property's second sentence and are not executed here"]
    return v.finish(level="proof")
