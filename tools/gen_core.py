"""Type-directed generator of CbRef core programs (S-expressions for `cbdriver ref`).

Programs are well formed by construction: names are unique program-wide, every variable is
declared (and initialised) before use, loops are counted, recursion has a decreasing argument,
call graph is a DAG.  Divisors / indices / narrow stores are mostly valid, with an
error-seeking share.  Feature gates close constructs that hit a *known finding* so that the
random stream keeps exploring everything else.
"""
from common import Rng

I64MAX = (1 << 63) - 1
TYPES = ["tiny", "utiny", "short", "ushort", "int", "uint", "long", "ulong", "char", "bool"]
RANGE = {"tiny": (-128, 127), "utiny": (0, 255), "short": (-32768, 32767), "ushort": (0, 65535),
         "int": (-2**31, 2**31 - 1), "uint": (0, 2**32 - 1), "long": (-2**63, 2**63 - 1), "ulong": (0, 2**63 - 1),
         "char": (-128, 127), "uchar": (0, 255), "bool": (0, 1)}
BINOPS = ["add", "sub", "mul", "div", "mod", "shl", "shr", "band", "bor", "bxor", "lt", "le", "gt", "ge", "eq", "ne",
          "land", "lor"]


def lit(n):
    return "(lit %d)" % n


class Fn:
    def __init__(self, name, ret, params, effectful):
        self.name, self.ret, self.params, self.effectful = name, ret, params, effectful


class Scope:
    def __init__(self):
        self.scalars = []   # (name, ty, const)
        self.arrays = []    # (name, ty, dims, const)
        self.structs = []   # (name, sname)
        self.loopvars = []  # (name, bound): 0 <= v < bound while in the loop


class CoreGen:
    def __init__(self, rng, gates=(), size=30, features=None):
        self.r = rng
        self.gates = set(gates)
        self.size = size
        self.n = 0
        self.funcs = []
        self.structs = []   # (sname, [(ty, fname, dims)])
        self.globals = Scope()
        self.label = 0
        self.in_global = False
        self.statics = set()
        self.stats = {}
        self.features = features or {}

    def count(self, k):
        self.stats[k] = self.stats.get(k, 0) + 1

    def fresh(self, p):
        self.n += 1
        if self.features.get("reuse_names") and self.in_global:
            return "g%s%d" % (p, self.n)
        return "%s%d" % (p, self.n)

    # ------------------------------------------------------------ expressions
    def small_lit(self):
        r = self.r
        k = r.below(40)
        if k < 33:
            return r.range(-9, 20)
        if k < 37:
            return r.choice([0, 1, -1, 2, 7, 100, 127, 128, 255, 256, -128, -129, 1000, 32767, 32768, 65535])
        if k < 39:
            return r.choice([2**31 - 1, 2**31, -2**31, -2**31 - 1, 2**32 - 1, 2**32, 123456789])
        return r.choice([2**63 - 1, -2**63 + 1, 2**62, -(2**62), 2**40])

    def leaf(self, sc, pure):
        r = self.r
        if not pure and self.features.get("effect_leaves") and r.chance(30):
            self.tk = getattr(self, "tk", 0) + 1
            self.count("effect_leaf")
            return "(call t (lit %d) (lit %d))" % (self.tk, r.range(-3, 9))
        k = r.below(10)
        if k < 4 or (not sc.scalars and not self.globals.scalars):
            return lit(self.small_lit())
        if k < 8:
            pool = sc.scalars + self.globals.scalars
            return "(var %s)" % r.choice(pool)[0]
        if k < 9 and (sc.arrays or self.globals.arrays):
            a = r.choice(sc.arrays + self.globals.arrays)
            return "(idx %s %s)" % (a[0], " ".join(self.index(sc, d) for d in a[2]))
        if sc.structs:
            s = r.choice(sc.structs)
            fields = [f for (sn, fs) in self.structs if sn == s[1] for f in fs]
            f = r.choice(fields)
            if f[2]:
                return "(fldidx %s %s %s)" % (s[0], f[1], " ".join(self.index(sc, d) for d in f[2]))
            return "(fld %s %s)" % (s[0], f[1])
        return lit(self.small_lit())

    def index(self, sc, extent):
        """mostly in range; error-seeking share"""
        r = self.r
        k = r.below(100)
        if k < 55:
            return lit(r.below(extent))
        if k < 85:
            lv = [v for v in sc.loopvars if v[1] <= extent]
            if lv:
                return "(var %s)" % r.choice(lv)[0]
            return lit(r.below(extent))
        if k < 93:
            # computed but in range:  ((e % n) + n) % n
            e = self.expr(sc, 1, True)
            n = lit(extent)
            return "(bin mod (bin add (bin mod %s %s) %s) %s)" % (e, n, n, n)
        self.count("oob_index")
        return lit(r.choice([-1, extent, extent + 1, -2]))

    def pure_total(self, sc, depth):
        """an expression that has no effects and cannot fail (used where a known finding closes a gate)"""
        r = self.r
        if depth <= 0 or r.chance(40):
            pool = sc.scalars + self.globals.scalars
            if pool and r.chance(60):
                return "(var %s)" % r.choice(pool)[0]
            return lit(r.range(-5, 9))
        op = r.choice(["lt", "le", "gt", "ge", "eq", "ne", "band", "bor", "bxor"])
        return "(bin %s %s %s)" % (op, self.pure_total(sc, depth - 1), self.pure_total(sc, depth - 1))

    def expr(self, sc, depth, pure=False):
        r = self.r
        if depth <= 0 or r.chance(25):
            return self.leaf(sc, pure)
        k = r.below(100)
        if k < 62:
            op = r.choice(BINOPS)
            self.count("op_" + op)
            a = self.expr(sc, depth - 1, pure)
            if op in ("land", "lor"):
                if "short_circuit" in self.gates:
                    b = self.pure_total(sc, depth - 1)
                else:
                    b = self.expr(sc, depth - 1, pure)
                return "(bin %s %s %s)" % (op, a, b)
            if op in ("div", "mod"):
                if r.chance(85):
                    d = r.choice([1, 2, 3, 7, -1, -2, -3, 10, 256])
                    if op == "mod" and d == -1 and "mod_minus_one" in self.gates:
                        d = -2
                    b = lit(d) if r.chance(70) else "(bin bor %s (lit 1))" % self.expr(sc, depth - 1, pure)
                elif r.chance(70):
                    b = "(bin bor %s (lit 1))" % self.expr(sc, depth - 1, pure)
                else:
                    self.count("risky_divisor")
                    b = self.expr(sc, depth - 1, pure)
                return "(bin %s %s %s)" % (op, a, b)
            if op in ("shl", "shr"):
                if r.chance(90):
                    b = lit(r.choice([0, 1, 2, 3, 5, 8, 31, 32, 62, 63]) if op == "shr" else r.choice([0, 1, 2, 3, 5, 8]))
                else:
                    b = "(bin band %s (lit 7))" % self.expr(sc, depth - 1, pure)
                return "(bin %s %s %s)" % (op, a, b)
            if op == "mul":
                if r.chance(70):
                    return "(bin mul %s %s)" % (a, lit(r.range(-4, 9)))
            return "(bin %s %s %s)" % (op, a, self.expr(sc, depth - 1, pure))
        if k < 72:
            op = r.choice(["neg", "not", "bnot"])
            self.count("op_" + op)
            return "(un %s %s)" % (op, self.expr(sc, depth - 1, pure))
        if k < 82:
            self.count("op_tern")
            c = self.expr(sc, depth - 1, pure)
            if "ternary_lazy" in self.gates:
                return "(tern %s %s %s)" % (c, self.pure_total(sc, depth - 1), self.pure_total(sc, depth - 1))
            return "(tern %s %s %s)" % (c, self.expr(sc, depth - 1, pure), self.expr(sc, depth - 1, pure))
        if k < 94:
            fs = [f for f in self.funcs if f.ret and (not pure or not f.effectful)]
            if fs:
                f = r.choice(fs)
                self.count("call")
                return self.call(sc, f, depth - 1, pure)
            return self.leaf(sc, pure)
        if k < 97:
            e = self.expr(sc, depth - 1, pure)
            # `(x)` around a lone identifier is parsed as a cast by the implementation (C02 finding paren_ident)
            if (e.startswith("(var ") or e.startswith("(idx ")) and "paren_ident" in self.gates:
                return e
            return "(paren %s)" % e
        return self.leaf(sc, pure)

    def expr_interp(self, sc, depth, pure=False):
        """expression placed inside "{...}": the interpolation parser does not accept ?: (C16 finding)"""
        for _ in range(6):
            e = self.expr(sc, depth, pure)
            if "interp_ternary" not in self.gates or "(tern" not in e:
                return e
        return self.leaf(sc, False)

    def call(self, sc, f, depth, pure):
        if "arg_new_param" in self.gates:
            # arguments are evaluated in the callee's context by the implementation (C08 finding): a static
            # local of the caller is not visible there, and a caller variable that has the name of one of the callee's
            # parameters reads the callee's freshly bound parameter
            saved = sc.scalars
            pnames = {p[1] for p in f.params}
            sc.scalars = [v for v in sc.scalars if v[0] not in self.statics and v[0] not in pnames]
            try:
                return self.call2(sc, f, depth, pure)
            finally:
                sc.scalars = saved
        return self.call2(sc, f, depth, pure)

    def call2(self, sc, f, depth, pure):
        args = []
        nargs = len(f.params)
        # omit trailing defaulted parameters sometimes
        while nargs > 0 and f.params[nargs - 1][2] is not None and self.r.chance(40):
            nargs -= 1
        for (ty, name, d) in f.params[:nargs]:
            args.append(self.fit(sc, ty, depth, pure))
        return "(call %s%s)" % (f.name, "".join(" " + a for a in args))

    def fit_strict(self, sc, ty, depth, pure=False):
        """an expression whose value always fits type ty (used where a known finding closes a gate)"""
        r = self.r
        lo, hi = RANGE[ty]
        if ty == "bool":
            return self.fit(sc, ty, depth, pure)
        if ty == "long":
            return self.expr(sc, depth, pure)
        e = self.expr(sc, depth, pure)
        if lo == 0:
            return "(bin band %s (lit %d))" % (e, 63 if hi <= 255 else 32767)
        return "(bin mod %s (lit %d))" % (e, 100 if hi <= 127 else 30000)

    def fit(self, sc, ty, depth, pure=False):
        """an expression whose value mostly fits type ty"""
        r = self.r
        lo, hi = RANGE[ty]
        if ty == "bool":
            op = r.choice(["lt", "le", "gt", "ge", "eq", "ne"])
            return "(bin %s %s %s)" % (op, self.expr(sc, depth - 1, pure), self.expr(sc, depth - 1, pure))
        k = r.below(100)
        if k < 8:
            self.count("boundary_store")
            return lit(r.choice([lo, hi, lo + 1, hi - 1]))
        if k < 10 and ty not in ("long", "ulong"):
            self.count("oor_store")
            return lit(r.choice([hi + 1, lo - 1, hi + 2]))
        e = self.expr(sc, depth, pure)
        if ty in ("long", "ulong"):
            return e if ty == "long" or r.chance(10) else "(bin band %s (lit 65535))" % e
        if ty in ("int", "uint"):
            if r.chance(92):
                return "(bin mod %s (lit 100000))" % e if ty == "int" else "(bin band %s (lit 65535))" % e
            return e
        if r.chance(95):
            m = 100 if hi <= 255 else 30000
            if lo == 0:
                return "(bin band %s (lit %d))" % (e, 63 if hi <= 255 else 32767)
            return "(bin mod %s (lit %d))" % (e, m)
        return e

    # ------------------------------------------------------------ statements
    def decl(self, sc, glob=False):
        r = self.r
        k = r.below(10)
        if k < 6 or glob and k < 7:
            ty = r.choice(TYPES) if r.chance(50) else r.choice(["int", "long"])
            if self.features.get("narrow") and r.chance(70):
                ty = r.choice(["tiny", "utiny", "short", "ushort", "char", "int", "uint"])
            x = self.fresh("v")
            const = r.chance(30 if self.features.get("consts") else 8)
            static = (not glob) and r.chance(25 if self.features.get("calls") else 5) and "no_static" not in self.features
            if static and "static_aliases_caller_local" in self.gates:
                self.stn = getattr(self, "stn", 0) + 1
                x = "st%d" % self.stn      # program-wide unique: never the name of some caller's local
            if static and ty.startswith("u") and "static_unsigned" in self.gates:
                ty = ty[1:]
            e = self.fit(sc, ty, 0 if glob else 2, pure=static or glob)
            if glob or static:
                lo, hi = RANGE[ty]
                e = lit(r.choice([lo, hi, 0, 1, min(hi, 5)]) if ty != "bool" else r.below(2))
            fl = ("c" if const else "") + ("s" if static else "") or "-"
            if static:
                self.statics.add(x)
            sc.scalars.append((x, ty, const))
            return "(decl %s %s %s %s)" % (fl, ty, x, e)
        if k < 9:
            ty = r.choice(["int", "int", "long", "tiny", "short", "uint"])
            if glob and ty == "uint" and "global_unsigned_array" in self.gates:
                ty = "int"
            dims = [r.range(1, 4) for _ in range(r.choice([1, 1, 1, 2, 2, 3]))]
            x = self.fresh("a")
            n = 1
            for d in dims:
                n *= d
            init = ""
            if len(dims) == 1 and r.chance(50) and not glob:
                init = " (init %s)" % " ".join(lit(r.range(-9, 99)) for _ in range(n))
            sc.arrays.append((x, ty, dims, False))
            return "(declarr - %s %s (dims %s)%s)" % (ty, x, " ".join(map(str, dims)), init)
        if self.structs:
            s = r.choice(self.structs)
            x = self.fresh("s")
            sc.structs.append((x, s[0]))
            return "(declstruct %s %s)" % (s[0], x)
        return self.decl(sc, glob)

    def lvalue(self, sc):
        """(sexp, ty, is_element, kind) of a writable location; kind: var | elem1 | elemmd | member"""
        r = self.r
        k = r.below(10)
        pool = [v for v in sc.scalars + self.globals.scalars if not v[2] and not any(v[0] == l[0] for l in sc.loopvars)]
        if k < 6 and pool:
            v = r.choice(pool)
            return "(var %s)" % v[0], v[1], False, "var"
        arrs = [a for a in sc.arrays + self.globals.arrays if not a[3]]
        if k < 8 and arrs:
            a = r.choice(arrs)
            return ("(idx %s %s)" % (a[0], " ".join(self.index(sc, d) for d in a[2])), a[1], True,
                    "elem1" if len(a[2]) == 1 else "elemmd")
        if sc.structs:
            s = r.choice(sc.structs)
            fields = [f for (sn, fs) in self.structs if sn == s[1] for f in fs]
            f = r.choice(fields)
            if f[2]:
                return "(fldidx %s %s %s)" % (s[0], f[1], " ".join(self.index(sc, d) for d in f[2])), f[0], True, "member"
            return "(fld %s %s)" % (s[0], f[1]), f[0], False, "member"
        if pool:
            v = r.choice(pool)
            return "(var %s)" % v[0], v[1], False, "var"
        return None

    def stmt(self, sc, depth, in_loop, budget):
        r = self.r
        budget[0] -= 1
        k = r.below(100)
        if k < 18 or budget[0] <= 0:
            return self.decl(sc)
        if k < 36:
            lv = self.lvalue(sc)
            if lv is None:
                return self.decl(sc)
            self.count("assign")
            pure = lv[2] and "elem_assign_rhs_once" in self.gates
            strict = (lv[3] == "elemmd" and "elem_range_md" in self.gates) or \
                     (lv[3] == "member" and "member_range" in self.gates)
            fitf = self.fit_strict if strict else self.fit
            rhs = fitf(sc, lv[1], 2, pure)
            if lv[3] != "var" and "ternary_rhs_elem_member" in self.gates:
                for _ in range(8):
                    if "(tern" not in rhs:
                        break
                    rhs = fitf(sc, lv[1], 1, pure)
                if "(tern" in rhs:
                    rhs = lit(r.range(0, 9))
            return "(assign %s %s)" % (lv[0], rhs)
        if k < 44:
            lv = self.lvalue(sc)
            if lv is None or lv[1] == "bool":
                return self.decl(sc)
            if lv[2] and "compound_elem" in self.gates:
                return self.decl(sc)
            if (lv[3] == "member" and "member_range" in self.gates) and lv[1] not in ("long",):
                return self.decl(sc)
            op = r.choice(["add", "sub", "mul", "div", "mod", "shl", "shr", "band", "bor", "bxor"])
            self.count("compound")
            rhs = lit(r.choice([1, 2, 3, 5, 7])) if op in ("div", "mod", "shl", "shr", "mul") else self.expr(sc, 1, True)
            if lv[1] in ("tiny", "utiny", "char", "short", "ushort") and op in ("add", "sub"):
                rhs = lit(r.range(0, 3))
            return "(compound %s %s %s)" % (op, lv[0], rhs)
        if k < 50:
            pool = [v for v in sc.scalars if not v[2] and v[1] in ("int", "long") and not any(v[0] == l[0] for l in sc.loopvars)]
            if not pool or "incdec" in self.gates:
                return self.decl(sc)
            v = r.choice(pool)
            self.count("incdec")
            return "(expr (incdec %s %s (var %s)))" % (r.choice(["pre", "post"]), r.choice(["inc", "dec"]), v[0])
        if k < 66:
            self.count("print")
            self.label += 1
            if r.chance(30):
                parts = ["(s \"L%d \")" % self.label]
                for _ in range(r.range(1, 2)):
                    parts.append("(e %s)" % self.expr_interp(sc, 2, "println_reeval" in self.gates))
                    parts.append("(s \";\")")
                return "(printi %s)" % " ".join(parts)
            pr = "println_reeval" in self.gates
            items = ["(s \"L%d\")" % self.label] + ["(e %s)" % self.expr(sc, 2, pr) for _ in range(r.range(1, 3))]
            return "(print %s)" % " ".join(items)
        if k < 76 and depth > 0:
            self.count("if")
            c = self.expr(sc, 2)
            t = self.block(sc, depth - 1, in_loop, budget)
            if r.chance(50):
                return "(if %s (%s) (%s))" % (c, t, self.block(sc, depth - 1, in_loop, budget))
            return "(if %s (%s))" % (c, t)
        if k < 84 and depth > 0:
            self.count("for")
            i = self.fresh("i")
            n = r.range(1, 5)
            sc.loopvars.append((i, n))
            sc.scalars.append((i, "int", False))
            body = self.block(sc, depth - 1, True, budget)
            sc.loopvars.pop()
            sc.scalars = [v for v in sc.scalars if v[0] != i]
            upd = "(expr (incdec post inc (var %s)))" % i if r.chance(60) else "(compound add (var %s) (lit 1))" % i
            return "(for (decl - int %s (lit 0)) (bin lt (var %s) (lit %d)) %s (%s))" % (i, i, n, upd, body)
        if k < 90 and depth > 0:
            self.count("while")
            w = self.fresh("w")
            n = r.range(1, 4)
            sc.scalars.append((w, "int", False))
            sc.loopvars.append((w, n + 1))
            body = self.block(sc, depth - 1, True, budget)
            sc.loopvars.pop()
            return "(block (decl - int %s (lit 0)) (while (bin lt (var %s) (lit %d)) ((compound add (var %s) (lit 1)) %s)))" % (
                w, w, n, w, body)
        if k < 94 and in_loop:
            self.count("break_continue")
            c = self.expr(sc, 1)
            return "(if %s ((%s)))" % (c, r.choice(["break", "continue"]))
        if k < 98:
            fs = [f for f in self.funcs]
            if fs:
                f = r.choice(fs)
                self.count("call_stmt")
                return "(expr %s)" % self.call(sc, f, 1, False)
        return self.decl(sc)

    def block(self, sc, depth, in_loop, budget):
        n = self.r.range(1, 4)
        out = []
        ns, na, nst = len(sc.scalars), len(sc.arrays), len(sc.structs)
        for _ in range(n):
            out.append(self.stmt(sc, depth, in_loop, budget))
        # variables declared in a block are not used after it (the language scopes them to the block)
        del sc.scalars[ns:]
        del sc.arrays[na:]
        del sc.structs[nst:]
        return " ".join(out)

    # ------------------------------------------------------------ functions, program
    def func(self, k):
        r = self.r
        if self.features.get("reuse_names"):
            self.n = 0     # every function uses the same local names v1, v2, p1, ...
        name = "f%d" % k
        ret = r.choice(["int", "int", "long", "tiny", "short", "uint", "bool", None])
        sc = Scope()
        params = []
        for _ in range(r.range(0, 3)):
            ty = r.choice(["int", "int", "long", "tiny", "short", "utiny"])
            p = self.fresh("p")
            params.append([ty, p, None])
            sc.scalars.append((p, ty, False))
        if params and r.chance(40) and "no_defaults" not in self.features:
            lo, hi = RANGE[params[-1][0]]
            params[-1][2] = r.choice([0, 1, 5, hi, lo])
        effectful = r.chance(50)
        saved_features = self.features
        if not effectful:
            self.features = {k: v for k, v in self.features.items() if k != "effect_leaves"}
        budget = [r.range(2, 8)]
        body = []
        saved = self.funcs
        if not effectful:
            self.funcs = [f for f in self.funcs if not f.effectful]
        for _ in range(r.range(1, 5)):
            if effectful:
                body.append(self.stmt(sc, 2, False, budget))
            else:
                # pure: only local declarations and local assignments
                if r.chance(60):
                    gl = self.globals
                    self.globals = Scope()  # do not write globals
                    self.globals.scalars = [(v[0], v[1], True) for v in gl.scalars]
                    self.globals.arrays = [(a[0], a[1], a[2], True) for a in gl.arrays]
                    lv = self.lvalue(sc)
                    if lv and not lv[2]:
                        strict = lv[3] == "member" and "member_range" in self.gates
                        rhs = (self.fit_strict if strict else self.fit)(sc, lv[1], 2, True)
                        if lv[3] != "var" and "ternary_rhs_elem_member" in self.gates and "(tern" in rhs:
                            rhs = lit(r.range(0, 9))
                        body.append("(assign %s %s)" % (lv[0], rhs))
                    else:
                        body.append(self.decl(sc))
                    self.globals = gl
                else:
                    body.append(self.decl(sc))
        self.funcs = saved
        self.features = saved_features
        if ret:
            fitr = self.fit_strict if "ret_range" in self.gates else self.fit
            if r.chance(30):
                body.append("(if %s ((ret %s)))" % (self.expr(sc, 1, True), fitr(sc, ret, 1, True)))
            body.append("(ret %s)" % fitr(sc, ret, 2, True))
        elif r.chance(30):
            body.append("(ret)")
        f = Fn(name, ret, [tuple(p) for p in params], effectful)
        ps = " ".join("(%s %s%s)" % (p[0], p[1], "" if p[2] is None else " %d" % p[2]) for p in params)
        return f, "(func %s %s (params%s) (%s))" % (name, ret or "void", (" " + ps) if ps else "", " ".join(body))

    def rec_func(self):
        name = "rec"
        if "arg_new_param" in self.gates:
            # arguments of the recursive call must not mention a parameter bound earlier in the same call
            f = Fn(name, "long", [("long", "racc", None), ("int", "rn", None)], False)
            txt = ("(func rec long (params (long racc) (int rn)) ((if (bin bor (bin le (var rn) (lit 0)) (bin gt (var rn) (lit 40))) ((ret (var racc)))) "
                   "(ret (call rec (bin add (var racc) (var rn)) (bin sub (var rn) (lit 1))))))")
        else:
            f = Fn(name, "long", [("int", "rn", None), ("long", "racc", None)], False)
            txt = ("(func rec long (params (int rn) (long racc)) ((if (bin bor (bin le (var rn) (lit 0)) (bin gt (var rn) (lit 40))) ((ret (var racc)))) "
                   "(ret (call rec (bin sub (var rn) (lit 1)) (bin add (var racc) (var rn))))))")
        return f, txt

    def prog(self):
        r = self.r
        if "no_structs" not in self.features:
            for k in range(r.range(0, 2)):
                fs = []
                for j in range(r.range(1, 3)):
                    ty = r.choice(["int", "long", "tiny", "short", "uint"])
                    dims = [r.range(1, 4)] if r.chance(30) else []
                    fs.append((ty, "m%d" % j, dims))
                self.structs.append(("S%d" % k, fs))
        self.in_global = True
        gl = [self.decl(self.globals, True) for _ in range(r.range(0, 4))]
        self.in_global = False
        ftxt = []
        if r.chance(50):
            f, t = self.rec_func()
            self.funcs.append(f)
            ftxt.append(t)
        for k in range(r.range(0, 4)):
            f, t = self.func(k)
            self.funcs.append(f)
            ftxt.append(t)
        if self.features.get("reuse_names"):
            self.n = 0
        if self.features.get("effect_leaves"):
            ftxt.append("(func t int (params (int k) (int v)) ((print (s \"t\") (e (var k))) (ret (var v))))")
        sc = Scope()
        budget = [self.size]
        body = []
        while budget[0] > 0:
            body.append(self.stmt(sc, 3, False, budget))
        body.append("(print (s \"END\"))")
        body.append("(ret (lit 0))")
        ftxt.append("(func main int (params) (%s))" % " ".join(body))
        st = " ".join("(struct %s %s)" % (sn, " ".join("(field %s %s%s)" % (ty, fn, "".join(" %d" % d for d in dims))
                                                       for (ty, fn, dims) in fs)) for (sn, fs) in self.structs)
        return "(prog (structs%s) (globals%s) (funcs %s))" % (
            (" " + st) if st else "", (" " + " ".join(gl)) if gl else "", " ".join(ftxt))


def gen_program(seed, stream, k, gates=(), size=30, features=None):
    g = CoreGen(Rng(seed * 1000003 + k, stream), gates, size, features)
    return g.prog(), g.stats
