/-
  Obligation on the table regenerated from FFIManager::callFunction: every branch casts the symbol to the
  declared C type and takes its arguments in declaration order with the right extraction; no two branches
  overlap.
-/
import CbGen.FfiTable
import CbModel.Ffi
namespace CbOblig.C20
open CbModel.Ffi

def toRow (r : CbGen.FfiRow) : Row := ⟨r.rets, r.params, r.castRet, r.castParams, r.argVia⟩
def table : List Row := CbGen.ffiTable.map toRow

theorem ffiTable_rows_ok : table.all rowOK = true := by decide
theorem ffiTable_no_overlap : noOverlap table = true := by decide

end CbOblig.C20
