/-
  C06 — destructors and defers.
  `exec`  : mechanism model: the two cleanup stacks (defer_stacks_, destructor_stacks_) with pushes and
            pops exactly where the interpreter performs them (core/cleanup.cpp, statement_list_executor.cpp,
            control_flow_executor.cpp, handlers/control/return.cpp, call_impl.cpp).
  `sexec` : specification: every scope owns its registrations; leaving a scope by ANY path runs its defers
            (LIFO) and then destroys its objects (LIFO); inner scopes before outer ones; a callee never
            touches its caller's scope.
  Programs are *scope skeletons*: the statements that matter for cleanup.  Core Lean only.
-/
namespace CbModel.Cleanup

inductive Sk where
  | obj (id : Nat)                       -- declaration of an object whose type has a destructor
  | defer (id : Nat)                     -- `defer <stmt id>;`
  | mark (id : Nat)                      -- an ordinary observable statement
  | block (body : List Sk)               -- `{ ... }`
  | ifS (taken : Bool) (body : List Sk)  -- `if (c) { ... }` with the condition's value
  | loop (n : Nat) (body : List Sk)      -- `for (i < n) { ... }`  (the body is a compound statement)
  | call (f : Nat)                       -- call of function number f
  | ret | brk | cont
  deriving Repr, Inhabited

inductive Ev where
  | ctor (id : Nat) | dtor (id : Nat) | dfr (id : Nat) | mark (id : Nat)
  deriving Repr, BEq, DecidableEq, Inhabited

inductive Sig where
  | norm | ret | brk | cont | oof
  deriving Repr, BEq, DecidableEq, Inhabited

abbrev Funcs := List (List Sk)

/-! ## mechanism -/

structure St where
  D : List (List Nat)      -- defer_stacks_ ; head = innermost frame; each frame oldest registration first
  X : List (List Nat)      -- destructor_stacks_
  out : List Ev
  deriving Repr, Inhabited

def runDefers (ids : List Nat) : List Ev := ids.reverse.map Ev.dfr
def runDtors (ids : List Nat) : List Ev := ids.reverse.map Ev.dtor

def addTop (fs : List (List Nat)) (id : Nat) : List (List Nat) :=
  match fs with
  | [] => []
  | f :: r => (f ++ [id]) :: r

/-- pop_defer_scope: run the innermost defer frame LIFO and pop it -/
def popDefer (s : St) : St :=
  match s.D with
  | [] => s
  | f :: r => { s with D := r, out := s.out ++ runDefers f }

/-- the destructor half of pop_scope / pop_destructor_scope -/
def popDtor (s : St) : St :=
  match s.X with
  | [] => s
  | f :: r => { s with X := r, out := s.out ++ runDtors f }

/-- pop_destructor_scope and the cleanup part of pop_scope: defers first, then destructors -/
def popBoth (s : St) : St := popDtor (popDefer s)

def pushBoth (s : St) : St := { s with D := [] :: s.D, X := [] :: s.X }

/-- execute_pre_return_cleanup: run and EMPTY the innermost frames, leaving them in place -/
def preReturn (s : St) : St :=
  let s1 : St := match s.D with
    | [] => s
    | f :: r => { s with D := [] :: r, out := s.out ++ runDefers f }
  match s1.X with
  | [] => s1
  | f :: r => { s1 with X := [] :: r, out := s1.out ++ runDtors f }

mutual
def exec (fs : Funcs) : Nat → Sk → St → Sig × St
  | 0, _, s => (.oof, s)
  | fuel + 1, sk, s =>
    match sk with
    | .obj id => (.norm, { s with X := addTop s.X id, out := s.out ++ [.ctor id] })
    | .defer id => (.norm, { s with D := addTop s.D id })
    | .mark id => (.norm, { s with out := s.out ++ [.mark id] })
    | .block body =>
        -- push_destructor_scope; body; pop_destructor_scope on every path
        let (sg, s1) := execList fs fuel body (pushBoth s)
        (sg, popBoth s1)
    | .ifS taken body => if taken then exec fs fuel (.block body) s else (.norm, s)
    | .loop n body =>
        -- push_defer_scope; iterations; pop_defer_scope (also when a return passes through)
        let (sg, s1) := iter fs fuel n body { s with D := [] :: s.D }
        (sg, popDefer s1)
    | .call f =>
        match fs[f]? with
        | none => (.oof, s)
        | some body =>
          -- push_scope; function body (a statement list: no frames of its own); pop_scope
          let (sg, s1) := execList fs fuel body (pushBoth s)
          let s2 := popBoth s1
          match sg with
          | .oof => (.oof, s2)
          | _ => (.norm, s2)
    | .ret => (.ret, preReturn s)
    | .brk => (.brk, s)
    | .cont => (.cont, s)

def execList (fs : Funcs) : Nat → List Sk → St → Sig × St
  | 0, _, s => (.oof, s)
  | _ + 1, [], s => (.norm, s)
  | fuel + 1, sk :: rest, s =>
    match exec fs fuel sk s with
    | (.norm, s1) => execList fs fuel rest s1
    | r => r

/-- `n` iterations of a loop whose body is a compound statement -/
def iter (fs : Funcs) : Nat → Nat → List Sk → St → Sig × St
  | 0, _, _, s => (.oof, s)
  | _ + 1, 0, _, s => (.norm, s)
  | fuel + 1, n + 1, body, s =>
    match exec fs fuel (.block body) s with
    | (.norm, s1) => iter fs fuel n body s1
    | (.cont, s1) => iter fs fuel n body s1
    | (.brk, s1) => (.norm, s1)
    | r => r
end

/-- a whole program: `main` is function 0 -/
def run (fs : Funcs) (fuel : Nat) : Sig × St := exec fs fuel (.call 0) ⟨[], [], []⟩

/-! ## specification -/

/-- what a scope has registered so far -/
structure Scope where
  defers : List Nat
  objs : List Nat
  deriving Repr, Inhabited

/-- leaving a scope: its defers in reverse registration order, then its objects in reverse order of
    construction -/
def exitScope (sc : Scope) : List Ev := runDefers sc.defers ++ runDtors sc.objs

mutual
/-- `sexec sk sc` runs one statement inside the scope `sc`; returns the signal, the scope's registrations
    afterwards and the events produced -/
def sexec (fs : Funcs) : Nat → Sk → Scope → Sig × Scope × List Ev
  | 0, _, sc => (.oof, sc, [])
  | fuel + 1, sk, sc =>
    match sk with
    | .obj id => (.norm, { sc with objs := sc.objs ++ [id] }, [.ctor id])
    | .defer id => (.norm, { sc with defers := sc.defers ++ [id] }, [])
    | .mark id => (.norm, sc, [.mark id])
    | .block body =>
        let (sg, inner, evs) := sexecList fs fuel body ⟨[], []⟩
        (sg, sc, evs ++ exitScope inner)
    | .ifS taken body => if taken then sexec fs fuel (.block body) sc else (.norm, sc, [])
    | .loop n body => siter fs fuel n body sc
    | .call f =>
        match fs[f]? with
        | none => (.oof, sc, [])
        | some body =>
          let (sg, inner, evs) := sexecList fs fuel body ⟨[], []⟩
          match sg with
          | .oof => (.oof, sc, evs ++ exitScope inner)
          | _ => (.norm, sc, evs ++ exitScope inner)
    | .ret => (.ret, sc, [])
    | .brk => (.brk, sc, [])
    | .cont => (.cont, sc, [])

def sexecList (fs : Funcs) : Nat → List Sk → Scope → Sig × Scope × List Ev
  | 0, _, sc => (.oof, sc, [])
  | _ + 1, [], sc => (.norm, sc, [])
  | fuel + 1, sk :: rest, sc =>
    match sexec fs fuel sk sc with
    | (.norm, sc1, e1) =>
      let (sg, sc2, e2) := sexecList fs fuel rest sc1
      (sg, sc2, e1 ++ e2)
    | r => r

def siter (fs : Funcs) : Nat → Nat → List Sk → Scope → Sig × Scope × List Ev
  | 0, _, _, sc => (.oof, sc, [])
  | _ + 1, 0, _, sc => (.norm, sc, [])
  | fuel + 1, n + 1, body, sc =>
    match sexec fs fuel (.block body) sc with
    | (.norm, sc1, e1) => let (sg, sc2, e2) := siter fs fuel n body sc1; (sg, sc2, e1 ++ e2)
    | (.cont, sc1, e1) => let (sg, sc2, e2) := siter fs fuel n body sc1; (sg, sc2, e1 ++ e2)
    | (.brk, sc1, e1) => (.norm, sc1, e1)
    | r => r
end

def srun (fs : Funcs) (fuel : Nat) : Sig × List Ev :=
  let (sg, _, evs) := sexec fs fuel (.call 0) ⟨[], []⟩
  (sg, evs)

end CbModel.Cleanup
