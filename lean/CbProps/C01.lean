/-
  C01 — sequential core programs mean what the documented C-like semantics say.
  Theorems about the reference semantics CbRef: arithmetic laws, output discipline, loop rules.
-/
import CbProofs.RefInv
import CbProofs.RefFuel
namespace CbProps.C01
open CbModel.Ref

/-! ## arithmetic: truncating division, sign-of-dividend remainder, arithmetic right shift -/

/-- `/` truncates toward zero and `%` takes the sign of the dividend: a = b·q + r, |r| < |b| -/
theorem tdiv_tmod_spec (a b q r : Int) (hq : evalBin .div a b = .ok q) (hr : evalBin .mod a b = .ok r) :
    a = b * q + r ∧ r.natAbs < b.natAbs ∧ (0 ≤ a → 0 ≤ r) ∧ (a ≤ 0 → r ≤ 0) := by
  have hb : b ≠ 0 := by
    intro h0; subst h0; simp [evalBin] at hq
  have hq' : q = Int.tdiv a b := by
    simp only [evalBin, beq_iff_eq, hb, ↓reduceIte, checkI64] at hq
    split at hq <;> simp only [Res.ok.injEq, reduceCtorEq] at hq
    exact hq.symm
  have hr' : r = Int.tmod a b := by
    simp only [evalBin, beq_iff_eq, hb, ↓reduceIte, checkI64] at hr
    split at hr
    · rename_i h1
      simp only [Res.ok.injEq] at hr; subst hr; subst h1
      simp [Int.tmod_neg]
    · split at hr <;> simp only [Res.ok.injEq, reduceCtorEq] at hr
      exact hr.symm
  subst hq' hr'
  refine ⟨(Int.mul_tdiv_add_tmod a b).symm, ?_, ?_, ?_⟩
  · have := Int.natAbs_tmod a b  -- |a tmod b| = |a| % |b|
    rw [this]
    exact Nat.mod_lt _ (Int.natAbs_pos.mpr hb)
  · intro h; exact Int.tmod_nonneg b h
  · intro h
    have := Int.tmod_nonneg b (show 0 ≤ -a by omega)
    rw [Int.neg_tmod] at this
    omega

/-- division and remainder by zero are runtime errors -/
theorem div_mod_zero_is_error (a : Int) :
    evalBin .div a 0 = .err .divzero ∧ evalBin .mod a 0 = .err .divzero := by
  simp [evalBin]

/-- `>>` is the arithmetic shift: floor division by 2^k, for negative operands too -/
theorem shr_floor (a k r : Int) (h : evalBin .shr a k = .ok r) :
    0 ≤ k ∧ k < 64 ∧ r * 2 ^ k.toNat ≤ a ∧ a < (r + 1) * 2 ^ k.toNat := by
  simp only [evalBin] at h
  split at h
  · simp at h
  · rename_i hk
    simp only [Bool.or_eq_true, decide_eq_true_eq, not_or, Int.not_lt] at hk
    simp only [Res.ok.injEq] at h
    subst h
    have hpos : (0 : Int) < 2 ^ k.toNat := Int.pow_pos (by decide)
    refine ⟨hk.1, by omega, ?_, ?_⟩
    · exact Int.ediv_mul_le a (Int.ne_of_gt hpos)
    · exact Int.lt_ediv_add_one_mul_self a hpos

/-! ## output: in order, all of it before an error, nothing after -/

/-- output only grows, whatever is executed -/
theorem output_prefix_monotone (p : Prog) (fuel : Nat) (ss : List Stmt) (s : St) :
    ∃ suf, (execSs p fuel ss s).2.out = s.out ++ suf :=
  (allPres (primOK_outPrefix s.out) p fuel).execSs ss s ⟨[], by simp⟩

theorem call_output_monotone (p : Prog) (fuel : Nat) (f : String) (args : List Int) (s : St) :
    ∃ suf, (callF p fuel f args s).2.out = s.out ++ suf :=
  (allPres (primOK_outPrefix s.out) p fuel).callF f args s ⟨[], by simp⟩

/-- after a runtime error nothing more is executed: the statements that follow do not run, the
    state (hence the output) is the one at the error -/
theorem nothing_after_error (p : Prog) (fuel : Nat) (st : Stmt) (rest : List Stmt) (s s' : St) (k : ErrKind)
    (h : execS p fuel st s = (.err k, s')) :
    execSs p (fuel + 1) (st :: rest) s = (.err k, s') := by
  unfold execSs
  show (M.bind (execS p fuel st) _) s = _
  unfold M.bind
  rw [h]

/-- a run that ends in a runtime error reports failure, a completed run success -/
theorem error_is_nonzero_exit (p : Prog) (fuel : Nat) (oc : Outcome) (out : List String)
    (_h : runProg p fuel = (oc, out)) :
    (∀ k, oc = .exit1 k → oc ≠ .exit0) ∧ (oc = .exit0 → ∀ k, oc ≠ .exit1 k) := by
  constructor
  · intro k hk; rw [hk]; simp
  · intro h0 k; rw [h0]; simp

/-! ## loops -/

/-- `continue` in a `for` body still runs the update expression before the next test -/
theorem for_continue_runs_update (p : Prog) (fuel : Nat) (c : Expr) (u : Stmt) (body : List Stmt)
    (s s1 s2 : St) (cv : Int) (hc : evalE p fuel c s = (.ok cv, s1)) (hcv : cv ≠ 0)
    (hb : execSs p fuel body s1 = (.cont, s2)) :
    loop p (fuel + 1) c (some u) body s = afterBody p fuel c (some u) body s2 := by
  unfold loop
  show (M.bind (evalE p fuel c) _) s = _
  unfold M.bind
  rw [hc]
  simp only [beq_iff_eq, hcv, ↓reduceIte]
  unfold catchM
  rw [hb]

/-- `break` leaves the loop at once, without running the update -/
theorem break_leaves_loop (p : Prog) (fuel : Nat) (c : Expr) (u : Option Stmt) (body : List Stmt)
    (s s1 s2 : St) (cv : Int) (hc : evalE p fuel c s = (.ok cv, s1)) (hcv : cv ≠ 0)
    (hb : execSs p fuel body s1 = (.brk, s2)) :
    loop p (fuel + 1) c u body s = (.ok (), s2) := by
  unfold loop
  show (M.bind (evalE p fuel c) _) s = _
  unfold M.bind
  rw [hc]
  simp only [beq_iff_eq, hcv, ↓reduceIte]
  unfold catchM
  rw [hb]
  rfl

/-- `for (init; c; upd) body` is `init; while (c) { body; upd }` with `continue` → `upd` -/
theorem for_as_init_then_loop (p : Prog) (fuel : Nat) (i : Stmt) (c : Expr) (u : Option Stmt)
    (body : List Stmt) :
    execS p (fuel + 1) (.forS (some i) c u body) =
      (execS p fuel i >>= fun _ => loop p fuel c u body) := by
  conv => lhs; unfold execS

/-! non-vacuity -/
example : evalBin .div (-7) 2 = .ok (-3) ∧ evalBin .mod (-7) 2 = .ok (-1) ∧ evalBin .mod 7 (-2) = .ok 1 ∧
    evalBin .shr (-7) 1 = .ok (-4) := by
  refine ⟨?_, ?_, ?_, ?_⟩ <;> simp [evalBin, checkI64, inI64] <;> decide

/-! ## the meaning of a program does not depend on the fuel given to the reference semantics -/

/-- **Fuel independence.**  Once a run of the reference semantics ends by itself (any outcome except "out of
    fuel"), every larger amount of fuel gives exactly the same outcome and the same output: the "documented
    semantics" of a terminating program is one well-defined value, not an artefact of the driver's fuel -/
theorem meaning_independent_of_fuel (p : Prog) (n m : Nat) (h : n ≤ m) (hn : (runProg p n).1 ≠ .oof) :
    runProg p m = runProg p n :=
  CbProofs.RefFuel.runProg_fuel_mono p n m h hn

theorem two_terminating_runs_agree (p : Prog) (n m : Nat) (hn : (runProg p n).1 ≠ .oof) (hm : (runProg p m).1 ≠ .oof) :
    runProg p n = runProg p m :=
  CbProofs.RefFuel.runProg_deterministic_in_fuel p n m hn hm

end CbProps.C01
