/-
  The AVL height bound in the form the property states it:  height ≤ 1.44·log2(n+2), i.e.
  2^(25·h) ≤ (n+2)^36, for every tree the containers can hold (n < 2^63 nodes).
-/
import CbProofs.Avl
namespace CbModel.Avl

/-- linear-time Fibonacci: (fib n, fib (n+1)) -/
def fibPair : Nat → Nat × Nat
  | 0 => (0, 1)
  | n + 1 => let p := fibPair n; (p.2, p.1 + p.2)

theorem fibPair_spec (n : Nat) : fibPair n = (fib n, fib (n + 1)) := by
  induction n with
  | zero => rfl
  | succ n ih => simp [fibPair, ih, fib]

theorem fib_eq (n : Nat) : fib n = (fibPair n).1 := by rw [fibPair_spec]

theorem fib_mono_succ (n : Nat) : fib (n + 1) ≤ fib (n + 2) := by
  simp [fib]

theorem fib_mono {a b : Nat} (h : a ≤ b) : fib (a + 1) ≤ fib (b + 1) := by
  induction h with
  | refl => exact Nat.le_refl _
  | step _ ih => exact Nat.le_trans ih (fib_mono_succ _)

/-- the finite table: for every height up to 91 the bound holds with n+1 = fib(h+2) (the fewest nodes an
    AVL tree of that height can have) -/
def boundOK (h : Nat) : Bool := 2 ^ (25 * h) ≤ ((fibPair (h + 2)).1 + 1) ^ 36

theorem bound_table : ∀ h, h < 92 → boundOK h = true := by decide +kernel

theorem fib_93_big : 2 ^ 63 < (fibPair 93).1 := by decide +kernel

/-- **height ≤ 1.44·log2(n+2)** for every AVL tree with fewer than 2^63 nodes -/
theorem height_bound_144 (t : Tree) (h1 : HOK t) (h2 : Balanced t) (hs : size t < 2 ^ 63) :
    2 ^ (25 * height t) ≤ (size t + 2) ^ 36 := by
  have hf := fib_le_size t h1 h2
  have hlt : height t < 92 := by
    by_cases hh : height t < 92
    · exact hh
    · exfalso
      have h91 : 92 ≤ height t + 1 := by omega
      have hm : fib 93 ≤ fib (height t + 2) := fib_mono (a := 92) (b := height t + 1) h91
      -- fib 93 ≤ fib (height t + 2) ≤ size t + 1 < 2^63 + 1
      have hb := fib_93_big
      rw [← fib_eq] at hb
      omega
  have htab := bound_table (height t) hlt
  simp only [boundOK, decide_eq_true_eq] at htab
  rw [← fib_eq] at htab
  refine Nat.le_trans htab ?_
  exact Nat.pow_le_pow_left (by omega) 36

end CbModel.Avl
