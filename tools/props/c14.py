"""C14 — each async task runs its body once in order and await returns exactly its result.

Theorems: lean/CbProps/C14.lean on the scheduler machine CbModel/Sched.lean (in every reachable state the lines a
task has printed are exactly those of the statements before its current one, each once, in order; a finished task
never changes; await stores the awaited task's result).
Tie: (A) programs of the modelled fragment: stdout (task lines and awaited values) equals the model's; (B) task
sets whose bodies are structured code with parameters, locals, if / for / while and `yield` at every kind of
position: each task's projection of the output and its awaited result must equal what the body gives when run
alone (computed by a direct evaluation of the body — the hand-written reference of "running it alone"); the
feature that places a yield decides which matrix cell a failure belongs to.
"""
import json, os
import common, sched
from common import Rng
from props.refprops import all_findings

PID = "C14"
THEOREMS = {"CbProps.C14": ["CbProps.C14." + t for t in [
    "task_output_in_program_order", "finished_task_printed_whole_body", "finished_is_final",
    "await_in_task_delivers_result", "await_in_main_delivers_result"]],
    "CbProps.C14Spec": ["CbProps.C14Spec." + t for t in [
        "turn_preserves_meaning", "any_schedule_preserves_task_meaning", "finished_task_output", "turn_other_task_unchanged",
        "yield_resumes_at_next_statement"]]}

FEATURES = ["base", "yield_top", "yield_in_for", "yield_in_while", "yield_in_if", "yield_in_else", "nested_for", "nested_for_yield",
            "same_counter", "if_cond_changes", "while_top", "locals_many", "early_return", "yield_in_block", "for_in_if", "call_fn_loop"]
HELPERS = "int hsum(int n) {\n    int s = 0;\n    for (int q = 0; q < n; q++) {\n        s = s + q;\n    }\n    return s;\n}\nint hwhile(int n) {\n    int c = 0;\n    while (n > 0) {\n        n = n - 1;\n        c = c + 2;\n    }\n    return c;\n}\n"


def hsum(n):
    return sum(range(max(0, n)))


def hwhile(n):
    return 2 * max(0, n)


class Gen:
    def __init__(self, r, feature, name):
        self.r, self.f, self.name = r, feature, name
        self.tag = 0
        self.uid = 0

    def P(self):
        self.tag += 1
        return ("P", self.tag)

    def A(self):
        return ("A", self.r.choice(["x = x + %d" % self.r.range(1, 5), "x = x * 2 + 1", "y = y + x", "x = x - 1", "y = y * 3 - x",
                                    "p = p + %d" % self.r.range(1, 4), "p = p * 2 - x", "x = x + p"]))

    def simple(self, n):
        return [self.P() if self.r.chance(60) else self.A() for _ in range(n)]

    def body(self):
        r, f = self.r, self.f
        b = self.simple(r.range(1, 3))
        self.uid += 1
        i1 = "i%d" % self.uid
        if f == "base":
            b += [("For", i1, r.range(0, 3), self.simple(2))] + self.simple(1)
        elif f == "yield_top":
            b += [("Y",)] + self.simple(2) + [("Y",)] + self.simple(1)
        elif f == "yield_in_for":
            b += [("For", i1, r.range(1, 3), self.simple(1) + [("Y",)] + self.simple(1))] + self.simple(1)
        elif f == "yield_in_while":
            b += [("While", "w%d" % self.uid, r.range(1, 3), self.simple(1) + [("Y",)] + self.simple(1))] + self.simple(1)
        elif f == "yield_in_if":
            b += [("If", "x > -1000", self.simple(1) + [("Y",)] + self.simple(1), [])] + self.simple(1)
        elif f == "yield_in_else":
            b += [("If", "x < -1000", self.simple(1), self.simple(1) + [("Y",)] + self.simple(1))] + self.simple(1)
        elif f == "nested_for":
            self.uid += 1
            b += [("For", i1, r.range(1, 3), [("For", "i%d" % self.uid, r.range(1, 2), self.simple(1))] + self.simple(1))] + self.simple(1)
        elif f == "nested_for_yield":
            self.uid += 1
            b += [("For", i1, 2, [("For", "i%d" % self.uid, 2, self.simple(1) + [("Y",)])])] + self.simple(1)
        elif f == "same_counter":
            b += [("For", "i", r.range(1, 2), self.simple(1)), ("For", "i", r.range(1, 2), self.simple(1))] + self.simple(1)
        elif f == "if_cond_changes":
            b += [("If", "x %% 2 == %d" % r.below(2), [("A", "x = x + 1")] + [("Y",)] + self.simple(1), self.simple(1))] + self.simple(1)
        elif f == "while_top":
            b += [("While", "w%d" % self.uid, r.range(0, 3), self.simple(2))] + self.simple(1)
        elif f == "locals_many":
            b += [("A", "y = y + 7"), ("Y",), ("A", "x = x + y"), self.P(), ("Y",), ("A", "y = x - y"), self.P()]
        elif f == "early_return":
            b += [("If", "x > -1000", self.simple(1) + [("Ret",)], [])] + self.simple(1)
        elif f == "yield_in_block":
            b += [("Block", self.simple(1) + [("Y",)] + self.simple(1))] + self.simple(1)
        elif f == "call_fn_loop":
            # the task calls ordinary functions that contain loops, between suspensions
            b += [("A", "x = x + hsum(4)"), ("Y",), ("A", "y = y + hwhile(3)"), self.P(), ("For", i1, 2, [("A", "x = x + hsum(3)"), ("Y",), self.P()])] + self.simple(1)
        elif f == "for_in_if":
            b += [("If", "x > -1000", [("For", i1, 2, self.simple(1))] + self.simple(1), [])] + self.simple(1)
        return b


def render_stmts(name, b, ind):
    L = []
    for s in b:
        k = s[0]
        if k == "P":
            L.append(ind + "println(%s, %d, x, y, p);\n" % (name if name == "nm" else '"%s"' % name, s[1]))
        elif k == "A":
            L.append(ind + s[1] + ";\n")
        elif k == "Y":
            L.append(ind + "yield;\n")
        elif k == "Ret":
            L.append(ind + "return x;\n")
        elif k == "For":
            L.append(ind + "for (int %s = 0; %s < %d; %s++) {\n" % (s[1], s[1], s[2], s[1]) + render_stmts(name, s[3], ind + "    ") + ind + "}\n")
        elif k == "While":
            L.append(ind + "int %s = 0;\n" % s[1] + ind + "while (%s < %d) {\n" % (s[1], s[2]) + ind + "    %s = %s + 1;\n" % (s[1], s[1]) +
                     render_stmts(name, s[3], ind + "    ") + ind + "}\n")
        elif k == "If":
            L.append(ind + "if (%s) {\n" % s[1] + render_stmts(name, s[2], ind + "    ") + ind + "}" +
                     ((" else {\n" + render_stmts(name, s[3], ind + "    ") + ind + "}\n") if s[3] else "\n"))
        elif k == "Block":
            L.append(ind + "{\n" + render_stmts(name, s[1], ind + "    ") + ind + "}\n")
    return "".join(L)


class Ret(Exception):
    pass


def wrap32(v):
    return (v + 2**31) % 2**32 - 2**31


def wrap64(v):
    return (v + 2**63) % 2**64 - 2**63


WIDE = 3000000000      # a task whose parameter is at least this large is rendered with long parameter / locals / result


def run_alone(name, b, p):
    """reference: what the body prints / returns when executed sequentially"""
    env = {"x": p, "y": 1, "p": p}
    out = []

    def ev(expr):
        return eval(expr.replace("&&", " and ").replace("||", " or "), {"hsum": hsum, "hwhile": hwhile}, dict(env))

    def ex(stmts):
        for s in stmts:
            k = s[0]
            if k == "P":
                out.append("%s %d %d %d %d" % (name, s[1], env["x"], env["y"], env["p"]))
            elif k == "A":
                var, e = s[1].split(" = ", 1)
                env[var] = (wrap64 if abs(p) >= 2**31 else wrap32)(ev(e))
            elif k == "Ret":
                raise Ret()
            elif k == "For":
                for _ in range(s[2]):
                    ex(s[3])
            elif k == "While":
                for _ in range(s[2]):
                    ex(s[3])
            elif k == "If":
                if ev(s[1].replace("%%", "%")):
                    ex(s[2])
                else:
                    ex(s[3])
            elif k == "Block":
                ex(s[1])
    try:
        ex(b)
    except Ret:
        pass
    return out, env["x"]


def gen_case(r, feature, shared=False):
    if shared:
        # 2-3 tasks of the SAME async function (their label is a parameter): locals, loop state and resume positions must
        # not be shared between two tasks running the same code
        nt = r.range(2, 3)
        body = Gen(r, feature, "nm").body()
        wide = r.chance(30)
        ty = "long" if wide else "int"
        tasks = [("ABC"[i], body, r.range(-5, 9) + (WIDE if wide else 0)) for i in range(nt)]
        order = list(range(nt))
        for i in range(nt - 1, 0, -1):
            j = r.below(i + 1)
            order[i], order[j] = order[j], order[i]
        src = "async %s tS(string nm, %s p) {\n    %s x = p;\n    %s y = 1;\n%s    return x;\n}\n" % (ty, ty, ty, ty, render_stmts("nm", body, "    "))
        main = "int main() {\n" + "".join("    Future<%s> f%s = tS(\"%s\", %d);\n" % (ty, n, n, p) for n, b, p in tasks)
        for i in order:
            n = tasks[i][0]
            main += "    %s r%s = await f%s;\n    println(\"R%s\", r%s);\n" % (ty, n, n, n, n)
        main += "    println(\"END\");\n    return 0;\n}\n"
        return tasks, order, HELPERS + src + main
    nt = r.range(1, 3)
    tasks = []
    for i in range(nt):
        name = "ABC"[i]
        g = Gen(r, feature if i == 0 or r.chance(50) else "base", name)
        tasks.append((name, g.body(), r.range(-5, 9)))
    wide = r.chance(30)
    ty = "long" if wide else "int"
    if wide:
        tasks = [(n_, b_, p_ + WIDE) for (n_, b_, p_) in tasks]
    order = list(range(nt))
    for i in range(nt - 1, 0, -1):
        j = r.below(i + 1)
        order[i], order[j] = order[j], order[i]
    src = []
    for name, b, p in tasks:
        src.append("async %s t%s(%s p) {\n    %s x = p;\n    %s y = 1;\n%s    return x;\n}\n" % (ty, name, ty, ty, ty, render_stmts(name, b, "    ")))
    main = "int main() {\n" + "".join("    Future<%s> f%s = t%s(%d);\n" % (ty, n, n, p) for n, b, p in tasks)
    for i in order:
        n = tasks[i][0]
        main += "    %s r%s = await f%s;\n    println(\"R%s\", r%s);\n" % (ty, n, n, n, n)
    main += "    println(\"END\");\n    return 0;\n}\n"
    return tasks, order, HELPERS + "".join(src) + main


def many_task_cases(r, n):
    """a task's result stays available however many tasks run in between and however often it is awaited: early tasks with int /
    long / string / struct results finish, then K small tasks (K up to 300) are spawned and awaited, then the early futures are
    awaited — for the first time or again; also from inside another task"""
    HDR = ("struct Pt { int x; string n; };\n"
           "async int fi(int v) {\n    yield;\n    return v * 2;\n}\n"
           "async long fl(int v) {\n    return 3000000000 + v;\n}\n"
           "async string fs(int v) {\n    yield;\n    return \"S{v}\";\n}\n"
           "async Pt fp(int v) {\n    Pt p;\n    p.x = v;\n    p.n = \"made\";\n    return p;\n}\n"
           "async int small(int v) {\n    return v + 1;\n}\n"
           "async int late_waiter(int k) {\n    Future<int> child = fi(k);\n    int acc = 0;\n    for (int i = 0; i < 140; i++) {\n        Future<int> f = small(i);\n        int got = await f;\n        acc = acc + got;\n    }\n"
           "    int c = await child;\n    return acc + c;\n}\n")
    cases = []
    for k in range(n):
        K = [0, 20, 127, 128, 129, 150, 300][k % 7] if k < 7 else r.range(100, 320)
        v = r.range(1, 50)
        body = ["    Future<int> a = fi(%d);\n    Future<long> b = fl(%d);\n    Future<string> c = fs(%d);\n    Future<Pt> d = fp(%d);\n" % (v, v, v, v)]
        exp = []
        first = r.below(2)
        if first:
            body.append("    int a0 = await a;\n    println(\"first\", a0);\n")
            exp.append("first %d" % (2 * v))
        body.append("    long acc = 0;\n    for (int i = 0; i < %d; i++) {\n        Future<int> f = small(i);\n        int got = await f;\n        acc = acc + got;\n    }\n    println(\"acc\", acc);\n" % K)
        exp.append("acc %d" % (K * (K + 1) // 2))
        body.append("    int a1 = await a;\n    long b1 = await b;\n    string c1 = await c;\n    Pt d1 = await d;\n    println(a1, b1, c1, d1.x, d1.n);\n")
        exp.append("%d %d S%d %d made" % (2 * v, 3000000000 + v, v, v))
        body.append("    int a2 = await a;\n    println(\"again\", a2);\n")
        exp.append("again %d" % (2 * v))
        if k % 3 == 0:
            body.append("    Future<int> w = late_waiter(%d);\n    int wv = await w;\n    println(\"waiter\", wv);\n" % v)
            exp.append("waiter %d" % (140 * 141 // 2 + 2 * v))
        cases.append(("many-%d-K%d" % (k, K), HDR + "int main() {\n" + "".join(body) + "    println(\"END\");\n    return 0;\n}\n", "\n".join(exp) + "\nEND\n"))
    return cases


def main(a):
    v = common.Verdict(PID, a.tier, a.seed)
    has = os.path.exists(os.path.join(common.LEAN, "CbProps", "C14.lean"))
    driver_ok, failed = common.lean_obligations(v, ["CbProofs"] + (["CbProps.C14", "CbProps.C14Spec"] if has else []), THEOREMS if has else {})
    exe, blog = common.build_impl()
    if exe is None or not driver_ok:
        v.violation("cannot build the interpreter / driver: " + (blog or "")[-600:], {"log": (blog or "")[-2000:]}, no_input=True)
        return v.finish()
    drv = common.driver_path()
    quick = a.tier == "quick"
    findings = [f for f in all_findings() if f["property"] == PID]
    cell_of = {}
    for f in findings:
        for c in f.get("cells", []):
            cell_of[c] = f["id"]
    cell_known, census = {}, {}
    reported = [0]
    nontrivial = set()
    dist = {}
    r = Rng(a.seed, 141)

    def report(suite, what, replay, cell=None):
        if os.environ.get("CB_VERIF_CENSUS"):
            census.setdefault((suite, cell), []).append(what)
            return
        if cell and cell in cell_of:
            cell_known[cell_of[cell]] = cell_known.get(cell_of[cell], 0) + 1
            return
        if reported[0] >= 6:
            return
        reported[0] += 1
        replay["suite"] = suite
        v.violation("suite %s: %s" % (suite, what), replay)

    if a.replay:
        rp = json.load(open(a.replay))
        o = common.run_programs(exe, [rp["program"]], timeout=10)[0]
        if o[0] != rp.get("expected_stdout") and "expected_projection" not in rp:
            report("replay", "got %r (%s)" % (o[0][-200:], o[1]), rp)
        elif "expected_projection" in rp:
            lines = [l for l in o[0].split("\n") if l]
            for n, exp in rp["expected_projection"].items():
                if [l for l in lines if l.startswith(n + " ")] != exp:
                    report("replay", "task %s projection differs" % n, rp)
        return v.finish()

    # ---- A: the modelled fragment
    progs = [sched.gen_program(r) for _ in range(250 if quick else 50000)]
    _, mo, _ = common.run_lines_parallel([drv, "sched"], [sched.model_line(f, m) for f, m in progs])
    srcs = [sched.render(f, m) for f, m in progs]
    outs = common.run_programs(exe, srcs, timeout=10)
    dist["fragment"] = len(progs)
    for (f, m), mm, src, o in zip(progs, mo, srcs, outs):
        tr, out, ended = sched.split_events(mm)
        gave_up = list(sched.GIVEUPS)
        if not ended:
            continue
        nontrivial.add(("A", tuple(out[:30])))
        if gave_up:
            # the mechanism model itself says: a wait loop ended with its target unfinished (the awaited value is then 0,
            # not the task's result) although the program's awaits are acyclic — a violation of the property
            report("fragment", "await returned before the awaited task completed (%s)" % gave_up[0],
                   {"program": src, "model_events": gave_up, "impl_stdout": o[0]}, cell="giveup")
        iout = [l for l in o[0].split("\n") if l]
        if iout != out or o[1] != "ok":
            report("fragment", "stdout differs from the model: expected %s got %s (%s)" % (out[:14], iout[:14], o[1]),
                   {"program": src, "expected_stdout": "".join(x + "\n" for x in out), "impl_stdout": o[0], "impl_exit_class": o[1]})
    # ---- B: structured bodies, yield at every kind of position
    cases = []
    per = 8 if quick else 1500
    for feat in FEATURES:
        for k in range(per):
            cases.append((feat,) + gen_case(r, feat, shared=(k % 3 == 2)))
    outs = common.run_programs(exe, [c[3] for c in cases], timeout=6)
    dist["structured"] = len(cases)
    for (feat, tasks, order, src), o in zip(cases, outs):
        nontrivial.add(("B", feat, hash(src) % 100003))
        lines = [l for l in o[0].split("\n") if l]
        exp_proj = {}
        problems = []
        for name, b, p in tasks:
            exp, ret = run_alone(name, b, p)
            exp_proj[name] = exp
            got = [l for l in lines if l.startswith(name + " ")]
            if got != exp:
                problems.append("task %s printed %s, alone it prints %s" % (name, got[:8], exp[:8]))
            rl = [l for l in lines if l.startswith("R%s " % name)]
            if rl != ["R%s %d" % (name, ret)]:
                problems.append("await of task %s gave %s, the task returns %d" % (name, rl, ret))
        if o[1] != "ok":
            problems.append("program ended with %s" % o[1])
        elif "END" not in lines:
            problems.append("main did not reach its end")
        if problems:
            report("structured", "%s: %s" % (feat, "; ".join(problems[:2])),
                   {"program": src, "expected_projection": exp_proj, "impl_stdout": o[0], "impl_exit_class": o[1], "impl_stderr": o[2][-300:],
                    "feature": feat}, cell=feat)
    # ---- C: many tasks; results awaited late, twice, and of type string / struct
    mt = many_task_cases(r, 6 if quick else 200)
    mouts = common.run_programs(exe, [c[1] for c in mt], timeout=20)
    dist["many-tasks"] = len(mt)
    for (cid, src, exp), o in zip(mt, mouts):
        nontrivial.add(("C", cid))
        if o[0] == exp and o[1] == "ok":
            continue
        el, gl = exp.split("\n"), o[0].split("\n")
        k = next((i for i in range(max(len(el), len(gl))) if (el[i] if i < len(el) else None) != (gl[i] if i < len(gl) else None)), 0)
        report("many-tasks", "%s: line %d: expected %r got %r (%s)" % (cid, k, el[k] if k < len(el) else "<end>", gl[k] if k < len(gl) else "<end>", o[1]),
               {"program": src, "expected_stdout": exp, "impl_stdout": o[0], "impl_exit_class": o[1], "impl_stderr": o[2][-300:]}, cell="many_tasks")
    for key, whats in sorted(census.items(), key=lambda kv: str(kv[0])):
        common.log("CENSUS %s x%d: %s" % (key, len(whats), whats[0][:300]))
    for f in findings:
        if f["id"] in cell_known:
            v.known_finding(f["what"] + " [%d cases]" % cell_known[f["id"]])
    v.replay_witnesses(exe, findings, already=set(cell_known))
    v.coverage.update({
        "evaluations": sum(dist.values()), "distinct_nontrivial": len(nontrivial), "distribution": dist,
        "features": FEATURES,
        "rule": "A: random programs of the modelled fragment (println / yield / counted loops / spawn / await / print of awaited "
                "values / return), stdout vs CbModel.Sched. B: 1-3 tasks with int parameter and two locals whose bodies contain "
                "printlns of the locals, local updates, if/else, for, while and yield placed by one of %d features (top level, in "
                "for / while / if / else / plain block, nested loops with and without yield, two loops with the same counter name, "
                "an if whose condition changes before the yield, early return, many locals); every task is awaited by main in a "
                "random order. Oracle: per-task projection of stdout and awaited result = direct sequential evaluation of the body "
                "(running it alone). non-trivial = distinct output / program" % len(FEATURES),
        "exhaustive": False})
    v.assumptions += ["task bodies use int parameters / locals only; structs, strings and Option/Result as awaited values are not generated",
                      "in suites A and B a task is awaited exactly once by main; repeated and late awaits of int / long / string / struct results after up to "
                      "300 further tasks are suite C (fixed program shape, expected output computed by the harness)"]
    return v.finish()
