import CbModel.Fixed
import CbProofs.Fixed
/-
  C16 — `:.Nf` renders the decimal numeral with N fraction digits nearest to the exact value (ties to even).
  STATEMENTS ARE FIXED — do not weaken them.
-/
namespace CbProps.C16Fixed
open CbModel.Fixed CbModel.Render

/-- the printed integer is a nearest one: | s * d - n | <= d / 2 -/
theorem round_nearest (n d : Nat) (hd : 0 < d) :
    2 * (roundHalfEven n d * d) ≤ 2 * n + d ∧ 2 * n ≤ 2 * (roundHalfEven n d * d) + d := by
  exact CbProofs.Fixed.round_nearest n d hd

/-- a value with at most N fraction digits is printed exactly -/
theorem round_exact (n d : Nat) (hd : 0 < d) (h : d ∣ n) : roundHalfEven n d = n / d := by
  exact CbProofs.Fixed.round_exact n d hd h

/-- an exact tie goes to the even neighbour (0.125 -> "0.12", 0.375 -> "0.38", 2.5 -> "2", 3.5 -> "4") -/
theorem round_tie_even (n d : Nat) (hd : 0 < d) (h : 2 * (n % d) = d) : roundHalfEven n d % 2 = 0 := by
  exact CbProofs.Fixed.round_tie_even n d hd h

/-- not a tie: the strictly nearer neighbour is chosen -/
theorem round_strict (n d : Nat) (hd : 0 < d) (h : 2 * (n % d) ≠ d) :
    2 * (roundHalfEven n d * d) < 2 * n + d ∧ 2 * n < 2 * (roundHalfEven n d * d) + d := by
  exact CbProofs.Fixed.round_strict n d hd h

/-- rounding is monotone in the value -/
theorem round_mono (n m d : Nat) (hd : 0 < d) (h : n ≤ m) : roundHalfEven n d ≤ roundHalfEven m d := by
  exact CbProofs.Fixed.round_mono n m d hd h

/-- exactly N fraction digits are printed (none, and no point, for N = 0) -/
theorem fraction_digits (neg : Bool) (num den prec : Nat) :
    (parseFixed (renderFixed neg num den prec)).2.2.2 = prec := by
  rw [CbProofs.Fixed.parseFixed_renderFixed]

/-- the rendering reads back as the rounded scaled value: integer part * 10^N + fraction = scaled, and the sign is kept -/
theorem parse_render (neg : Bool) (num den prec : Nat) :
    let p := parseFixed (renderFixed neg num den prec)
    p.1 = neg ∧ p.2.1 * 10 ^ prec + p.2.2.1 = scaled num den prec ∧ p.2.2.1 < 10 ^ prec := by
  intro p
  have hp : p = _ := CbProofs.Fixed.parseFixed_renderFixed neg num den prec
  rw [hp]
  exact ⟨rfl, Nat.div_add_mod' _ _, Nat.mod_lt _ (Nat.pow_pos (by decide))⟩

/-- consequently the printed numeral is within half a unit of the last printed digit of the exact value -/
theorem printed_value_nearest (neg : Bool) (num den prec : Nat) (hd : 0 < den) :
    let p := parseFixed (renderFixed neg num den prec)
    let printed := p.2.1 * 10 ^ prec + p.2.2.1
    2 * (printed * den) ≤ 2 * (num * 10 ^ prec) + den ∧ 2 * (num * 10 ^ prec) ≤ 2 * (printed * den) + den := by
  intro p printed
  have h := parse_render neg num den prec
  have hp : printed = scaled num den prec := h.2.1
  rw [hp]
  exact CbProofs.Fixed.round_nearest (num * 10 ^ prec) den hd

/-! non-vacuity / examples (doubles written as exact fractions) -/
example : renderFixed false 1 8 2 = "0.12".toList := by
  simp [renderFixed, scaled, roundHalfEven, renderNat, natDigits, padLeft, digitChar]          -- 0.125, tie to even
example : renderFixed false 3 8 2 = "0.38".toList := by
  simp [renderFixed, scaled, roundHalfEven, renderNat, natDigits, padLeft, digitChar]          -- 0.375, tie to even
example : renderFixed true 1 8 0 = "-0".toList := by
  simp [renderFixed, scaled, roundHalfEven, renderNat, natDigits, digitChar]             -- -0.125 with .0f
example : renderFixed false 5 2 0 = "2".toList := by
  simp [renderFixed, scaled, roundHalfEven, renderNat, natDigits, digitChar]             -- 2.5 -> 2
example : renderFixed false 7 2 0 = "4".toList := by
  simp [renderFixed, scaled, roundHalfEven, renderNat, natDigits, digitChar]             -- 3.5 -> 4
example : renderFixed false 3011782250804019 1125899906842624 2 = "2.67".toList := by
  simp [renderFixed, scaled, roundHalfEven, renderNat, natDigits, padLeft, digitChar]   -- the double nearest 2.675 is below the tie
example : renderFixed false 7 1 3 = "7.000".toList := by
  simp [renderFixed, scaled, roundHalfEven, renderNat, natDigits, padLeft, digitChar]

end CbProps.C16Fixed
