"""C07 — structs and arrays copy by value; pointers, references and self alias coherently.

Theorems: lean/CbProps/C07.lean (lens laws of the value-tree model CbModel/Heap.lean: read-after-write,
frame, copy independence, alias coherence, shape stability) — stated for trees over ANY leaf type (Val α): integers,
strings, doubles alike.
Tie: a fixed small object graph (two structs with scalar, nested-struct and array members, a struct, a struct
array, two int arrays, a scalar, a struct pointer and an int pointer); (1) the matrix of every operation kind
alone, (2) random histories of operations; after every operation every cell is read through every available
access path (plain, pointer, dereference, interpolation, by-value parameter, reference parameter, method) and
compared with the shadow heap computed by cbdriver c07; (3) typed members: a struct with string / double / long / bool / int
members under 14 operation kinds (reference parameters with literal and variable right-hand sides, pointer stores, by-value
calls, returned copies, methods, member-wise copies), every cell read through plain names, a by-value call, interpolation,
methods and the pointer after every operation, against a shadow kept by the harness (the heap laws do not depend on the leaf type).
"""
import json, os
import common
from common import Rng, esc
from props.refprops import all_findings

PID = "C07"
THEOREMS = {"CbProps.C07": ["CbProps.C07." + t for t in [
    "get_set_same", "get_set_disjoint", "get_set_below", "copy_independent", "alias_reads_agree",
    "alias_write_visible", "alias_write_visible_above", "write_frame", "byvalue_call_changes_nothing",
    "write_keeps_shape", "copy_keeps_shape", "sameShape_get_isSome", "modify_is_write", "modify_keeps_shape"]]}

HDR = """struct In { int a; int b; };
struct Out { int x; In in; int[2] ys; };
struct Pt { int x; In in; };
struct Deep { int d; Pt mid; };
interface IX { void setX(int v); int bumpX(int d); void setXr(int v); void setIn(int v); void setYs(int i, int v); int getX(); int getInA(); int getYs(int i); }
impl IX for Out {
    void setX(int v) { self.x = v; }
    void setIn(int v) { self.in.a = v; self.in.b = v + 1; }
    void setYs(int i, int v) { self.ys[i] = v; }
    int getX() { return self.x; }
    int bumpX(int d) { self.x = self.x + d; return self.x; }
    void setXr(int v) { if (v > -1000) { self.x = v; return; } self.x = 0; }
    int getInA() { return self.in.a; }
    int getYs(int i) { return self.ys[i]; }
}
interface IP { void setPX(int v); int getPX(); }
impl IP for Pt {
    void setPX(int v) { self.x = v; }
    int getPX() { return self.x; }
}
interface IA { void setA(int v); int getA(); }
impl IA for In {
    void setA(int v) { self.a = v; }
    int getA() { return self.a; }
}
void ref_x(Out& r, int v) { r.x = v; }
void ref_ys(Out& r, int i, int v) { r.ys[i] = v; }
void ref_in_a(In& r, int v) { r.a = v; }
void ref_int(int& r, int v) { r = v; }
void arr_set(int[3] a, int i, int v) { a[i] = v; }
void arr_fwd(int[3] a, int i, int v) { arr_set(a, i, v); println("fw", a[i]); }
void arr_fwd2(int[3] a, int i, int v) { arr_fwd(a, i, v); println("fw2", a[i]); }
void ptr_x(Out* p, int v) { p->x = v; }
void ptr_int(int* p, int v) { *p = v; }
void byval(Out o, int v) { o.x = v; o.ys[0] = v; println("bv", o.x, o.in.a, o.in.b, o.ys[0], o.ys[1]); }
void byval_in(Out o, int v) { o.in.a = v; println("bvi", o.x, o.in.a, o.in.b); }
Out ret_mod(Out o, int v) { o.x = v; return o; }
In ret_in(In i, int v) { i.b = v; return i; }
int rd_x(Out& r) { return r.x; }
int rd_ys(Out& r, int i) { return r.ys[i]; }
int rd_arr(int[3] a, int i) { return a[i]; }
void dumpv(Out o) { println("V", o.x, o.in.a, o.in.b, o.ys[0], o.ys[1]); }
"""

# layout of the root value: o1 o2 i1 oa ar1 ar2 n1
VARS = ["o1", "o2", "i1", "oa", "ar1", "ar2", "n1", "pt1", "dp1"]
OUT_LEAVES = [("x", "0"), ("in.a", "1.0"), ("in.b", "1.1"), ("ys[0]", "2.0"), ("ys[1]", "2.1")]
PT_LEAVES = [("x", "0"), ("in.a", "1.0"), ("in.b", "1.1")]


def leaves():
    """(Cb expression, model path, owner tag) of every scalar cell, in flatten order"""
    out = []
    for n, v in ((0, "o1"), (1, "o2")):
        for e, p in OUT_LEAVES:
            out.append(("%s.%s" % (v, e), "%d.%s" % (n, p)))
    out += [("i1.a", "2.0"), ("i1.b", "2.1")]
    for k in range(2):
        for e, p in PT_LEAVES:
            out.append(("oa[%d].%s" % (k, e), "3.%d.%s" % (k, p)))
    for n, v in ((4, "ar1"), (5, "ar2")):
        for i in range(3):
            out.append(("%s[%d]" % (v, i), "%d.%d" % (n, i)))
    out.append(("n1", "6"))
    for e, p in PT_LEAVES:
        out.append(("pt1.%s" % e, "7.%s" % p))
    out.append(("dp1.d", "8.0"))
    for e, p in PT_LEAVES:
        out.append(("dp1.mid.%s" % e, "8.1.%s" % p))
    return out


LEAVES = leaves()
Q_TARGETS = [("&ar1[0]", "4.0"), ("&ar1[1]", "4.1"), ("&ar1[2]", "4.2"), ("&ar2[1]", "5.1"), ("&n1", "6"), ("&o1.x", "0.0"),
             ("&o2.x", "1.0"), ("&i1.a", "2.0")]
Q_ARRMEMBER = [("&o1.ys[1]", "0.2.1"), ("&o2.ys[0]", "1.2.0")]


class Case:
    def __init__(self):
        self.init = None       # dict var -> nested python value
        self.o2_copyinit = False
        self.ops = []          # (kind, cb statement(s), model ops list, extra expected lines fn or None)


def val_sexp(v):
    if isinstance(v, list):
        return "(" + " ".join(val_sexp(x) for x in v) + ")"
    return str(v)


def rand_init(r):
    def out():
        return [r.range(-50, 50), [r.range(-50, 50), r.range(-50, 50)], [r.range(-50, 50), r.range(-50, 50)]]
    return {"o1": out(), "o2": out(), "i1": [r.range(-50, 50), r.range(-50, 50)],
            "oa": [[r.range(-50, 50), [r.range(-50, 50), r.range(-50, 50)]] for _ in range(2)],
            "ar1": [r.range(-50, 50) for _ in range(3)], "ar2": [r.range(-50, 50) for _ in range(3)], "n1": r.range(-50, 50),
            "pt1": [r.range(-50, 50), [r.range(-50, 50), r.range(-50, 50)]], "dp1": [r.range(-50, 50), [r.range(-50, 50), [r.range(-50, 50), r.range(-50, 50)]]]}


# ---- operation kinds: name -> generator(r, st) returning (cb, model_ops, callee_print or None)
# st: dict with 'p1' (0 or 1: which Out p1 points to) and 'q' (index into Q_TARGETS)

def op_table():
    T = {}

    def reg(name):
        def d(f):
            T[name] = f
            return f
        return d

    def V(r):
        return r.range(-99, 99)

    @reg("w_plain")
    def _(r, st):
        e, p = r.choice([l for l in LEAVES if (l[0].count(".") == 1 and "[" not in l[0]) or l[0] == "n1"])
        v = V(r)
        return "%s = %d;" % (e, v), ["w d:%s %d" % (p, v)], None

    @reg("w_nested")
    def _(r, st):
        e, p = r.choice([l for l in LEAVES if ".in." in l[0] and not l[0].startswith("oa")])
        v = V(r)
        return "%s = %d;" % (e, v), ["w d:%s %d" % (p, v)], None

    @reg("w_arrmember")
    def _(r, st):
        e, p = r.choice([l for l in LEAVES if ".ys[" in l[0]])
        v = V(r)
        return "%s = %d;" % (e, v), ["w d:%s %d" % (p, v)], None

    @reg("w_arrmember_var")
    def _(r, st):
        n, i, v = r.below(2), r.below(2), V(r)
        return "n1 = %d; o%d.ys[n1] = %d;" % (i, n + 1, v), ["w d:6 %d" % i, "w d:%d.2.%d %d" % (n, i, v)], None

    @reg("w_array")
    def _(r, st):
        e, p = r.choice([l for l in LEAVES if l[0].startswith("ar")])
        v = V(r)
        return "%s = %d;" % (e, v), ["w d:%s %d" % (p, v)], None

    @reg("w_sa")
    def _(r, st):
        e, p = r.choice([l for l in LEAVES if l[0].startswith("oa") and ".in." not in l[0]])
        v = V(r)
        return "%s = %d;" % (e, v), ["w d:%s %d" % (p, v)], None

    @reg("w_sa_nested")
    def _(r, st):
        e, p = r.choice([l for l in LEAVES if l[0].startswith("oa") and ".in." in l[0]])
        v = V(r)
        return "%s = %d;" % (e, v), ["w d:%s %d" % (p, v)], None

    @reg("w_ptr_arrow")
    def _(r, st):
        v = V(r)
        return "p1->x = %d;" % v, ["w p:0:0 %d" % v], None

    @reg("w_ptr_star")
    def _(r, st):
        v = V(r)
        return "(*p1).x = %d;" % v, ["w p:0:0 %d" % v], None

    @reg("w_intptr")
    def _(r, st):
        v = V(r)
        return "*q = %d;" % v, ["w p:1: %d" % v], None

    @reg("w_ref_x")
    def _(r, st):
        n, v = r.below(2), V(r)
        return "ref_x(o%d, %d);" % (n + 1, v), ["w d:%d.0 %d" % (n, v)], None

    @reg("w_ref_ys")
    def _(r, st):
        n, i, v = r.below(2), r.below(2), V(r)
        return "ref_ys(o%d, %d, %d);" % (n + 1, i, v), ["w d:%d.2.%d %d" % (n, i, v)], None

    @reg("w_ref_in")
    def _(r, st):
        v = V(r)
        return "ref_in_a(i1, %d);" % v, ["w d:2.0 %d" % v], None

    @reg("w_ref_int")
    def _(r, st):
        v = V(r)
        return "ref_int(n1, %d);" % v, ["w d:6 %d" % v], None

    @reg("w_arrparam")
    def _(r, st):
        k, i, v = r.below(2), r.below(3), V(r)
        return "arr_set(ar%d, %d, %d);" % (k + 1, i, v), ["w d:%d.%d %d" % (4 + k, i, v)], None

    @reg("w_arrparam_forwarded")
    def _(r, st):
        k, i, v = r.below(2), r.below(3), V(r)
        return "arr_fwd(ar%d, %d, %d);" % (k + 1, i, v), ["w d:%d.%d %d" % (4 + k, i, v)], ("fw", 0, v)

    @reg("w_arrparam_forwarded_twice")
    def _(r, st):
        k, i, v = r.below(2), r.below(3), V(r)
        return "arr_fwd2(ar%d, %d, %d);" % (k + 1, i, v), ["w d:%d.%d %d" % (4 + k, i, v)], ("fw2", 0, v)

    @reg("w_method_x")
    def _(r, st):
        n, v = r.below(2), V(r)
        return "o%d.setX(%d);" % (n + 1, v), ["w d:%d.0 %d" % (n, v)], None

    @reg("w_method_in")
    def _(r, st):
        n, v = r.below(2), V(r)
        return "o%d.setIn(%d);" % (n + 1, v), ["w d:%d.1.0 %d" % (n, v), "w d:%d.1.1 %d" % (n, v + 1)], None

    @reg("w_method_ys")
    def _(r, st):
        n, i, v = r.below(2), r.below(2), V(r)
        return "o%d.setYs(%d, %d);" % (n + 1, i, v), ["w d:%d.2.%d %d" % (n, i, v)], None

    @reg("w_method_sa")
    def _(r, st):
        k, v = r.below(2), V(r)
        return "oa[%d].setPX(%d);" % (k, v), ["w d:3.%d.0 %d" % (k, v)], None

    @reg("w_method_member")
    def _(r, st):
        n, v = r.below(2), V(r)
        return "o%d.in.setA(%d);" % (n + 1, v), ["w d:%d.1.0 %d" % (n, v)], None

    @reg("w_method_i1")
    def _(r, st):
        v = V(r)
        return "i1.setA(%d);" % v, ["w d:2.0 %d" % v], None

    @reg("w_method_ptr")
    def _(r, st):
        v = V(r)
        return "p1->setX(%d);" % v, ["w p:0:0 %d" % v], None

    @reg("w_method_ret")
    def _(r, st):
        n, v = r.below(2), V(r)
        return "n1 = o%d.bumpX(%d);" % (n + 1, v), ["a d:%d.0 %d" % (n, v), "c d:6 d:%d.0" % n], None

    @reg("w_method_ptr_ret")
    def _(r, st):
        v = V(r)
        return "n1 = p1->bumpX(%d);" % v, ["a p:0:0 %d" % v, "c d:6 p:0:0"], None

    @reg("w_method_ptr_star_ret")
    def _(r, st):
        v = V(r)
        return "n1 = (*p1).bumpX(%d);" % v, ["a p:0:0 %d" % v, "c d:6 p:0:0"], None

    @reg("w_method_early_return")
    def _(r, st):
        n, v = r.below(2), V(r)
        return "o%d.setXr(%d);" % (n + 1, v), ["w d:%d.0 %d" % (n, v)], None

    @reg("w_method_ptr_early_return")
    def _(r, st):
        v = V(r)
        return "p1->setXr(%d);" % v, ["w p:0:0 %d" % v], None

    @reg("w_ptrparam_addr")
    def _(r, st):
        n, v = r.below(2), V(r)
        return "ptr_x(&o%d, %d);" % (n + 1, v), ["w d:%d.0 %d" % (n, v)], None

    @reg("w_ptrparam_var")
    def _(r, st):
        v = V(r)
        return "ptr_x(p1, %d);" % v, ["w p:0:0 %d" % v], None

    @reg("w_intptrparam")
    def _(r, st):
        v = V(r)
        return "ptr_int(q, %d);" % v, ["w p:1: %d" % v], None

    @reg("c_assign")
    def _(r, st):
        a = r.below(2)
        return "o%d = o%d;" % (a + 1, 2 - a), ["c d:%d d:%d" % (a, 1 - a)], None

    @reg("c_self")
    def _(r, st):
        a = r.below(2)
        return "o%d = o%d;" % (a + 1, a + 1), ["c d:%d d:%d" % (a, a)], None

    @reg("c_member_out")
    def _(r, st):
        n = r.below(2)
        return "i1 = o%d.in;" % (n + 1), ["c d:2 d:%d.1" % n], None

    @reg("c_member_in")
    def _(r, st):
        n = r.below(2)
        return "o%d.in = i1;" % (n + 1), ["c d:%d.1 d:2" % n], None

    @reg("c_deep_member_in")
    def _(r, st):
        if r.chance(50):
            return "dp1.mid = pt1;", ["c d:8.1 d:7"], None
        k = r.below(2)
        return "dp1.mid = oa[%d];" % k, ["c d:8.1 d:3.%d" % k], None

    @reg("c_deep_member_out")
    def _(r, st):
        if r.chance(50):
            return "pt1 = dp1.mid;", ["c d:7 d:8.1"], None
        k = r.below(2)
        return "oa[%d] = dp1.mid;" % k, ["c d:3.%d d:8.1" % k], None

    @reg("c_deep_in_in")
    def _(r, st):
        return "dp1.mid.in = i1;", ["c d:8.1.1 d:2"], None

    @reg("c_deep_in_out")
    def _(r, st):
        return "i1 = dp1.mid.in;", ["c d:2 d:8.1.1"], None

    @reg("w_deep_leaf")
    def _(r, st):
        v = V(r)
        e, pth = r.choice([("dp1.mid.in.a", "8.1.1.0"), ("dp1.mid.in.b", "8.1.1.1"), ("dp1.mid.x", "8.1.0"), ("dp1.d", "8.0"),
                           ("pt1.in.a", "7.1.0"), ("pt1.in.b", "7.1.1")])
        return "%s = %d;" % (e, v), ["w d:%s %d" % (pth, v)], None

    @reg("w_incdec_path")
    def _(r, st):
        # ++ / -- through every kind of access path (member, nested member, element of a struct array, array member, arrow,
        # three levels deep); statement form, prefix and postfix
        e, pth = r.choice([("o1.x", "d:0.0"), ("o2.in.a", "d:1.1.0"), ("o1.ys[1]", "d:0.2.1"), ("oa[1].x", "d:3.1.0"), ("oa[0].in.b", "d:3.0.1.1"),
                           ("p1->x", "p:0:0"), ("dp1.mid.x", "d:8.1.0"), ("dp1.mid.in.a", "d:8.1.1.0"), ("dp1.d", "d:8.0"), ("i1.b", "d:2.1"),
                           ("ar2[2]", "d:5.2"), ("pt1.in.a", "d:7.1.0")])
        k = r.below(4)
        stmt = ["%s++;", "%s--;", "++%s;", "--%s;"][k] % e
        return stmt, ["a %s %d" % (pth, 1 if k in (0, 2) else -1)], None

    @reg("c_sa_elem")
    def _(r, st):
        k = r.below(2)
        return "oa[%d] = oa[%d];" % (k, 1 - k), ["c d:3.%d d:3.%d" % (k, 1 - k)], None

    @reg("c_sa_member_in")
    def _(r, st):
        k = r.below(2)
        return "oa[%d].in = i1;" % k, ["c d:3.%d.1 d:2" % k], None

    @reg("c_sa_member_out")
    def _(r, st):
        k = r.below(2)
        return "i1 = oa[%d].in;" % k, ["c d:2 d:3.%d.1" % k], None

    @reg("c_sa_out")
    def _(r, st):
        k = r.below(2)
        return "pt1 = oa[%d];" % k, ["c d:7 d:3.%d" % k], None

    @reg("c_sa_in_var")
    def _(r, st):
        k = r.below(2)
        return "oa[%d] = pt1;" % k, ["c d:3.%d d:7" % k], None

    @reg("c_from_deref")
    def _(r, st):
        n = 1 - st["p1"]
        return "o%d = *p1;" % (n + 1), ["c d:%d p:0:" % n], None

    @reg("c_array")
    def _(r, st):
        a = r.below(2)
        return "ar%d = ar%d;" % (a + 1, 2 - a), ["c d:%d d:%d" % (4 + a, 5 - a)], None

    @reg("c_ret")
    def _(r, st):
        a, v = r.below(2), V(r)
        return "o%d = ret_mod(o%d, %d);" % (a + 1, 2 - a, v), ["c d:%d d:%d" % (a, 1 - a), "w d:%d.0 %d" % (a, v)], None

    @reg("c_ret_in")
    def _(r, st):
        v = V(r)
        return "i1 = ret_in(i1, %d);" % v, ["w d:2.1 %d" % v], None

    @reg("byval")
    def _(r, st):
        n, v = r.below(2), V(r)
        return "byval(o%d, %d);" % (n + 1, v), ["n"], ("bv", n, v)

    @reg("byval_nested")
    def _(r, st):
        n, v = r.below(2), V(r)
        return "byval_in(o%d, %d);" % (n + 1, v), ["n"], ("bvi", n, v)

    @reg("reseat_p1")
    def _(r, st):
        n = r.below(2)
        st["p1"] = n
        return "p1 = &o%d;" % (n + 1), ["s 0 d:%d" % n], None

    @reg("reseat_q")
    def _(r, st):
        k = r.below(len(Q_TARGETS))
        st["q"] = k
        return "q = %s;" % Q_TARGETS[k][0], ["s 1 d:%s" % Q_TARGETS[k][1]], None

    @reg("reseat_q_arrmember")
    def _(r, st):
        e, p = r.choice(Q_ARRMEMBER)
        v = V(r)
        return "q = %s; *q = %d;" % (e, v), ["s 1 d:%s" % p, "w p:1: %d" % v], None
    return T


OPS = op_table()

# read kinds: name -> (label, [(Cb expression, model access)]) ; 'dyn' entries depend on nothing (pointers resolve in the model)
def read_items():
    R = {}
    R["plain"] = [(e, "d:" + p) for e, p in LEAVES]
    R["ptr_arrow"] = [("p1->x", "p:0:0")]
    R["ptr_star"] = [("(*p1).x", "p:0:0")]
    R["ptr_nested"] = [("p1->in.a", "p:0:1.0"), ("p1->in.b", "p:0:1.1")]
    R["intptr"] = [("*q", "p:1:")]
    R["interp"] = [("{o1.x}", "d:0.0"), ("{o1.in.a}", "d:0.1.0"), ("{o1.ys[1]}", "d:0.2.1"), ("{o2.x}", "d:1.0"), ("{o2.in.b}", "d:1.1.1"),
                   ("{i1.b}", "d:2.1"), ("{ar1[2]}", "d:4.2"), ("{n1}", "d:6")]
    R["interp_ptr"] = [("{p1->x}", "p:0:0")]
    R["method"] = [("o1.getX()", "d:0.0"), ("o2.getX()", "d:1.0"), ("o1.getInA()", "d:0.1.0"), ("o2.getYs(1)", "d:1.2.1"),
                   ("i1.getA()", "d:2.0"), ("oa[1].getPX()", "d:3.1.0")]
    R["method_ptr"] = [("p1->getX()", "p:0:0")]
    R["refparam"] = [("rd_x(o1)", "d:0.0"), ("rd_x(o2)", "d:1.0"), ("rd_ys(o1, 0)", "d:0.2.0"), ("rd_ys(o2, 1)", "d:1.2.1")]
    R["arrparam"] = [("rd_arr(ar1, 0)", "d:4.0"), ("rd_arr(ar2, 2)", "d:5.2")]
    return R


READS = read_items()
# by-value parameter reads are statements of their own: dumpv(o1); dumpv(o2)


def render(case, gated_reads):
    L = [HDR, "int main() {\n"]
    ini = case.init
    L.append("    Out o1 = {%d, {%d, %d}, [%d, %d]};\n" % (ini["o1"][0], ini["o1"][1][0], ini["o1"][1][1], ini["o1"][2][0], ini["o1"][2][1]))
    if case.o2_copyinit:
        L.append("    Out o2 = o1;\n")
    else:
        L.append("    Out o2 = {%d, {%d, %d}, [%d, %d]};\n" % (ini["o2"][0], ini["o2"][1][0], ini["o2"][1][1], ini["o2"][2][0], ini["o2"][2][1]))
    L.append("    In i1 = {%d, %d};\n" % tuple(ini["i1"]))
    L.append("    Pt[2] oa;\n")
    for k in range(2):
        L.append("    oa[%d].x = %d; oa[%d].in.a = %d; oa[%d].in.b = %d;\n" % (k, ini["oa"][k][0], k, ini["oa"][k][1][0], k, ini["oa"][k][1][1]))
    L.append("    int[3] ar1 = [%d, %d, %d];\n" % tuple(ini["ar1"]))
    L.append("    int[3] ar2 = [%d, %d, %d];\n" % tuple(ini["ar2"]))
    L.append("    int n1 = %d;\n" % ini["n1"])
    L.append("    Pt pt1;\n    pt1.x = %d; pt1.in.a = %d; pt1.in.b = %d;\n" % (ini["pt1"][0], ini["pt1"][1][0], ini["pt1"][1][1]))
    dd = ini["dp1"]
    L.append("    Deep dp1;\n    dp1.d = %d; dp1.mid.x = %d; dp1.mid.in.a = %d; dp1.mid.in.b = %d;\n" % (dd[0], dd[1][0], dd[1][1][0], dd[1][1][1]))
    L.append("    Out* p1 = &o1;\n    int* q = &ar1[1];\n")
    L.append(dump_src(gated_reads))
    for (kind, cb, mops, callee) in case.ops:
        L.append("    " + cb + "\n")
        L.append(dump_src(gated_reads))
    L.append("    println(\"END\");\n    return 0;\n}\n")
    return "".join(L)


def dump_src(gated):
    out = []
    for name in ["plain", "ptr_arrow", "ptr_star", "ptr_nested", "intptr", "method", "method_ptr", "refparam", "arrparam"]:
        if name in gated:
            continue
        out.append("    println(\"%s\", %s);\n" % (name, ", ".join(e for e, _ in READS[name])))
    for name in ["interp", "interp_ptr"]:
        if name in gated:
            continue
        out.append("    println(\"%s %s\");\n" % (name, " ".join(e for e, _ in READS[name])))
    if "byval_read" not in gated:
        out.append("    dumpv(o1);\n    dumpv(o2);\n")
    return "".join(out)


def model_line(case, gated):
    ini = dict(case.init)
    if case.o2_copyinit:
        ini["o2"] = ini["o1"]
    root = "(" + " ".join(val_sexp(ini[v]) for v in VARS) + ")"
    ops = ["n"] + read_ops(gated)
    for (kind, cb, mops, callee) in case.ops:
        ops += mops + read_ops(gated)
        if callee:
            n = callee[1]
            ops += ["r d:%d.0" % n, "r d:%d.1.0" % n, "r d:%d.1.1" % n, "r d:%d.2.0" % n, "r d:%d.2.1" % n]
    return esc(root) + "\t0;4.1\t" + ";".join(ops)


def read_ops(gated):
    ops = []
    for name in ["plain", "ptr_arrow", "ptr_star", "ptr_nested", "intptr", "method", "method_ptr", "refparam", "arrparam", "interp", "interp_ptr"]:
        if name in gated:
            continue
        ops += ["r " + a for _, a in READS[name]]
    if "byval_read" not in gated:
        for n in (0, 1):
            ops += ["r d:%d.0" % n, "r d:%d.1.0" % n, "r d:%d.1.1" % n, "r d:%d.2.0" % n, "r d:%d.2.1" % n]
    return ops


def expected_stdout(case, gated, mout):
    """rebuild the expected stdout from the model's answers (in the order of model_line)"""
    items = mout.split(";")
    pos = [0]

    def take(n):
        r = items[pos[0]:pos[0] + n]
        pos[0] += n
        return r

    def dump():
        out = []
        for name in ["plain", "ptr_arrow", "ptr_star", "ptr_nested", "intptr", "method", "method_ptr", "refparam", "arrparam"]:
            if name in gated:
                continue
            out.append(name + " " + " ".join(take(len(READS[name]))) + "\n")
        for name in ["interp", "interp_ptr"]:
            if name in gated:
                continue
            out.append(name + " " + " ".join(take(len(READS[name]))) + "\n")
        if "byval_read" not in gated:
            for n in (0, 1):
                out.append("V " + " ".join(take(5)) + "\n")
        return "".join(out)
    take(1)  # the initial nop
    out = [dump()]
    for (kind, cb, mops, callee) in case.ops:
        take(len(mops))
        d = dump()
        if callee:
            cur = take(5)       # x in.a in.b ys0 ys1 of the argument (unchanged by the call)
            tag, n, v = callee
            if tag == "bv":
                out.append("bv %d %s %s %d %s\n" % (v, cur[1], cur[2], v, cur[4]))
            elif tag == "fw":
                out.append("fw %d\n" % v)
            elif tag == "fw2":
                out.append("fw %d\nfw2 %d\n" % (v, v))
            else:
                out.append("bvi %s %d %s\n" % (cur[0], v, cur[2]))
        out.append(d)
    return "".join(out) + "END\n"


def gen_case(r, kinds, nops, copyinit_ok):
    c = Case()
    c.init = rand_init(r)
    c.o2_copyinit = copyinit_ok and r.chance(15)
    st = {"p1": 0, "q": 1}
    for _ in range(nops):
        k = r.choice(kinds)
        cb, mops, callee = OPS[k](r, st)
        c.ops.append((k, cb, mops, callee))
    return c


def single_cells(r, reps):
    """every operation kind alone (reps variants each), plus the copy-initialisation prologue"""
    out = []
    for k in sorted(OPS):
        for _ in range(reps):
            c = Case()
            c.init = rand_init(r)
            st = {"p1": 0, "q": 1}
            # reseat first in half of the variants so that pointer-based kinds see both targets
            if r.chance(50) and k not in ("reseat_p1", "reseat_q"):
                kk = r.choice(["reseat_p1", "reseat_q"])
                cb, mops, callee = OPS[kk](r, st)
                c.ops.append((kk, cb, mops, callee))
            cb, mops, callee = OPS[k](r, st)
            c.ops.append((k, cb, mops, callee))
            out.append((k, c))
    for _ in range(reps):
        c = Case()
        c.init = rand_init(r)
        c.o2_copyinit = True
        out.append(("c_init", c))
    return out


# ---- typed members: string / double / long / bool members through every access path (Python shadow, no Lean model: the value-tree
#      laws of CbModel.Heap do not depend on the leaf type; this suite checks that the implementation does not either)
TYPED_HDR = """struct Card { string owner; double w; long lg; bool ok; int n; };
interface IC { void rename(string v); void weigh(double d); string who(); long lgv(); }
impl IC for Card {
    void rename(string v) { self.owner = v; self.n = self.n + 1; }
    void weigh(double d) { self.w = d; self.ok = true; }
    string who() { return self.owner; }
    long lgv() { return self.lg; }
}
void ref_lit(Card& c) { c.owner = "promoted"; c.ok = true; c.w = 2.5; c.lg = 5000000000; }
void ref_var(Card& c, string v, double d, long g) { c.owner = v; c.w = d; c.lg = g; c.ok = false; }
void val_mod(Card c) { c.owner = "byval"; c.w = 9.5; c.lg = 1; println("bv", c.owner, c.w, c.lg, c.ok, c.n); }
void ptr_set(Card* q, string v, double d) { q->owner = v; q->w = d; q->lg = q->lg + 1; q->ok = true; }
Card ret_mod(Card c, string v) { c.owner = v; c.w = c.w + 1.0; return c; }
void dump(Card c) { println("D", c.owner, c.w, c.lg, c.ok, c.n); }
"""
TYPED_STR = ["a", "xy", "hello world", "é", "", "s3"]
TYPED_DBL = [0.5, 1.25, -0.25, 10.0, 2.5, 1024.75]
TYPED_LNG = [0, 7, -3000000000, 4294967296, 9007199254740993]


def fmt_d(d):
    return repr(float(d))


def typed_case(r, nops):
    st = {"c1": {"owner": "initial", "w": 1.25, "lg": 3000000000, "ok": 0, "n": 1}, "c2": None}
    L = [TYPED_HDR, "int main() {\n    Card c1;\n    c1.owner = \"initial\"; c1.w = 1.25; c1.lg = 3000000000; c1.ok = false; c1.n = 1;\n    Card c2 = c1;\n    Card* p = &c1;\n"]
    st["c2"] = dict(st["c1"])
    ptr = ["c1"]
    exp = []
    kinds_used = []

    def line(v):
        c = st[v]
        return "%s %s %d %d %d" % (c["owner"], fmt_d(c["w"]), c["lg"], c["ok"], c["n"])

    def dump_all():
        for v in ("c1", "c2"):
            L.append("    println(\"P\", %s.owner, %s.w, %s.lg, %s.ok, %s.n);\n" % (v, v, v, v, v))
            exp.append("P " + line(v))
            L.append("    dump(%s);\n" % v)
            exp.append("D " + line(v))
            L.append("    println(\"I {%s.owner} {%s.lg} {%s.n}\");\n" % (v, v, v))
            exp.append("I %s %d %d" % (st[v]["owner"], st[v]["lg"], st[v]["n"]))
            L.append("    println(\"M\", %s.who(), %s.lgv());\n" % (v, v))
            exp.append("M %s %d" % (st[v]["owner"], st[v]["lg"]))
        t = st[ptr[0]]
        L.append("    println(\"A\", p->owner, p->w, p->lg, p->ok, (*p).owner, (*p).lg);\n")
        exp.append("A %s %s %d %d %s %d" % (t["owner"], fmt_d(t["w"]), t["lg"], t["ok"], t["owner"], t["lg"]))
    dump_all()
    for _ in range(nops):
        k = r.below(14)
        v = r.choice(["c1", "c2"])
        o = "c2" if v == "c1" else "c1"
        s_, d_, g_ = r.choice(TYPED_STR), r.choice(TYPED_DBL), r.choice(TYPED_LNG)
        if k == 0:
            L.append("    ref_lit(%s);\n" % v); st[v].update(owner="promoted", ok=1, w=2.5, lg=5000000000); kinds_used.append("ref_lit")
        elif k == 1:
            L.append("    ref_var(%s, \"%s\", %s, %d);\n" % (v, s_, fmt_d(d_), g_)); st[v].update(owner=s_, w=d_, lg=g_, ok=0); kinds_used.append("ref_var")
        elif k == 2:
            L.append("    val_mod(%s);\n" % v); c = st[v]; exp.append("bv byval 9.5 1 %d %d" % (c["ok"], c["n"])); kinds_used.append("val_mod")
        elif k == 3:
            L.append("    ptr_set(p, \"%s\", %s);\n" % (s_, fmt_d(d_))); t = st[ptr[0]]; t.update(owner=s_, w=d_, lg=t["lg"] + 1, ok=1); kinds_used.append("ptr_set")
        elif k == 4:
            L.append("    %s = ret_mod(%s, \"%s\");\n" % (v, o, s_)); st[v] = dict(st[o]); st[v].update(owner=s_, w=st[o]["w"] + 1.0); kinds_used.append("ret_mod")
        elif k == 5:
            L.append("    %s.rename(\"%s\");\n" % (v, s_)); st[v].update(owner=s_, n=st[v]["n"] + 1); kinds_used.append("method_str")
        elif k == 6:
            L.append("    %s.weigh(%s);\n" % (v, fmt_d(d_))); st[v].update(w=d_, ok=1); kinds_used.append("method_dbl")
        elif k == 7:
            L.append("    %s = %s;\n" % (v, o)); st[v] = dict(st[o]); kinds_used.append("copy")
        elif k == 8:
            L.append("    %s.owner = \"%s\";\n    %s.w = %s;\n    %s.lg = %d;\n" % (v, s_, v, fmt_d(d_), v, g_)); st[v].update(owner=s_, w=d_, lg=g_); kinds_used.append("plain")
        elif k == 9:
            L.append("    p = &%s;\n" % v); ptr[0] = v; kinds_used.append("reseat")
        elif k == 10:
            L.append("    p->owner = \"%s\";\n    p->lg = %d;\n    (*p).w = %s;\n" % (s_, g_, fmt_d(d_))); st[ptr[0]].update(owner=s_, lg=g_, w=d_); kinds_used.append("arrow_store")
        elif k == 11:
            L.append("    p->rename(\"%s\");\n" % s_); t = st[ptr[0]]; t.update(owner=s_, n=t["n"] + 1); kinds_used.append("method_ptr")
        elif k == 12:
            L.append("    %s.owner = %s.owner;\n    %s.w = %s.w;\n" % (v, o, v, o)); st[v].update(owner=st[o]["owner"], w=st[o]["w"]); kinds_used.append("member_copy")
        else:
            L.append("    %s.lg = %s.lg + 1;\n    %s.ok = !%s.ok;\n" % (v, v, v, v)); st[v].update(lg=st[v]["lg"] + 1, ok=1 - st[v]["ok"]); kinds_used.append("member_arith")
        dump_all()
    L.append("    println(\"END\");\n    return 0;\n}\n")
    exp.append("END")
    return "".join(L), "\n".join(exp) + "\n", kinds_used


TEAM_HDR = ("struct Pt { int x; int y; };\nstruct Team { int n; Pt[2] ps; int[2] ys; };\n"
            "int sum_ps(Team t) {\n    return t.ps[0].x * 1000 + t.ps[0].y * 100 + t.ps[1].x * 10 + t.ps[1].y;\n}\n"
            "Team mk(int b) {\n    Team r;\n    r.n = b;\n    r.ps[0].x = b + 1;\n    r.ps[0].y = b + 2;\n    r.ps[1].x = b + 3;\n    r.ps[1].y = b + 4;\n"
            "    r.ys[0] = b + 5;\n    r.ys[1] = b + 6;\n    return r;\n}\n"
            "void set_ps(Team& t, int i, int v) {\n    t.ps[i].x = v;\n}\n")
TEAM_FID = "struct_array_member_copies_stale"


def team_case(r, nops, read_before_copy, script=None):
    """a struct with a struct-array member (Pt[2] ps) next to a scalar and an int array: whole-struct copies (initialisation,
    assignment, by-value parameter, function result) are complete and independent, element copies and element stores reach the
    cell they name.  Shadow kept by the harness.  read_before_copy: the source is printed before every copy (the pinned tree
    refreshed struct-array members of a struct only when it was read)"""
    def fresh(b):
        return {"n": b, "ps": [[b + 1, b + 2], [b + 3, b + 4]], "ys": [b + 5, b + 6]}

    def clone(t):
        return {"n": t["n"], "ps": [list(t["ps"][0]), list(t["ps"][1])], "ys": list(t["ys"])}
    st = {"t1": fresh(0), "t2": fresh(50)}
    def init_src(v, b):
        return ("    Team %s;\n    %s.n = %d;\n    %s.ps[0].x = %d;\n    %s.ps[0].y = %d;\n    %s.ps[1].x = %d;\n    %s.ps[1].y = %d;\n    %s.ys[0] = %d;\n    %s.ys[1] = %d;\n"
                % (v, v, b, v, b + 1, v, b + 2, v, b + 3, v, b + 4, v, b + 5, v, b + 6))
    L = [TEAM_HDR, "int main() {\n" + init_src("t1", 0) + init_src("t2", 50) + "    Pt q;\n    q.x = -1;\n    q.y = -2;\n"]
    qv = [-1, -2]
    exp, kinds_used = [], []

    def dump(v):
        t = st[v]
        L.append("    println(\"%s\", %s.n, %s.ps[0].x, %s.ps[0].y, %s.ps[1].x, %s.ps[1].y, %s.ys[0], %s.ys[1]);\n" % (v, v, v, v, v, v, v, v))
        exp.append("%s %d %d %d %d %d %d %d" % (v, t["n"], t["ps"][0][0], t["ps"][0][1], t["ps"][1][0], t["ps"][1][1], t["ys"][0], t["ys"][1]))

    def dump_all():
        dump("t1"); dump("t2")
        L.append("    println(\"S\", sum_ps(t1), sum_ps(t2), q.x, q.y);\n")
        exp.append("S %d %d %d %d" % tuple([st[v]["ps"][0][0] * 1000 + st[v]["ps"][0][1] * 100 + st[v]["ps"][1][0] * 10 + st[v]["ps"][1][1] for v in ("t1", "t2")] + qv))
    dump_all()
    nloc = [0]
    for _ in range(len(script) if script else nops):
        k = r.below(10)
        v = r.choice(["t1", "t2"])
        if script:
            k, v = script[_]
        o = "t2" if v == "t1" else "t1"
        i, val = r.below(2), r.range(1, 9)
        if k in (2, 3, 4) and read_before_copy:
            dump(o)
        if k == 0:
            L.append("    %s.ps[%d].x = %d;\n" % (v, i, val)); st[v]["ps"][i][0] = val; kinds_used.append("elem_member_store")
        elif k == 1:
            L.append("    %s.ps[%d].y += %d;\n    %s.ys[%d] = %d;\n    %s.n++;\n" % (v, i, val, v, i, val, v)); st[v]["ps"][i][1] += val; st[v]["ys"][i] = val; st[v]["n"] += 1; kinds_used.append("elem_member_compound")
        elif k == 2:
            L.append("    %s = %s;\n" % (v, o)); st[v] = clone(st[o]); kinds_used.append("assign_copy")
        elif k == 3:
            nloc[0] += 1
            n_ = "c%d" % nloc[0]
            decl = "    Team %s = %s;\n" % (n_, o) if r.below(2) else "    Team %s;\n    %s = %s;\n" % (n_, n_, o)
            L.append(decl + "    %s.ps[%d].x = %d;\n    println(\"L\", %s.n, %s.ps[0].x, %s.ps[0].y, %s.ps[1].x, %s.ps[1].y, %s.ys[1]);\n" % (n_, i, 70 + val, n_, n_, n_, n_, n_, n_))
            c_ = clone(st[o]); c_["ps"][i][0] = 70 + val
            exp.append("L %d %d %d %d %d %d" % (c_["n"], c_["ps"][0][0], c_["ps"][0][1], c_["ps"][1][0], c_["ps"][1][1], c_["ys"][1])); kinds_used.append("init_copy")
        elif k == 4:
            L.append("    %s = mk(%d);\n" % (v, val * 100)); st[v] = fresh(val * 100); kinds_used.append("assign_result")
        elif k == 5:
            L.append("    q = %s.ps[%d];\n" % (v, i)); qv[:] = st[v]["ps"][i]; kinds_used.append("elem_copy_out")
        elif k == 6:
            L.append("    %s.ps[%d] = q;\n" % (v, i)); st[v]["ps"][i] = list(qv); kinds_used.append("elem_store_whole")
        elif k == 7:
            # (a store through a Team& parameter, t.ps[i].x = v, is rejected by the implementation: "Array member not found")
            L.append("    %s.ps[%d].x--;\n" % (v, i)); st[v]["ps"][i][0] -= 1; kinds_used.append("elem_member_decr")
        elif k == 8:
            L.append("    q.x = %d;\n" % (90 + val)); qv[0] = 90 + val; kinds_used.append("q_store")
        else:
            L.append("    %s.ps[%d].x = %s.ps[%d].y;\n" % (v, i, o, 1 - i)); st[v]["ps"][i][0] = st[o]["ps"][1 - i][1]; kinds_used.append("cross_member_copy")
        # with read_before_copy the state is read after every operation; without it only after every third one, so that copies
        # are made of values that were written but not read since
        if read_before_copy or (_ % 3) == 2:
            dump_all()
    if not read_before_copy:
        dump_all()
    L.append("    println(\"END\");\n    return 0;\n}\n")
    exp.append("END")
    return "".join(L), "\n".join(exp) + "\n", kinds_used + ([] if read_before_copy else ["(no-reads-between)"])


def first_diff(exp, got):
    e, g = exp.split("\n"), got.split("\n")
    for i in range(max(len(e), len(g))):
        a = e[i] if i < len(e) else "<missing>"
        b = g[i] if i < len(g) else "<missing>"
        if a != b:
            return i, a, b
    return None


def diff_read_kind(exp, got):
    d = first_diff(exp, got)
    if d is None:
        return None
    return d[1].split(" ")[0] if d[1] != "<missing>" else "crash"


def main(a):
    v = common.Verdict(PID, a.tier, a.seed)
    driver_ok, failed = common.lean_obligations(v, ["CbProofs", "CbProps.C07"], THEOREMS)
    exe, blog = common.build_impl()
    if exe is None or not driver_ok:
        v.violation("cannot build the interpreter / driver: " + (blog or "")[-600:], {"log": (blog or "")[-2000:]}, no_input=True)
        return v.finish()
    drv = common.driver_path()
    quick = a.tier == "quick"
    findings = [f for f in all_findings() if f["property"] == PID]
    gated_ops, gated_reads, cell_of = set(), set(), {}
    for f in findings:
        for g in f.get("gates", []):
            (gated_reads if g.startswith("read:") else gated_ops).add(g.replace("read:", ""))
        for c in f.get("cells", []):
            cell_of[c] = f["id"]
    cell_known = {}
    census = {}
    reported = [0]
    nontrivial = set()
    dist = {}
    r = Rng(a.seed, 71)

    def run(cases, gated):
        _, mo, _ = common.run_lines_parallel([drv, "c07"], [model_line(c, gated) for c in cases])
        progs = [render(c, gated) for c in cases]
        outs = common.run_programs(exe, progs, timeout=10)
        return mo, progs, outs

    def report(suite, what, replay):
        if reported[0] >= 6:
            return
        reported[0] += 1
        replay["suite"] = suite
        v.violation("suite %s: %s" % (suite, what), replay)

    if a.replay:
        rp = json.load(open(a.replay))
        outs = common.run_programs(exe, [rp["program"]], timeout=10)
        if outs[0][0] != rp["expected_stdout"] or outs[0][1] != "ok":
            report("replay", "expected output differs (first difference %s)" % (first_diff(rp["expected_stdout"], outs[0][0]),), rp)
        return v.finish()

    # --- 1. matrix: every operation kind alone, ALL read kinds enabled except the gated ones
    cells = single_cells(r, 4 if quick else 100)
    mo, progs, outs = run([c for _, c in cells], gated_reads)
    dist["matrix"] = len(cells)
    for (k, c), m, p, o in zip(cells, mo, progs, outs):
        exp = expected_stdout(c, gated_reads, m)
        nontrivial.add(("cell", k))
        if o[0] == exp and o[1] == "ok":
            continue
        d = first_diff(exp, o[0])
        if os.environ.get("CB_VERIF_CENSUS"):
            census.setdefault((k, diff_read_kind(exp, o[0]), o[1]), []).append("%s | %s" % (c.ops[-1][1] if c.ops else "init", d))
            continue
        if k in cell_of:
            cell_known[cell_of[k]] = cell_known.get(cell_of[k], 0) + 1
            continue
        report("matrix", "operation kind %s (%s): first difference at line %s: expected %r got %r (%s)" % (
            k, c.ops[-1][1] if c.ops else "copy-initialisation", d[0] if d else "-", d[1] if d else "", d[2] if d else "", o[1]),
            {"program": p, "expected_stdout": exp, "impl_stdout": o[0], "impl_exit_class": o[1], "impl_stderr": o[2][-300:], "kind": k})
    # --- 2. the read kinds on the initial state (no operation at all): a read path that is wrong by itself
    # (covered by the first dump of every program above)
    # --- 3. random histories over the operation kinds that are not gated
    kinds = [k for k in sorted(OPS) if k not in gated_ops]
    n = 150 if quick else 40000
    hist = [gen_case(r, kinds, r.range(3, 14), "c_init" not in gated_ops) for _ in range(n)]
    mo, progs, outs = run(hist, gated_reads)
    dist["histories"] = len(hist)
    used = {}
    for c, m, p, o in zip(hist, mo, progs, outs):
        exp = expected_stdout(c, gated_reads, m)
        for op in c.ops:
            used[op[0]] = used.get(op[0], 0) + 1
        nontrivial.add(("hist", tuple(op[0] for op in c.ops)))
        if o[0] == exp and o[1] == "ok":
            continue
        d = first_diff(exp, o[0])
        if os.environ.get("CB_VERIF_CENSUS"):
            census.setdefault(("history", diff_read_kind(exp, o[0]), o[1]), []).append("%s | %s" % ([op[1] for op in c.ops], d))
            continue
        # shrink: drop operations while the program still disagrees
        ops = list(c.ops)
        budget = 30
        i = 0
        while i < len(ops) and budget > 0:
            c2 = Case()
            c2.init, c2.o2_copyinit, c2.ops = c.init, c.o2_copyinit, ops[:i] + ops[i + 1:]
            # reseat bookkeeping lives in the model ops, so dropping is safe
            m2, p2, o2 = run([c2], gated_reads)
            budget -= 1
            if o2[0][0] != expected_stdout(c2, gated_reads, m2[0]) or o2[0][1] != "ok":
                ops = c2.ops
            else:
                i += 1
        c3 = Case()
        c3.init, c3.o2_copyinit, c3.ops = c.init, c.o2_copyinit, ops
        m3, p3, o3 = run([c3], gated_reads)
        exp3 = expected_stdout(c3, gated_reads, m3[0])
        d3 = first_diff(exp3, o3[0][0])
        report("histories", "after %s: first difference at line %s: expected %r got %r (%s)" % (
            [op[1] for op in ops], d3[0] if d3 else "-", d3[1] if d3 else "", d3[2] if d3 else "", o3[0][1]),
            {"program": p3[0], "expected_stdout": exp3, "impl_stdout": o3[0][0], "impl_exit_class": o3[0][1],
             "impl_stderr": o3[0][2][-300:], "ops": [op[1] for op in ops]})
    # ---- typed members (string / double / long / bool) through the same kinds of access path
    tn = 60 if quick else 6000
    tcases = [typed_case(r, 1 if k < tn // 2 else r.range(2, 6)) for k in range(tn)]
    touts = common.run_programs(exe, [c[0] for c in tcases], timeout=10)
    dist["typed-members"] = len(tcases)
    for (src, exp, kinds_used), o in zip(tcases, touts):
        nontrivial.add(("typed", tuple(kinds_used)))
        if o[0] == exp and o[1] == "ok":
            continue
        d = first_diff(exp, o[0])
        if os.environ.get("CB_VERIF_CENSUS"):
            census.setdefault(("typed", tuple(kinds_used[:1]), o[1]), []).append("%s | %s" % (kinds_used, d))
            continue
        report("typed-members", "after %s: first difference at line %s: expected %r got %r (%s)" % (
            kinds_used, d[0] if d else "-", d[1] if d else "", d[2] if d else "", o[1]),
            {"program": src, "expected_stdout": exp, "impl_stdout": o[0], "impl_exit_class": o[1], "impl_stderr": o[2][-300:], "ops": kinds_used})
    # ---- a struct with a struct-array member: whole copies, element copies, element stores
    kn = 60 if quick else 6000
    kcases = [team_case(r, 1 if k < kn // 3 else r.range(2, 7), k % 2 == 0) for k in range(kn)]
    # every kind of store into t1 directly followed (no read in between) by every kind of copy out of t1
    for a_ in (0, 1, 4, 6, 7, 9):
        for b_ in (2, 3, 3, 5):
            for rep_ in range(2):
                kcases.append(team_case(r, 2, False, script=[(a_, "t1"), (b_, "t2")]))
    kouts = common.run_programs(exe, [c[0] for c in kcases], timeout=10)
    dist["struct-array-members"] = len(kcases)
    team_listed = any(f["id"] == TEAM_FID for f in findings)
    for (src, exp, kinds_used), o in zip(kcases, kouts):
        nontrivial.add(("team", tuple(kinds_used)))
        if o[0] == exp and o[1] == "ok":
            continue
        d = first_diff(exp, o[0])
        if os.environ.get("CB_VERIF_CENSUS"):
            census.setdefault(("team", tuple(kinds_used[:1]), o[1]), []).append("%s | %s" % (kinds_used, d))
            continue
        if team_listed and o[1] == "ok" and ("assign_copy" in kinds_used or "init_copy" in kinds_used) and "(no-reads-between)" in kinds_used:
            cell_known[TEAM_FID] = cell_known.get(TEAM_FID, 0) + 1
            continue
        report("struct-array-members", "after %s: first difference at line %s: expected %r got %r (%s)" % (
            kinds_used, d[0] if d else "-", d[1] if d else "", d[2] if d else "", o[1]),
            {"program": src, "expected_stdout": exp, "impl_stdout": o[0], "impl_exit_class": o[1], "impl_stderr": o[2][-300:], "ops": kinds_used})
    for key, whats in sorted(census.items(), key=lambda kv: str(kv[0])):
        common.log("CENSUS %s x%d: %s" % (key, len(whats), whats[0][:260]))
    for f in findings:
        if f["id"] in cell_known:
            v.known_finding(f["what"] + " [%d matrix cells]" % cell_known[f["id"]])
        elif f.get("gates") and not f.get("cells"):
            v.known_finding(f["what"] + " [read path excluded from the dumps]")
    v.coverage.update({
        "evaluations": sum(dist.values()), "distinct_nontrivial": len(nontrivial), "distribution": dist,
        "operation_kinds": sorted(OPS), "operation_kinds_in_histories": kinds, "operation_use": used,
        "read_kinds": sorted(k for k in list(READS) + ["byval_read"] if k not in gated_reads),
        "rule": "object graph: Out o1, o2 {int x; In in {a, b}; int[2] ys}, In i1, Pt[2] oa {x; In in}, int[3] ar1, ar2, int n1, "
                "Out* p1, int* q. matrix: each of the operation kinds alone (with and without a preceding pointer re-seat), "
                "random initial values; histories: 3..14 operations drawn from the kinds whose single cell is not a listed "
                "finding. After the initialisation and after every operation every cell is read through every enabled read "
                "kind (plain paths, ->, (*p)., *q, string interpolation, getter methods, reference / array parameters, a "
                "by-value struct parameter) and compared with the shadow heap. non-trivial = distinct cell / distinct "
                "sequence of operation kinds",
        "exhaustive": False})
    v.assumptions += ["access forms the interpreter rejects with an error are not generated (p->in.a = v, p->ys[i], (*p).in.a = v, "
                      "r.in.a = v through a reference parameter, reference arguments that are not plain variables, array "
                      "members of nested structs, struct-array elements with array members)",
                      "pointers to struct-array elements and to nested struct members crash the interpreter (SIGSEGV) — "
                      "recorded under C10, not generated here"]
    return v.finish()
