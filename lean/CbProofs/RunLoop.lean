import CbModel.RunLoop
namespace CbModel.RunLoop

/-- one step less -/
def dec (t : Task) : Task := { t with left := t.left - 1 }

/-- the queue after one whole round -/
def next (q : Queue) : Queue := (q.filter (fun t => 1 < t.left)).map dec

@[simp] theorem next_nil : next [] = [] := rfl

theorem next_cons_le (t : Task) (q : Queue) (h : t.left ≤ 1) : next (t :: q) = next q := by
  have : ¬ 1 < t.left := by omega
  simp [next, this]

theorem next_cons_gt (t : Task) (q : Queue) (h : 1 < t.left) : next (t :: q) = dec t :: next q := by
  simp [next, h]

@[simp] theorem run_nil (fuel : Nat) : run fuel [] = [] := by
  cases fuel <;> rfl

/-- stepping through a whole prefix `a` of the queue -/
theorem run_append (a : Queue) : ∀ (b : Queue) (fuel : Nat), a.length ≤ fuel →
    run fuel (a ++ b) = a.map (·.id) ++ run (fuel - a.length) (b ++ next a) := by
  induction a with
  | nil => intro b fuel _; simp
  | cons t a ih =>
    intro b fuel hf
    cases fuel with
    | zero => simp at hf
    | succ f =>
      have hf' : a.length ≤ f := by simpa using hf
      by_cases h : t.left ≤ 1
      · simp only [List.cons_append, run, stepQueue, if_pos h, List.map_cons, List.length_cons,
          Nat.add_sub_add_right, next_cons_le t a h]
        rw [ih b f hf']
      · have h' : 1 < t.left := by omega
        simp only [List.cons_append, run, stepQueue, if_neg h, List.map_cons, List.length_cons,
          Nat.add_sub_add_right, next_cons_gt t a h']
        rw [List.append_assoc, ih _ f hf']
        simp [dec]

theorem run_round (q : Queue) (fuel : Nat) (h : q.length ≤ fuel) :
    run fuel q = q.map (·.id) ++ run (fuel - q.length) (next q) := by
  have := run_append q [] fuel h
  simpa using this

theorem work_cons (t : Task) (q : Queue) : work (t :: q) = max t.left 1 + work q := by
  simp [work]

theorem work_next (q : Queue) : work (next q) + q.length ≤ work q := by
  induction q with
  | nil => simp [work]
  | cons t q ih =>
    by_cases h : t.left ≤ 1
    · rw [next_cons_le t q h, work_cons]; simp; omega
    · have h' : 1 < t.left := by omega
      rw [next_cons_gt t q h', work_cons, work_cons]; simp [dec]; omega

theorem length_le_work (q : Queue) : q.length ≤ work q := by
  have := work_next q; omega

theorem foldl_max (l : List Nat) : ∀ a, l.foldl max a = max a (l.foldl max 0) := by
  induction l with
  | nil => intro a; simp
  | cons x l ih => intro a; simp only [List.foldl_cons]; rw [ih (max a x), ih (max 0 x)]; omega

theorem rounds_cons (t : Task) (q : Queue) : rounds (t :: q) = max (max t.left 1) (rounds q) := by
  simp only [rounds, List.map_cons, List.foldl_cons]
  rw [foldl_max]; omega

@[simp] theorem rounds_nil : rounds [] = 0 := rfl

theorem rounds_pos (q : Queue) (h : q ≠ []) : 1 ≤ rounds q := by
  cases q with
  | nil => exact absurd rfl h
  | cons t q => rw [rounds_cons]; omega

theorem rounds_next (q : Queue) : rounds (next q) = rounds q - 1 := by
  induction q with
  | nil => rfl
  | cons t q ih =>
    by_cases h : t.left ≤ 1
    · rw [next_cons_le t q h, rounds_cons, ih]; omega
    · have h' : 1 < t.left := by omega
      rw [next_cons_gt t q h', rounds_cons, rounds_cons, ih]; simp only [dec]; omega

theorem round_zero (q : Queue) : round q 0 = q.map (·.id) := by
  have : q.filter (fun t => 0 < max t.left 1) = q := by
    apply List.filter_eq_self.mpr
    intro t _
    exact decide_eq_true (by omega)
  simp only [round, this]

theorem round_cons (s : Task) (q : Queue) (k : Nat) :
    round (s :: q) k = if k < max s.left 1 then s.id :: round q k else round q k := by
  by_cases h : k < max s.left 1 <;> simp [round, h]

theorem round_next (q : Queue) (k : Nat) : round (next q) k = round q (k + 1) := by
  induction q with
  | nil => rfl
  | cons t q ih =>
    by_cases h : t.left ≤ 1
    · rw [next_cons_le t q h, ih, round_cons]
      have : ¬ k + 1 < max t.left 1 := by omega
      simp [this]
    · have h' : 1 < t.left := by omega
      rw [next_cons_gt t q h', round_cons, round_cons, ih]
      by_cases hk : k + 1 < max t.left 1
      · have hk' : k < max (dec t).left 1 := by simp only [dec]; omega
        rw [if_pos hk, if_pos hk']; rfl
      · have hk' : ¬ k < max (dec t).left 1 := by simp only [dec]; omega
        rw [if_neg hk, if_neg hk']

theorem schedule_unfold (q : Queue) (h : q ≠ []) : schedule q = q.map (·.id) ++ schedule (next q) := by
  have hr : rounds q = rounds (next q) + 1 := by
    have := rounds_pos q h; rw [rounds_next]; omega
  simp only [schedule]
  rw [hr, List.range_succ_eq_map, List.flatMap_cons, round_zero, List.flatMap_map]
  congr 1
  congr 1
  funext k
  exact (round_next q k).symm

theorem run_is_round_robin_aux : ∀ (n : Nat) (q : Queue) (fuel : Nat), rounds q = n → work q ≤ fuel →
    run fuel q = schedule q := by
  intro n
  induction n with
  | zero =>
    intro q fuel hr _
    cases q with
    | nil => simp [schedule]
    | cons t q => have := rounds_pos (t :: q) (by simp); omega
  | succ n ih =>
    intro q fuel hr hw
    have hne : q ≠ [] := by intro h; subst h; simp at hr
    have hwn := work_next q
    rw [run_round q fuel (by omega), schedule_unfold q hne,
      ih (next q) (fuel - q.length) (by rw [rounds_next]; omega) (by omega)]

theorem run_is_round_robin (q : Queue) (fuel : Nat) (h : work q ≤ fuel) : run fuel q = schedule q :=
  run_is_round_robin_aux _ q fuel rfl h

theorem sum_ite_range (m n : Nat) :
    ((List.range n).map (fun k => if k < m then 1 else 0)).sum = min m n := by
  induction n with
  | zero => simp
  | succ n ih =>
    rw [List.range_succ, List.map_append, List.sum_append, ih]
    by_cases h : n < m <;> simp [h] <;> omega

theorem count_round_not_mem (q : Queue) (k a : Nat) (h : a ∉ q.map (·.id)) : (round q k).count a = 0 := by
  apply List.count_eq_zero.mpr
  intro hm
  apply h
  simp only [round, List.mem_map, List.mem_filter] at hm ⊢
  obtain ⟨t, ⟨ht, _⟩, rfl⟩ := hm
  exact ⟨t, ht, rfl⟩

theorem count_round (q : Queue) (k : Nat) (t : Task) (ht : t ∈ q) (hd : (q.map (·.id)).Nodup) :
    (round q k).count t.id = if k < max t.left 1 then 1 else 0 := by
  induction q with
  | nil => simp at ht
  | cons s q ih =>
    simp only [List.map_cons, List.nodup_cons] at hd
    obtain ⟨hs, hd⟩ := hd
    rcases List.mem_cons.mp ht with rfl | htq
    · rw [round_cons]
      have := count_round_not_mem q k t.id hs
      by_cases h : k < max t.left 1 <;> simp [h, this]
    · have hne : s.id ≠ t.id := by
        intro e; apply hs; rw [e]; exact List.mem_map.mpr ⟨t, htq, rfl⟩
      rw [round_cons]
      by_cases h : k < max s.left 1
      · simp only [h, if_true]; rw [List.count_cons_of_ne hne, ih htq hd]
      · simp only [h, if_false]; exact ih htq hd

theorem le_rounds (q : Queue) (t : Task) (ht : t ∈ q) : max t.left 1 ≤ rounds q := by
  induction q with
  | nil => simp at ht
  | cons s q ih =>
    rw [rounds_cons]
    rcases List.mem_cons.mp ht with rfl | htq
    · omega
    · have := ih htq; omega

theorem run_steps_each_task_exactly (q : Queue) (fuel : Nat) (h : work q ≤ fuel) (t : Task) (ht : t ∈ q)
    (hd : (q.map (·.id)).Nodup) : (run fuel q).count t.id = max t.left 1 := by
  rw [run_is_round_robin q fuel h, schedule, List.count_flatMap]
  have : (List.count t.id ∘ round q) = fun k => if k < max t.left 1 then 1 else 0 := by
    funext k; exact count_round q k t ht hd
  rw [this, sum_ite_range]
  have := le_rounds q t ht
  omega

theorem run_first_round_is_queue_order (q : Queue) (fuel : Nat) (h : work q ≤ fuel) :
    (run fuel q).take q.length = q.map (·.id) := by
  have hl := length_le_work q
  rw [run_round q fuel (by omega)]
  have : q.length = (q.map (·.id)).length := by simp
  rw [this, List.take_left]

end CbModel.RunLoop
