import CbModel.EnumM
import CbGen.ErrClass
import Driver.Proto
namespace Driver
open CbModel.EnumM

/-- fields: kind, data.
    match: arms "0 _ 2", variant      -> index | none
    chain: steps "o5 e3 o2"           -> ok:<sum>:<markers> | err:<e>:<markers>
    try:   kind (divzero|bounds|nullptr|ok) -> class | ok -/
def c13Line (fs : List (List Char)) : String :=
  match fs.map String.ofList with
  | ["match", arms, v] =>
    let ps : Option (List Pat) := ((arms.splitOn " ").filter (· ≠ "")).mapM fun a =>
      if a == "_" then some Pat.wildcard else a.toNat?.map Pat.variant
    match ps, v.toNat? with
    | some ps, some v =>
      match firstArm ps ⟨v, none⟩ with
      | some i => toString i
      | none => "none"
    | _, _ => "bad-op"
  | ["chain", steps] =>
    let ss : Option (List Step) := ((steps.splitOn " ").filter (· ≠ "")).mapM fun a =>
      match a.toList with
      | 'o' :: r => (String.ofList r).toInt?.map Step.ok
      | 'e' :: r => (String.ofList r).toInt?.map Step.err
      | _ => none
    match ss with
    | some ss =>
      match chainQ ss 0 with
      | (.ok r, n) => "ok:" ++ toString r ++ ":" ++ toString n
      | (.error e, n) => "err:" ++ toString e ++ ":" ++ toString n
    | none => "bad-op"
  | ["nest", levels, base] =>
    let ls : Option (List (Option Int × Int)) := ((levels.splitOn " ").filter (· ≠ "")).mapM fun a =>
      match a.toList with
      | 'n' :: ':' :: r => (String.ofList r).toInt?.map fun v => (none, v)
      | 'e' :: ':' :: r => (String.ofList r).toInt?.map fun v => (some v, 0)
      | _ => none
    match ls, base.toInt? with
    | some ls, some b =>
      match nestQ ls b with
      | (.ok r, ms) => "ok:" ++ toString r ++ ":" ++ " ".intercalate (ms.map toString)
      | (.error e, ms) => "err:" ++ toString e ++ ":" ++ " ".intercalate (ms.map toString)
    | _, _ => "bad-op"
  | ["try", k] =>
    let r : Option (Except RtErr Int) :=
      if k == "divzero" then some (.error .divzero) else if k == "modzero" then some (.error .modzero) else if k == "bounds" then some (.error .bounds)
      else if k == "nullptr" then some (.error .nullptr) else if k == "ok" then some (.ok 0) else none
    match r with
    | some r =>
      match tryResult CbGen.errRules r with
      | .ok _ => "ok"
      | .error c => c
    | none => "bad-op"
  | _ => "bad-op"

end Driver
