"""Generic greedy shrinker for S-expression programs (CbRef).  A candidate is kept when the
model still accepts it (exit0/exit1) and model and implementation still disagree."""


def parse(s):
    toks, i, n = [], 0, len(s)
    while i < n:
        c = s[i]
        if c in "()":
            toks.append(c); i += 1
        elif c == '"':
            j = i + 1
            while s[j] != '"':
                j += 2 if s[j] == "\\" else 1
            toks.append(s[i:j + 1]); i = j + 1
        elif c in " \n\t":
            i += 1
        else:
            j = i
            while j < n and s[j] not in '() \n\t"':
                j += 1
            toks.append(s[i:j]); i = j
    pos = [0]

    def rd():
        t = toks[pos[0]]; pos[0] += 1
        if t == "(":
            l = []
            while toks[pos[0]] != ")":
                l.append(rd())
            pos[0] += 1
            return l
        return t
    return rd()


def show(t):
    if isinstance(t, list):
        return "(" + " ".join(show(x) for x in t) + ")"
    return t


EXPR_HEADS = {"lit", "var", "idx", "fld", "fldidx", "bin", "un", "tern", "call", "incdec", "paren"}
STMT_HEADS = {"decl", "declarr", "declstruct", "assign", "compound", "expr", "print", "printi", "if", "while", "for",
              "break", "continue", "ret", "block"}


def is_expr(t):
    return isinstance(t, list) and bool(t) and isinstance(t[0], str) and t[0] in EXPR_HEADS


def is_stmt(t):
    return isinstance(t, list) and bool(t) and isinstance(t[0], str) and t[0] in STMT_HEADS


def lvalue_pos(path, root):
    """is the node at `path` the lvalue operand of assign/compound/incdec ?"""
    if not path:
        return False
    node = root
    for i in path[:-1]:
        node = node[i]
    if isinstance(node, list) and node and isinstance(node[0], str):
        if node[0] == "assign" and path[-1] == 1:
            return True
        if node[0] == "compound" and path[-1] == 2:
            return True
        if node[0] == "incdec" and path[-1] == 3:
            return True
    return False


def candidates(t):
    """yield smaller variants of tree t (one edit each)"""
    whole = show(t)

    def walk(node, path):
        if not isinstance(node, list):
            return
        # delete an element that is a statement / function / global / print item
        for i, ch in enumerate(node):
            if isinstance(ch, list) and ch and isinstance(ch[0], str) and (is_stmt(ch) or ch[0] in ("func", "struct", "s", "e")):
                if ch[0] == "func" and len(ch) > 1 and (ch[1] == "main" or ("(call %s" % ch[1]) in whole):
                    pass
                elif ch[0] == "struct" and ("(declstruct %s " % ch[1]) in whole:
                    pass
                elif ch[0] in ("s", "e") and node and node[0] not in ("print", "printi"):
                    pass
                else:
                    yield path, ("del", i)
        if is_stmt(node):
            # replace compound statements by their bodies
            if node[0] in ("if", "while", "for", "block"):
                for i, ch in enumerate(node):
                    if isinstance(ch, list) and ch and all(is_stmt(x) for x in ch) and not is_stmt(ch):
                        yield path, ("splice", i)
        if is_expr(node) and not lvalue_pos(path, t):
            for i, ch in enumerate(node):
                if is_expr(ch):
                    yield path, ("lift", i)
            if lvalue_pos(path, t):
                pass
            elif node[0] != "lit":
                yield path, ("lit", 0)
                yield path, ("lit", 1)
            elif node[1] not in ("0", "1"):
                yield path, ("lit", 0)
                yield path, ("lit", 1)
        for i, ch in enumerate(node):
            yield from walk(ch, path + [i])
    return walk(t, [])


def apply(t, path, edit):
    import copy
    t = copy.deepcopy(t)
    if not path:
        node, parent, idx = t, None, None
    parent, idx, node = None, None, t
    for i in path:
        parent, idx, node = node, i, node[i]
    kind, arg = edit
    if kind == "del":
        del node[arg]
    elif kind == "splice":
        body = node[arg]
        if parent is None:
            return None
        parent[idx:idx + 1] = body
    elif kind == "lift":
        if parent is None:
            return None
        parent[idx] = node[arg]
    elif kind == "lit":
        if parent is None:
            return None
        parent[idx] = ["lit", str(arg)]
    return t


def shrink(sexp, still_fails, max_rounds=80, batch=300, budget_s=45):
    """still_fails(list of sexp strings) -> list of bool"""
    import time
    t0 = time.time()
    cur = parse(sexp)
    for _ in range(max_rounds):
        if time.time() - t0 > budget_s:
            break
        cands = []
        for path, edit in candidates(cur):
            c = apply(cur, path, edit)
            if c is not None:
                cands.append(c)
            if len(cands) >= batch:
                break
        if not cands:
            break
        # deletions first (they come first in walk order per node), evaluate all
        res = still_fails([show(c) for c in cands])
        nxt = None
        for c, ok in zip(cands, res):
            if ok:
                nxt = c
                break
        if nxt is None:
            break
        cur = nxt
    return show(cur)
