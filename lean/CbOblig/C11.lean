/-
  Obligations on the tables regenerated from generic_instantiation.cpp / ast.h (CbGen/Generic.lean):
  the cache key has the modelled format, and clone_ast_node copies every child-node field of struct ASTNode
  (a child the copier forgets is a generic body whose statements or operands silently disappear).
-/
import CbGen.Generic
namespace CbOblig.C11

theorem key_format_is_modelled : CbGen.keyFormat = CbModel.Generic.stdFormat := by decide

/-- child fields that cannot occur below a generic FUNCTION definition and need not be copied:
    `impl_static_variables` belongs to impl-block nodes -/
def notBelowFunctions : List String := ["impl_static_variables"]

theorem clone_copies_every_child :
    (CbGen.astChildFields.all fun f => CbGen.clonedFields.contains f) = true ∧
    (CbGen.astChildVectors.all fun f => CbGen.clonedVectors.contains f || notBelowFunctions.contains f) = true := by
  decide

end CbOblig.C11
