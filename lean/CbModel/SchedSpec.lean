/-
  C14 — specification-level task semantics: a task is a continuation (the code still to run); a turn runs the
  task up to its next `yield` (anywhere: in nested blocks, branches, loops) or to its end.  A scheduler is ANY
  sequence of task indices.  Used to state the property at full strength: whatever the schedule, a task's output
  is what its body prints when run alone.  Core Lean only.
-/
namespace CbModel.SchedSpec

inductive Code where
  | mark (tag : Nat)
  | yieldS
  | block (body : List Code)
  | ifS (taken : Bool) (body : List Code)
  | loop (n : Nat) (body : List Code)
  deriving Repr, Inhabited

mutual
/-- what a piece of code prints when run alone, start to end -/
def seqOut : Code → List Nat
  | .mark t => [t]
  | .yieldS => []
  | .block b => seqOutL b
  | .ifS taken b => if taken then seqOutL b else []
  | .loop n b => (List.replicate n (seqOutL b)).flatten
def seqOutL : List Code → List Nat
  | [] => []
  | c :: r => seqOut c ++ seqOutL r
end

/-- one turn: run the continuation until the next `yield` (which is consumed) or until nothing is left; `fuel`
    bounds the number of unfolding steps.  Returns the tags printed and the new continuation. -/
def runToYield : Nat → List Code → List Nat × List Code
  | 0, k => ([], k)
  | _ + 1, [] => ([], [])
  | fuel + 1, .mark t :: r => let (o, k) := runToYield fuel r; (t :: o, k)
  | _ + 1, .yieldS :: r => ([], r)
  | fuel + 1, .block b :: r => runToYield fuel (b ++ r)
  | fuel + 1, .ifS taken b :: r => if taken then runToYield fuel (b ++ r) else runToYield fuel r
  | fuel + 1, .loop 0 _ :: r => runToYield fuel r
  | fuel + 1, .loop (n + 1) b :: r => runToYield fuel (b ++ .loop n b :: r)

structure TaskSt where
  out : List Nat            -- printed so far
  cont : List Code          -- still to run
  deriving Repr, Inhabited

/-- the scheduler gives task `i` a turn -/
def turn (fuel : Nat) (ts : List TaskSt) (i : Nat) : List TaskSt :=
  match ts[i]? with
  | none => ts
  | some t => let (o, k) := runToYield fuel t.cont; ts.set i ⟨t.out ++ o, k⟩

/-- an arbitrary schedule: any sequence of task indices, with any fuel per turn -/
def runSchedule (ts : List TaskSt) : List (Nat × Nat) → List TaskSt
  | [] => ts
  | (i, fuel) :: r => runSchedule (turn fuel ts i) r

def start (bodies : List (List Code)) : List TaskSt := bodies.map fun b => ⟨[], b⟩

end CbModel.SchedSpec
