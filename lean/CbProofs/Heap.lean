/- helper lemmas for CbProps/C07.lean (add what you need) -/
import CbModel.Heap
namespace CbProofs.Heap
open CbModel.Heap

variable {α : Type}

/-! ### lens lemmas for `get` / `set` -/

theorem get_append (p r : Path) (t : Val α) : get (p ++ r) t = (get p t).bind (get r) := by
  induction p generalizing t with
  | nil => simp [CbModel.Heap.get]
  | cons i p ih =>
    cases t with
    | leaf n => simp [CbModel.Heap.get]
    | node cs =>
      simp only [List.cons_append, CbModel.Heap.get]
      cases h : cs[i]? with
      | none => simp
      | some c => simp [ih]

theorem get_set_same (p : Path) (t nv : Val α) (h : (get p t).isSome) : get p (set p t nv) = some nv := by
  induction p generalizing t with
  | nil => simp [CbModel.Heap.get, CbModel.Heap.set]
  | cons i p ih =>
    cases t with
    | leaf n => simp [CbModel.Heap.get] at h
    | node cs =>
      simp only [CbModel.Heap.get] at h
      simp only [CbModel.Heap.get, CbModel.Heap.set, List.getElem?_modify_eq]
      cases hc : cs[i]? with
      | none => simp [hc] at h
      | some c =>
        simp only [hc, Option.bind_some] at h
        simp [ih c h]

theorem get_set_disjoint (p q : Path) (t nv : Val α) (h : Disjoint p q) : get q (set p t nv) = get q t := by
  induction p generalizing t q with
  | nil => simp [Disjoint] at h
  | cons i p ih =>
    cases q with
    | nil => simp [Disjoint] at h
    | cons j q =>
      cases t with
      | leaf n => simp [CbModel.Heap.get, CbModel.Heap.set]
      | node cs =>
        simp only [CbModel.Heap.get, CbModel.Heap.set]
        by_cases hij : i = j
        · subst hij
          simp only [Disjoint] at h
          have hd : Disjoint p q := by
            rcases h with h | h
            · exact absurd rfl h
            · exact h
          simp only [List.getElem?_modify_eq]
          cases hc : cs[i]? with
          | none => simp
          | some c => simp [ih q c hd]
        · rw [List.getElem?_modify_ne (h := hij)]

theorem get_set_below (p r : Path) (t nv : Val α) (h : (get p t).isSome) :
    get (p ++ r) (set p t nv) = get r nv := by
  rw [get_append, get_set_same p t nv h]; rfl

/-! ### `Disjoint` -/

theorem disjoint_symm (p q : Path) (h : Disjoint p q) : Disjoint q p := by
  induction p generalizing q with
  | nil => simp [Disjoint] at h
  | cons i p ih =>
    cases q with
    | nil => simp [Disjoint] at h
    | cons j q =>
      simp only [Disjoint] at h ⊢
      rcases h with h | h
      · exact Or.inl (fun e => h e.symm)
      · exact Or.inr (ih q h)

theorem disjoint_append_left (p q r : Path) (h : Disjoint p q) : Disjoint (p ++ r) q := by
  induction p generalizing q with
  | nil => simp [Disjoint] at h
  | cons i p ih =>
    cases q with
    | nil => simp [Disjoint] at h
    | cons j q =>
      simp only [List.cons_append, Disjoint] at h ⊢
      rcases h with h | h
      · exact Or.inl h
      · exact Or.inr (ih q h)

/-! ### `sameShape` -/

mutual
theorem sameShape_refl : ∀ v : Val α, sameShape v v = true
  | .leaf _ => by simp [sameShape]
  | .node cs => by simp only [sameShape]; exact sameShapeL_refl cs
theorem sameShapeL_refl : ∀ cs : List (Val α), sameShapeL cs cs = true
  | [] => by simp [sameShapeL]
  | c :: cs => by simp only [sameShapeL, Bool.and_eq_true]; exact ⟨sameShape_refl c, sameShapeL_refl cs⟩
end

theorem sameShapeL_modify (cs : List (Val α)) (i : Nat) (f : Val α → Val α) (c : Val α)
    (hc : cs[i]? = some c) (hf : sameShape c (f c) = true) :
    sameShapeL cs (cs.modify i f) = true := by
  induction cs generalizing i with
  | nil => simp at hc
  | cons a as ih =>
    cases i with
    | zero =>
      simp only [List.getElem?_cons_zero, Option.some.injEq] at hc
      subst hc
      simp only [List.modify_zero_cons, sameShapeL, Bool.and_eq_true]
      exact ⟨hf, sameShapeL_refl as⟩
    | succ i =>
      simp only [List.getElem?_cons_succ] at hc
      simp only [List.modify_succ_cons, sameShapeL, Bool.and_eq_true]
      exact ⟨sameShape_refl a, ih i hc⟩

theorem sameShape_set (p : Path) (t v nv : Val α) (hg : get p t = some v) (hsh : sameShape v nv = true) :
    sameShape t (set p t nv) = true := by
  induction p generalizing t with
  | nil =>
    simp only [CbModel.Heap.get, Option.some.injEq] at hg
    subst hg
    simpa [CbModel.Heap.set] using hsh
  | cons i p ih =>
    cases t with
    | leaf n => simp [CbModel.Heap.get] at hg
    | node cs =>
      simp only [CbModel.Heap.get] at hg
      cases hc : cs[i]? with
      | none => simp [hc] at hg
      | some c =>
        simp only [hc, Option.bind_some] at hg
        simp only [CbModel.Heap.set, sameShape]
        exact sameShapeL_modify cs i _ c hc (ih c hg)

theorem sameShapeL_getElem? (as bs : List (Val α)) (h : sameShapeL as bs = true) (i : Nat) :
    (as[i]? = none ∧ bs[i]? = none) ∨
      ∃ a b, as[i]? = some a ∧ bs[i]? = some b ∧ sameShape a b = true := by
  induction as generalizing bs i with
  | nil =>
    cases bs with
    | nil => simp
    | cons b bs => simp [sameShapeL] at h
  | cons a as ih =>
    cases bs with
    | nil => simp [sameShapeL] at h
    | cons b bs =>
      simp only [sameShapeL, Bool.and_eq_true] at h
      cases i with
      | zero => exact Or.inr ⟨a, b, by simp, by simp, h.1⟩
      | succ i => simpa using ih bs h.2 i

theorem sameShape_get_isSome (t u : Val α) (p : Path) (h : sameShape t u = true) :
    (get p t).isSome = (get p u).isSome := by
  induction p generalizing t u with
  | nil => simp [CbModel.Heap.get]
  | cons i p ih =>
    cases t with
    | leaf n =>
      cases u with
      | leaf m => simp [CbModel.Heap.get]
      | node bs => simp [sameShape] at h
    | node as =>
      cases u with
      | leaf m => simp [sameShape] at h
      | node bs =>
        simp only [sameShape] at h
        simp only [CbModel.Heap.get]
        rcases sameShapeL_getElem? as bs h i with ⟨ha, hb⟩ | ⟨a, b, ha, hb, hab⟩
        · simp [ha, hb]
        · simp only [ha, hb, Option.bind_some]
          exact ih a b hab

/-! ### states -/

theorem resolve_write (s : St α) (a b : Acc) (n : α) : resolve (write s a n) b = resolve s b := by
  cases b <;> (simp only [write]; cases resolve s a <;> simp [resolve])

theorem write_root (s : St α) (a : Acc) (p : Path) (n : α) (ha : resolve s a = some p) :
    (write s a n).root = set p s.root (.leaf n) := by
  simp [write, ha]

theorem read_write (s : St α) (a b : Acc) (p q : Path) (n : α)
    (ha : resolve s a = some p) (hb : resolve s b = some q) :
    read (write s a n) b = get q (set p s.root (.leaf n)) := by
  simp [CbModel.Heap.read, resolve_write, hb, write_root s a p n ha]

theorem read_eq_some (s : St α) (a : Acc) (v : Val α) (h : read s a = some v) :
    ∃ p, resolve s a = some p ∧ get p s.root = some v := by
  simp only [CbModel.Heap.read] at h
  cases hr : resolve s a with
  | none => simp [hr] at h
  | some p => exact ⟨p, rfl, by simpa [hr] using h⟩

end CbProofs.Heap
