import CbModel.Preproc
import CbModel.PreprocSpec
import CbModel.FlatIndex
import CbModel.Sexp
import CbModel.Ref.Syntax
import CbModel.Ref.Eval
import CbModel.Ref.Read
import CbModel.Ref.Print
