/-
  CbRef — reference semantics of the sequential core fragment: a fuel-indexed big-step evaluator
  written in a small state-and-result monad.  Every store goes through `storeChecked`; every
  output through `emit`; a callee runs in a fresh frame installed by `withFrame`.
  Core Lean only.
-/
import CbModel.Ref.Syntax
import CbModel.FlatIndex
namespace CbModel.Ref

/-! ## integer types -/

def Ty.range (t : Ty) : Int × Int :=
  match t.base, t.uns with
  | .tiny, false => (-128, 127)
  | .tiny, true => (0, 255)
  | .short, false => (-32768, 32767)
  | .short, true => (0, 65535)
  | .int, false => (-2147483648, 2147483647)
  | .int, true => (0, 4294967295)
  | .long, false => (-9223372036854775808, 9223372036854775807)
  | .long, true => (0, 9223372036854775807)
  | .char, false => (-128, 127)
  | .char, true => (0, 255)
  | .bool, _ => (0, 1)

def inI64 (v : Int) : Bool := -9223372036854775808 ≤ v && v ≤ 9223372036854775807

inductive ErrKind where
  | divzero | range | bounds | const | arity | other
  deriving Repr, BEq, DecidableEq

inductive Res (α : Type) where
  | ok (a : α)
  | err (k : ErrKind)       -- runtime error: the run ends with a non-zero status
  | undef                   -- outside the documented fragment (overflow, unknown name, …)
  | oof                     -- out of fuel
  | brk | cont
  | ret (v : Int)
  deriving Repr

/-- the single store primitive: range check; a negative value stored to an unsigned target
    clamps to 0 -/
def storeChecked (t : Ty) (v : Int) : Res Int :=
  match t.base with
  | .bool => if v = 0 ∨ v = 1 then .ok v else .undef       -- only 0/1 are in the fragment
  | _ =>
    if t.uns = true ∧ v < 0 then .ok 0
    else if t.range.1 ≤ v ∧ v ≤ t.range.2 then .ok v
    else .err .range

/-! ## store -/

inductive Cell where
  | int (ty : Ty) (v : Int) (const : Bool)
  | arr (ty : Ty) (dims : List Nat) (cells : List Int) (const : Bool)
  deriving Repr, Inhabited

inductive Val where
  | cell (c : Cell)
  | struct (sname : String) (fields : List (String × Cell))
  deriving Repr, Inhabited

abbrev Frame := List (String × Val)

structure St where
  globals : Frame
  frame : Frame
  statics : Frame            -- key "function::name"
  fname : String
  out : List String          -- emitted chunks, oldest first
  deriving Repr, Inhabited

def M (α : Type) := St → Res α × St

@[inline] def M.pure (a : α) : M α := fun s => (.ok a, s)

@[inline] def M.bind (m : M α) (f : α → M β) : M β := fun s =>
  match m s with
  | (.ok a, s') => f a s'
  | (.err k, s') => (.err k, s')
  | (.undef, s') => (.undef, s')
  | (.oof, s') => (.oof, s')
  | (.brk, s') => (.brk, s')
  | (.cont, s') => (.cont, s')
  | (.ret v, s') => (.ret v, s')

instance : Monad M where
  pure := M.pure
  bind := M.bind

/-- run `m`, then continue with a handler that sees the whole result (used for loops and calls) -/
@[inline] def catchM (m : M α) (h : Res α → M β) : M β := fun s =>
  match m s with
  | (r, s') => h r s'

def fail (k : ErrKind) : M α := fun s => (.err k, s)
def undefM : M α := fun s => (.undef, s)
def oofM : M α := fun s => (.oof, s)
def liftRes (r : Res α) : M α := fun s => (r, s)
def getSt : M St := fun s => (.ok s, s)

/-- output primitive -/
def emit (str : String) : M Unit := fun s => (.ok (), { s with out := s.out ++ [str] })

def Frame.find (f : Frame) (x : String) : Option Val :=
  match f with
  | [] => none
  | (k, v) :: r => if k == x then some v else Frame.find r x

def Frame.set (f : Frame) (x : String) (v : Val) : Frame :=
  match f with
  | [] => []
  | (k, w) :: r => if k == x then (k, v) :: r else (k, w) :: Frame.set r x v

def Frame.declare (f : Frame) (x : String) (v : Val) : Frame :=
  if (f.find x).isSome then f.set x v else f ++ [(x, v)]

def staticKey (fn x : String) : String := fn ++ "::" ++ x

/-- name resolution: own frame, then own statics, then globals -/
def getVar (x : String) : M Val := fun s =>
  match s.frame.find x with
  | some v => (.ok v, s)
  | none =>
    match s.statics.find (staticKey s.fname x) with
    | some v => (.ok v, s)
    | none =>
      match s.globals.find x with
      | some v => (.ok v, s)
      | none => (.err .other, s)     -- "Undefined variable": a name that is not in scope is rejected

/-- replace the value of an existing variable (same resolution order) -/
def putVar (x : String) (v : Val) : M Unit := fun s =>
  if (s.frame.find x).isSome then (.ok (), { s with frame := s.frame.set x v })
  else if (s.statics.find (staticKey s.fname x)).isSome then
    (.ok (), { s with statics := s.statics.set (staticKey s.fname x) v })
  else if (s.globals.find x).isSome then (.ok (), { s with globals := s.globals.set x v })
  else (.undef, s)

def declareLocal (x : String) (v : Val) : M Unit := fun s =>
  (.ok (), { s with frame := s.frame.declare x v })

def declareStatic (x : String) (v : Val) : M Unit := fun s =>
  (.ok (), { s with statics := s.statics ++ [(staticKey s.fname x, v)] })

def hasStatic (x : String) : M Bool := fun s =>
  (.ok (s.statics.find (staticKey s.fname x)).isSome, s)

/-- run `m` in a fresh frame for function `fn`; the caller's frame is put back afterwards,
    whatever `m` did -/
def withFrame (fn : String) (fr : Frame) (m : M α) : M α := fun s =>
  let (r, s') := m { s with frame := fr, fname := fn }
  (r, { s' with frame := s.frame, fname := s.fname })

/-! ## pure arithmetic (exact, with the int64 definedness check) -/

def b2i (b : Bool) : Int := if b then 1 else 0

def checkI64 (v : Int) : Res Int := if inI64 v then .ok v else .undef

def evalBin (op : BinOp) (a b : Int) : Res Int :=
  match op with
  | .add => checkI64 (a + b)
  | .sub => checkI64 (a - b)
  | .mul => checkI64 (a * b)
  | .div => if b == 0 then .err .divzero else checkI64 (Int.tdiv a b)
  | .mod => if b == 0 then .err .divzero else if b == -1 then .ok 0 else checkI64 (Int.tmod a b)
  | .shl => if b < 0 || b ≥ 64 then .undef else checkI64 (a * 2 ^ b.toNat)
  | .shr => if b < 0 || b ≥ 64 then .undef else .ok (a / 2 ^ b.toNat)      -- floor: arithmetic shift
  | .band => .ok ((BitVec.ofInt 64 a &&& BitVec.ofInt 64 b).toInt)
  | .bor => .ok ((BitVec.ofInt 64 a ||| BitVec.ofInt 64 b).toInt)
  | .bxor => .ok ((BitVec.ofInt 64 a ^^^ BitVec.ofInt 64 b).toInt)
  | .lt => .ok (b2i (a < b))
  | .le => .ok (b2i (a ≤ b))
  | .gt => .ok (b2i (a > b))
  | .ge => .ok (b2i (a ≥ b))
  | .eq => .ok (b2i (a == b))
  | .ne => .ok (b2i (a != b))
  | .land => .ok (b2i (a != 0 && b != 0))
  | .lor => .ok (b2i (a != 0 || b != 0))

def evalUn (op : UnOp) (a : Int) : Res Int :=
  match op with
  | .neg => checkI64 (-a)
  | .not => .ok (b2i (a == 0))
  | .bnot => .ok (-a - 1)

/-! ## cells -/

def Cell.ty : Cell → Ty
  | .int t _ _ => t
  | .arr t _ _ _ => t

def Cell.isConst : Cell → Bool
  | .int _ _ c => c
  | .arr _ _ _ c => c

def defaultCell (t : Ty) (dims : List Nat) (const : Bool) : Cell :=
  match dims with
  | [] => .int t 0 const
  | _ => .arr t dims (List.replicate (dims.foldl (· * ·) 1) 0) const

/-- read a scalar / an element -/
def readCell (c : Cell) (idxs : List Int) : Res Int :=
  match c, idxs with
  | .int _ v _, [] => .ok v
  | .arr _ dims cells _, _ :: _ =>
    match FlatIndex.arrayGet dims cells idxs with
    | some v => .ok v
    | none => .err .bounds
  | _, _ => .undef

/-- write a scalar / an element: const check, bounds check, range check, in that order of the
    specification (an out-of-bounds or out-of-range store changes nothing) -/
def writeCell (c : Cell) (idxs : List Int) (v : Int) : Res Cell :=
  match c, idxs with
  | .int t _ const, [] =>
    if const then .err .const else
    match storeChecked t v with
    | .ok v' => .ok (.int t v' const)
    | .err k => .err k
    | _ => .undef
  | .arr t dims cells const, _ :: _ =>
    if const then .err .const else
    match FlatIndex.flatIndex dims idxs with
    | none => .err .bounds
    | some _ =>
      match storeChecked t v with
      | .ok v' =>
        match FlatIndex.arraySet dims cells idxs v' with
        | some cells' => .ok (.arr t dims cells' const)
        | none => .err .bounds
      | .err k => .err k
      | _ => .undef
  | _, _ => .undef

def fieldFind (fs : List (String × Cell)) (f : String) : Option Cell :=
  match fs with
  | [] => none
  | (k, c) :: r => if k == f then some c else fieldFind r f

def fieldSet (fs : List (String × Cell)) (f : String) (c : Cell) : List (String × Cell) :=
  match fs with
  | [] => []
  | (k, w) :: r => if k == f then (k, c) :: r else (k, w) :: fieldSet r f c

/-- a resolved lvalue: variable, optional field, evaluated indices -/
structure LRef where
  x : String
  f : Option String
  idxs : List Int
  deriving Repr

def readRef (r : LRef) : M Int := do
  let v ← getVar r.x
  match v, r.f with
  | .cell c, none => liftRes (readCell c r.idxs)
  | .struct _ fs, some f =>
    match fieldFind fs f with
    | some c => liftRes (readCell c r.idxs)
    | none => undefM
  | _, _ => undefM

/-- the new value of a variable after storing `n` at (field, indices) -/
def writeVal (v : Val) (f : Option String) (idxs : List Int) (n : Int) : Res Val :=
  match v, f with
  | .cell c, none =>
    match writeCell c idxs n with
    | .ok c' => .ok (.cell c')
    | .err k => .err k
    | _ => .undef
  | .struct sn fs, some f =>
    match fieldFind fs f with
    | some c =>
      match writeCell c idxs n with
      | .ok c' => .ok (.struct sn (fieldSet fs f c'))
      | .err k => .err k
      | _ => .undef
    | none => .undef
  | _, _ => .undef

def writeRef (r : LRef) (n : Int) : M Unit := do
  let v ← getVar r.x
  let v' ← liftRes (writeVal v r.f r.idxs n)
  putVar r.x v'

/-! ## rendering -/

def renderInt (n : Int) : String := String.ofList (Render.renderDec n)

/-! ## the evaluator -/

def findFunc (p : Prog) (f : String) : Option Func := p.funcs.find? (fun fn => fn.name == f)
def findStruct (p : Prog) (s : String) : Option StructDef := p.structs.find? (fun sd => sd.name == s)

def structVal (sd : StructDef) : Val :=
  .struct sd.name (sd.fields.map fun fd => (fd.name, defaultCell fd.ty fd.dims false))

def isShortCircuit : BinOp → Bool
  | .land => true
  | .lor => true
  | _ => false

/-- bind arguments to parameters positionally; omitted trailing parameters take their defaults -/
def bindParams : List Param → List Int → Res Frame
  | [], [] => .ok []
  | [], _ :: _ => .err .arity
  | p :: ps, [] =>
    match p.dflt with
    | some d =>
      match storeChecked p.ty d, bindParams ps [] with
      | .ok v, .ok fr => .ok ((p.name, .cell (.int p.ty v p.const)) :: fr)
      | .err k, _ => .err k
      | _, .err k => .err k
      | _, _ => .undef
    | none => .err .arity
  | p :: ps, a :: as =>
    match storeChecked p.ty a, bindParams ps as with
    | .ok v, .ok fr => .ok ((p.name, .cell (.int p.ty v p.const)) :: fr)
    | .err k, _ => .err k
    | _, .err k => .err k
    | _, _ => .undef

/-! ## declaration and call primitives (every store goes through `storeChecked`) -/

def storeAllR (ty : Ty) : List Int → Res (List Int)
  | [] => .ok []
  | v :: vs =>
    match storeChecked ty v, storeAllR ty vs with
    | .ok v', .ok r => .ok (v' :: r)
    | .err k, _ => .err k
    | _, .err k => .err k
    | _, _ => .undef

def declInt (static const : Bool) (ty : Ty) (x : String) (v : Int) : M Unit := do
  let v' ← liftRes (storeChecked ty v)
  if static then declareStatic x (.cell (.int ty v' const))
  else declareLocal x (.cell (.int ty v' const))

def declArrInit (const : Bool) (ty : Ty) (x : String) (dims : List Nat) (vs : List Int) : M Unit :=
  if vs.length != dims.foldl (· * ·) 1 then undefM else do
    let vs' ← liftRes (storeAllR ty vs)
    declareLocal x (.cell (.arr ty dims vs' const))

def declDefault (const : Bool) (ty : Ty) (x : String) (dims : List Nat) : M Unit :=
  declareLocal x (.cell (defaultCell ty dims const))

def declStructVar (sd : StructDef) (x : String) : M Unit := declareLocal x (structVal sd)

/-- fields of a struct initialised in order from `vs` (scalar fields take the next value, array fields
    and fields without a value start at zero); every value goes through `storeChecked` -/
def initFields (const : Bool) : List FieldDef → List Int → Res (List (String × Cell))
  | [], _ => .ok []
  | fd :: fds, vs =>
    match fd.dims, vs with
    | [], v :: vs' =>
      match storeChecked fd.ty v, initFields const fds vs' with
      | .ok v', .ok r => .ok ((fd.name, .int fd.ty v' const) :: r)
      | .err k, _ => .err k
      | _, .err k => .err k
      | _, _ => .undef
    | _, _ =>
      match initFields const fds vs with
      | .ok r => .ok ((fd.name, defaultCell fd.ty fd.dims const) :: r)
      | .err k => .err k
      | _ => .undef

def declStructInitVar (const : Bool) (sd : StructDef) (x : String) (vs : List Int) : M Unit := do
  let fs ← liftRes (initFields const sd.fields vs)
  declareLocal x (.struct sd.name fs)

/-- enter a call: positional binding into a fresh frame, then run the body there -/
def enterCall (fn : Func) (args : List Int) (m : M α) : M α := do
  let fr ← liftRes (bindParams fn.params args)
  withFrame fn.name fr m

mutual

def evalE (p : Prog) : Nat → Expr → M Int
  | 0, _ => oofM
  | fuel + 1, e =>
    match e with
    | .lit n => pure n
    | .paren e => evalE p fuel e
    | .var x => readRef ⟨x, none, []⟩
    | .idx x is => do
        let iv ← evalEs p fuel is
        readRef ⟨x, none, iv⟩
    | .fld x f => readRef ⟨x, some f, []⟩
    | .fldIdx x f is => do
        let iv ← evalEs p fuel is
        readRef ⟨x, some f, iv⟩
    | .bin op a b =>
        if op == .land then do
          let av ← evalE p fuel a
          if av == 0 then pure 0 else do
            let bv ← evalE p fuel b
            pure (b2i (bv != 0))
        else if op == .lor then do
          let av ← evalE p fuel a
          if av != 0 then pure 1 else do
            let bv ← evalE p fuel b
            pure (b2i (bv != 0))
        else do
          let av ← evalE p fuel a
          let bv ← evalE p fuel b
          liftRes (evalBin op av bv)
    | .un op a => do
        let av ← evalE p fuel a
        liftRes (evalUn op av)
    | .tern c a b => do
        let cv ← evalE p fuel c
        if cv != 0 then evalE p fuel a else evalE p fuel b
    | .call f args =>
        match findFunc p f with
        | none => undefM
        | some fn => do
          let avs ← evalArgs p fuel (fn.params.map (·.ty)) args
          callF p fuel f avs
    | .incdec pre inc lv => do
        let r ← evalLV p fuel lv
        let old ← readRef r
        let new ← liftRes (checkI64 (if inc then old + 1 else old - 1))
        writeRef r new
        pure (if pre then new else old)

def evalEs (p : Prog) : Nat → List Expr → M (List Int)
  | 0, _ => oofM
  | _ + 1, [] => pure []
  | fuel + 1, e :: es => do
      let v ← evalE p fuel e
      let vs ← evalEs p fuel es
      pure (v :: vs)

/-- call arguments: each is evaluated and converted to its parameter's type before the next one is
    evaluated (left to right, once each) -/
def evalArgs (p : Prog) : Nat → List Ty → List Expr → M (List Int)
  | 0, _, _ => oofM
  | _ + 1, _, [] => pure []
  | fuel + 1, [], e :: es => do
      let v ← evalE p fuel e
      let vs ← evalArgs p fuel [] es
      pure (v :: vs)
  | fuel + 1, t :: ts, e :: es => do
      let v ← evalE p fuel e
      let v' ← liftRes (storeChecked t v)
      let vs ← evalArgs p fuel ts es
      pure (v' :: vs)

/-- resolve an lvalue expression, evaluating its index expressions left to right -/
def evalLV (p : Prog) : Nat → Expr → M LRef
  | 0, _ => oofM
  | fuel + 1, e =>
    match e with
    | .var x => pure ⟨x, none, []⟩
    | .idx x is => do
        let iv ← evalEs p fuel is
        pure ⟨x, none, iv⟩
    | .fld x f => pure ⟨x, some f, []⟩
    | .fldIdx x f is => do
        let iv ← evalEs p fuel is
        pure ⟨x, some f, iv⟩
    | .paren e => evalLV p fuel e
    | _ => undefM

/-- call: fresh frame, positional binding, result converted to the declared return type -/
def callF (p : Prog) : Nat → String → List Int → M Int
  | 0, _, _ => oofM
  | fuel + 1, f, args =>
    match findFunc p f with
    | none => undefM
    | some fn =>
      catchM (enterCall fn args (execSs p fuel fn.body)) fun r =>
        match r with
        | .ok () => pure 0
        | .ret v =>
          match fn.ret with
          | none => pure 0
          | some t => liftRes (storeChecked t v)
        | .brk => undefM
        | .cont => undefM
        | .err k => fail k
        | .undef => undefM
        | .oof => oofM

def execS (p : Prog) : Nat → Stmt → M Unit
  | 0, _ => oofM
  | fuel + 1, st =>
    match st with
    | .decl const static ty x init =>
        if static then do
          let have_ ← hasStatic x
          if have_ then pure () else do
            let v ← (match init with
              | some e => evalE p fuel e
              | none => pure 0)
            declInt true const ty x v
        else do
          let v ← (match init with
            | some e => evalE p fuel e
            | none => pure 0)
          declInt false const ty x v
    | .declArr const ty x dims init =>
        match init with
        | none => declDefault const ty x dims
        | some es => do
          let vs ← evalEs p fuel es
          declArrInit const ty x dims vs
    | .declStruct sn x =>
        match findStruct p sn with
        | some sd => declStructVar sd x
        | none => undefM
    | .declStructInit const sn x inits =>
        match findStruct p sn with
        | some sd => do
          let vs ← evalEs p fuel inits
          declStructInitVar const sd x vs
        | none => undefM
    | .assign lv e => do
        -- operands left to right: the target's index expressions, then the right-hand side
        let r ← evalLV p fuel lv
        let v ← evalE p fuel e
        writeRef r v
    | .compound op lv e => do
        let r ← evalLV p fuel lv
        let v ← evalE p fuel e
        let old ← readRef r
        let nv ← liftRes (evalBin op old v)
        writeRef r nv
    | .expr e => do
        let _ ← evalE p fuel e
        pure ()
    | .print items => do
        -- println evaluates and writes its arguments one at a time, left to right
        printSeq p fuel true items
        emit "\n"
    | .printI parts => do
        let args ← printItems p fuel parts
        emit (String.ofList (args.flatMap Render.PArg.plain) ++ "\n")
    | .printF fmt args => do
        let vals ← printItems p fuel args
        emit (String.ofList (Render.printf fmt.toList vals) ++ "\n")
    | .printRaw items => printSeq p fuel true items
    | .ifS c t e => do
        let cv ← evalE p fuel c
        if cv != 0 then execSs p fuel t
        else match e with
          | some es => execSs p fuel es
          | none => pure ()
    | .whileS c body => loop p fuel c none body
    | .forS init c upd body => do
        match init with
        | some i => execS p fuel i
        | none => pure ()
        loop p fuel c upd body
    | .brk => liftRes .brk
    | .cont => liftRes .cont
    | .ret e =>
        match e with
        | some e => do
          let v ← evalE p fuel e
          liftRes (.ret v)
        | none => liftRes (.ret 0)
    | .block ss => execSs p fuel ss

def execSs (p : Prog) : Nat → List Stmt → M Unit
  | 0, _ => oofM
  | _ + 1, [] => pure ()
  | fuel + 1, s :: ss => do
      execS p fuel s
      execSs p fuel ss

/-- `while (c) body` / the iteration part of `for`: `continue` still runs the update -/
def loop (p : Prog) : Nat → Expr → Option Stmt → List Stmt → M Unit
  | 0, _, _, _ => oofM
  | fuel + 1, c, upd, body => do
      let cv ← evalE p fuel c
      if cv == 0 then pure () else
        catchM (execSs p fuel body) fun r =>
          match r with
          | .ok () => afterBody p fuel c upd body
          | .cont => afterBody p fuel c upd body
          | .brk => pure ()
          | .err k => fail k
          | .undef => undefM
          | .oof => oofM
          | .ret v => liftRes (.ret v)

def afterBody (p : Prog) : Nat → Expr → Option Stmt → List Stmt → M Unit
  | 0, _, _, _ => oofM
  | fuel + 1, c, upd, body => do
      match upd with
      | some u => execS p fuel u
      | none => pure ()
      loop p fuel c upd body

def printSeq (p : Prog) : Nat → Bool → List PItem → M Unit
  | 0, _, _ => oofM
  | _ + 1, _, [] => pure ()
  | fuel + 1, first, it :: r => do
      if first then pure () else emit " "
      match it with
      | .str s => emit s
      | .expr e => do
        let v ← evalE p fuel e
        emit (renderInt v)
      | .exprF e sp => do
        let v ← evalE p fuel e
        emit (String.ofList (Render.renderISpec sp v))
      printSeq p fuel false r

def printItems (p : Prog) : Nat → List PItem → M (List Render.PArg)
  | 0, _ => oofM
  | _ + 1, [] => pure []
  | fuel + 1, it :: r => do
      let a ← (match it with
        | .str s => pure (Render.PArg.str s.toList)
        | .expr e => do
          let v ← evalE p fuel e
          pure (Render.PArg.int v)
        | .exprF e sp => do
          let v ← evalE p fuel e
          pure (Render.PArg.str (Render.renderISpec sp v)))
      let rest ← printItems p fuel r
      pure (a :: rest)

end

/-! ## whole programs -/

def initSt : St := ⟨[], [], [], "", []⟩

inductive Outcome where
  | exit0 | exit1 (k : ErrKind) | undef | oof
  deriving Repr, BEq

/-- globals are initialised in an empty frame which then becomes the global table; then `main` -/
def runProg (p : Prog) (fuel : Nat) : Outcome × List String :=
  match execSs p fuel p.globals initSt with
  | (.ok (), s) =>
    let s1 : St := { s with globals := s.frame, frame := [] }
    match callF p fuel "main" [] s1 with
    | (.ok _, s2) => (.exit0, s2.out)
    | (.err k, s2) => (.exit1 k, s2.out)
    | (.oof, s2) => (.oof, s2.out)
    | (_, s2) => (.undef, s2.out)
  | (.err k, s) => (.exit1 k, s.out)
  | (.oof, s) => (.oof, s.out)
  | (_, s) => (.undef, s.out)

end CbModel.Ref
