/-
  C07 — value semantics of structs and arrays, aliasing through pointers / references / self.
  Specification-level model: the program's objects form one tree of values (the root's children are the
  variables; a struct or array is a node, a scalar a leaf).  An access path either names a cell directly or goes
  through a pointer (reference parameters, array parameters and `self` are pointers whose target is the argument /
  receiver).  Copying replaces a subtree by (a copy of) another; since values are immutable trees, the copy is
  independent by construction — the theorems in CbProps/C07.lean state that.  Core Lean only.
-/
namespace CbModel.Heap

/-- a value tree over an arbitrary type `α` of scalar leaves (integers, strings, doubles, booleans, …) -/
inductive Val (α : Type) where
  | leaf (a : α)
  | node (cs : List (Val α))
  deriving Repr, Inhabited

variable {α : Type}

abbrev Path := List Nat

/-- the subtree at a path; `none` when the path leaves the tree -/
def get : Path → Val α → Option (Val α)
  | [], v => some v
  | i :: p, .node cs => (cs[i]?).bind (get p)
  | _ :: _, .leaf _ => none

/-- replace the subtree at a path (no effect when the path leaves the tree) -/
def set : Path → Val α → Val α → Val α
  | [], _, nv => nv
  | i :: p, .node cs, nv => .node (cs.modify i (fun c => set p c nv))
  | _ :: _, .leaf n, _ => .leaf n

mutual
/-- all scalars of a value, left to right -/
def flatten : Val α → List α
  | .leaf n => [n]
  | .node cs => flattenL cs
def flattenL : List (Val α) → List α
  | [] => []
  | c :: cs => flatten c ++ flattenL cs
end

mutual
/-- same tree shape (struct / array layout), scalars may differ -/
def sameShape : Val α → Val α → Bool
  | .leaf _, .leaf _ => true
  | .node as, .node bs => sameShapeL as bs
  | _, _ => false
def sameShapeL : List (Val α) → List (Val α) → Bool
  | [], [] => true
  | a :: as, b :: bs => sameShape a b && sameShapeL as bs
  | _, _ => false
end

/-- neither path is a prefix of the other: the two cells do not overlap -/
def Disjoint : Path → Path → Prop
  | [], _ => False
  | _, [] => False
  | i :: p, j :: q => i ≠ j ∨ Disjoint p q

structure St (α : Type) where
  root : Val α
  ptrs : List Path          -- pointer k points to the cell at ptrs[k]
  deriving Repr, Inhabited

/-- an access path as written in the program -/
inductive Acc where
  | direct (p : Path)               -- o1.in.a, ar1[2], oa[1].x
  | via (k : Nat) (sub : Path)      -- p->x, *q, r.x (reference parameter), self.x, a[i] (array parameter)
  deriving Repr, Inhabited

def resolve (s : St α) : Acc → Option Path
  | .direct p => some p
  | .via k sub => (s.ptrs[k]?).map (· ++ sub)

def read (s : St α) (a : Acc) : Option (Val α) := (resolve s a).bind (fun p => get p s.root)

/-- a store of a scalar through an access path -/
def write (s : St α) (a : Acc) (v : α) : St α :=
  match resolve s a with
  | some p => { s with root := set p s.root (.leaf v) }
  | none => s

/-- `dst = src` for structs / arrays (also parameter passing by value and return: the destination is the
    parameter / the assigned variable) -/
def copy (s : St α) (dst src : Acc) : St α :=
  match resolve s dst, read s src with
  | some p, some v => { s with root := set p s.root v }
  | _, _ => s

/-- in-place update `x = f x` of a scalar through an access path: reads the leaf at `a` and writes `f` of it
    (no effect when `a` does not resolve to a leaf) -/
def modify (s : St α) (a : Acc) (f : α → α) : St α :=
  match read s a with
  | some (.leaf m) => write s a (f m)
  | _ => s

/-- `x = x + n` through an access path (a method that updates a member of self and returns it): the integer
    instance of `modify` -/
def addTo (s : St Int) (a : Acc) (n : Int) : St Int := modify s a (· + n)

/-- `p = &x` -/
def reseat (s : St α) (k : Nat) (a : Acc) : St α :=
  match resolve s a with
  | some p => { s with ptrs := s.ptrs.set k p }
  | none => s

inductive Op (α : Type) where
  | write (a : Acc) (v : α)
  | copy (dst src : Acc)
  | reseat (k : Nat) (a : Acc)
  | upd (a : Acc) (f : α → α)    -- in-place update `x = f x` (for integers `x = x + n` is `upd a (· + n)`)
  | nop                          -- a by-value call: the callee works on its own copy

instance : Inhabited (Op α) := ⟨.nop⟩

def step (s : St α) : Op α → St α
  | .write a v => write s a v
  | .copy d c => copy s d c
  | .reseat k a => reseat s k a
  | .upd a f => modify s a f
  | .nop => s

end CbModel.Heap
