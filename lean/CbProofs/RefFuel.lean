/-
  Fuel monotonicity of the CbRef evaluator: a run that does not run out of fuel gives the same
  result and the same final state with any larger fuel.
-/
import CbModel.Ref.Eval
namespace CbProofs.RefFuel
open CbModel.Ref

/-- `y` (the computation at the larger fuel) agrees with `x` (at the smaller fuel) wherever `x` does
    not run out of fuel -/
def Mono (x y : M α) : Prop := ∀ s, (x s).1 ≠ .oof → y s = x s

/-- the explicit reading of `Mono` -/
theorem Mono.elim {x y : M α} (h : Mono x y) {s s' : St} {r : Res α}
    (hx : x s = (r, s')) (hr : r ≠ .oof) : y s = (r, s') := by
  have := h s (by rw [hx]; exact hr)
  rw [this, hx]

theorem mono_refl (x : M α) : Mono x x := fun _ _ => rfl

theorem mono_trans {x y z : M α} (h1 : Mono x y) (h2 : Mono y z) : Mono x z := by
  intro s hs
  have e1 := h1 s hs
  have e2 := h2 s (by rw [e1]; exact hs)
  rw [e2, e1]

theorem mono_oof (y : M α) : Mono (oofM : M α) y := by
  intro s hs; exact absurd rfl hs

theorem mono_bind {x y : M α} {f g : α → M β} (hx : Mono x y) (hf : ∀ a, Mono (f a) (g a)) :
    Mono (x >>= f) (y >>= g) := by
  intro s hs
  have h1 := hx s
  change (M.bind x f s).1 ≠ .oof at hs
  show M.bind y g s = M.bind x f s
  unfold M.bind at hs ⊢
  cases hxs : x s with
  | mk r s' =>
    rw [hxs] at hs h1
    cases r with
    | oof => exact absurd rfl hs
    | ok a => rw [h1 (by simp)]; exact hf a s' hs
    | err k => rw [h1 (by simp)]
    | undef => rw [h1 (by simp)]
    | brk => rw [h1 (by simp)]
    | cont => rw [h1 (by simp)]
    | ret v => rw [h1 (by simp)]

theorem mono_catch {x y : M α} {h h' : Res α → M β} (hx : Mono x y) (hh : ∀ r, Mono (h r) (h' r))
    (hoof : ∀ s, (h .oof s).1 = .oof) : Mono (catchM x h) (catchM y h') := by
  intro s hs
  have h1 := hx s
  unfold catchM at hs ⊢
  cases hxs : x s with
  | mk r s' =>
    rw [hxs] at hs h1
    have hr : r ≠ .oof := by
      intro e; subst e; exact hs (hoof s')
    rw [h1 hr]
    exact hh r s' hs

theorem mono_withFrame (fn : String) (fr : Frame) {x y : M α} (hx : Mono x y) :
    Mono (withFrame fn fr x) (withFrame fn fr y) := by
  intro s hs
  unfold withFrame at hs ⊢
  have h1 := hx { s with frame := fr, fname := fn }
  cases hxs : x { s with frame := fr, fname := fn } with
  | mk r s' =>
    rw [hxs] at hs h1
    rw [h1 hs]

theorem mono_enterCall (fn : Func) (args : List Int) {x y : M α} (hx : Mono x y) :
    Mono (enterCall fn args x) (enterCall fn args y) := by
  unfold enterCall
  exact mono_bind (mono_refl _) (fun _ => mono_withFrame _ _ hx)

theorem mono_ite {c : Prop} [Decidable c] {a a' b b' : M α} (ha : Mono a a') (hb : Mono b b') :
    Mono (if c then a else b) (if c then a' else b') := by
  split
  · exact ha
  · exact hb

/-- the eleven mutually recursive evaluator functions: one more unit of fuel changes nothing for
    a run that did not run out -/
structure AllMono (p : Prog) (n : Nat) : Prop where
  evalE : ∀ e, Mono (evalE p n e) (evalE p (n + 1) e)
  evalEs : ∀ es, Mono (evalEs p n es) (evalEs p (n + 1) es)
  evalArgs : ∀ ts es, Mono (evalArgs p n ts es) (evalArgs p (n + 1) ts es)
  evalLV : ∀ e, Mono (evalLV p n e) (evalLV p (n + 1) e)
  callF : ∀ f args, Mono (callF p n f args) (callF p (n + 1) f args)
  execS : ∀ st, Mono (execS p n st) (execS p (n + 1) st)
  execSs : ∀ ss, Mono (execSs p n ss) (execSs p (n + 1) ss)
  loop : ∀ c u b, Mono (loop p n c u b) (loop p (n + 1) c u b)
  afterBody : ∀ c u b, Mono (afterBody p n c u b) (afterBody p (n + 1) c u b)
  printSeq : ∀ f items, Mono (printSeq p n f items) (printSeq p (n + 1) f items)
  printItems : ∀ items, Mono (printItems p n items) (printItems p (n + 1) items)

theorem allMono_zero (p : Prog) : AllMono p 0 := by
  constructor <;> intros <;> first
    | (conv => lhs; unfold evalE) ; exact mono_oof _
    | (conv => lhs; unfold evalEs) ; exact mono_oof _
    | (conv => lhs; unfold evalArgs) ; exact mono_oof _
    | (conv => lhs; unfold evalLV) ; exact mono_oof _
    | (conv => lhs; unfold callF) ; exact mono_oof _
    | (conv => lhs; unfold execS) ; exact mono_oof _
    | (conv => lhs; unfold execSs) ; exact mono_oof _
    | (conv => lhs; unfold loop) ; exact mono_oof _
    | (conv => lhs; unfold afterBody) ; exact mono_oof _
    | (conv => lhs; unfold printSeq) ; exact mono_oof _
    | (conv => lhs; unfold printItems) ; exact mono_oof _

/-- one proof step: peel a bind / a branch / a handler on both sides at once -/
macro "mono_step" : tactic => `(tactic| first
  | with_reducible exact mono_refl _
  | refine mono_enterCall _ _ ?_
  | refine mono_bind ?_ (fun _ => ?_)
  | refine mono_ite ?_ ?_
  | refine mono_catch ?_ (fun _ => ?_) (fun _ => rfl)
  | split)

theorem allMono_succ (p : Prog) (n : Nat) (ih : AllMono p n) : AllMono p (n + 1) := by
  have hE := ih.evalE
  have hEs := ih.evalEs
  have hAr := ih.evalArgs
  have hLV := ih.evalLV
  have hC := ih.callF
  have hS := ih.execS
  have hSs := ih.execSs
  have hL := ih.loop
  have hA := ih.afterBody
  have hP := ih.printSeq
  have hPI := ih.printItems
  constructor
  · intro e
    conv => lhs; unfold evalE
    conv => rhs; unfold evalE
    cases e <;> simp only <;> repeat (first
      | exact hE _ | exact hEs _ | exact hAr _ _ | exact hLV _ | exact hC _ _ | mono_step)
  · intro es
    conv => lhs; unfold evalEs
    conv => rhs; unfold evalEs
    cases es <;> simp only <;> repeat (first | exact hE _ | exact hEs _ | mono_step)
  · intro ts es
    conv => lhs; unfold evalArgs
    conv => rhs; unfold evalArgs
    cases es <;> cases ts <;> simp only <;> repeat (first | exact hE _ | exact hAr _ _ | mono_step)
  · intro e
    conv => lhs; unfold evalLV
    conv => rhs; unfold evalLV
    cases e <;> simp only <;> repeat (first | exact hEs _ | exact hLV _ | mono_step)
  · intro f args
    conv => lhs; unfold callF
    conv => rhs; unfold callF
    repeat (first | exact hSs _ | mono_step)
  · intro st
    conv => lhs; unfold execS
    conv => rhs; unfold execS
    cases st <;> simp only <;> repeat (first
      | exact hE _ | exact hEs _ | exact hLV _ | exact hS _ | exact hSs _ | exact hL _ _ _ | exact hP _ _
      | exact hPI _ | mono_step)
  · intro ss
    conv => lhs; unfold execSs
    conv => rhs; unfold execSs
    cases ss <;> simp only <;> repeat (first | exact hS _ | exact hSs _ | mono_step)
  · intro c u b
    conv => lhs; unfold loop
    conv => rhs; unfold loop
    repeat (first | exact hE _ | exact hSs _ | exact hA _ _ _ | mono_step)
  · intro c u b
    conv => lhs; unfold afterBody
    conv => rhs; unfold afterBody
    repeat (first | exact hS _ | exact hL _ _ _ | mono_step)
  · intro f items
    conv => lhs; unfold printSeq
    conv => rhs; unfold printSeq
    cases items <;> simp only <;> repeat (first | exact hE _ | exact hP _ _ | mono_step)
  · intro items
    conv => lhs; unfold printItems
    conv => rhs; unfold printItems
    cases items <;> simp only <;> repeat (first | exact hE _ | exact hPI _ | mono_step)

/-- **Fuel monotonicity, one step**: for every program and every fuel -/
theorem allMono (p : Prog) : ∀ n, AllMono p n
  | 0 => allMono_zero p
  | n + 1 => allMono_succ p n (allMono p n)

/-- the eleven functions between two fuels `n ≤ m` -/
structure AllMonoLe (p : Prog) (n m : Nat) : Prop where
  evalE : ∀ e, Mono (evalE p n e) (evalE p m e)
  evalEs : ∀ es, Mono (evalEs p n es) (evalEs p m es)
  evalArgs : ∀ ts es, Mono (evalArgs p n ts es) (evalArgs p m ts es)
  evalLV : ∀ e, Mono (evalLV p n e) (evalLV p m e)
  callF : ∀ f args, Mono (callF p n f args) (callF p m f args)
  execS : ∀ st, Mono (execS p n st) (execS p m st)
  execSs : ∀ ss, Mono (execSs p n ss) (execSs p m ss)
  loop : ∀ c u b, Mono (loop p n c u b) (loop p m c u b)
  afterBody : ∀ c u b, Mono (afterBody p n c u b) (afterBody p m c u b)
  printSeq : ∀ f items, Mono (printSeq p n f items) (printSeq p m f items)
  printItems : ∀ items, Mono (printItems p n items) (printItems p m items)

theorem allMonoLe_refl (p : Prog) (n : Nat) : AllMonoLe p n n := by
  constructor <;> intros <;> exact mono_refl _

theorem allMonoLe_step {p : Prog} {n m : Nat} (h : AllMonoLe p n m) (h1 : AllMono p m) :
    AllMonoLe p n (m + 1) where
  evalE e := mono_trans (h.evalE e) (h1.evalE e)
  evalEs es := mono_trans (h.evalEs es) (h1.evalEs es)
  evalArgs ts es := mono_trans (h.evalArgs ts es) (h1.evalArgs ts es)
  evalLV e := mono_trans (h.evalLV e) (h1.evalLV e)
  callF f args := mono_trans (h.callF f args) (h1.callF f args)
  execS st := mono_trans (h.execS st) (h1.execS st)
  execSs ss := mono_trans (h.execSs ss) (h1.execSs ss)
  loop c u b := mono_trans (h.loop c u b) (h1.loop c u b)
  afterBody c u b := mono_trans (h.afterBody c u b) (h1.afterBody c u b)
  printSeq f items := mono_trans (h.printSeq f items) (h1.printSeq f items)
  printItems items := mono_trans (h.printItems items) (h1.printItems items)

/-- **Fuel monotonicity**: for every program and all fuels `n ≤ m` -/
theorem allMonoLe (p : Prog) {n m : Nat} (h : n ≤ m) : AllMonoLe p n m := by
  induction h with
  | refl => exact allMonoLe_refl p n
  | step _ ih => exact allMonoLe_step ih (allMono p _)

/-- the explicit form, e.g. for expressions, calls and statement lists: same result and same final
    state at any larger fuel (the other eight functions: `((allMonoLe p h).field _).elim hx hr`) -/
theorem evalE_fuel_mono (p : Prog) {n m : Nat} (h : n ≤ m) {e : Expr} {s s' : St} {r : Res Int}
    (hx : evalE p n e s = (r, s')) (hr : r ≠ .oof) : evalE p m e s = (r, s') :=
  ((allMonoLe p h).evalE e).elim hx hr

theorem callF_fuel_mono (p : Prog) {n m : Nat} (h : n ≤ m) {f : String} {args : List Int}
    {s s' : St} {r : Res Int} (hx : callF p n f args s = (r, s')) (hr : r ≠ .oof) :
    callF p m f args s = (r, s') :=
  ((allMonoLe p h).callF f args).elim hx hr

theorem execSs_fuel_mono (p : Prog) {n m : Nat} (h : n ≤ m) {ss : List Stmt} {s s' : St}
    {r : Res Unit} (hx : execSs p n ss s = (r, s')) (hr : r ≠ .oof) : execSs p m ss s = (r, s') :=
  ((allMonoLe p h).execSs ss).elim hx hr

/-! ## whole programs -/

theorem runProg_fuel_mono (p : Prog) (n m : Nat) (h : n ≤ m) (hn : (runProg p n).1 ≠ .oof) :
    runProg p m = runProg p n := by
  have hle := allMonoLe p h
  have h1 := hle.execSs p.globals initSt
  unfold runProg at hn ⊢
  cases hx : execSs p n p.globals initSt with
  | mk r s =>
    rw [hx] at hn h1
    cases r with
    | oof => exact absurd rfl hn
    | ok u =>
      rw [h1 (by simp)]
      cases u
      simp only at hn ⊢
      have h2 := hle.callF "main" [] { s with globals := s.frame, frame := [] }
      cases hy : callF p n "main" [] { s with globals := s.frame, frame := [] } with
      | mk r2 s2 =>
        rw [hy] at hn h2
        cases r2 with
        | oof => exact absurd rfl hn
        | ok v => rw [h2 (by simp)]
        | err k => rw [h2 (by simp)]
        | undef => rw [h2 (by simp)]
        | brk => rw [h2 (by simp)]
        | cont => rw [h2 (by simp)]
        | ret v => rw [h2 (by simp)]
    | err k => rw [h1 (by simp)]
    | undef => rw [h1 (by simp)]
    | brk => rw [h1 (by simp)]
    | cont => rw [h1 (by simp)]
    | ret v => rw [h1 (by simp)]

theorem runProg_deterministic_in_fuel (p : Prog) (n m : Nat) (hn : (runProg p n).1 ≠ .oof)
    (hm : (runProg p m).1 ≠ .oof) : runProg p n = runProg p m := by
  cases Nat.le_total n m with
  | inl h => exact (runProg_fuel_mono p n m h hn).symm
  | inr h => exact runProg_fuel_mono p m n h hm

end CbProofs.RefFuel
