/* C20 second library: functions with the SAME NAMES as some of harness/echo.c but different results (and, for conv, a
   different signature), plus one function that exists only here.  A qualified call must reach the library it names. */
int i1(int a) { return a + 1000; }
double d1(double a) { return a * 2.0; }
int i2_0(int a, int b) { (void)a; return b + 7; }
int only2(int a) { return a * 3; }
int conv(int a) { return a * 7; }
static int seen2 = 0;
void vi(int a) { seen2 = a + 1; }
int getseen(void) { return seen2; }
