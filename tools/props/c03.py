"""C03 — operands evaluated once, left to right, with short-circuit && || ?:

Theorems: lean/CbProps/C03.lean (skipped operands have no effect; strict operators and argument
lists evaluate left to right, once; a guarded operand can only fail after its guard held).
Tie: programs whose operands are calls t(k, v) that print k; the printed order is the evaluation
order.  Model (cbdriver ref) vs the interpreter built from the working tree.
"""
import itertools
import common, gen_core
from props.refprops import RefCheck
from props.c01 import CONTEXTS, BIN

PID = "C03"
THEOREMS = {"CbProps.C03": ["CbProps.C03." + t for t in [
    "and_false_skips_rhs", "or_true_skips_rhs", "ternary_evaluates_one_branch", "operands_left_to_right_once",
    "args_left_to_right_once", "and_error_origin", "div_nonzero_no_divzero", "assign_target_before_rhs",
    "assign_rhs_after_target"]]}

T = "(func t int (params (int k) (int v)) ((print (s \"t\") (e (var k))) (ret (var v))))"
BOOM = "(func boom int (params (int z)) ((print (s \"boom\")) (ret (bin div (lit 1) (var z)))))"
G3 = "(func g3 int (params (int a) (int b) (int c)) ((print (s \"g3\") (e (var a)) (e (var b)) (e (var c))) (ret (bin add (var a) (bin add (var b) (var c))))))"


def t(k, v):
    return "(call t (lit %d) (lit %d))" % (k, v)


def prog(body, extra_funcs="", globs=""):
    return "(prog (structs) (globals%s) (funcs %s %s %s %s(func main int (params) (%s (print (s \"END\")) (ret (lit 0))))))" % (
        (" " + globs) if globs else "", T, BOOM, G3, extra_funcs + " " if extra_funcs else "", body)


def observe(e, contexts, gates):
    """statements observing expression e (effects included) in the given contexts"""
    b = []
    for c in contexts:
        if c == "init":
            b.append("(decl - long i1 %s) (print (s \"init\") (e (var i1)))" % e)
        elif c == "assign":
            b.append("(decl - long a1 (lit 0)) (assign (var a1) %s) (print (s \"assign\") (e (var a1)))" % e)
        elif c == "cond":
            b.append("(if %s ((print (s \"cond1\"))) ((print (s \"cond0\"))))" % e)
        elif c == "index":
            b.append("(declarr - long arr (dims 2) (init (lit 11) (lit 22))) (decl - long x1 (idx arr (bin band %s (lit 1)))) "
                     "(print (s \"index\") (e (var x1)))" % e)
        elif c == "arg":
            b.append("(decl - long g1 (call idl %s)) (print (s \"arg\") (e (var g1)))" % e)
        elif c == "ret":
            b.append("(decl - long r1 (call retf)) (print (s \"ret\") (e (var r1)))")
        elif c == "print":
            b.append("(print (s \"print\") (e %s))" % e)
        elif c == "interp":
            b.append("(printi (s \"interp \") (e %s) (s \";\"))" % e)
        elif c == "while":
            b.append("(decl - int wn (lit 0)) (while (bin land (bin lt (var wn) (lit 2)) %s) ((compound add (var wn) (lit 1)))) "
                     "(print (s \"while\") (e (var wn)))" % e)
    return " ".join(b)


def ctx_prog(e, contexts, gates):
    funcs = "(func idl long (params (long q)) ((ret (var q)))) (func retf long (params) ((ret %s)))" % e
    return prog(observe(e, contexts, gates), funcs)


ALLCTX = CONTEXTS + ["while"]


def exhaustive(gates, quick):
    vals = [0, 1, 3]
    # (a) every binary operator x truth values x contexts
    for op in BIN:
        for va in vals:
            for vb in vals:
                e = "(bin %s %s %s)" % (op, t(1, va), t(2, vb))
                if op in ("div", "mod") and vb == 0:
                    for c in ALLCTX:
                        if c in ("print", "interp") and "println_reeval" in gates:
                            continue   # println re-evaluates a failing argument (listed finding)
                        yield ctx_prog(e, [c], gates)
                else:
                    yield ctx_prog(e, ALLCTX, gates)
    # (b) ternary
    for c in (0, 1, 5):
        e = "(tern %s %s %s)" % (t(1, c), t(2, 5), t(3, 6))
        ctxs = [x for x in ALLCTX if not (x == "interp" and "interp_ternary" in gates)]
        yield ctx_prog(e, ctxs, gates)
    # (c) a skipped operand cannot fail
    for e in ["(bin land %s (call boom (lit 0)))" % t(1, 0), "(bin lor %s (call boom (lit 0)))" % t(1, 1),
              "(tern %s (lit 5) (call boom (lit 0)))" % t(1, 1), "(tern %s (call boom (lit 0)) (lit 6))" % t(1, 0),
              "(bin land %s (call boom (lit 0)))" % t(1, 1), "(bin lor %s (call boom (lit 0)))" % t(1, 0)]:
        for c in ALLCTX:
            if c == "interp" and "(tern" in e and "interp_ternary" in gates:
                continue
            if c in ("print", "interp") and "println_reeval" in gates:
                continue
            yield ctx_prog(e, [c], gates)
    # (d) nestings
    for a, b, c in itertools.product((0, 1), repeat=3):
        for e in ["(bin lor (bin land %s %s) %s)", "(bin land %s (bin lor %s %s))", "(bin land (bin land %s %s) %s)",
                  "(bin lor %s (bin lor %s %s))", "(bin add %s (bin mul %s %s))", "(bin sub (bin sub %s %s) %s)",
                  "(bin lt (bin add %s %s) %s)", "(un not (bin land %s (bin eq %s %s)))"]:
            yield ctx_prog(e % (t(1, a), t(2, b), t(3, c)), ALLCTX, gates)
    # (e) call arguments, nested calls
    yield prog("(decl - int r (call g3 %s %s %s)) (print (e (var r)))" % (t(1, 1), t(2, 2), t(3, 3)))
    yield prog("(decl - int r (call g3 %s (call g3 %s %s %s) %s)) (print (e (var r)))" % (t(1, 1), t(2, 2), t(3, 3), t(4, 4), t(5, 5)))
    yield prog("(expr (call g3 (bin add %s %s) (tern %s %s %s) (bin land %s %s)))" % (t(1, 1), t(2, 2), t(3, 0), t(4, 4), t(5, 5), t(6, 0), t(7, 7)))
    # (f) index expressions
    if "md_index_order" not in gates:
        yield prog("(declarr - int m (dims 2 2)) (assign (idx m (lit 0) (lit 1)) (lit 9)) (decl - int r (idx m %s %s)) (print (e (var r)))" % (t(1, 0), t(2, 1)))
    yield prog("(declarr - int a (dims 3) (init (lit 4) (lit 5) (lit 6))) (decl - int r (idx a %s)) (print (e (var r)) (e (idx a (bin add %s %s))))" % (t(1, 1), t(2, 1), t(3, 1)))
    yield prog("(declarr - int a (dims 3)) (assign (idx a %s) (lit 7)) (print (e (idx a (lit 1))))" % t(1, 1))
    yield prog("(declarr - int a (dims 3)) (expr (incdec post inc (idx a %s))) (expr (incdec pre dec (idx a %s))) (print (e (idx a (lit 1))) (e (idx a (lit 2))))" % (t(1, 1), t(2, 2)))
    yield prog("(decl - int x (lit 1)) (compound add (var x) %s) (compound mul (var x) %s) (print (e (var x)))" % (t(1, 2), t(2, 3)))
    yield prog("(declarr - int a (dims 3)) (compound add (idx a %s) (lit 4)) (print (e (idx a (lit 2))))" % t(1, 2))
    if "elem_assign_rhs_once" not in gates:
        yield prog("(declarr - int a (dims 3)) (assign (idx a (lit 0)) %s) (print (e (idx a (lit 0))))" % t(1, 2))
    if "md_index_order" not in gates:
        yield prog("(declarr - int m (dims 2 2)) (assign (idx m %s %s) (lit 7)) (print (e (idx m (lit 0) (lit 1))))" % (t(1, 0), t(2, 1)))
    # (h) stores: target form x operation x position of the effectful index (each index exactly once, target before right side)
    if "md_index_order" not in gates:
        init2 = " ".join("(assign (idx m (lit %d) (lit %d)) (lit %d))" % (i, j, 10 * i + j + 1) for i in (0, 1) for j in (0, 1))
        show2 = "(print " + " ".join("(e (idx m (lit %d) (lit %d)))" % (i, j) for i in (0, 1) for j in (0, 1)) + ")"
        for tgt in ["(idx m %s %s)" % (t(1, 1), t(2, 0)), "(idx m %s (lit 0))" % t(1, 1), "(idx m (lit 1) %s)" % t(2, 1),
                    "(idx m %s (var k))" % t(1, 1), "(idx m (var k) %s)" % t(2, 1), "(idx m (bin sub %s (lit 1)) (bin add (var k) %s))" % (t(1, 2), t(2, 1))]:
            for op in ["(assign %s %s)" % (tgt, t(9, 7)), "(compound add %s %s)" % (tgt, t(9, 5)), "(compound mul %s (lit 3))" % tgt,
                       "(compound sub %s (var k))" % tgt, "(expr (incdec post inc %s))" % tgt, "(expr (incdec pre dec %s))" % tgt]:
                if "incdec" in op and "md_elem_incdec" in gates:
                    continue      # ++ / -- on an element of a multi-dimensional array is rejected (listed finding)
                yield prog("(declarr - int m (dims 2 2)) (decl - int k (lit 0)) %s %s %s" % (init2, op, show2))
    show1 = "(print (e (idx a (lit 0))) (e (idx a (lit 1))) (e (idx a (lit 2))))"
    for tgt in ["(idx a %s)" % t(1, 1), "(idx a (bin add %s %s))" % (t(1, 1), t(2, 1)), "(idx a (bin sub %s (var k)))" % t(1, 2)]:
        for op in ["(assign %s %s)" % (tgt, t(9, 7)), "(compound add %s %s)" % (tgt, t(9, 5)), "(compound shl %s (lit 2))" % tgt,
                   "(expr (incdec post inc %s))" % tgt, "(expr (incdec pre dec %s))" % tgt]:
            yield prog("(declarr - int a (dims 3) (init (lit 4) (lit 5) (lit 6))) (decl - int k (lit 0)) %s %s" % (op, show1))
    # (i) initialiser lists, struct members, loop headers, returns: every operand once, in source order
    yield prog("(declarr - int a (dims 3) (init %s %s %s)) (print (e (idx a (lit 0))) (e (idx a (lit 1))) (e (idx a (lit 2))))" % (t(1, 4), t(2, 5), t(3, 6)))
    S2 = "(struct S (field int x) (field int y) (field int g 3))"

    def sprog(body):
        return ("(prog (structs %s) (globals) (funcs %s %s %s (func main int (params) (%s (print (s \"END\")) (ret (lit 0))))))" % (S2, T, BOOM, G3, body))
    yield sprog("(declstructinit - S s %s %s) (print (e (fld s x)) (e (fld s y)))" % (t(1, 7), t(2, 8)))
    for op in ["(assign (fld s x) %s)" % t(1, 7), "(compound add (fld s y) %s)" % t(1, 2), "(compound mul (fld s x) (bin add %s %s))" % (t(1, 2), t(2, 1)),
               "(assign (fldidx s g %s) %s)" % (t(1, 1), t(2, 9)), "(compound add (fldidx s g %s) %s)" % (t(1, 2), t(2, 3)),
               "(compound sub (fldidx s g (bin sub %s (lit 1))) (lit 4))" % t(1, 2), "(expr (incdec post inc (fldidx s g %s)))" % t(1, 0),
               "(expr (incdec pre dec (fld s x)))", "(expr (incdec post inc (fld s y)))"]:
        yield sprog("(declstruct S s) (assign (fld s x) (lit 3)) (assign (fld s y) (lit 4)) (assign (fldidx s g (lit 1)) (lit 5)) %s "
                    "(print (e (fld s x)) (e (fld s y)) (e (fldidx s g (lit 0))) (e (fldidx s g (lit 1))) (e (fldidx s g (lit 2))))" % op)
    # for header: init once, condition before every iteration, update after every iteration
    yield prog("(for (decl - int i %s) (bin lt (var i) %s) (compound add (var i) %s) ((print (s \"body\") (e (var i)))))" % (t(1, 0), t(2, 2), t(3, 1)))
    yield prog("(decl - int i (lit 0)) (while (bin land (bin lt (var i) (lit 2)) %s) ((compound add (var i) %s)))" % (t(1, 1), t(2, 1)))
    yield prog("(decl - long r (call sum2)) (print (e (var r)))", "(func sum2 long (params) ((ret (bin add %s (bin mul %s %s)))))" % (t(1, 1), t(2, 2), t(3, 3)))
    yield prog("(decl - long r (call sel)) (print (e (var r)))", "(func sel long (params) ((ret (tern %s %s %s))))" % (t(1, 0), t(2, 2), t(3, 3)))
    yield prog("(decl - int x (lit 1)) (compound add (var x) (bin add (var x) %s)) (print (e (var x)))" % t(1, 3))
    # (g) guards
    for d in (0, 1, -1, 3):
        for n in (0, 5, -9):
            g = "(bin land (bin ne (var d) (lit 0)) (bin gt (bin div (var n) (var d)) (lit 1)))"
            yield prog("(decl - int d (lit %d)) (decl - int n (lit %d)) %s" % (d, n, observe(g, ["init", "cond", "print", "interp", "while"], gates)))
            g2 = "(bin lor (bin eq (var d) (lit 0)) (bin eq (bin mod (var n) (var d)) (lit 0)))"
            yield prog("(decl - int d (lit %d)) (decl - int n (lit %d)) %s" % (d, n, observe(g2, ["init", "cond", "print"], gates)))
    for i in range(-2, 6):
        g = "(bin land (bin land (bin ge (var i) (lit 0)) (bin lt (var i) (lit 3))) (bin gt (idx a (var i)) (lit 0)))"
        yield prog("(declarr - int a (dims 3) (init (lit 4) (lit 0) (lit 9))) (decl - int i (lit %d)) %s" % (
            i, observe(g, ["init", "cond", "print", "while"], gates)))


def string_effect_cases():
    """string-valued operands with an observable effect (CbRef has no string values: the expected trace is computed here):
    every call exactly once, left to right, whatever the string it returns — the empty string included"""
    LAB = ("string lab(int k) {\n    println(\"call\", k);\n    if (k == 0) {\n        return \"\";\n    }\n    if (k == 1) {\n        return \"a\";\n    }\n    return \"bc\";\n}\n"
           "void show(string p, string q) {\n    println(\"show[\", p, \"][\", q, \"]\");\n}\nstring both(int i, int j) {\n    return lab(i) + lab(j);\n}\n")
    val = {0: "", 1: "a", 2: "bc"}
    cases = []

    def c(cid, body, out):
        cases.append({"id": cid, "program": LAB + "int main() {\n    int t = 1;\n    int z = 0;\n" + body + "    println(\"END\");\n    return 0;\n}\n",
                      "expect_class": "ok", "expect_stdout": out + "END\n"})
    for i in (0, 1, 2):
        c("decl-%d" % i, "    string b = lab(%d);\n    println(\"[\", b, \"]\");\n" % i, "call %d\n[ %s ]\n" % (i, val[i]))
        c("const-decl-%d" % i, "    const string b = lab(%d);\n    println(\"[\", b, \"]\");\n" % i, "call %d\n[ %s ]\n" % (i, val[i]))
        c("assign-%d" % i, "    string b = \"q\";\n    b = lab(%d);\n    println(\"[\", b, \"]\");\n" % i, "call %d\n[ %s ]\n" % (i, val[i]))
        c("decl-arg-%d" % i, "    string b = lab(lab(%d) == \"\" ? 0 : 2);\n    println(\"[\", b, \"]\");\n" % i,
          "call %d\ncall %d\n[ %s ]\n" % (i, 0 if val[i] == "" else 2, val[0 if val[i] == "" else 2]))
        for j in (0, 1, 2):
            c("concat-decl-%d%d" % (i, j), "    string d = lab(%d) + lab(%d);\n    println(\"[\", d, \"]\");\n" % (i, j), "call %d\ncall %d\n[ %s ]\n" % (i, j, val[i] + val[j]))
            c("concat-assign-%d%d" % (i, j), "    string d = \"q\";\n    d = lab(%d) + lab(%d);\n    println(\"[\", d, \"]\");\n" % (i, j), "call %d\ncall %d\n[ %s ]\n" % (i, j, val[i] + val[j]))
            # (a string-returning call written directly as an argument is rejected by the implementation — "cannot pass non-string
            #  expression to string parameter" — and is not generated)
            c("ret-concat-%d%d" % (i, j), "    string d = both(%d, %d);\n    println(\"[\", d, \"]\");\n" % (i, j), "call %d\ncall %d\n[ %s ]\n" % (i, j, val[i] + val[j]))
            c("eq-%d%d" % (i, j), "    if (lab(%d) == lab(%d)) {\n        println(\"same\");\n    } else {\n        println(\"diff\");\n    }\n" % (i, j),
              "call %d\ncall %d\n%s\n" % (i, j, "same" if val[i] == val[j] else "diff"))
            for cond in ("t", "z"):
                pick = i if cond == "t" else j
                c("tern-decl-%s%d%d" % (cond, i, j), "    string e = %s ? lab(%d) : lab(%d);\n    println(\"[\", e, \"]\");\n" % (cond, i, j), "call %d\n[ %s ]\n" % (pick, val[pick]))
    return cases


def array_literal_cases():
    """array literals whose elements have effects, in every position a literal can stand (declaration, assignment to an existing
    array, struct member array, 2-D, argument, double / string elements): each element exactly once, left to right; the expected
    trace is computed here (CbRef has array initialisers in declarations only)"""
    HDR = ("int tg(int k) {\n    println(\"t\", k);\n    return k * 10;\n}\ndouble td(int k) {\n    println(\"d\", k);\n    return k + 0.5;\n}\n"
           "string ts(int k) {\n    println(\"s\", k);\n    return \"v\";\n}\nstruct Box { int[3] arr; int z; };\nint sum3(int[3] q) {\n    return q[0] + q[1] + q[2];\n}\n")
    cases = []

    def c(cid, body, out):
        cases.append({"id": cid, "program": HDR + "int main() {\n    int i = 0;\n" + body + "    println(\"END\");\n    return 0;\n}\n",
                      "expect_class": "ok", "expect_stdout": out + "END\n"})
    t3 = "t 1\nt 2\nt 3\n"
    c("decl", "    int[3] a = [tg(1), tg(2), tg(3)];\n    println(a[0], a[1], a[2]);\n", t3 + "10 20 30\n")
    c("assign", "    int[3] a = [0, 0, 0];\n    a = [tg(1), tg(2), tg(3)];\n    println(a[0], a[1], a[2]);\n", t3 + "10 20 30\n")
    c("assign-first-literal", "    int[3] a = [0, 0, 0];\n    a = [7, tg(2), tg(3)];\n    println(a[0], a[1], a[2]);\n", "t 2\nt 3\n7 20 30\n")
    c("assign-incr", "    int[3] a = [0, 0, 0];\n    a = [i++, i++, i++];\n    println(a[0], a[1], a[2], i);\n", "0 1 2 3\n")
    c("assign-preincr", "    int[3] a = [0, 0, 0];\n    a = [++i, ++i, ++i];\n    println(a[0], a[1], a[2], i);\n", "1 2 3 3\n")
    c("decl-incr", "    int[3] a = [i++, i++, i++];\n    println(a[0], a[1], a[2], i);\n", "0 1 2 3\n")
    c("assign-twice", "    int[3] a = [0, 0, 0];\n    a = [tg(1), tg(2), tg(3)];\n    a = [tg(4), tg(5), tg(6)];\n    println(a[0], a[1], a[2]);\n", t3 + "t 4\nt 5\nt 6\n40 50 60\n")
    c("member-assign", "    Box b;\n    b.z = 1;\n    b.arr = [tg(1), tg(2), tg(3)];\n    println(b.arr[0], b.arr[1], b.arr[2]);\n", t3 + "10 20 30\n")
    c("assign-2d", "    int[2][2] m = [[0, 0], [0, 0]];\n    m = [[tg(1), tg(2)], [tg(3), tg(4)]];\n    println(m[0][0], m[0][1], m[1][0], m[1][1]);\n", t3 + "t 4\n10 20 30 40\n")
    c("decl-2d", "    int[2][2] m = [[tg(1), tg(2)], [tg(3), tg(4)]];\n    println(m[0][0], m[0][1], m[1][0], m[1][1]);\n", t3 + "t 4\n10 20 30 40\n")
    c("assign-in-loop", "    int[3] a = [0, 0, 0];\n    for (int k = 0; k < 2; k++) {\n        a = [tg(k), tg(k + 1), tg(k + 2)];\n    }\n    println(a[0], a[1], a[2]);\n",
      "t 0\nt 1\nt 2\nt 1\nt 2\nt 3\n10 20 30\n")
    c("assign-expr-first", "    int[3] a = [0, 0, 0];\n    a = [tg(1) + tg(2), tg(3), 4];\n    println(a[0], a[1], a[2]);\n", t3 + "30 30 4\n")
    # (string array literals with call elements are not supported: the declaration is a type error, the assignment ends the run)
    c("decl-double", "    double[2] d = [td(1), td(2)];\n    println(d[0], d[1]);\n", "d 1\nd 2\n1.5 2.5\n")
    return cases


def main(a):
    c = RefCheck(PID, a, ["CbProofs", "CbProps.C03"], THEOREMS)
    if not c.build():
        return c.v.finish()
    if a.replay:
        return c.replay(a.replay)
    c.witnesses()
    quick = a.tier == "quick"
    c.suite("effect-order-exhaustive", exhaustive(c.gates, quick),
            nontrivial=lambda r: hash(r.sexp) if "t " in r.stdout else None)
    n = 600 if quick else 60000
    progs = []
    for k in range(n):
        s, st = gen_core.gen_program(a.seed, 31, k, c.gates, size=18, features={"effect_leaves": True})
        progs.append(s)
    c.raw_suite("string-effects", string_effect_cases(), max_report=4)
    c.raw_suite("array-literals", array_literal_cases(), max_report=4)
    c.suite("random-effectful", progs, nontrivial=lambda r: hash(r.stdout) if r.stdout.count("t ") > 1 else None)
    return c.finish(
        rule="operands are calls t(k,v) that print k: the printed sequence is the evaluation order. exhaustive: every "
             "binary operator x operand truth values {0,1,3}^2 x 9 evaluation contexts, ternary, skipped failing operands, "
             "3-operand nestings over {0,1}^3, argument lists, index expressions, guard idioms over a value grid; random: "
             "core programs with effectful leaves. non-trivial = distinct program whose output contains an operand trace",
        extra={"exhaustive": True, "exhaustive_note": "the effect-order suite is a complete enumeration of the stated "
               "finite table; the random suite is a sample"},
        assumptions=["println writes its arguments one at a time (calibrated to the implementation)",
                     "arguments of println are kept free of failing effectful calls while finding println_reeval is open"])
