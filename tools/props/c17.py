"""C17 — preprocessor: conditional selection + whole-word macro expansion.

Theorems: lean/CbProps/C17.lean (stack machine refines tree selection, for all trees/tables).
Tie: the Lean model `processText` (cbdriver c17) vs the real PreprocessorNS::Preprocessor
(harness/h_preproc.cpp compiled from the working tree) on the same inputs.
"""
import itertools, json, os
import common
from common import Rng, esc, unesc

PID = "C17"
THEOREMS = {"CbProps.C17": [
    "CbProps.C17.run_flatten_eq_select", "CbProps.C17.run_flatten_eq_select_nested",
    "CbProps.C17.skipped_block_no_effect", "CbProps.C17.unknown_active_is_error",
    "CbProps.C17.unmatched_is_error", "CbProps.C17.unclosed_is_error", "CbProps.C17.errs_monotone",
    "CbProps.C17.dash_D_is_leading_define", "CbProps.C17.line_without_macro_word_unchanged",
    "CbProps.C17.string_and_punct_verbatim", "CbProps.C17.macro_word_replaced", "CbProps.C17.macro_inside_own_expansion_kept",
    "CbProps.C17.top_level_word_replaced"]}

NAMES = "ABC"


def mk_case(defs, src, file="f.cb"):
    f = [str(len(defs))]
    for (n, v) in defs:
        f += [n, v]
    f += [file, src]
    return "\t".join(esc(x) for x in f)


def parse_case(line):
    f = [unesc(x) for x in line.split("\t")]
    k = int(f[0])
    defs = [(f[1 + 2 * i], f[2 + 2 * i]) for i in range(k)]
    return defs, f[2 + 2 * k], f[1 + 2 * k]


# ---------------------------------------------------------------- generators

def skeleton_cases(maxlen, alphabet, subsets):
    for L in range(0, maxlen + 1):
        for seq in itertools.product(alphabet, repeat=L):
            src = "t A B C\n"
            for i, d in enumerate(seq):
                src += d + "\n" + "t%d A B C\n" % i
            for ds in subsets:
                yield mk_case([(n, "1") for n in ds], src)


def alphabet_main():
    a = []
    for n in NAMES:
        a += ["#ifdef " + n, "#ifndef " + n, "#elif " + n, "#define " + n + " " + n.lower() + "1", "#undef " + n]
    return a + ["#else", "#endif"]


ALPHA_MALFORMED = ["#ifdef A", "#ifndef B", "#elif A", "#elseif B", "#else", "#endif", "#define A 7", "#undef A",
                   "#bogus", "#ifdef", "#ifndef", "#define", "#undef", "#error stop", "#warning w", "#",
                   "#include <x>", "  #  ifdef \t A  ", "#define B", "#define F(x) x", "#define G(", "#elif",
                   "# else", "#endif extra"]


def rand_tree(r, depth, budget):
    """random well-nested source as a list of lines"""
    out = []
    n = r.range(0, 4)
    for _ in range(n):
        k = r.below(10)
        if k < 3 or depth <= 0 or budget[0] <= 0:
            out.append(rand_text(r))
        elif k < 5:
            out.append("#define %s %s" % (r.choice(NAMES + "D"), r.choice(["1", "2", "x", "A", ""])))
        elif k < 6:
            out.append("#undef " + r.choice(NAMES + "D"))
        else:
            budget[0] -= 1
            out.append(("#ifdef " if r.chance(50) else "#ifndef ") + r.choice(NAMES + "D"))
            out += rand_tree(r, depth - 1, budget)
            for _ in range(r.below(3)):
                out.append("#elif " + r.choice(NAMES + "D"))
                out += rand_tree(r, depth - 1, budget)
            if r.chance(50):
                out.append("#else")
                out += rand_tree(r, depth - 1, budget)
            out.append("#endif")
    return out


def rand_text(r):
    return "L%d %s" % (r.below(100), " ".join(r.choice(["A", "B", "C", "D", "x", "AB", "A1", "_A", '"A"', "+", "(B)"])
                                            for _ in range(r.below(4))))


def tree_cases(seed, n, mutate):
    r = Rng(seed, 171)
    for _ in range(n):
        lines = rand_tree(r, r.range(1, 6), [r.range(1, 10)])
        if mutate and lines and r.chance(40):
            for _ in range(r.range(1, 2)):
                if not lines:
                    break
                k = r.below(4)
                i = r.below(len(lines))
                if k == 0:
                    del lines[i]
                elif k == 1:
                    lines.insert(i, r.choice(["#endif", "#else", "#elif A", "#ifdef B", "#bogus", "#define", "#error e"]))
                elif k == 2 and len(lines) > 1:
                    j = r.below(len(lines))
                    lines[i], lines[j] = lines[j], lines[i]
                else:
                    lines[i] = lines[i][: r.below(len(lines[i]) + 1)]
        ds = [(n_, r.choice(["1", "5", "zz"])) for n_ in NAMES + "D" if r.chance(30)]
        src = "\n".join(lines) + ("\n" if r.chance(80) else "")
        yield mk_case(ds, src)


def line_ending_cases(seed, n, gates):
    """the conditional-tree and macro-line cases with other line endings and blanks: CRLF files (every line keeps a trailing
    carriage return after the split at \\n), stray \\r / vertical tab / form feed / blanks after directives and names"""
    r = Rng(seed, 173)
    src_gens = [tree_cases(seed + 7, n // 2, False), macro_cases(seed + 7, n - n // 2, gates)]
    for g in src_gens:
        for line in g:
            defs, src, file = parse_case(line)
            mode = r.below(3)
            if mode == 0:
                src = src.replace("\n", "\r\n")
            else:
                ls = src.split("\n")
                for i in range(len(ls)):
                    if ls[i] and (mode == 1 or ls[i].lstrip().startswith("#")) and r.chance(60):
                        ls[i] = ls[i] + r.choice(["\r", " ", "\t", "\x0b", "\x0c", " \r", "\r\r"])
                    if ls[i].startswith("#") and r.chance(20):
                        ls[i] = r.choice([" ", "\t", "\x0c"]) + ls[i]
                src = "\n".join(ls)
            yield mk_case(defs, src, file)


MACRO_NAMES = ["A", "B", "MAX", "N_1", "foo", "_x", "Z9"]


def macro_cases(seed, n, gates):
    """lines mixing macro names as whole words / substrings / in strings / next to punctuation;
    macro chains (body of macro i only mentions macros j > i; in a quarter of the cases any macro: self-reference, cycles)."""
    r = Rng(seed, 172)
    for _ in range(n):
        k = r.range(1, len(MACRO_NAMES))
        names = r.shuffle(MACRO_NAMES)[:k]
        bodies = {}
        string_body = False
        cyclic = r.chance(25)     # bodies may then mention ANY macro of the table (self-reference, cycles)
        for i, nm in enumerate(names):
            later = names if cyclic else names[i + 1:]
            kind = r.below(10)
            if kind < 3:
                b = str(r.choice([0, 1, 42, 1234567890, -7]))
            elif kind < 5 and later:
                b = r.choice(later)
            elif kind < 7 and later:
                b = "(%s + %s)" % (r.choice(later), r.choice(later + ["3"]))
            elif kind < 8:
                b = '"%s"' % r.choice(["s", "A B", "x MAX y", ""])
                string_body = True
            elif kind < 9:
                b = ""
            else:
                b = r.choice(["x1", "y_", "q"])
            bodies[nm] = b
        lines = ["#define %s %s" % (nm, bodies[nm]) for nm in names]
        nuse = 0
        for _ in range(r.range(1, 4)):
            toks = []
            for _ in range(r.range(1, 12)):
                t = r.below(16)
                if t < 5:
                    toks.append(r.choice(names)); nuse += 1
                elif t < 7:
                    toks.append(r.choice(names) + r.choice(["1", "_", "x", "A"]))
                elif t < 8:
                    toks.append(r.choice(["x", "_", "9"]) + r.choice(names))
                elif t < 10:
                    if r.chance(35):
                        # a literal that ENDS in an escaped backslash: the quote after it closes the literal
                        toks.append('"%s%s\\\\"' % (r.choice(names + ["", "C:"]), r.choice(["", " ", "\\\\"])))
                    else:
                        toks.append('"%s %s\\" %s"' % (r.choice(names), r.choice(["", "\\\\", "é", "{x}"]), r.choice(names)))
                elif t < 13:
                    toks.append(r.choice(["+", "-", "(", ")", ";", "=", "[", "]", ",", ".", "->", "é", "日本"]))
                elif t < 14:
                    toks.append(str(r.below(1000)))
                elif t < 15:
                    toks.append(r.choice(["'a'", "'\\n'", "\\n"]))
                else:
                    if not string_body and r.chance(30):
                        toks.append('"unterminated ' + r.choice(names))
                    else:
                        toks.append("w")
            sep = r.choice([" ", " ", "", "\t"])
            # joining without a separator may glue identifiers: that is intended (substring cases)
            lines.append(sep.join(toks))
        yield mk_case([], "\n".join(lines) + "\n")


def many_cases():
    """many occurrences of one macro on a line, long chains, wide tables"""
    for k in [1, 2, 50, 99, 100, 101, 105, 150, 300]:
        yield mk_case([], "#define A 1\n" + " ".join(["A"] * k) + "\n")
        yield mk_case([], "#define A B\n#define B 2\n" + "+".join(["A", "B"] * k) + "\n")
        yield mk_case([("A", "x")], "(" * k + "A" + ")" * k + " \"A\" " + "A;" * k + "\n")
    # self-reference and cycles: a macro is not expanded again inside its own expansion
    yield mk_case([], "#define A A + 1\nA A; (A)\n")
    yield mk_case([], "#define A B\n#define B A\nA B A+B \"A\"\n")
    yield mk_case([], "#define width height\n#define height width\nint width = height;\n")
    yield mk_case([], "#define A B x\n#define B C y\n#define C A z\nA | B | C\n")
    yield mk_case([], "#define A (B + A)\n#define B (A * B)\nA; B;\n")
    yield mk_case([("A", "A")], "A A\n#undef A\nA\n")
    long_chain = "".join("#define L%d L%d\n" % (i, i + 1) for i in range(100)) + "#define L100 end\n"
    yield mk_case([], long_chain + "L0 L50 L99 L100 L101\n")
    chain = "".join("#define M%d M%d\n" % (i, i + 1) for i in range(40)) + "#define M40 end\n"
    yield mk_case([], chain + "M0 M20 M40 M41 \"M0\"\n")
    wide = "".join("#define W%d %d\n" % (i, i) for i in range(120))
    yield mk_case([], wide + " ".join("W%d" % i for i in range(120)) + "\n")


# ---------------------------------------------------------------- comparison

def prop_equal(m, i):
    """property-level comparison of one output line of model and implementation"""
    if m == i:
        return True
    fm, fi = m.split("\t"), i.split("\t")
    if len(fm) != 2 or len(fi) != 2:
        return False
    try:
        em, ei = int(fm[0]), int(fi[0])
    except ValueError:
        return False
    if em > 0 and ei > 0:
        return True       # both reject the input (exit 1); the emitted text is then irrelevant
    return False


class Runner:
    def __init__(self, harness):
        self.harness = harness
        self.evals = 0

    def run(self, cases):
        """returns list of (case, model_out, impl_out) for property-level mismatches, and #strict diffs"""
        rc1, m, e1 = common.run_lines_parallel([common.driver_path(), "c17"], cases)
        rc2, i, e2 = common.run_lines_parallel([self.harness], cases)
        self.evals += len(cases)
        if len(m) != len(cases) or len(i) != len(cases):
            raise RuntimeError("line count mismatch: %d cases, model %d (rc %d) impl %d (rc %d)\n%s\n%s" % (
                len(cases), len(m), rc1, len(i), rc2, e1[-500:], e2[-500:]))
        bad, strict = [], 0
        for c, a, b in zip(cases, m, i):
            if a != b:
                strict += 1
                if not prop_equal(a, b):
                    bad.append((c, a, b))
        return bad, strict


def shrink(runner, case):
    """greedy delta-debugging on lines, -D entries and tokens"""
    defs, src, file = parse_case(case)
    lines = src.split("\n")
    changed = True
    rounds = 0
    while changed and rounds < 200:
        rounds += 1
        changed = False
        cands = []
        for i in range(len(lines)):
            cands.append((defs, lines[:i] + lines[i + 1:]))
        for i in range(len(defs)):
            cands.append((defs[:i] + defs[i + 1:], lines))
        for i, l in enumerate(lines):
            toks = l.split(" ")
            if len(toks) > 1 and not l.lstrip().startswith("#"):
                for j in range(len(toks)):
                    cands.append((defs, lines[:i] + [" ".join(toks[:j] + toks[j + 1:])] + lines[i + 1:]))
        if not cands:
            break
        cs = [mk_case(d, "\n".join(ls), file) for (d, ls) in cands]
        bad, _ = runner.run(cs)
        if bad:
            badset = {b[0] for b in bad}
            for (d, ls), c in zip(cands, cs):
                if c in badset:
                    defs, lines = d, ls
                    changed = True
                    break
    return mk_case(defs, "\n".join(lines), file)


def describe(case, m, i):
    defs, src, file = parse_case(case)
    return {"defs": defs, "source": src, "model": m, "impl": i, "case_line": case}


def main(a):
    v = common.Verdict(PID, a.tier, a.seed)
    driver_ok, failed = common.lean_obligations(v, ["CbProofs", "CbProps.C17"], THEOREMS)
    harness, hlog = common.build_harness("h_preproc", ["src/frontend/preprocessor/preprocessor.cpp"])
    if harness is None or not driver_ok:
        v.violation("cannot build harness/driver against the working tree: " + (hlog or "driver")[-800:],
                    {"correspondence": "h_preproc vs CbModel.Preproc.processText", "log": hlog[-2000:]},
                    no_input=True)
        return v.finish()
    runner = Runner(harness)
    findings = common.load_findings(PID)

    if a.replay:
        rp = json.load(open(a.replay))
        bad, _ = runner.run([rp["case_line"]])
        if bad:
            v.violation("replay still fails", describe(*bad[0]))
        else:
            common.log("replay: model and implementation agree now")
        return v.finish()

    # 1. known findings: replay each witness
    gates = set()
    for f in findings:
        w = json.load(open(os.path.join(common.ROOT, f["witness"])))
        bad, _ = runner.run([w["case_line"]])
        gates |= set(f.get("gates", []))
        if bad:
            v.known_finding(f["what"])
    # 2. corpus first
    suites = []
    corp = os.path.join(common.ROOT, "corpus", PID)
    corpus = []
    if os.path.isdir(corp):
        for fn in sorted(os.listdir(corp)):
            corpus.append(json.load(open(os.path.join(corp, fn)))["case_line"])
    suites.append(("corpus", corpus))
    quick = a.tier == "quick"
    subsets = [(), ("A",), ("A", "B"), ("A", "B", "C")]
    suites.append(("skeletons<=%d" % (4 if quick else 5), skeleton_cases(4 if quick else 5, alphabet_main(), subsets)))
    suites.append(("malformed<=%d" % (3 if quick else 4),
                   skeleton_cases(3 if quick else 4, ALPHA_MALFORMED, [(), ("A",)])))
    suites.append(("many-occurrences", many_cases()))
    suites.append(("random-trees", tree_cases(a.seed, 20000 if quick else 400000, mutate=True)))
    suites.append(("macro-lines", macro_cases(a.seed, 20000 if quick else 400000, gates)))
    suites.append(("line-endings", line_ending_cases(a.seed, 6000 if quick else 100000, gates)))

    dist = {}
    samples = []
    nontrivial = set()
    strict_total = 0
    reported = 0
    for name, gen in suites:
        batch = []
        count = 0

        def flush():
            nonlocal strict_total, reported
            if not batch:
                return
            bad, strict = runner.run(batch)
            strict_total += strict
            for (c, m, i) in bad[:3]:
                if reported >= 3:
                    break
                small = shrink(runner, c)
                b2, _ = runner.run([small])
                d = describe(*(b2[0] if b2 else (c, m, i)))
                d["suite"] = name
                v.violation("model and implementation disagree (suite %s): source %r" % (name, d["source"][:200]), d)
                reported += 1
            batch.clear()
        for c in gen:
            batch.append(c)
            count += 1
            if len(samples) < 6 and count % 997 == 1:
                samples.append({"suite": name, "case": c[:300]})
            # non-trivial: the source contains a conditional or a macro use
            if "#if" in c or "#define" in c:
                nontrivial.add(hash(c))
            if len(batch) >= 200000:
                flush()
        flush()
        dist[name] = count
    v.coverage.update({
        "evaluations": runner.evals,
        "distinct_nontrivial": len(nontrivial),
        "rule": "each case = (-D set, source text) run through cbdriver c17 (Lean model processText) and the real "
                "Preprocessor::process in-process; non-trivial = distinct case containing a conditional or a #define",
        "samples": samples, "suite_sizes": dist, "strict_level_differences_tolerated": strict_total,
        "exhaustive": True,
        "exhaustive_note": "skeleton suites enumerate every directive sequence up to the stated length over 3 names "
                           "x the 4 orbits of -D subsets; random suites are samples",
        "gates_closed": sorted(gates)})
    v.assumptions += ["macro expansion: implementation's positional multi-pass algorithm is tied to the token-level "
                      "specification by differential testing only",
                      "__DATE__/__TIME__ are not exercised"]
    return v.finish()
