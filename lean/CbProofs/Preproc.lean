import CbModel.PreprocSpec
namespace CbModel.Preproc

theorem run_nil (st : St) : run st [] = st := rfl
theorem run_cons (st : St) (d : Dir) (ds : List Dir) : run st (d :: ds) = run (step st d) ds := rfl
theorem run_append (st : St) (a b : List Dir) : run st (a ++ b) = run (run st a) b := by
  simp [run, List.foldl_append]

theorem skipping_cons (c : Cond) (r : List Cond) : skipping (c :: r) = (!c.met || skipping r) := by
  simp [skipping]

theorem step_plain_skip (st : St) (p : Plain) (h : skipping st.stack = true) :
    step st p.toDir = st := by
  cases p <;> simp [Plain.toDir, step, h]

theorem step_plain_active (st : St) (p : Plain) (h : skipping st.stack = false) :
    step st p.toDir = St.ofAcc (plainAct st.acc p) st.stack := by
  cases p <;> simp [Plain.toDir, step, h, St.ofAcc, St.acc, plainAct]

/-- opening directive of a conditional -/
def openDir (neg : Bool) (n : List Char) : Dir := if neg then Dir.ifndef n else Dir.ifdef n

theorem step_open (st : St) (neg : Bool) (n : List Char) :
    step st (openDir neg n) =
      { st with stack := ⟨st.defs.isDef n != neg, false, st.defs.isDef n != neg⟩ :: st.stack } := by
  cases neg <;> simp [openDir, step]

mutual
/-- inside a skipped region a whole block is a no-op -/
theorem skip_items (b : Items) (st : St) (h : skipping st.stack = true) :
    run st (flatten b) = st := by
  match b with
  | .nil => simp [flatten, run_nil]
  | .line p rest =>
    simp only [flatten, run_cons]
    rw [step_plain_skip st p h]
    exact skip_items rest st h
  | .cond neg n body tail rest =>
    simp only [flatten, run_cons, run_append]
    rw [show (if neg then Dir.ifndef n else Dir.ifdef n) = openDir neg n from rfl, step_open]
    rw [skip_items body _ (by simp [skipping_cons, h])]
    rw [skip_tail tail _ _ st.stack rfl h rfl]
    exact skip_items rest st h
/-- the tail of a conditional nested in a skipped region only pops its frame -/
theorem skip_tail (t : Tail) (st : St) (c : Cond) (r : List Cond) (hs : st.stack = c :: r)
    (h : skipping r = true) (he : c.elseSeen = false) :
    run st (flattenT t) = { st with stack := r } := by
  match t with
  | .endif => simp [flattenT, run_cons, run_nil, step, hs]
  | .elif n body tail =>
    simp only [flattenT, run_cons, run_append]
    have : ∃ c', c'.elseSeen = false ∧ step st (Dir.elif n) = { st with stack := c' :: r } := by
      simp only [step, hs, he, Bool.false_eq_true, ↓reduceIte]
      split
      · exact ⟨⟨false, false, c.taken⟩, rfl, rfl⟩
      · exact ⟨_, rfl, rfl⟩
    obtain ⟨c', he', hstep⟩ := this
    rw [hstep]
    rw [skip_items body _ (by simp [skipping_cons, h])]
    rw [skip_tail tail _ c' r rfl h he']
  | .els body =>
    simp only [flattenT, run_cons, run_append, run_nil]
    have : step st Dir.els = { st with stack := ⟨!c.taken, true, c.taken⟩ :: r } := by
      simp [step, hs, he]
    rw [this, skip_items body _ (by simp [skipping_cons, h])]
    simp [step]
end

/-- once a branch of a conditional has been taken, the rest of its chain only pops the frame -/
theorem taken_tail (t : Tail) (st : St) (c : Cond) (r : List Cond) (hs : st.stack = c :: r)
    (ht : c.taken = true) (he : c.elseSeen = false) :
    run st (flattenT t) = { st with stack := r } := by
  match t with
  | .endif => simp [flattenT, run_cons, run_nil, step, hs]
  | .elif n body tail =>
    simp only [flattenT, run_cons, run_append]
    have hstep : step st (Dir.elif n) = { st with stack := ⟨false, false, c.taken⟩ :: r } := by
      simp [step, hs, he, ht]
    rw [hstep, skip_items body _ (by simp [skipping_cons])]
    rw [taken_tail tail _ ⟨false, false, c.taken⟩ r rfl ht rfl]
  | .els body =>
    simp only [flattenT, run_cons, run_append, run_nil]
    have : step st Dir.els = { st with stack := ⟨!c.taken, true, c.taken⟩ :: r } := by
      simp [step, hs, he]
    rw [this, skip_items body _ (by simp [skipping_cons, ht])]
    simp [step]

theorem ofAcc_acc (st : St) : St.ofAcc st.acc st.stack = st := rfl

mutual
/-- in an active region the stack machine computes the tree selection -/
theorem sel_items (b : Items) (st : St) (h : skipping st.stack = false) :
    run st (flatten b) = St.ofAcc (sel st.acc b) st.stack := by
  match b with
  | .nil => simp [flatten, run_nil, sel, ofAcc_acc]
  | .line p rest =>
    simp only [flatten, run_cons, sel]
    rw [step_plain_active st p h]
    exact sel_items rest (St.ofAcc (plainAct st.acc p) st.stack) h
  | .cond neg n body tail rest =>
    simp only [flatten, run_cons, run_append, sel]
    rw [show (if neg then Dir.ifndef n else Dir.ifdef n) = openDir neg n from rfl, step_open]
    cases hb : (st.defs.isDef n != neg)
    · -- condition false: body skipped, the chain decides
      rw [skip_items body _ (by simp [skipping_cons])]
      rw [sel_tail tail _ st.stack rfl h]
      simp only [St.acc, hb, Bool.false_eq_true, ↓reduceIte]
      exact sel_items rest _ h
    · -- condition true: body selected, the chain is dropped
      have h1 : skipping ({ st with stack := ⟨true, false, true⟩ :: st.stack } : St).stack = false := by
        simp [skipping_cons, h]
      rw [sel_items body _ h1]
      rw [taken_tail tail _ ⟨true, false, true⟩ st.stack rfl rfl rfl]
      simp only [St.acc, hb, ↓reduceIte]
      exact sel_items rest (St.ofAcc _ st.stack) h
/-- chain of a conditional none of whose earlier branches was taken -/
theorem sel_tail (t : Tail) (st : St) (r : List Cond) (hs : st.stack = ⟨false, false, false⟩ :: r)
    (h : skipping r = false) :
    run st (flattenT t) = St.ofAcc (selT st.acc t) r := by
  match t with
  | .endif => simp [flattenT, run_cons, run_nil, step, hs, selT, St.ofAcc, St.acc]
  | .elif n body tail =>
    simp only [flattenT, run_cons, run_append, selT]
    have hstep : step st (Dir.elif n) =
        { st with stack := ⟨st.defs.isDef n, false, st.defs.isDef n⟩ :: r } := by
      simp [step, hs]
    rw [hstep]
    cases hb : st.defs.isDef n
    · rw [skip_items body _ (by simp [skipping_cons])]
      rw [sel_tail tail _ r rfl h]
      simp [St.acc, hb]
    · have h1 : skipping ({ st with stack := ⟨true, false, true⟩ :: r } : St).stack = false := by
        simp [skipping_cons, h]
      rw [sel_items body _ h1]
      rw [taken_tail tail _ ⟨true, false, true⟩ r rfl rfl rfl]
      simp [St.acc, hb, St.ofAcc]
  | .els body =>
    simp only [flattenT, run_cons, run_append, run_nil, selT]
    have : step st Dir.els = { st with stack := ⟨true, true, false⟩ :: r } := by
      simp [step, hs]
    have h1 : skipping ({ st with stack := ⟨true, true, false⟩ :: r } : St).stack = false := by
      simp [skipping_cons, h]
    rw [this, sel_items body _ h1]
    simp [step, St.ofAcc, St.acc]
end

end CbModel.Preproc
