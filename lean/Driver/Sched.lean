import CbModel.Sched
import Driver.Proto
namespace Driver
open CbModel.Sched

def parseSchedStmt (s : String) : Option Stmt :=
  match s.toList with
  | 'm' :: r => (String.ofList r).toNat?.map Stmt.mark
  | ['y'] => some .yieldS
  | 'l' :: r =>
    match (String.ofList r).splitOn ":" with
    | [n, tags] => do
      let n ← n.toNat?
      let ts ← ((tags.splitOn ",").filter (· ≠ "")).mapM String.toNat?
      pure (.loop n ts)
    | _ => none
  | 's' :: r =>
    match (String.ofList r).splitOn ":" with
    | [f, slot] => do let f ← f.toNat?; let slot ← slot.toNat?; pure (.spawn f slot)
    | _ => none
  | 'a' :: r => (String.ofList r).toNat?.map Stmt.await
  | 'p' :: r => (String.ofList r).toNat?.map Stmt.show
  | 'r' :: r => (String.ofList r).toInt?.map Stmt.ret
  | _ => none

def parseSchedBody (s : String) : Option (List Stmt) := ((s.splitOn ";").filter (· ≠ "")).mapM parseSchedStmt

def showSchedEv : Ev → String
  | .spawn id f => s!"spawn {id} f{f}"
  | .cycle q => "cycle q=" ++ ",".intercalate (q.map toString)
  | .step id => s!"step {id}"
  | .suspend id k => s!"suspend {id} " ++ (if k == 0 then "auto stmt" else if k == 1 then "auto loop" else "yield")
  | .done id => s!"done {id}"
  | .awaitMain id => s!"await_main {id}"
  | .resumeMain id => s!"resume_main {id}"
  | .awaitTask c id => s!"await_task {c} {id}"
  | .resumeTask c id => s!"resume_task {c} {id}"
  | .yieldStmt c => s!"yield_stmt {c}"
  | .skip id w => s!"skip {id} waiting {w}"
  | .giveUp t => s!"giveup {t}"
  | .out c t => s!"out {c} {t}"
  | .got c v => s!"got {c} {v}"

/-- fields: function bodies "m1;y;l2:3,4|m5;r7", main body.  output: events separated by ';', then '|' and
    "end" (main returned) or "fuel" -/
def schedLine (fs : List (List Char)) : String :=
  match fs.map String.ofList with
  | [funcs, main] =>
    let fb : Option (List (List Stmt)) := (if funcs == "" then [] else funcs.splitOn "|").mapM parseSchedBody
    match fb, parseSchedBody main with
    | some fb, some mb =>
      let c := run ⟨fb, mb⟩ 200000
      ";".intercalate (c.trace.reverse.map showSchedEv) ++ (if c.stack.isEmpty then "|end" else "|fuel")
    | _, _ => "bad-op"
  | _ => "bad-op"

end Driver

namespace Driver
open CbModel.Sched

def runningIds (st : List Frame) : List Nat :=
  st.filterMap fun f => match f with
    | .task id => some id
    | .taskAwaitRet id _ => some id
    | _ => none

def invB (c : Cfg) : Bool :=
  c.queue.eraseDups.length == c.queue.length &&
  c.queue.all (fun id => 1 ≤ id && id ≤ c.tasks.length && !(getTask c id).finished) &&
  (runningIds c.stack).all (fun id => !c.queue.contains id && 1 ≤ id && id ≤ c.tasks.length && !(getTask c id).finished)

def progressB (p : Prog) (c : Cfg) : Bool :=
  (List.range c.tasks.length).all fun i =>
    let t := getTask c (i + 1)
    outsOf (i + 1) c.trace == progressMarks (body p t) t.idx t.iter

def fifoB (c c' : Cfg) : Bool :=
  (c'.queue.take c.queue.length == c.queue) || (c.queue.drop 1 == c'.queue && !c.queue.isEmpty) ||
  (!c.queue.isEmpty && c'.queue == c.queue.drop 1 ++ c.queue.take 1)

def frozenB (c c' : Cfg) : Bool :=
  (List.range c.tasks.length).all fun i =>
    let t := getTask c (i + 1)
    !t.finished || (let t' := getTask c' (i + 1); t'.finished && t'.result == t.result && t'.idx == t.idx)

/-- check the invariants along the whole run; "ok <steps>" or the first failing check -/
def schedInvLine (fs : List (List Char)) : String :=
  match fs.map String.ofList with
  | [funcs, main] =>
    let fb : Option (List (List Stmt)) := (if funcs == "" then [] else funcs.splitOn "|").mapM parseSchedBody
    match fb, parseSchedBody main with
    | some fb, some mb =>
      let p : Prog := ⟨fb, mb⟩
      let rec go (fuel : Nat) (c : Cfg) (n : Nat) : String :=
        match fuel with
        | 0 => s!"fuel {n}"
        | fuel + 1 =>
          if !invB c then s!"inv fails at step {n}"
          else if !progressB p c then s!"progress fails at step {n}"
          else match stepCfg p c with
            | none => s!"ok {n}"
            | some c' =>
              if !fifoB c c' then s!"fifo fails at step {n}"
              else if !frozenB c c' then s!"frozen fails at step {n}"
              else go fuel c' (n + 1)
      go 20000 initCfg 0
    | _, _ => "bad-op"
  | _ => "bad-op"

end Driver
