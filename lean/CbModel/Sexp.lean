/- minimal S-expressions: the exchange format for generated programs -/
namespace CbModel

inductive Sexp where
  | atom (s : String)
  | str (s : String)
  | list (l : List Sexp)
  deriving Repr, Inhabited

namespace Sexp

/-- tokens: ( ) atom "string" -/
inductive Tok where
  | lp | rp | atom (s : String) | str (s : String)
  deriving Repr

def isDelim (c : Char) : Bool := c == '(' || c == ')' || c == ' ' || c == '\n' || c == '\t' || c == '"'

def lexStr : List Char → List Char → Option (String × List Char)
  | [], _ => none
  | '"' :: r, acc => some (String.ofList acc.reverse, r)
  | '\\' :: 'n' :: r, acc => lexStr r ('\n' :: acc)
  | '\\' :: c :: r, acc => lexStr r (c :: acc)
  | c :: r, acc => lexStr r (c :: acc)

def lex (fuel : Nat) (s : List Char) (acc : List Tok) : Option (List Tok) :=
  match fuel with
  | 0 => none
  | fuel + 1 =>
    match s with
    | [] => some acc.reverse
    | '(' :: r => lex fuel r (Tok.lp :: acc)
    | ')' :: r => lex fuel r (Tok.rp :: acc)
    | '"' :: r =>
      match lexStr r [] with
      | some (lit, r') => lex fuel r' (Tok.str lit :: acc)
      | none => none
    | c :: r =>
      if c == ' ' || c == '\n' || c == '\t' then lex fuel r acc
      else
        let a := (c :: r).takeWhile (fun x => !isDelim x)
        lex fuel ((c :: r).dropWhile (fun x => !isDelim x)) (Tok.atom (String.ofList a) :: acc)

/-- parse one expression from the token list, using an explicit stack of open lists -/
def parseToks (toks : List Tok) : Option Sexp :=
  let rec go : List Tok → List (List Sexp) → Option Sexp
    | [], [[x]] => some x
    | [], _ => none
    | Tok.lp :: r, st => go r ([] :: st)
    | Tok.rp :: r, cur :: par :: st => go r ((Sexp.list cur.reverse :: par) :: st)
    | Tok.rp :: _, _ => none
    | Tok.atom a :: r, cur :: st => go r ((Sexp.atom a :: cur) :: st)
    | Tok.str a :: r, cur :: st => go r ((Sexp.str a :: cur) :: st)
    | _ :: _, [] => none
  go toks [[]]

def parse (s : String) : Option Sexp :=
  let cs := s.toList
  (lex (cs.length + 1) cs []).bind parseToks

end Sexp
end CbModel
