import CbOblig.C04
