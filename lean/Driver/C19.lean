import CbModel.Avl
import CbModel.Seq
import Driver.Proto
namespace Driver
open CbModel

def dumpTree : Avl.Tree → String
  | .nil => "."
  | .node l k v h r => "(" ++ dumpTree l ++ toString k ++ " " ++ toString v ++ " " ++ toString h ++ dumpTree r ++ ")"

def ints (s : String) : Option (List Int) := ((s.splitOn " ").filter (· ≠ "")).mapM (·.toInt?)

/-- map ops "i k v;r k;g k;c k;s;h;x": after each op one output token -/
def c19Map (fs : List (List Char)) : String :=
  match fs with
  | [ops] =>
    let opl := ((String.ofList ops).splitOn ";").filter (· ≠ "")
    let rec go (ops : List String) (m : Avl.Map) (out : List String) : List String :=
      match ops with
      | [] => out.reverse
      | op :: rest =>
        match (op.splitOn " ").filter (· ≠ "") with
        | ["i", k, v] =>
          match k.toInt?, v.toInt? with
          | some k, some v => let m' := m.insert k v; go rest m' ((dumpTree m'.root ++ " " ++ toString m'.count) :: out)
          | _, _ => ["bad-op"]
        | ["r", k] =>
          match k.toInt? with
          | some k => let m' := m.remove k; go rest m' ((dumpTree m'.root ++ " " ++ toString m'.count) :: out)
          | none => ["bad-op"]
        | ["g", k] =>
          match k.toInt? with
          | some k => go rest m (toString (m.get k (-1)) :: out)
          | none => ["bad-op"]
        | ["c", k] =>
          match k.toInt? with
          | some k => go rest m ((if m.contains k then "1" else "0") :: out)
          | none => ["bad-op"]
        | ["s"] => go rest m (toString m.count :: out)
        | ["h"] => go rest m (toString (Avl.height m.root) :: out)
        | ["x"] => let m' := m.clear; go rest m' ((dumpTree m'.root ++ " " ++ toString m'.count) :: out)
        | _ => ["bad-op"]
    String.intercalate "|" (go opl Avl.Map.empty [])
  | _ => "bad-op"

def showOpt : Option Int → String
  | some v => toString v
  | none => "none"

def showList (l : List Int) : String := "[" ++ String.intercalate "," (l.map toString) ++ "]"

/-- vector ops "pb v;pf v;ob;of;d i;a i;f v;sa;sd;l;x": output per op = answer or the whole sequence -/
def c19Vec (fs : List (List Char)) : String :=
  match fs with
  | [ops] =>
    let opl := ((String.ofList ops).splitOn ";").filter (· ≠ "")
    let parse (op : String) : Option Seq.VOp :=
      match (op.splitOn " ").filter (· ≠ "") with
      | ["pb", v] => v.toInt?.map Seq.VOp.pushBack
      | ["pf", v] => v.toInt?.map Seq.VOp.pushFront
      | ["ob"] => some .popBack
      | ["of"] => some .popFront
      | ["d", i] => i.toNat?.map Seq.VOp.deleteAt
      | ["a", i] => i.toNat?.map Seq.VOp.at
      | ["f", v] => v.toInt?.map Seq.VOp.find
      | ["sa"] => some .sortAsc
      | ["sd"] => some .sortDesc
      | ["l"] => some .length
      | ["x"] => some .clear
      | _ => none
    let rec go (ops : List String) (l : List Int) (out : List String) : List String :=
      match ops with
      | [] => out.reverse
      | op :: rest =>
        match parse op with
        | none => ["bad-op"]
        | some o =>
          let (l', ans) := Seq.vstep l o
          go rest l' ((match ans with | some a => toString a | none => showList l') :: out)
    String.intercalate "|" (go opl [] [])
  | _ => "bad-op"

def c19Queue (fs : List (List Char)) : String :=
  match fs with
  | [ops] =>
    let opl := ((String.ofList ops).splitOn ";").filter (· ≠ "")
    let parse (op : String) : Option Seq.QOp :=
      match (op.splitOn " ").filter (· ≠ "") with
      | ["p", v] => v.toInt?.map Seq.QOp.push
      | ["o"] => some .pop
      | ["t"] => some .top
      | ["s"] => some .size
      | ["e"] => some .empty
      | ["x"] => some .clear
      | _ => none
    let rec go (ops : List String) (l : List Int) (out : List String) : List String :=
      match ops with
      | [] => out.reverse
      | op :: rest =>
        match parse op with
        | none => ["bad-op"]
        | some o =>
          let (l', ans) := Seq.qstep l o
          go rest l' ((match ans with | some a => toString a | none => "-") :: out)
    String.intercalate "|" (go opl [] [])
  | _ => "bad-op"

end Driver
