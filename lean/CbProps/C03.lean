/-
  C03 — operands are evaluated once, left to right, with short-circuit && || ?:
  Theorems about the reference semantics CbRef, for all expressions, programs and states.
-/
import CbProofs.RefInv
namespace CbProps.C03
open CbModel.Ref

/-- `a && b` does not evaluate `b` when `a` is false: whatever `b` is (failing, printing, looping),
    result and state are those after `a` alone -/
theorem and_false_skips_rhs (p : Prog) (fuel : Nat) (a b : Expr) (s s' : St)
    (ha : evalE p fuel a s = (.ok 0, s')) :
    evalE p (fuel + 1) (.bin .land a b) s = (.ok 0, s') := by
  unfold evalE
  simp only []
  show (M.bind (evalE p fuel a) _) s = _
  unfold M.bind
  rw [ha]
  rfl

/-- `a || b` does not evaluate `b` when `a` is true -/
theorem or_true_skips_rhs (p : Prog) (fuel : Nat) (a b : Expr) (s s' : St) (av : Int)
    (ha : evalE p fuel a s = (.ok av, s')) (hav : av ≠ 0) :
    evalE p (fuel + 1) (.bin .lor a b) s = (.ok 1, s') := by
  unfold evalE
  simp only [show (BinOp.lor == BinOp.land) = false from rfl, beq_self_eq_true, ↓reduceIte,
    Bool.false_eq_true]
  show (M.bind (evalE p fuel a) _) s = _
  unfold M.bind
  rw [ha]
  simp [hav]
  rfl

/-- `c ? x : y` evaluates only the selected branch -/
theorem ternary_evaluates_one_branch (p : Prog) (fuel : Nat) (c x y : Expr) (s s' : St) (cv : Int)
    (hc : evalE p fuel c s = (.ok cv, s')) :
    evalE p (fuel + 1) (.tern c x y) s = (if cv ≠ 0 then evalE p fuel x s' else evalE p fuel y s') := by
  conv => lhs; unfold evalE
  show (M.bind (evalE p fuel c) _) s = _
  unfold M.bind
  rw [hc]
  by_cases h : cv = 0 <;> simp [h]

/-- a strict binary operator evaluates its left operand, then its right operand, each exactly once,
    then combines the two values: the effects of the expression are those of `a` followed by those
    of `b` -/
theorem operands_left_to_right_once (p : Prog) (fuel : Nat) (op : BinOp) (a b : Expr)
    (h1 : op ≠ .land) (h2 : op ≠ .lor) :
    evalE p (fuel + 1) (.bin op a b) =
      (evalE p fuel a >>= fun av => evalE p fuel b >>= fun bv => liftRes (evalBin op av bv)) := by
  conv => lhs; unfold evalE
  have e1 : (op == BinOp.land) = false := by cases op <;> simp_all <;> rfl
  have e2 : (op == BinOp.lor) = false := by cases op <;> simp_all <;> rfl
  simp only [e1, e2, Bool.false_eq_true, ↓reduceIte]

/-- call arguments and index expressions are evaluated left to right, each once -/
theorem args_left_to_right_once (p : Prog) (fuel : Nat) (e : Expr) (es : List Expr) :
    evalEs p (fuel + 1) (e :: es) =
      (evalE p fuel e >>= fun v => evalEs p fuel es >>= fun vs => pure (v :: vs)) := by
  conv => lhs; unfold evalEs

/-- **Guards protect.**  `a && b` can fail only (i) while evaluating the guard `a` itself, or (ii) while
    evaluating `b` in the state reached after `a` produced a NON-ZERO value.  So a guarded operand
    (`n / d` behind `d != 0`, `arr[i]` behind `i < n`) is never evaluated when its guard is false. -/
theorem and_error_origin (p : Prog) (fuel : Nat) (a b : Expr) (s s2 : St) (k : ErrKind)
    (h : evalE p (fuel + 1) (.bin .land a b) s = (.err k, s2)) :
    evalE p fuel a s = (.err k, s2) ∨
    ∃ av s1, evalE p fuel a s = (.ok av, s1) ∧ av ≠ 0 ∧ evalE p fuel b s1 = (.err k, s2) := by
  conv at h => lhs; unfold evalE
  simp only [] at h
  change (M.bind (evalE p fuel a) _) s = _ at h
  unfold M.bind at h
  cases ha : evalE p fuel a s with
  | mk ra s1 =>
    rw [ha] at h
    cases ra with
    | ok av =>
      simp only at h
      by_cases hav : av = 0
      · subst hav; simp [pure, M.pure] at h
      · right
        refine ⟨av, s1, rfl, hav, ?_⟩
        simp only [beq_iff_eq, hav, ↓reduceIte] at h
        change (M.bind (evalE p fuel b) _) s1 = _ at h
        unfold M.bind at h
        cases hb : evalE p fuel b s1 with
        | mk rb s3 =>
          rw [hb] at h
          cases rb <;> simp_all [pure, M.pure]
    | err k' => left; simp only at h; exact h
    | _ => simp at h

/-- dividing by a value that is not zero is never a division-by-zero error -/
theorem div_nonzero_no_divzero (a b : Int) (hb : b ≠ 0) :
    evalBin .div a b ≠ .err .divzero ∧ evalBin .mod a b ≠ .err .divzero := by
  constructor
  · simp only [evalBin, beq_iff_eq, hb, ↓reduceIte, checkI64]; split <;> simp
  · simp only [evalBin, beq_iff_eq, hb, ↓reduceIte, checkI64]; split <;> (try split) <;> simp

/-- **Assignment operands, left to right.**  In `lv = e` the index expressions of the target are evaluated
    before `e`: when the target fails (say an index out of bounds), `e` is never evaluated — result and
    state are those after the target alone -/
theorem assign_target_before_rhs (p : Prog) (fuel : Nat) (lv e : Expr) (s s' : St) (k : ErrKind)
    (h : evalLV p fuel lv s = (.err k, s')) :
    execS p (fuel + 1) (.assign lv e) s = (.err k, s') := by
  unfold execS
  show (M.bind (evalLV p fuel lv) _) s = _
  unfold M.bind
  rw [h]

/-- ... and when the target is fine, the right-hand side is evaluated next, in the state the target left -/
theorem assign_rhs_after_target (p : Prog) (fuel : Nat) (lv e : Expr) (s s1 s2 : St) (r : LRef) (v : Int)
    (h1 : evalLV p fuel lv s = (.ok r, s1)) (h2 : evalE p fuel e s1 = (.ok v, s2)) :
    execS p (fuel + 1) (.assign lv e) s = writeRef r v s2 := by
  unfold execS
  show (M.bind (evalLV p fuel lv) _) s = _
  unfold M.bind
  rw [h1]
  show (M.bind (evalE p fuel e) _) s1 = _
  unfold M.bind
  rw [h2]

end CbProps.C03
