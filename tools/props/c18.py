"""C18 — imports expose exactly the exports, once, independent of repetition and order.

Theorems: lean/CbProps/C18.lean on the mechanism model CbModel/Imports.lean (exactly the exports are registered,
hidden items stay unresolvable, a second import is a no-op, after any import list a name resolves iff an imported
module exports it, order and repetition are irrelevant).
Tie: generated module sets (<= 5 modules in nested directories, each exporting / hiding a random subset of
functions with statics (called by their plain name and, for single-component module names, also as m.f), constants, exported global variables with a function that changes them, structs with interface + impl, enums, typedefs; modules import each other (incl. self-imports and import cycles):
chains and diamonds).  (P) the importing program uses every item the model says is visible: its output must equal
the single-file program with all definitions inlined, for several permutations / duplications of the import list;
(N) a program naming one item the model says is NOT visible (hidden, or exported by a module that is not imported)
must be rejected.
"""
import json, os
import common
from common import Rng, esc
from props.refprops import all_findings

PID = "C18"
THEOREMS = {"CbProps.C18": ["CbProps.C18." + t for t in [
    "import_exact", "hidden_not_visible", "import_idempotent", "lookup_after_imports",
    "imports_order_and_repetition_irrelevant", "import_never_hides"]]}

KINDS = ["func", "const", "struct", "enum", "typedef", "gvar"]
DIRS = ["", "a", "a.b", "lib", "lib.x.y"]


class Item:
    def __init__(self, kind, name, exported, body, param):
        self.kind, self.name, self.exported, self.body, self.param = kind, name, exported, body, param

    def define(self, export_kw):
        e = "export " if (export_kw and self.exported) else ""
        n, p = self.name, self.param
        if self.kind == "func":
            callee = p[1]
            inner = ("%s(a) + " % callee) if callee else ""
            return "%sint %s(int a) {\n    static int calls = 0;\n    calls++;\n    return %sa * %d + calls;\n}\n" % (e, n, inner, p[0])
        if self.kind == "const":
            return "%sconst int %s = %d;\n" % (e, n, p[0])
        if self.kind == "gvar":
            # exported mutable state with an exported function that changes it
            return "%sint %s = %d;\n%sint bump%s(int d) {\n    %s = %s + d;\n    return %s;\n}\n" % (e, n, p[0] * 10, e, n, n, n, n)
        if self.kind == "struct":
            return ("%sstruct %s { int x; int y; };\n%sinterface I%s { int area%s(); }\n%simpl I%s for %s {\n    int area%s() { return self.x * self.y + %d; }\n}\n"
                    "%svoid set%s(%s* q, int v) {\n    q->x = v;\n}\n"
                    % (e, n, e, n, n, e, n, n, n, p[0], e, n, n))
        if self.kind == "enum":
            return "%senum %s { A%s, B%s, C%s };\n" % (e, n, n, n, n)
        if self.kind == "typedef":
            return "%stypedef %s = int;\n" % (e, n)

    def use(self, k, qual=None):
        """qual: module name for an additional call through the qualified name m.f (single-component module paths only); the
        inlined twin (qual=None, twice=True) makes the same calls unqualified"""
        n, p = self.name, self.param
        if self.kind == "func":
            if qual == "":
                return "    println(\"%s\", %s(%d));\n    println(\"%s\", %s(%d));\n    println(\"%s\", %s(%d));\n" % (n, n, k, n, n, k + 1, n, n, k + 2)
            if qual:
                return "    println(\"%s\", %s(%d));\n    println(\"%s\", %s.%s(%d));\n    println(\"%s\", %s(%d));\n" % (n, n, k, n, qual, n, k + 1, n, n, k + 2)
            return "    println(\"%s\", %s(%d));\n" % (n, n, k)
        if self.kind == "const":
            return "    println(\"%s\", %s);\n" % (n, n)
        if self.kind == "gvar":
            return "    println(\"%s\", %s);\n    println(\"%s\", bump%s(%d));\n    println(\"%s\", %s);\n" % (n, n, n, n, k + 1, n, n)
        if self.kind == "struct":
            return ("    %s v%d;\n    v%d.x = %d;\n    v%d.y = 3;\n    println(\"%s\", v%d.x, v%d.area%s());\n" % (n, k, k, k + 2, k, n, k, k, n) +
                    "    %s* pv%d = &v%d;\n    pv%d->y = %d;\n    set%s(&v%d, %d);\n    println(\"%s\", v%d.x, v%d.y, pv%d->x, v%d.area%s());\n" % (
                        n, k, k, k, k + 5, n, k, k + 20, n, k, k, k, k, n))
        if self.kind == "enum":
            return "    %s v%d = %s::B%s;\n    println(\"%s\", v%d);\n" % (n, k, n, n, n, k)
        if self.kind == "typedef":
            return "    %s v%d = %d;\n    println(\"%s\", v%d);\n" % (n, k, k + 10, n, k)


class Mod:
    def __init__(self, idx, path, items, imports):
        self.idx, self.path, self.items, self.imports = idx, path, items, imports


def gen_modules(r, prefix):
    nm = r.range(1, 5)
    mods = []
    body = [0]
    flat = r.chance(30)         # single-component module names: their functions are also called as m.f(...)
    for i in range(nm):
        d = "" if flat else r.choice(DIRS)
        path = ".".join(x for x in [("" if flat else prefix), d, "m%d" % i] if x)
        # a module may import earlier modules (chains, diamonds)
        imports = [m.path for m in mods if r.chance(35)]
        items = []
        for j in range(r.range(1, 5)):
            kind = r.choice(KINDS) if j else "func"
            body[0] += 1
            name = {"func": "f", "const": "K", "struct": "S", "enum": "E", "typedef": "T", "gvar": "G"}[kind] + "%d_%d" % (i, j)
            exported = r.chance(60)
            callee = None
            if kind == "func" and imports and r.chance(50):
                # call an exported function of an imported module (visible where this one is written)
                cands = [it.name for m in mods if m.path in imports for it in m.items if it.kind == "func" and it.exported]
                if cands:
                    callee = r.choice(cands)
            items.append(Item(kind, name, exported, body[0], (r.range(1, 9), callee)))
        mods.append(Mod(i, path, items, imports))
    # cycles: a module may also import itself or a LATER module (import statements only — no new call edges); importing is
    # idempotent, so the program must behave as without them
    for m in mods:
        if r.chance(15):
            m.imports = m.imports + [m.path]
        if r.chance(15):
            later = [x.path for x in mods if x.idx > m.idx]
            if later:
                m.imports = m.imports + [r.choice(later)]
    return mods


def module_file(m):
    return "".join("import %s;\n" % p for p in m.imports) + "".join(it.define(True) for it in m.items)


def module_files(mods):
    return {m.path.replace(".", "/") + ".cb": module_file(m) for m in mods}


def needed_closure(mods, paths):
    """module paths whose functions are (transitively) called by exported functions of the given modules"""
    by = {m.path: m for m in mods}
    owner = {it.name: m.path for m in mods for it in m.items}
    out, todo = set(), list(paths)
    while todo:
        p = todo.pop()
        if p in out:
            continue
        out.add(p)
        for it in by[p].items:
            if it.kind == "func" and it.param[1]:
                todo.append(owner[it.param[1]])
    return out


def inlined(mods, main_body):
    return "".join(it.define(False) for m in mods for it in m.items) + main_body


def model_line(mods, imports, names):
    ms = "|".join("%s:%s" % (m.path, ";".join("%s,%d,%d" % (it.name, 1 if it.exported else 0, it.body) for it in m.items)) for m in mods)
    return "\t".join([esc(ms), esc(" ".join(imports)), esc(" ".join(names))])


def main(a):
    v = common.Verdict(PID, a.tier, a.seed)
    driver_ok, failed = common.lean_obligations(v, ["CbProofs", "CbProps.C18"], THEOREMS)
    exe, blog = common.build_impl()
    if exe is None or not driver_ok:
        v.violation("cannot build the interpreter / driver: " + (blog or "")[-600:], {"log": (blog or "")[-2000:]}, no_input=True)
        return v.finish()
    drv = common.driver_path()
    quick = a.tier == "quick"
    findings = [f for f in all_findings() if f["property"] == PID]
    listed = {f["id"]: f for f in findings}
    cell_known = {}
    reported = [0]
    census = {}
    nontrivial = set()
    r = Rng(a.seed, 181)

    def report(suite, what, replay, cell=None):
        if os.environ.get("CB_VERIF_CENSUS"):
            census.setdefault((suite, cell), []).append(what)
            return
        if cell and cell in listed:
            cell_known[cell] = cell_known.get(cell, 0) + 1
            return
        if reported[0] >= 6:
            return
        reported[0] += 1
        replay["suite"] = suite
        v.violation("suite %s: %s" % (suite, what), replay)

    if a.replay:
        rp = json.load(open(a.replay))
        o = common.run_programs(exe, [(rp["program"], (), rp.get("files", {}))], timeout=10)[0]
        bad = (o[1] != "error") if rp.get("expect_rejected") else (o[0] != rp["expected_stdout"] or o[1] != "ok")
        if bad:
            report("replay", "got %r (%s)" % (o[0][-120:], o[1]), rp)
        return v.finish()

    ncases = 60 if quick else 10000
    progs, metas, lines = [], [], []
    for k in range(ncases):
        prefix = "k%d" % k
        mods = gen_modules(r, prefix)
        files = module_files(mods)
        # the program imports a subset of the modules; transitive needs are imported directly as well unless the
        # case is a "transitive-only" case (listed finding)
        chosen = [m.path for m in mods if r.chance(75)] or [mods[0].path]
        trans_only = r.chance(12)
        needed = needed_closure(mods, chosen)
        imports = list(chosen) if trans_only else [m.path for m in mods if m.path in needed]
        all_items = [(m, it) for m in mods for it in m.items]
        names = [it.name for _, it in all_items]
        lines.append(model_line(mods, imports, names))
        metas.append((mods, files, imports, trans_only, chosen, all_items))
    _, mo, _ = common.run_lines_parallel([drv, "c18"], lines)
    dist = {"positive": 0, "negative": 0, "permutations": 0}
    jobs = []   # (kind, program tuple, meta)
    for (mods, files, imports, trans_only, chosen, all_items), m in zip(metas, mo):
        vis = [x.startswith("some") for x in m.split(";")]
        visible = [(mm, it) for (mm, it), s in zip(all_items, vis) if s]
        hidden = [(mm, it) for (mm, it), s in zip(all_items, vis) if not s]
        def qual_of(mm, it):
            return mm.path if (it.kind == "func" and "." not in mm.path and mm.path in imports) else None
        uses = "".join(it.use(3 * k, qual_of(mm, it)) for k, (mm, it) in enumerate(visible))
        uses_twin = "".join(it.use(3 * k, "" if qual_of(mm, it) else None) for k, (mm, it) in enumerate(visible))
        # selective form `import m { a, b };` listing every visible name of m (modules whose visible items are functions,
        # constants and global variables only): equivalent to `import m;` for this program.  A selective import is also repeated
        # INSIDE main after the module's state has changed: importing again must not re-run the module's initialisers
        by_mod = {}
        for (mm, it) in visible:
            by_mod.setdefault(mm.path, []).append(it)
        sel = {}
        for pth, its in by_mod.items():
            if all(it.kind in ("func", "const", "gvar") for it in its) and pth in imports:
                names_ = []
                for it in its:
                    names_ += [it.name] + (["bump" + it.name] if it.kind == "gvar" else [])
                sel[pth] = "import %s { %s };\n" % (pth, ", ".join(names_))
        reimport, recheck = "", ""
        for pth, its in by_mod.items():
            gv = [it for it in its if it.kind == "gvar"]
            if gv and pth in sel and r.chance(60):
                reimport += "    " + sel[pth]
                recheck += "".join("    println(\"again %s\", %s);\n" % (it.name, it.name) for it in gv)
        body = "int main() {\n" + uses + reimport + recheck + "    println(\"END\");\n    return 0;\n}\n"
        twin = inlined(mods, "int main() {\n" + uses_twin + recheck + "    println(\"END\");\n    return 0;\n}\n")
        missing = trans_only and (needed_closure(mods, imports) - set(imports))
        cell = "transitive_import_not_loaded" if missing else None
        # several import orders / duplications
        orders = [list(imports)]
        for _ in range(2):
            o = list(imports)
            for i in range(len(o) - 1, 0, -1):
                j = r.below(i + 1)
                o[i], o[j] = o[j], o[i]
            if r.chance(60) and o:
                o.insert(r.below(len(o) + 1), r.choice(o))
            orders.append(o)
        jobs.append(("twin", (twin, (), {}), None))
        for oi, o in enumerate(orders):
            prog = "".join((sel[p] if (p in sel and r.chance(40)) else "import %s;\n" % p) for p in o) + body
            jobs.append(("pos", (prog, (), files), {"imports": o, "cell": cell, "files": files, "visible": [it.name for _, it in visible]}))
            dist["permutations" if oi else "positive"] += 1
        # negatives: up to 3 invisible items
        for (mm, it) in hidden[:3]:
            prog = "".join("import %s;\n" % p for p in imports) + "int main() {\n" + it.use(0) + "    println(\"END\");\n    return 0;\n}\n"
            jobs.append(("neg", (prog, (), files), {"item": it.name, "kind": it.kind, "exported": it.exported, "module_imported": mm.path in imports,
                                                    "files": files, "imports": imports}))
            dist["negative"] += 1
        # negatives through the qualified form: m2.f where f is a visible function of ANOTHER imported module, or a function
        # defined in the importing file itself: the dotted path names exactly m2's exports
        flat = [p for p in imports if "." not in p]
        qn = 0
        for (mm, it) in visible:
            if it.kind != "func" or qn >= 2:
                continue
            others = [p for p in flat if p != mm.path and it.name not in [x.name for m2 in mods if m2.path == p for x in m2.items]]
            if not others:
                continue
            qn += 1
            prog = "".join("import %s;\n" % p for p in imports) + "int main() {\n    println(\"start\");\n    println(%s.%s(1));\n    println(\"END\");\n    return 0;\n}\n" % (others[0], it.name)
            jobs.append(("neg", (prog, (), files), {"item": others[0] + "." + it.name, "kind": "qualified-other-module", "exported": it.exported, "module_imported": True,
                                                    "files": files, "imports": imports}))
            dist["negative"] += 1
        if flat:
            prog = "".join("import %s;\n" % p for p in imports) + "int zz_local_fn(int k) {\n    return k + 1;\n}\nint main() {\n    println(\"start\", zz_local_fn(1));\n    println(%s.zz_local_fn(1));\n    println(\"END\");\n    return 0;\n}\n" % flat[0]
            jobs.append(("neg", (prog, (), files), {"item": flat[0] + ".zz_local_fn", "kind": "qualified-importer-function", "exported": False, "module_imported": True,
                                                    "files": files, "imports": imports}))
            dist["negative"] += 1
    outs = common.run_programs(exe, [j[1] for j in jobs], timeout=10)
    twin_out = None
    for (kind, prog, meta), o in zip(jobs, outs):
        if kind == "twin":
            twin_out = o
            continue
        if kind == "pos":
            nontrivial.add(("pos", tuple(meta["imports"]), tuple(meta["visible"])))
            if twin_out[1] != "ok":
                continue      # the inlined program itself fails: not a statement about imports
            if o[0] != twin_out[0] or o[1] != "ok":
                report("imports-vs-inlined", "imports %s: expected (inlined single file) %r got %r (%s) %s" % (
                    meta["imports"], twin_out[0][-100:], o[0][-100:], o[1], o[2][-120:].replace("\n", " ")),
                    {"program": prog[0], "files": meta["files"], "expected_stdout": twin_out[0], "impl_stdout": o[0],
                     "impl_exit_class": o[1], "impl_stderr": o[2]}, cell=meta["cell"])
        else:
            nontrivial.add(("neg", meta["item"], meta["kind"], meta["exported"], meta["module_imported"]))
            if o[1] != "error":
                cell = "unimported_module_item_visible" if not meta["module_imported"] else "hidden_%s_visible" % meta["kind"]
                report("hidden-names", "item %s (%s, exported=%s, its module imported=%s) can be named: got %r (%s)" % (
                    meta["item"], meta["kind"], meta["exported"], meta["module_imported"], o[0][-80:], o[1]),
                    {"program": prog[0], "files": meta["files"], "expect_rejected": True, "impl_stdout": o[0], "impl_exit_class": o[1]}, cell=cell)
    for key, whats in sorted(census.items(), key=lambda kv: str(kv[0])):
        common.log("CENSUS %s x%d: %s" % (key, len(whats), whats[0][:400]))
    for f in findings:
        if f["id"] in cell_known:
            v.known_finding(f["what"] + " [%d cases]" % cell_known[f["id"]])
    v.replay_witnesses(exe, findings, already=set(cell_known))
    v.coverage.update({
        "evaluations": len(jobs), "distinct_nontrivial": len(nontrivial), "distribution": dist,
        "rule": "module sets of 1-5 modules in nested directories (dotted paths), 1-5 items each (functions with a static call "
                "counter, some calling exported functions of imported modules; constants; struct+interface+impl; enums; "
                "typedefs), each exported with probability 0.6; modules import earlier modules (chains, diamonds). The program "
                "imports a subset (plus what the exported functions need); positive: every item the model says is visible is "
                "used, output compared with the single-file inlined program, for the given order and 2 shuffled / duplicated "
                "orders; negative: items the model says are not visible must be rejected. non-trivial = distinct (import "
                "list, visible set) / distinct invisible item",
        "exhaustive": False})
    v.assumptions += ["item names are unique across modules (the model's DisjointExports hypothesis)",
                      "selective imports (`import m.{a, b}`) and aliases are not generated",
                      "generic structs / generic impls in modules are not generated"]
    return v.finish()
