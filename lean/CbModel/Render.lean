/-
  C16 — rendering of values by print/println, printf-style format strings and string
  interpolation.  Pure functions; core Lean only.
-/
namespace CbModel.Render

def digitChar (d : Nat) : Char := Char.ofNat (48 + d)

def hexChar (upper : Bool) (d : Nat) : Char :=
  if d < 10 then Char.ofNat (48 + d) else Char.ofNat ((if upper then 55 else 87) + d)

/-- digits of `n` in base `b` (2 ≤ b), most significant first; `0` renders as "0" -/
def natDigits (b : Nat) (hb : 2 ≤ b) (n : Nat) : List Nat :=
  if h : n < b then [n] else natDigits b hb (n / b) ++ [n % b]
termination_by n
decreasing_by exact Nat.div_lt_self (by omega) (by omega)

def renderNat (n : Nat) : List Char := (natDigits 10 (by decide) n).map digitChar

/-- decimal rendering: optional minus sign, no leading zeros, no plus sign -/
def renderDec (n : Int) : List Char :=
  if n < 0 then '-' :: renderNat n.natAbs else renderNat n.natAbs

/-- the 64-bit two's-complement bit pattern of `n` -/
def toU64 (n : Int) : Nat := (n % 18446744073709551616).toNat

def renderHex (upper : Bool) (n : Int) : List Char :=
  (natDigits 16 (by decide) (toU64 n)).map (hexChar upper)

def renderBin (n : Int) : List Char := (natDigits 2 (by decide) (toU64 n)).map digitChar

def padLeft (w : Nat) (c : Char) (s : List Char) : List Char := List.replicate (w - s.length) c ++ s
def padRight (w : Nat) (c : Char) (s : List Char) : List Char := s ++ List.replicate (w - s.length) c

/-- zero padding keeps the sign in front (C printf's `%0Nd`) -/
def zeroPadDec (w : Nat) (n : Int) : List Char :=
  if n < 0 then '-' :: padLeft (w - 1) '0' (renderNat n.natAbs) else padLeft w '0' (renderNat n.natAbs)

/-! ## reading numbers back (used by the round-trip theorems) -/

def digitVal (c : Char) : Nat := c.toNat - 48

def parseNat (s : List Char) : Nat := s.foldl (fun acc c => acc * 10 + digitVal c) 0

def parseDec : List Char → Int
  | '-' :: r => -(parseNat r : Int)
  | s => (parseNat s : Int)

def hexVal (c : Char) : Nat :=
  if c.toNat < 58 then c.toNat - 48 else if c.toNat < 71 then c.toNat - 55 else c.toNat - 87

def parseHex (s : List Char) : Nat := s.foldl (fun acc c => acc * 16 + hexVal c) 0

/-! ## format specifications -/

/-- interpolation `{e:spec}` -/
inductive ISpec where
  | plain
  | hex (upper : Bool)
  | bin
  | dec (zero : Bool) (width : Nat)     -- :0Nd / :Nd
  deriving Repr, BEq, DecidableEq, Inhabited

def renderISpec (sp : ISpec) (n : Int) : List Char :=
  match sp with
  | .plain => renderDec n
  | .hex u => renderHex u n
  | .bin => renderBin n
  | .dec true w => zeroPadDec w n
  | .dec false w => padLeft w ' ' (renderDec n)

/-- one printf argument -/
inductive PArg where
  | int (n : Int)
  | str (s : List Char)
  deriving Repr, Inhabited

def PArg.plain : PArg → List Char
  | .int n => renderDec n
  | .str s => s

/-- a parsed conversion: flags, width, kind -/
structure Conv where
  left : Bool
  zero : Bool
  width : Nat
  kind : Char        -- 'd' (also for lld) 's' 'c'
  deriving Repr

def renderConv (c : Conv) (a : PArg) : List Char :=
  let body : List Char :=
    match c.kind, a with
    | 'd', .int n => if c.zero && !c.left then zeroPadDec c.width n else renderDec n
    | 'c', .int n => [Char.ofNat n.toNat]
    | _, a => a.plain
  if c.left then padRight c.width ' ' body else padLeft c.width ' ' body

/-- scan a conversion after '%': returns the conversion and the rest, or none if not one of
    `%[-][0][width](d|lld|s|c)` -/
def scanConv (s : List Char) : Option (Conv × List Char) :=
  let (left, s) := match s with | '-' :: r => (true, r) | _ => (false, s)
  let (zero, s) := match s with | '0' :: r => (true, r) | _ => (false, s)
  let ds := s.takeWhile Char.isDigit
  let s := s.dropWhile Char.isDigit
  let w := parseNat ds
  match s with
  | 'd' :: r => some (⟨left, zero, w, 'd'⟩, r)
  | 'l' :: 'l' :: 'd' :: r => some (⟨left, zero, w, 'd'⟩, r)
  | 's' :: r => some (⟨left, zero, w, 's'⟩, r)
  | 'c' :: r => some (⟨left, zero, w, 'c'⟩, r)
  | _ => none

/-- printf body: `%%` is a percent sign; a conversion consumes the next argument (when none is left
    the conversion text stays).  Returns the text and the arguments no conversion consumed. -/
def printfGo : Nat → List Char → List PArg → List Char × List PArg
  | 0, _, args => ([], args)
  | _ + 1, [], args => ([], args)
  | fuel + 1, '%' :: '%' :: r, args => let (t, a) := printfGo fuel r args; ('%' :: t, a)
  | fuel + 1, '%' :: r, args =>
    match scanConv r, args with
    | some (c, r'), a :: as => let (t, rest) := printfGo fuel r' as; (renderConv c a ++ t, rest)
    | _, _ => let (t, a) := printfGo fuel r args; ('%' :: t, a)
  | fuel + 1, c :: r, args => let (t, a) := printfGo fuel r args; (c :: t, a)

/-- surplus arguments are appended, separated by single spaces (no leading space on an empty line) -/
def appendExtras (acc : List Char) : List PArg → List Char
  | [] => acc
  | a :: as => appendExtras (if acc.isEmpty then a.plain else acc ++ ' ' :: a.plain) as

def printf (fmt : List Char) (args : List PArg) : List Char :=
  let (t, rest) := printfGo (fmt.length + 1) fmt args
  appendExtras t rest

/-- does a literal contain a conversion (then it is a format string)? -/
def hasConv : List Char → Bool
  | [] => false
  | '%' :: '%' :: r => hasConv r
  | '%' :: r => (scanConv r).isSome || hasConv r
  | _ :: r => hasConv r

end CbModel.Render

namespace CbModel.Render

/-- interpolation text: literal braces are written doubled -/
def escBraces : List Char → List Char
  | [] => []
  | '{' :: r => '{' :: '{' :: escBraces r
  | '}' :: r => '}' :: '}' :: escBraces r
  | c :: r => c :: escBraces r

def unescBraces : List Char → List Char
  | [] => []
  | '{' :: '{' :: r => '{' :: unescBraces r
  | '}' :: '}' :: r => '}' :: unescBraces r
  | c :: r => c :: unescBraces r

end CbModel.Render
