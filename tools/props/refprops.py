"""Shared driver of the CbRef-based checks (C01, C03, C04, C08, C09, ...)."""
import json, os
import common, refrun, gen_core


def all_findings():
    p = os.path.join(common.ROOT, "known_findings.json")
    return json.load(open(p)).get("findings", []) if os.path.exists(p) else []


def all_gates():
    """every generator gate closed by any listed finding (a finding of one property also affects the
    programs other properties' generators may emit)"""
    g = set()
    for f in all_findings():
        g |= set(f.get("gates", []))
    return g


class RefCheck:
    def __init__(self, pid, a, modules, theorems, translators=()):
        self.pid, self.a = pid, a
        self.v = common.Verdict(pid, a.tier, a.seed)
        tfailed = common.run_translators(self.v, translators) if translators else []
        self.driver_ok, self.failed = common.lean_obligations(self.v, modules, theorems)
        self.failed = tfailed + self.failed
        self.reported_ids = set()
        self.exe = None
        self.gates = all_gates()
        self.evals = 0
        self.nontrivial = set()
        self.samples = []
        self.dist = {}
        self.status_hist = {}
        self.discarded = 0
        self.reported = 0
        self.cell_known = {}

    def build(self, sanitize=False):
        if not self.driver_ok:
            self.v.violation("the Lean model/driver does not build", {"theorem": "build:cbdriver"}, no_input=True)
            return False
        self.exe, blog = common.build_impl(sanitize)
        if self.exe is None:
            self.v.violation("the interpreter does not build from the working tree: " + blog[-600:],
                             {"correspondence": "cbdriver ref vs interpreter", "log": blog[-3000:]}, no_input=True)
            return False
        return True

    def replay(self, path):
        rp = json.load(open(path))
        res, bad, _ = refrun.run_suite(self.exe, [rp["sexp"]])
        if bad:
            self.v.violation("replay still fails", refrun.replay_obj(bad[0]))
        else:
            common.log("replay: model %s, implementation agrees" % res[0].status)
        return self.v.finish()

    def witnesses(self):
        """replay the witness of every listed finding of this property"""
        for f in all_findings():
            if f["property"] != self.pid or "witness" not in f:
                continue
            w = json.load(open(os.path.join(common.ROOT, f["witness"])))
            if "sexp" not in w:
                # a witness given as program text with the output the property demands
                if "program" in w and "expected_stdout" in w:
                    o = common.run_programs(self.exe, [w["program"]], timeout=10)[0]
                    self.evals += 1
                    if o[0] != w["expected_stdout"] or o[1] != w.get("expected_class", "ok"):
                        self.v.known_finding(f["what"])
                        self.reported_ids.add(f["id"])
                continue
            res, bad, _ = refrun.run_suite(self.exe, [w["sexp"]])
            self.evals += 1
            if bad:
                self.v.known_finding(f["what"])
                self.reported_ids.add(f["id"])
            elif res and refrun.expected_class(res[0].status) is None:
                common.log("witness %s: model says %s (not comparable)" % (f["id"], res[0].status))

    def suite(self, name, sexps, nontrivial=None, known_cell=None, max_report=3, shrink=True, timeout=5, source_transform=None):
        """run a list of programs; report property-level mismatches.
        nontrivial: fn(RefResult) -> hashable key or None.  known_cell: fn(RefResult) -> finding id or None,
        for finite matrices whose failing cells are listed findings."""
        sexps = list(sexps)
        if not sexps:
            return
        res, bad, disc = refrun.run_suite(self.exe, sexps, gates=self.gates, timeout=timeout, source_transform=source_transform)
        if source_transform:
            shrink = False      # the shrinker works on the S-expression, the rewriting on the rendered text
        self.evals += len(sexps) - disc
        self.discarded += disc
        self.dist[name] = self.dist.get(name, 0) + len(sexps)
        for k, r in enumerate(res):
            self.status_hist[r.status] = self.status_hist.get(r.status, 0) + 1
            if nontrivial:
                key = nontrivial(r)
                if key is not None:
                    self.nontrivial.add((name, key))
            if k % 97 == 0 and len(self.samples) < 8 and r.source:
                self.samples.append({"suite": name, "model_status": r.status, "program": r.source[:600]})
        for r in bad:
            if known_cell:
                fid = known_cell(r)
                if fid:
                    self.cell_known[fid] = self.cell_known.get(fid, 0) + 1
                    continue
            if self.reported >= max_report:
                continue
            self.reported += 1
            # shrinking is skipped when the check is already running long
            import time
            shrink_now = shrink and (time.time() - self.v.t0) < 240
            small = refrun.shrink_mismatch(self.exe, r, self.gates) if shrink_now else r
            self.v.violation("suite %s: model says %s / %r..., implementation %s / %r..." % (
                name, small.status, small.stdout[-80:], small.impl_class, (small.impl_out or "")[-80:]),
                refrun.replay_obj(small, {"suite": name, "original_sexp": r.sexp}))

    def finish(self, rule, extra=None, assumptions=()):
        for fid, n in self.cell_known.items():
            f = [x for x in all_findings() if x["id"] == fid]
            if f and fid not in self.reported_ids:
                self.v.known_finding(f[0]["what"] + " [%d matrix cells]" % n)
        # a proof obligation / translator that no longer checks, with no failing input found by the suites
        if self.failed and self.v.violations == 0:
            self.v.violation("obligations no longer check: %s; the suites of this run found no input on which the "
                             "implementation violates the property" % ", ".join(self.failed),
                             {"failed_obligations": self.failed}, no_input=True)
        cov = {"evaluations": self.evals, "distinct_nontrivial": len(self.nontrivial), "rule": rule,
               "samples": self.samples, "suite_sizes": self.dist, "model_status_histogram": self.status_hist,
               "discarded_outside_fragment": self.discarded, "gates_closed": sorted(self.gates),
               "known_finding_matrix_cells": dict(self.cell_known)}
        if extra:
            cov.update(extra)
        self.v.coverage.update(cov)
        self.v.assumptions += list(assumptions)
        return self.v.finish()


def raw_suite(self, name, cases, max_report=3):
    """cases: list of dicts {id, program, expect_class, expect_stdout (optional), finding (optional id)}.
    Programs whose oracle is stated directly by the property (e.g. "is rejected")."""
    if not cases:
        return
    outs = common.run_programs(self.exe, [c["program"] for c in cases], timeout=5)
    self.evals += len(cases)
    self.dist[name] = self.dist.get(name, 0) + len(cases)
    listed = {f["id"] for f in all_findings() if f["property"] == self.pid}
    for c, o in zip(cases, outs):
        self.nontrivial.add((name, c["id"]))
        ok = o[1] == c["expect_class"] and (c.get("expect_stdout") is None or o[0] == c["expect_stdout"])
        if ok:
            continue
        fid = c.get("finding")
        if fid and fid in listed:
            self.cell_known[fid] = self.cell_known.get(fid, 0) + 1
            continue
        if self.reported >= max_report + 3:
            continue
        self.reported += 1
        self.v.violation("suite %s case %s: expected exit class %s%s, got %s / %r" % (
            name, c["id"], c["expect_class"], (" and stdout %r" % c["expect_stdout"]) if c.get("expect_stdout") is not None else "",
            o[1], o[0][-120:]),
            {"suite": name, "case": c["id"], "program": c["program"], "expected_class": c["expect_class"],
             "expected_stdout": c.get("expect_stdout"), "impl_stdout": o[0], "impl_exit_class": o[1], "impl_stderr": o[2]})


RefCheck.raw_suite = raw_suite
