#!/bin/bash
# development helper (NOT used by registered checks): incremental -DCB_VERIF build of /repo's working tree
mkdir -p /var/tmp/devbuild && rsync -a --exclude '*.o' --exclude /main --exclude .git --exclude /tests --exclude /docs /repo/ /var/tmp/devbuild/ && cd /var/tmp/devbuild && find . -name "*.o" -delete && rm -f main && make -j16 main CFLAGS="-g0 -O1 -std=c++17 -I. -Isrc -Isrc/backend/interpreter -DCB_VERIF" > build.log 2>&1 && echo /var/tmp/devbuild/main
