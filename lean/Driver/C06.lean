import CbModel.Cleanup
import CbModel.CleanupCompound
import CbModel.Sexp
import Driver.Proto
namespace Driver
open CbModel CbModel.Cleanup

mutual
partial def readSk (s : Sexp) : Option Sk :=
  match s with
  | .list [.atom "obj", .atom n] => n.toNat?.map Sk.obj
  | .list [.atom "defer", .atom n] => n.toNat?.map Sk.defer
  | .list [.atom "mark", .atom n] => n.toNat?.map Sk.mark
  | .list (.atom "block" :: b) => (readSks b).map Sk.block
  | .list (.atom "if" :: .atom t :: b) => (readSks b).map (Sk.ifS (t == "1"))
  | .list (.atom "loop" :: .atom n :: b) => do let n ← n.toNat?; let b ← readSks b; pure (Sk.loop n b)
  | .list [.atom "call", .atom f] => f.toNat?.map Sk.call
  | .list [.atom "ret"] => some .ret
  | .list [.atom "brk"] => some .brk
  | .list [.atom "cont"] => some .cont
  | _ => none
partial def readSks (l : List Sexp) : Option (List Sk) := l.mapM readSk
end

def showEv : Ev → String
  | .ctor n => "c" ++ toString n
  | .dtor n => "d" ++ toString n
  | .dfr n => "f" ++ toString n
  | .mark n => "m" ++ toString n

def showSig : Sig → String
  | .norm => "norm" | .ret => "ret" | .brk => "brk" | .cont => "cont" | .oof => "oof"

/-- field: (funcs (f stmt...) (f stmt...) ...) ; output: sig, mechanism events, spec events, depths,
    `expand` of the spec events (what is expected when objects are rendered in compound forms, CbModel/CleanupCompound.lean),
    whether every object id is in 1..99 (hypothesis of the compound-object theorem) -/
def c06Line (fs : List (List Char)) : String :=
  match fs with
  | [src] =>
    match Sexp.parse (String.ofList src) with
    | some (.list (.atom "funcs" :: fl)) =>
      match fl.mapM (fun f => match f with | .list (.atom "f" :: b) => readSks b | _ => none) with
      | some funcs =>
        let (sg, st) := run funcs 400
        let (sg2, evs) := srun funcs 400
        String.intercalate "\t" [showSig sg, String.intercalate " " (st.out.map showEv), showSig sg2,
          String.intercalate " " (evs.map showEv), toString st.D.length, toString st.X.length,
          String.intercalate " " ((expand evs).map showEv), if idsOk funcs then "1" else "0"]
      | none => "bad-op"
    | _ => "bad-op"
  | _ => "bad-op"

end Driver
