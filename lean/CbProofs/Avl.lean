/-
  Proofs about the functional model of stdlib/std/map.cb (CbModel/Avl.lean): invariants, finite-map
  refinement, size, Fibonacci bound, Map wrapper.
-/
import CbModel.Avl
import CbProofs.AvlBasic
import CbProofs.AvlOps
import CbProofs.AvlBal
namespace CbModel.Avl

/-- insertion keeps the search-tree order, the stored heights and the AVL balance -/
theorem insert_inv (t : Tree) (k v : Int) (h : Inv t) : Inv (insert t k v) := by
  obtain ⟨h1, h2, h3⟩ := h
  obtain ⟨i1, i2, _, _⟩ := insert_hb t k v h2 h3
  exact ⟨bst_insert t k v h1, i1, i2⟩

/-- removal keeps the search-tree order, the stored heights and the AVL balance -/
theorem remove_inv (t : Tree) (k : Int) (h : Inv t) : Inv (remove t k) := by
  obtain ⟨h1, h2, h3⟩ := h
  obtain ⟨i1, i2, _, _⟩ := remove_hb t k h2 h3
  exact ⟨bst_remove t k h1, i1, i2⟩

/-- the tree behaves as a finite map under insertion … -/
theorem lookup_insert (t : Tree) (k v k' : Int) (h : BST t) :
    lookup (insert t k v) k' = if k' = k then some v else lookup t k' := by
  exact lookup_insert' t k v k' h

/-- … and under removal -/
theorem lookup_remove (t : Tree) (k k' : Int) (h : BST t) :
    lookup (remove t k) k' = if k' = k then none else lookup t k' := by
  exact lookup_remove' t k k' h

theorem size_insert (t : Tree) (k v : Int) (h : BST t) :
    size (insert t k v) = if (lookup t k).isSome then size t else size t + 1 := by
  exact size_insert' t k v h

theorem size_remove (t : Tree) (k : Int) (h : BST t) :
    size (remove t k) = if (lookup t k).isSome then size t - 1 else size t := by
  exact size_remove' t k h

/-- an AVL tree of stored height h has at least fib(h+2) - 1 nodes -/
theorem fib_le_size (t : Tree) (h1 : HOK t) (h2 : Balanced t) : fib (height t + 2) ≤ size t + 1 := by
  exact fib_le_size' t h1 h2

/-- the stored height is the real height -/
theorem height_eq_real (t : Tree) (h : HOK t) : height t = realHeight t := by
  exact height_eq_real' t h

/-- the Map wrapper: after any sequence of inserts and removes from the empty map, the tree satisfies the
    invariants and the `count` field equals the number of nodes -/
inductive MapOp where
  | ins (k v : Int)
  | rem (k : Int)

def applyOp (m : Map) : MapOp → Map
  | .ins k v => m.insert k v
  | .rem k => m.remove k

theorem applyOp_inv (m : Map) (op : MapOp) (h : Inv m.root ∧ m.count = size m.root) :
    Inv (applyOp m op).root ∧ (applyOp m op).count = size (applyOp m op).root := by
  obtain ⟨hi, hc⟩ := h
  cases op with
  | ins k v =>
    refine ⟨insert_inv _ _ _ hi, ?_⟩
    simp only [applyOp, Map.insert]
    rw [size_insert _ _ _ hi.1, hc]
  | rem k =>
    simp only [applyOp, Map.remove]
    split
    · refine ⟨remove_inv _ _ hi, ?_⟩
      rename_i hs
      simp only
      rw [size_remove _ _ hi.1, if_pos hs, hc]
    · exact ⟨hi, hc⟩

theorem foldl_applyOp_inv (ops : List MapOp) (m : Map)
    (h : Inv m.root ∧ m.count = size m.root) :
    Inv (ops.foldl applyOp m).root ∧ (ops.foldl applyOp m).count = size (ops.foldl applyOp m).root := by
  induction ops generalizing m with
  | nil => exact h
  | cons op ops ih => exact ih _ (applyOp_inv m op h)

theorem map_count_and_inv (ops : List MapOp) :
    let m := ops.foldl applyOp Map.empty
    Inv m.root ∧ m.count = size m.root := by
  intro m
  exact foldl_applyOp_inv ops Map.empty ⟨⟨trivial, trivial, trivial⟩, rfl⟩

end CbModel.Avl
