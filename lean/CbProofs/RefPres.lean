/-
  Generic invariant-preservation theorem for the CbRef evaluator:
  if every *primitive* of the evaluator preserves `Inv`, every expression, statement, loop and
  call preserves `Inv`, for all programs and all fuels.
-/
import CbModel.Ref.Eval
namespace CbModel.Ref

def Preserves (Inv : St → Prop) (m : M α) : Prop := ∀ s, Inv s → Inv (m s).2

/-- a computation that never changes the state -/
def ReadOnly (m : M α) : Prop := ∀ s, (m s).2 = s

section
variable {Inv : St → Prop}

theorem pres_of_ro {m : M α} (h : ReadOnly m) : Preserves Inv m := by
  intro s hs; rw [h s]; exact hs

theorem pres_pure (a : α) : Preserves Inv (pure a : M α) := fun _ hs => hs

theorem pres_bind {m : M α} {f : α → M β} (hm : Preserves Inv m) (hf : ∀ a, Preserves Inv (f a)) :
    Preserves Inv (m >>= f) := by
  intro s hs
  have h1 := hm s hs
  show Inv ((M.bind m f) s).2
  unfold M.bind
  split <;> rename_i heq <;> rw [heq] at h1 <;> first | exact hf _ _ h1 | exact h1

theorem pres_catch {m : M α} {h : Res α → M β} (hm : Preserves Inv m) (hh : ∀ r, Preserves Inv (h r)) :
    Preserves Inv (catchM m h) := by
  intro s hs
  have h1 := hm s hs
  unfold catchM
  split; rename_i heq; rw [heq] at h1
  exact hh _ _ h1

theorem pres_fail (k : ErrKind) : Preserves Inv (fail k : M α) := fun _ hs => hs
theorem pres_undef : Preserves Inv (undefM : M α) := fun _ hs => hs
theorem pres_oof : Preserves Inv (oofM : M α) := fun _ hs => hs
theorem pres_liftRes (r : Res α) : Preserves Inv (liftRes r : M α) := fun _ hs => hs

theorem ro_getVar (x : String) : ReadOnly (getVar x) := by
  intro s; unfold getVar; repeat' split
  all_goals rfl

theorem ro_hasStatic (x : String) : ReadOnly (hasStatic x) := fun _ => rfl

theorem ro_bind {m : M α} {f : α → M β} (hm : ReadOnly m) (hf : ∀ a, ReadOnly (f a)) :
    ReadOnly (m >>= f) := by
  intro s
  have h1 := hm s
  show ((M.bind m f) s).2 = s
  unfold M.bind
  split <;> rename_i heq <;> rw [heq] at h1 <;> simp only at h1 <;> subst h1 <;> first | exact hf _ _ | rfl

theorem ro_liftRes (r : Res α) : ReadOnly (liftRes r : M α) := fun _ => rfl
theorem ro_undef : ReadOnly (undefM : M α) := fun _ => rfl

theorem ro_readRef (r : LRef) : ReadOnly (readRef r) := by
  unfold readRef
  apply ro_bind (ro_getVar _)
  intro v
  split
  · exact ro_liftRes _
  · split
    · exact ro_liftRes _
    · exact ro_undef
  · exact ro_undef

end

/-- what an invariant has to satisfy at the primitives of the evaluator -/
structure PrimOK (Inv : St → Prop) : Prop where
  emit : ∀ str, Preserves Inv (emit str)
  writeRef : ∀ r n, Preserves Inv (writeRef r n)
  declInt : ∀ st c ty x v, Preserves Inv (declInt st c ty x v)
  declArrInit : ∀ c ty x dims vs, Preserves Inv (declArrInit c ty x dims vs)
  declDefault : ∀ c ty x dims, Preserves Inv (declDefault c ty x dims)
  declStructVar : ∀ sd x, Preserves Inv (declStructVar sd x)
  declStructInitVar : ∀ c sd x vs, Preserves Inv (declStructInitVar c sd x vs)
  enterCall : ∀ {α : Type} (fn : Func) (args : List Int) (m : M α),
      Preserves Inv m → Preserves Inv (enterCall fn args m)

/-- the ten mutually recursive evaluator functions, at one fuel level -/
structure AllPres (Inv : St → Prop) (p : Prog) (fuel : Nat) : Prop where
  evalE : ∀ e, Preserves Inv (evalE p fuel e)
  evalEs : ∀ es, Preserves Inv (evalEs p fuel es)
  evalArgs : ∀ ts es, Preserves Inv (evalArgs p fuel ts es)
  evalLV : ∀ e, Preserves Inv (evalLV p fuel e)
  callF : ∀ f args, Preserves Inv (callF p fuel f args)
  execS : ∀ st, Preserves Inv (execS p fuel st)
  execSs : ∀ ss, Preserves Inv (execSs p fuel ss)
  loop : ∀ c u b, Preserves Inv (loop p fuel c u b)
  afterBody : ∀ c u b, Preserves Inv (afterBody p fuel c u b)
  printSeq : ∀ f items, Preserves Inv (printSeq p fuel f items)
  printItems : ∀ items, Preserves Inv (printItems p fuel items)

section
variable {Inv : St → Prop}

/-- one proof step: peel a bind / a branch / a primitive -/
macro "pres_step" : tactic => `(tactic| first
  | exact pres_pure _
  | exact pres_fail _
  | exact pres_undef
  | exact pres_oof
  | exact pres_liftRes _
  | exact pres_of_ro (ro_readRef _)
  | exact pres_of_ro (ro_hasStatic _)
  | assumption
  | apply pres_bind
  | apply pres_catch
  | split
  | intro _)

theorem allPres_zero (p : Prog) : AllPres Inv p 0 := by
  constructor <;> intros <;> first
    | (unfold evalE; exact pres_oof) | (unfold evalEs; exact pres_oof) | (unfold evalArgs; exact pres_oof) | (unfold evalLV; exact pres_oof)
    | (unfold callF; exact pres_oof) | (unfold execS; exact pres_oof) | (unfold execSs; exact pres_oof)
    | (unfold loop; exact pres_oof) | (unfold afterBody; exact pres_oof)
    | (unfold printSeq; exact pres_oof) | (unfold printItems; exact pres_oof)

theorem allPres_succ (hp : PrimOK Inv) (p : Prog) (fuel : Nat) (ih : AllPres Inv p fuel) :
    AllPres Inv p (fuel + 1) := by
  have hE := ih.evalE
  have hEs := ih.evalEs
  have hAr := ih.evalArgs
  have hLV := ih.evalLV
  have hC := ih.callF
  have hS := ih.execS
  have hSs := ih.execSs
  have hL := ih.loop
  have hA := ih.afterBody
  have hP := ih.printSeq
  have hPI := ih.printItems
  have hemit := hp.emit
  have hwr := hp.writeRef
  have hdi := hp.declInt
  have hda := hp.declArrInit
  have hdd := hp.declDefault
  have hds := hp.declStructVar
  have hdsi := hp.declStructInitVar
  constructor
  · intro e
    unfold evalE
    cases e <;> simp only <;> repeat (first | exact hE _ | exact hEs _ | exact hAr _ _ | exact hLV _ | exact hC _ _ | exact hwr _ _ | pres_step)
  · intro es
    cases es with
    | nil => unfold evalEs; exact pres_pure _
    | cons e es => unfold evalEs; repeat (first | exact hE _ | exact hEs _ | pres_step)
  · intro ts es
    cases es with
    | nil => unfold evalArgs; exact pres_pure _
    | cons e es =>
      cases ts with
      | nil => unfold evalArgs; repeat (first | exact hE _ | exact hAr _ _ | pres_step)
      | cons t ts => unfold evalArgs; repeat (first | exact hE _ | exact hAr _ _ | pres_step)
  · intro e
    unfold evalLV
    cases e <;> simp only <;> repeat (first | exact hEs _ | exact hLV _ | pres_step)
  · intro f args
    unfold callF
    split
    · exact pres_undef
    · apply pres_catch
      · exact hp.enterCall _ _ _ (hSs _)
      · intro r; repeat pres_step
  · intro st
    unfold execS
    cases st <;> simp only <;> repeat (first
      | exact hE _ | exact hEs _ | exact hLV _ | exact hS _ | exact hSs _ | exact hL _ _ _ | exact hP _ _
      | exact hPI _ | exact hwr _ _ | exact hdi _ _ _ _ _ | exact hda _ _ _ _ _ | exact hdd _ _ _ _
      | exact hds _ _ | exact hdsi _ _ _ _ | exact hemit _ | pres_step)
  · intro ss
    cases ss with
    | nil => unfold execSs; exact pres_pure _
    | cons s ss => unfold execSs; repeat (first | exact hS _ | exact hSs _ | pres_step)
  · intro c u b
    unfold loop
    repeat (first | exact hE _ | exact hSs _ | exact hA _ _ _ | pres_step)
  · intro c u b
    unfold afterBody
    repeat (first | exact hS _ | exact hL _ _ _ | pres_step)
  · intro f items
    cases items with
    | nil => unfold printSeq; exact pres_pure _
    | cons it r => unfold printSeq; repeat (first | exact hE _ | exact hP _ _ | exact hemit _ | pres_step)
  · intro items
    cases items with
    | nil => unfold printItems; exact pres_pure _
    | cons it r => unfold printItems; repeat (first | exact hE _ | exact hPI _ | pres_step)

/-- **Every program preserves every primitive-respecting invariant**, at every fuel. -/
theorem allPres (hp : PrimOK Inv) (p : Prog) : ∀ fuel, AllPres Inv p fuel
  | 0 => allPres_zero p
  | fuel + 1 => allPres_succ hp p fuel (allPres hp p fuel)

end
end CbModel.Ref
