"""C16 — print/println/format strings and string interpolation render values exactly.

Theorems: lean/CbProps/C16.lean (decimal/hex round trips for every integer, padding laws, sign-first
zero padding, brace escaping, verbatim text).  The rendering functions are the ones the reference
semantics uses, so the tie is the usual one: programs run by cbdriver ref and by the interpreter.
"""
import common
from common import Rng
from props.refprops import RefCheck

PID = "C16"
THEOREMS = {"CbProps.C16": ["CbProps.C16." + t for t in [
    "parseDec_renderDec", "renderDec_injective", "parseHex_renderHex", "toU64_lt", "padLeft_length", "padLeft_suffix", "padRight_length", "padRight_prefix",
    "zero_pad_sign_first", "zero_pad_length", "unescape_escape_braces", "printf_text_verbatim"]],
    "CbProps.C16Fixed": ["CbProps.C16Fixed." + t for t in [
        "round_nearest", "round_exact", "round_tie_even", "round_strict", "round_mono", "fraction_digits", "parse_render",
        "printed_value_nearest"]]}

I64MIN, I64MAX = -2**63, 2**63 - 1


def boundary_values():
    vs = {0, 1, -1, 9, 10, 11, 99, 100, 101, -9, -10, -11, -99, -100, 255, 256, -255, -256, 65535, 65536}
    for k in range(0, 64):
        for d in (-1, 0, 1):
            for s in (1, -1):
                v = s * (2 ** k) + d
                if I64MIN <= v <= I64MAX:
                    vs.add(v)
    for k in range(1, 19):
        for d in (-1, 0):
            vs.add(10 ** k + d)
            vs.add(-(10 ** k) - d)
    vs.add(I64MIN)
    vs.add(I64MAX)
    return sorted(vs)


def q(s):
    return '"' + s.replace("\\", "\\\\").replace('"', '\\"').replace("\n", "\\n") + '"'


def prog(stmts):
    return ("(prog (structs) (globals) (funcs (func main int (params) ((decl - long v (lit 0)) (decl - int w (lit 0)) %s "
            "(print (s \"END\")) (ret (lit 0))))))" % " ".join(stmts))


def value_programs(vals, gates, widths):
    """every boundary integer x every rendering"""
    stmts = []
    for n in vals:
        st = ["(assign (var v) (lit %d))" % n]
        st.append("(print (s \"p\") (e (var v)) (e (bin add (var v) (lit 0))))")
        st.append("(printi (s \"i[\") (e (var v)) (s \"] x[\") (ef x (var v)) (s \"] X[\") (ef X (var v)) (s \"] b[\") (ef b (var v)) (s \"]\"))")
        for wd in widths:
            st.append("(printi (s \"d%d[\") (ef d%d (var v)) (s \"]\"))" % (wd, wd))
            if n >= 0 or "interp_zero_pad_sign" not in gates:
                st.append("(printi (s \"z%d[\") (ef z%d (var v)) (s \"]\"))" % (wd, wd))
        st.append("(printf %s (e (var v)) (e (var v)))" % q("f[%d][%lld]"))
        for wd in widths:
            st.append("(printf %s (e (var v)) (e (var v)) (e (var v)))" % q("w[%{0}d][%0{0}d][%{0}lld]".format(wd)))
        stmts += st
        if len(stmts) > 150:
            yield prog(stmts)
            stmts = []
    if stmts:
        yield prog(stmts)


# no double quotes / backslashes: the lexer has no escaped quote and prints `\\` as two characters (calibration,
# recorded in DESIGN.md); everything else, multi-byte UTF-8 included, must come out byte-identical
WORDS = ["abc", "é", "日本語", "x y", " ", "ß→∑", "a,b;c", "it's", "100%", "50% off", "{}", "{x}", "}{", "{{",
         "🙂", "END?", "%", "% d", "a%%b", "<tag>", "#", "~`!@$^&*()-_=+[]|:;'<>,.?/",
         "a sentence of ordinary words that is rather longer than sixty-four bytes in total, is it not",
         "日本語のかなり長い文章でございます、六十四バイトを超えますのでご注意ください",
         "x" * 63, "y" * 64, "z" * 65, "w" * 300]
LONG_STRS = [w for w in WORDS if len(w.encode("utf-8")) >= 60 and "%" not in w]


def text_programs(seed, n, gates):
    r = Rng(seed, 161)
    for _ in range(n):
        st = []
        for _ in range(25):
            k = r.below(8)
            if k < 2:
                # plain println of literals and values
                items = []
                for _ in range(r.range(1, 6)):
                    if r.chance(50):
                        w = r.choice(WORDS)
                        if "%" in w or "{" in w or "}" in w:
                            w = "t"
                        items.append("(s %s)" % q(w))
                    else:
                        items.append("(e (lit %d))" % r.range(-1000, 1000))
                # a first literal is not followed by values only when it could be taken for a format
                # text that LOOKS like a conversion in a later argument is plain text (the first argument is a value here)
                # — as the LAST argument only: a literal with a conversion that is followed by further arguments is used as a format
                # for them by the implementation, wherever it stands (calibration; the property does not say which argument
                # may be the format)
                if items and items[0].startswith("(e ") and r.chance(50):
                    items.append("(s %s)" % q(r.choice(["75%d", "%s", "rate %lld", "100%", "%", "50% off", "%c%c", "%5d|", "%-08.3f", "a%db"])))
                st.append("(print %s)" % " ".join(items))
            elif k < 5:
                # interpolation: text (braces doubled by the printer), values, specs
                parts = []
                for _ in range(r.range(1, 6)):
                    if r.chance(55):
                        w = r.choice(WORDS)
                        if "%" in w:
                            w = "t"
                        parts.append("(s %s)" % q(w))
                    else:
                        sp = r.choice(["", "x", "X", "b", "d%d" % r.range(0, 12), "z%d" % r.range(0, 12)])
                        val = r.range(0, 5000) if sp.startswith("z") and "interp_zero_pad_sign" in gates else r.range(-5000, 5000)
                        parts.append("(e (lit %d))" % val if not sp else "(ef %s (lit %d))" % (sp, val))
                st.append("(printi %s)" % " ".join(parts))
            elif k < 7:
                # printf: conversions, %%, strings, chars; sometimes too few / too many arguments
                fmt, args = "", []
                for _ in range(r.range(1, 5)):
                    c = r.below(7)
                    if c == 0:
                        fmt += r.choice(["abc ", "é ", "x=", " | "])
                    elif c == 1:
                        fmt += "%%"
                    elif c == 2:
                        fmt += "%s"; args.append("(s %s)" % q(r.choice(["str", "é日本", "", "a b"] + (LONG_STRS if r.chance(30) else []))))
                    elif c == 3:
                        fmt += "%c"; args.append("(e (lit %d))" % r.range(33, 126))
                    else:
                        fl = r.choice(["", "", "0"])      # `-` is not among the documented flags
                        wd = r.choice(["", "", "1", "3", "6", "12", "20", "63", "64", "65", "80"])
                        fmt += "%" + fl + wd + r.choice(["d", "lld"])
                        args.append("(e (lit %d))" % r.choice([0, 7, -7, 42, -42, 123456, -123456, 2**40, -(2**40)]))
                # (too few arguments is undefined in C printf and not specified for Cb: not generated)
                if r.chance(12):
                    args.append("(e (lit %d))" % r.range(0, 99))
                if "%" not in fmt.replace("%%", ""):
                    fmt += "%d"; args.append("(e (lit 5))")
                st.append("(printf %s %s)" % (q(fmt), " ".join(args)))
            else:
                st.append("(printraw (s %s) (e (lit %d)))" % (q(r.choice(["k", "é", "a b"])), r.range(-9, 9)))
                st.append("(print (s \"\"))")
        yield prog(st)


FIXED_LITS = ["0.125", "0.375", "2.5", "3.5", "0.5", "1.5", "2.675", "1234.5678", "7.0", "0.1", "0.3", "123456789.125", "0.000001",
              "99.995", "0.045", "1000000.5", "0.0", "1.0", "9.999", "0.9999999", "655.36", "0.015625", "3.0e0"[:3], "12.0625"]


def fixed_cases(r, n, driver):
    """{x:.Nf} on double variables: the expected text comes from CbModel.Fixed (exact rational arithmetic on the value of the
    double the literal denotes, num/den supplied by float.as_integer_ratio)"""
    import math
    stm = []
    for lit in FIXED_LITS:
        for neg in (False, True):
            for prec in range(0, 13):
                stm.append((lit, neg, prec))
    for _ in range(n):
        k = r.below(3)
        if k == 0:       # dyadic rationals: exact ties are frequent
            lit = repr(r.range(0, 4000) / float(2 ** r.range(0, 10)))
        elif k == 1:
            lit = "%d.%0*d" % (r.range(0, 99999), r.range(1, 7), r.range(0, 999999))
        else:
            lit = "%d.%d5" % (r.range(0, 999), r.range(0, 999))      # decimal "ties" that are not ties in binary
        if "e" in lit or "E" in lit:
            continue
        stm.append((lit, r.chance(40), r.range(0, 12)))
    lines = []
    for lit, neg, prec in stm:
        num, den = float(lit).as_integer_ratio()
        lines.append("%d\t%d\t%d\t%d" % (1 if neg else 0, num, den, prec))
    _, mo, _ = common.run_lines_parallel([driver, "c16fixed"], lines)
    cases = []
    B = 24
    for b in range(0, len(stm), B):
        chunk = list(zip(stm[b:b + B], mo[b:b + B]))
        body, exp = [], []
        for i, ((lit, neg, prec), m) in enumerate(chunk):
            body.append("    double x%d = %s%s;\n    println(\"[{x%d:.%df}]\");\n" % (i, "-" if neg else "", lit, i, prec))
            exp.append("[%s]\n" % m)
        cases.append({"id": "fixed-%d" % (b // B), "program": "int main() {\n" + "".join(body) + "    println(\"END\");\n    return 0;\n}\n",
                      "expect_class": "ok", "expect_stdout": "".join(exp) + "END\n"})
    return cases, len(stm)


def double_println_cases(r, n):
    """print / println of a double without a format: the shortest of fixed / exponent notation with 15 significant digits
    (C's %.15g), with ".0" appended to a value that would otherwise look like an integer — calibrated to the implementation
    (the property only says 'exact decimal form'); the oracle is Python's %-formatting, which is C's"""
    def render(x):
        t = "%.15g" % x
        if not any(ch in t for ch in ".eEn"):      # n: inf / nan
            t += ".0"
        return t
    lits = ["0.1", "1.5", "100.0", "1e21", "1e-7", "2e30", "1e15", "4e-10", "123456789.125", "2.5e-5", "1e100", "0.5", "3.0", "1e16", "123456789012345.0",
            "1234567890123456.0", "0.000123", "0.0001", "0.00001", "1e5", "100000.0", "1e-5", "9.99e20", "7.0e0", "0.333333333333333"]
    for _ in range(n):
        k = r.below(3)
        lits.append(["%d.%d" % (r.range(0, 99999), r.range(0, 9999)), "%de%d" % (r.range(1, 9), r.range(-30, 30)), "%d.%de%d" % (r.range(1, 9), r.range(0, 999), r.range(-20, 25))][k])
    cases = []
    B = 20
    items = [(l, neg) for l in lits for neg in (False, True)]
    for b in range(0, len(items), B):
        body, exp = [], []
        for i, (l, neg) in enumerate(items[b:b + B]):
            x = float(l) * (-1 if neg else 1)
            body.append("    double x%d = %s%s;\n    println(x%d);\n    println(\"v\", x%d, %d);\n" % (i, "-" if neg else "", l, i, i, i))
            exp.append("%s\nv %s %d\n" % (render(x), render(x), i))
        cases.append({"id": "double-println-%d" % (b // B), "program": "int main() {\n" + "".join(body) + "    println(\"END\");\n    return 0;\n}\n",
                      "expect_class": "ok", "expect_stdout": "".join(exp) + "END\n"})
    return cases


def nested_interpolation_cases(r, n):
    """interpolated strings whose {expr} segments call functions that themselves return interpolated strings (also
    recursively): every segment is replaced by the value of its expression and all other text is kept; expected text computed
    by the harness from the same definitions"""
    HDR = ("struct Pt { int x; int y; };\n"
           "string pt_str(Pt p) {\n    return \"({p.x}, {p.y})\";\n}\n"
           "string tag(int n) {\n    return \"#{n:03d}\";\n}\n"
           "string cd(int n) {\n    if (n == 0) {\n        return \"go\";\n    }\n    return \"{n}..{cd(n - 1)}\";\n}\n"
           "string wrap(int n) {\n    return \"<{tag(n)}|{tag(n + 1)}>\";\n}\n"
           "int twice(int v) {\n    return v * 2;\n}\n")

    def tag(n):
        return "#%03d" % n if n >= 0 else "#-%02d" % -n

    def cd(n):
        return "go" if n == 0 else "%d..%s" % (n, cd(n - 1))

    def wrap(n):
        return "<%s|%s>" % (tag(n), tag(n + 1))
    cases = []
    for k in range(n):
        body, exp = [], []
        body.append("    Pt p;\n    p.x = %d;\n    p.y = %d;\n    int a = %d;\n" % (k + 3, -k - 4, k + 7))
        px, py, a = k + 3, -k - 4, k + 7
        segs = []      # (source text, rendered text)
        for _ in range(r.range(2, 5)):
            c = r.below(8)
            lead = r.choice(["", "x ", "id ", "= ", "日本 ", "[", "a b c "])
            if c == 0:
                segs.append((lead + "{pt_str(p)}", lead + "(%d, %d)" % (px, py)))
            elif c == 1:
                v = r.range(0, 40)
                segs.append((lead + "{tag(%d)}" % v, lead + tag(v)))
            elif c == 2:
                v = r.range(0, 4)
                segs.append((lead + "{cd(%d)}!" % v, lead + cd(v) + "!"))
            elif c == 3:
                segs.append((lead + "{wrap(a)}", lead + wrap(a)))
            elif c == 4:
                segs.append((lead + "{twice(a)}", lead + str(2 * a)))
            elif c == 5:
                segs.append((lead + "{a:x}", lead + "%x" % a))
            elif c == 6:
                segs.append((lead + "{{{tag(a)}}}", lead + "{" + tag(a) + "}"))
            else:
                segs.append((lead + "plain", lead + "plain"))
        src = " ".join(s_ for s_, _ in segs)
        out = " ".join(t for _, t in segs)
        form = k % 3
        if form == 0:
            body.append("    println(\"%s\");\n" % src)
            exp.append(out + "\n")
        elif form == 1:
            body.append("    string line = \"%s\";\n    println(line);\n    println(line);\n" % src)
            exp.append(out + "\n" + out + "\n")
        else:
            body.append("    println(\"n:\", a, \"%s\");\n" % src)
            exp.append("n: %d %s\n" % (a, out))
        cases.append({"id": "nested-interp-%d" % k, "program": HDR + "int main() {\n" + "".join(body) + "    println(\"END\");\n    return 0;\n}\n",
                      "expect_class": "ok", "expect_stdout": "".join(exp) + "END\n"})
    return cases


def main(a):
    c = RefCheck(PID, a, ["CbProofs", "CbProps.C16", "CbProps.C16Fixed"], THEOREMS)
    if not c.build():
        return c.v.finish()
    if a.replay:
        return c.replay(a.replay)
    c.witnesses()
    quick = a.tier == "quick"
    vals = boundary_values()
    widths = [0, 1, 5, 12, 20] if quick else list(range(0, 21))
    c.suite("boundary-integers", value_programs(vals, c.gates, widths), nontrivial=lambda r: hash(r.sexp))
    c.suite("text-and-printf", text_programs(a.seed, 120 if quick else 6000, c.gates),
            nontrivial=lambda r: hash(r.stdout))
    fc, nfixed = fixed_cases(Rng(a.seed, 163), 300 if quick else 30000, common.driver_path())
    c.raw_suite("fixed-precision", fc)
    c.raw_suite("double-println", double_println_cases(Rng(a.seed, 164), 60 if quick else 6000))
    c.raw_suite("nested-interpolation", nested_interpolation_cases(Rng(a.seed, 165), 60 if quick else 3000))
    return c.finish(
        rule="boundary-integers: %d integers (every power of two and of ten +-1, type boundaries) x {println, {v}, :x, :X, :b, "
             ":Nd, :0Nd, %%d, %%lld, %%Nd, %%0Nd, %%-Nd} x widths; text-and-printf: random ASCII/UTF-8 literals, doubled "
             "braces, %%%% %%s %%c, missing and surplus printf arguments, print without newline; fixed-precision: {x:.Nf} for N = "
             "0..12 on double variables initialised from decimal literals (a fixed list incl. exact binary ties 0.125 0.375 2.5 "
             "and decimal pseudo-ties 2.675 99.995, both signs, plus random dyadic rationals and random decimals), expected text "
             "from CbModel.Fixed on the exact rational value of the double. non-trivial = distinct program / distinct output" % len(vals),
        extra={"exhaustive": True, "exhaustive_note": "the integer list x format list is enumerated completely; the "
               "text suite is a sample", "integers": len(vals), "widths": widths},
        assumptions=["floating-point rendering is modelled for :.Nf on double values only (exact rational arithmetic; the harness supplies "
                     "the exact value of the double a literal denotes via Python's float, i.e. correctly rounded strtod); float / quad "
                     "variables, width with precision ({x:8.2f}) and :e are not exercised",
                     "print / println of a double without format is compared with C's %.15g (+ '.0' for integer-looking values): a "
                     "calibration to the implementation, the oracle is Python's formatting (trusted harness, no Lean model)",
                     "nested-interpolation ({expr} segments calling functions that return interpolated strings, recursion, struct "
                     "members): expected text computed by the harness (no Lean model of string-valued functions)",
                     "%x %o %u and {v:o} are not documented conversions and are not exercised"])
