import CbProofs.Preproc
import CbProofs.PreprocExpand
