/-
  C05 — array accesses are bounds-checked in every dimension and address row-major cells.
  `flatIndex` is the mirror of Variable::calculate_flat_index; `rowMajor` the specification.
-/
import CbProofs.FlatIndex
namespace CbProps.C05
open CbModel.FlatIndex

/-- the loop of the implementation (from the last dimension, running multiplier) computes the
    row-major address, for any number of dimensions -/
theorem flat_row_major (dims : List Nat) (idxs : List Int) (h : idxs.length = dims.length) :
    flatIndex dims idxs = rowMajor (idxs.zip dims) := by
  unfold flatIndex
  rw [if_neg (by omega), loopRev_reverse]
  cases rowMajor (idxs.zip dims) <;> simp

/-- an access succeeds exactly when the index count matches and EVERY index is inside its
    dimension -/
theorem flat_ok_iff (dims : List Nat) (idxs : List Int) :
    (∃ k, flatIndex dims idxs = some k) ↔
      idxs.length = dims.length ∧ inRange (idxs.zip dims) := by
  by_cases h : idxs.length = dims.length
  · rw [flat_row_major dims idxs h, rowMajor_some_iff]; simp [h]
  · simp [flatIndex, h]

/-- a successful access addresses a cell inside the array: 0 ≤ k < Π dims -/
theorem flat_lt_size (dims : List Nat) (idxs : List Int) (k : Int)
    (h : flatIndex dims idxs = some k) : 0 ≤ k ∧ k < prodDims (idxs.zip dims) := by
  by_cases hl : idxs.length = dims.length
  · rw [flat_row_major dims idxs hl] at h; exact rowMajor_bounds _ k h
  · simp [flatIndex, hl] at h

/-- no two in-range index tuples address the same cell -/
theorem flat_injective (dims : List Nat) (a b : List Int) (k : Int)
    (ha : flatIndex dims a = some k) (hb : flatIndex dims b = some k) : a = b := by
  have hla : a.length = dims.length := by
    by_contra h; simp [flatIndex, h] at ha
  have hlb : b.length = dims.length := by
    by_contra h; simp [flatIndex, h] at hb
  rw [flat_row_major dims a hla] at ha
  rw [flat_row_major dims b hlb] at hb
  have hz := rowMajor_injective (a.zip dims) (b.zip dims)
    (by rw [List.map_snd_zip (by omega), List.map_snd_zip (by omega)]) k ha hb
  have := congrArg (List.map (·.1)) hz
  rwa [List.map_fst_zip (by omega), List.map_fst_zip (by omega)] at this

/-- every cell of the array is addressed by some in-range tuple (with `flat_injective`: a bijection
    between in-range tuples and [0, Π dims)) -/
theorem flat_surjective (dims : List Nat) (k : Int) (h0 : 0 ≤ k)
    (h1 : k < prodDims (dims.map (fun d => ((0 : Int), d)))) :
    ∃ idxs, flatIndex dims idxs = some k := by
  obtain ⟨ps, hps, hk⟩ := rowMajor_surjective dims k h0 h1
  refine ⟨ps.map (·.1), ?_⟩
  have hl : (ps.map (·.1)).length = dims.length := by rw [← hps]; simp
  rw [flat_row_major _ _ hl, ← hps]
  have : (ps.map (·.1)).zip (ps.map (·.2)) = ps := by
    clear hk hl hps
    induction ps with
    | nil => rfl
    | cons p r ih => simp [ih]
  rw [this, hk]

/-- an out-of-range (or wrong-arity) store is rejected and produces no new array state -/
theorem rejected_store_no_state (dims : List Nat) (cells idxs : List Int) (v : Int)
    (h : ¬ (idxs.length = dims.length ∧ inRange (idxs.zip dims))) :
    arraySet dims cells idxs v = none ∧ arrayGet dims cells idxs = none := by
  have : flatIndex dims idxs = none := by
    cases hf : flatIndex dims idxs with
    | none => rfl
    | some k => exact absurd ((flat_ok_iff dims idxs).mp ⟨k, hf⟩) h
  simp [arraySet, arrayGet, this]

/-- a successful store is read back, and changes no cell addressed by a different tuple -/
theorem get_set (dims : List Nat) (cells cells' a b : List Int) (v : Int)
    (hs : arraySet dims cells a v = some cells') :
    arrayGet dims cells' a = some v ∧ (a ≠ b → arrayGet dims cells' b = arrayGet dims cells b) := by
  unfold arraySet at hs
  cases hfa : flatIndex dims a with
  | none => simp [hfa] at hs
  | some k =>
    simp only [hfa] at hs
    split at hs
    · rename_i hk
      simp only [Option.some.injEq] at hs
      subst hs
      constructor
      · simp [arrayGet, hfa, hk]
      · intro hne
        unfold arrayGet
        cases hfb : flatIndex dims b with
        | none => rfl
        | some j =>
          simp only
          have hkj : k ≠ j := fun e => hne (flat_injective dims a b k hfa (e ▸ hfb))
          have hk0 := (flat_lt_size dims a k hfa).1
          have hj0 := (flat_lt_size dims b j hfb).1
          rw [List.getElem?_set_ne]
          omega
    · simp at hs

/-! non-vacuity -/
example : flatIndex [3, 4, 5] [2, 3, 4] = some 59 := by decide
example : flatIndex [3, 4, 5] [0, 4, 0] = none := by decide
example : flatIndex [3, 4] [0, 5] = none ∧ flatIndex [3, 4] [1, 1] = some 5 := by decide

end CbProps.C05
