/-
  C15 — obligation on the generated description of SimpleEventLoop::run() (tools/translate/runloop.py): one iteration
  of the driver loop performs the queue operations in the order CbModel/RunLoop.lean models (`stepQueue`): take the
  front, pop it, execute one step, push it back when the task wants to continue.
-/
import CbGen.RunLoop
import CbModel.RunLoop
namespace CbOblig.C15Run

theorem run_loop_is_modelled :
    CbGen.runLoopOps = ["front", "pop_front", "step", "push_back_if_continue"] := by decide

end CbOblig.C15Run
