/-
  Helper lemmas for CbProofs/Avl.lean, part 3: stored heights and balance.
-/
import CbProofs.AvlOps
namespace CbModel.Avl

theorem rebalance_hb (l r : Tree) (k v : Int) (hl : HOK l) (hr : HOK r) (bl : Balanced l)
    (br : Balanced r) (h1 : height l ≤ height r + 2) (h2 : height r ≤ height l + 2) :
    HOK (rebalance l k v r) ∧ Balanced (rebalance l k v r) ∧
    max (height l) (height r) ≤ height (rebalance l k v r) ∧
    height (rebalance l k v r) ≤ max (height l) (height r) + 1 ∧
    (height l ≤ height r + 1 → height r ≤ height l + 1 →
      height (rebalance l k v r) = max (height l) (height r) + 1) := by
  unfold rebalance
  simp only
  split
  · cases l with
    | nil => simp [balance, mk] at *; omega
    | node a xk xv xh b =>
      simp only
      split
      · cases b with
        | nil => exfalso; simp [balance] at *; omega
        | node b1 yk yv yh b2 =>
          simp_all [rotL, rotR, mk, HOK, Balanced, balance] <;> omega
      · simp_all [rotR, mk, HOK, Balanced, balance] <;> omega
  · split
    · cases r with
      | nil => simp [balance, mk] at *; omega
      | node a xk xv xh b =>
        simp only
        split
        · cases a with
          | nil => exfalso; simp [balance] at *; omega
          | node b1 yk yv yh b2 =>
            simp_all [rotL, rotR, mk, HOK, Balanced, balance] <;> omega
        · simp_all [rotL, mk, HOK, Balanced, balance] <;> omega
    · simp_all [mk, HOK, Balanced, balance] <;> omega

theorem insert_hb (t : Tree) (k v : Int) (h1 : HOK t) (h2 : Balanced t) :
    HOK (insert t k v) ∧ Balanced (insert t k v) ∧
    height t ≤ height (insert t k v) ∧ height (insert t k v) ≤ height t + 1 := by
  induction t with
  | nil => simp [insert, HOK, Balanced]
  | node l x xv hh r ihl ihr =>
    obtain ⟨a1, a2, a3⟩ := h1
    obtain ⟨b1, b2, b3, b4⟩ := h2
    rw [insert]
    split
    · exact ⟨⟨a1, a2, a3⟩, ⟨b1, b2, b3, b4⟩, Nat.le_refl _, Nat.le_succ _⟩
    · split
      · obtain ⟨i1, i2, i3, i4⟩ := ihl a1 b1
        obtain ⟨r1, r2, r3, r4, r5⟩ := rebalance_hb (insert l k v) r x xv i1 a2 i2 b2 (by omega) (by omega)
        simp only [height_node]
        refine ⟨r1, r2, ?_, ?_⟩ <;> omega
      · obtain ⟨i1, i2, i3, i4⟩ := ihr a2 b2
        obtain ⟨r1, r2, r3, r4, r5⟩ := rebalance_hb l (insert r k v) x xv a1 i1 b1 i2 (by omega) (by omega)
        simp only [height_node]
        refine ⟨r1, r2, ?_, ?_⟩ <;> omega

theorem remove_hb (t : Tree) (key : Int) (h1 : HOK t) (h2 : Balanced t) :
    HOK (remove t key) ∧ Balanced (remove t key) ∧
    height (remove t key) ≤ height t ∧ height t ≤ height (remove t key) + 1 := by
  induction t generalizing key with
  | nil => simp [remove, HOK, Balanced]
  | node l k v hh r ihl ihr =>
    obtain ⟨a1, a2, a3⟩ := h1
    obtain ⟨b1, b2, b3, b4⟩ := h2
    simp only [height_node]
    rcases remove_node_cases l k v hh r key with ⟨c, e⟩ | ⟨c, e⟩ | ⟨c, hl, e⟩ | ⟨c, _, hr, e⟩ |
      ⟨c, _, sk, sv, hm, e⟩ <;> rw [e]
    · obtain ⟨i1, i2, i3, i4⟩ := ihl key a1 b1
      obtain ⟨r1, r2, r3, r4, r5⟩ := rebalance_hb (remove l key) r k v i1 a2 i2 b2 (by omega) (by omega)
      refine ⟨r1, r2, ?_, ?_⟩ <;> omega
    · obtain ⟨i1, i2, i3, i4⟩ := ihr key a2 b2
      obtain ⟨r1, r2, r3, r4, r5⟩ := rebalance_hb l (remove r key) k v a1 i1 b1 i2 (by omega) (by omega)
      refine ⟨r1, r2, ?_, ?_⟩ <;> omega
    · subst hl
      simp only [height_nil] at *
      exact ⟨a2, b2, by omega, by omega⟩
    · subst hr
      simp only [height_nil] at *
      exact ⟨a1, b1, by omega, by omega⟩
    · obtain ⟨i1, i2, i3, i4⟩ := ihr sk a2 b2
      obtain ⟨r1, r2, r3, r4, r5⟩ := rebalance_hb l (remove r sk) sk sv a1 i1 b1 i2 (by omega) (by omega)
      refine ⟨r1, r2, ?_, ?_⟩ <;> omega

theorem height_eq_real' (t : Tree) (h : HOK t) : height t = realHeight t := by
  induction t with
  | nil => rfl
  | node l k v hh r ihl ihr =>
    obtain ⟨a1, a2, a3⟩ := h
    simp only [height_node, realHeight, ← ihl a1, ← ihr a2, a3]

theorem fib_add_two (n : Nat) : fib (n + 2) = fib n + fib (n + 1) := by rw [fib]

theorem fib_le_succ (n : Nat) : fib n ≤ fib (n + 1) := by
  cases n with
  | zero => simp [fib]
  | succ m => rw [fib_add_two]; omega

theorem fib_le_size' (t : Tree) (h1 : HOK t) (h2 : Balanced t) :
    fib (height t + 2) ≤ size t + 1 := by
  induction t with
  | nil => simp [fib, size]
  | node l k v hh r ihl ihr =>
    obtain ⟨a1, a2, a3⟩ := h1
    obtain ⟨b1, b2, b3, b4⟩ := h2
    have il := ihl a1 b1
    have ir := ihr a2 b2
    simp only [height_node, size]
    generalize height l = p at *
    generalize height r = q at *
    subst a3
    have hcases : (p = q) ∨ (p = q + 1) ∨ (q = p + 1) := by omega
    rcases hcases with e | e | e
    · subst e
      have e0 : max p p + 1 + 2 = p + 3 := by omega
      have e1 : fib (p + 3) = fib (p + 1) + fib (p + 2) := fib_add_two (p + 1)
      have e2 : fib (p + 1) ≤ fib (p + 2) := fib_le_succ (p + 1)
      rw [e0, e1]
      omega
    · subst e
      have e0 : max (q + 1) q + 1 + 2 = q + 4 := by omega
      have e1 : fib (q + 4) = fib (q + 2) + fib (q + 3) := fib_add_two (q + 2)
      have e2 : fib (q + 1 + 2) = fib (q + 3) := rfl
      rw [e2] at il
      rw [e0, e1]
      omega
    · subst e
      have e0 : max p (p + 1) + 1 + 2 = p + 4 := by omega
      have e1 : fib (p + 4) = fib (p + 2) + fib (p + 3) := fib_add_two (p + 2)
      have e2 : fib (p + 1 + 2) = fib (p + 3) := rfl
      rw [e2] at ir
      rw [e0, e1]
      omega

end CbModel.Avl
