import CbModel.Preproc
import CbModel.PreprocSpec
