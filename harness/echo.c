/* C20 echo library: one function per (signature, observed position).  Functions of signatures the runtime
   cannot marshal drop a marker file when they are (wrongly) called. */
#include <stdio.h>
static void marker(const char *name) { FILE *f = fopen(name, "w"); if (f) { fputs("called\n", f); fclose(f); } }
double d1(double a) { return a; }
double d2_0(double a, double b) { (void)b; return a; }
double d2_1(double a, double b) { (void)a; return b; }
double d4_0(double a, double b, double c, double d) { (void)b; (void)c; (void)d; return a; }
double d4_1(double a, double b, double c, double d) { (void)a; (void)c; (void)d; return b; }
double d4_2(double a, double b, double c, double d) { (void)a; (void)b; (void)d; return c; }
double d4_3(double a, double b, double c, double d) { (void)a; (void)b; (void)c; return d; }
double di(int a) { return (double)a * 0.5; }
int i0(void) { return -2147483647 - 1; }
int i1(int a) { return a; }
int i2_0(int a, int b) { (void)b; return a; }
int i2_1(int a, int b) { (void)a; return b; }
double conv(double a) { return a + 0.5; }
int only1(int a) { return a * 5; }
long li(int a) { return (long)a * 4294967296L + 7; }
static int seen = 0;
void v0(void) { seen = 42; }
void vi(int a) { seen = a; }
int getseen(void) { return seen; }
/* unsupported signatures: must never be called */
int u_iii(int a, int b, int c) { marker("called_u_iii"); return a + b + c; }
double u_ddd(double a, double b, double c) { marker("called_u_ddd"); return a + b + c; }
long u_ll(long a) { marker("called_u_ll"); return a; }
int u_id(double a) { marker("called_u_id"); return (int)a; }
float u_ff(float a) { marker("called_u_ff"); return a; }
double u_dl(long a) { marker("called_u_dl"); return (double)a; }
void u_vd(double a) { marker("called_u_vd"); (void)a; }
long u_l0(void) { marker("called_u_l0"); return 5; }
