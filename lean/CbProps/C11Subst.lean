import CbModel.TypeSubst
import CbProofs.TypeSubst
/-
  C11 — "generic code equals its hand-specialised copy": the type names of an instantiated body are the generic body's
  type names with exactly the type parameters replaced.  Theorems about CbModel.TypeSubst (the model of
  substitute_type_string and its helpers, tied to the C++ by the correspondence check of tools/props/c11.py, suite S4).
  STATEMENTS ARE FIXED — do not weaken them.
-/
namespace CbProps.C11Subst
open CbModel.TypeSubst
open CbProofs.TypeSubst

/-! ## declarator-like type strings (no '<'): substitution acts identifier by identifier -/

inductive Tok where
  | ident (s : Str)
  | sym (c : Char)
  deriving Repr, DecidableEq

def Tok.render : Tok → Str
  | .ident s => s
  | .sym c => [c]

def render (ts : List Tok) : Str := (ts.map Tok.render).flatten

/-- a C identifier: a letter or '_' followed by letters, digits, '_' -/
def IsIdent (s : Str) : Prop := ∃ c cs, s = c :: cs ∧ isIdStart c = true ∧ cs.all isIdChar = true

/-- a token list the scanner reads back as itself: identifiers are identifiers, symbols cannot start an identifier, and an
    identifier is not directly followed by an identifier or by an identifier character (a digit) -/
def WFToks : List Tok → Prop
  | [] => True
  | .sym c :: r => isIdStart c = false ∧ WFToks r
  | .ident s :: r => IsIdent s ∧ (match r with
                                  | [] => True
                                  | .ident _ :: _ => False
                                  | .sym c :: _ => isIdChar c = false) ∧ WFToks r

def substTok (enumP : Str → Bool) (σ : TMap) : Tok → Str
  | .ident s => substIdent enumP σ s
  | .sym c => [c]

/-- the identifier loop substitutes token by token: qualifiers, '*', '&', array dimensions, blanks … are kept, and only
    WHOLE identifiers are looked up (`Tmp`, `T1`, `xT` are not touched by a parameter `T`) -/
theorem substIdents_tokenwise (enumP : Str → Bool) (σ : TMap) (ts : List Tok) (h : WFToks ts) :
    substIdents enumP σ (render ts) = (ts.map (substTok enumP σ)).flatten := by
  have key : ∀ (ts : List Tok) (fuel : Nat), WFToks ts → (render ts).length ≤ fuel →
      substIdentsF enumP σ fuel (render ts) = (ts.map (substTok enumP σ)).flatten := by
    intro ts
    induction ts with
    | nil => intro fuel _ _; simp [render, substIdentsF_nil]
    | cons t r ih =>
      intro fuel hwf hlen
      cases t with
      | sym c =>
        obtain ⟨hc, hr⟩ := hwf
        have hrender : render (Tok.sym c :: r) = c :: render r := by simp [render, Tok.render]
        rw [hrender] at hlen ⊢
        cases fuel with
        | zero => simp at hlen
        | succ f =>
          rw [substIdentsF_sym enumP σ f c _ hc, ih f hr (by simpa using hlen)]
          simp [substTok]
      | ident s =>
        obtain ⟨⟨c, cs, rfl, hc, hcs⟩, hnext, hr⟩ := hwf
        have hrender : render (Tok.ident (c :: cs) :: r) = c :: (cs ++ render r) := by
          simp [render, Tok.render]
        rw [hrender] at hlen ⊢
        have hrest : (render r).takeWhile isIdChar = [] := by
          cases r with
          | nil => simp [render]
          | cons t' r' =>
            cases t' with
            | ident s' => exact absurd hnext id
            | sym c' =>
              have : isIdChar c' = false := hnext
              simp [render, Tok.render, this]
        cases fuel with
        | zero => simp at hlen
        | succ f =>
          rw [substIdentsF_ident enumP σ f c cs _ hc hcs hrest,
            ih f hr (by simp at hlen; omega)]
          simp [substTok]
  exact key ts _ h (Nat.le_refl _)

/-- a type parameter is replaced by its argument -/
theorem param_replaced (enumP : Str → Bool) (σ : TMap) (s a : Str) (h : lookup σ s = some a) :
    substIdent enumP σ s = a := by
  simp [substIdent, h]

/-- an identifier that is not a parameter and contains no '_' is kept -/
theorem plain_ident_kept (enumP : Str → Bool) (σ : TMap) (s : Str) (h : lookup σ s = none) (hu : s.contains '_' = false) :
    substIdent enumP σ s = s := by
  simp only [substIdent, h, hu]
  rfl

/-- an identifier with underscores that is not the normalized spelling of a known generic enum is kept exactly
    (`_N`, `Tail_`, `My__node`, `Node_T` with no generic enum `Node`) -/
theorem underscore_ident_kept (enumP : Str → Bool) (σ : TMap) (s : Str) (h : lookup σ s = none)
    (hb : ∀ pos, 1 ≤ pos → pos < s.length → enumP (s.take pos) = false) :
    substIdent enumP σ s = s := by
  have hnone : baseEnd enumP s = none := by
    cases hbe : baseEnd enumP s with
    | none => rfl
    | some e =>
      obtain ⟨h1, h2, h3⟩ := baseEnd_sound enumP s e hbe
      have hlt : e < s.length := by
        rcases Nat.lt_or_ge e s.length with hlt | hge
        · exact hlt
        · rw [List.getElem?_eq_none hge] at h2; cases h2
      rw [hb e h1 hlt] at h3
      cases h3
  simp only [substIdent, h, substNormalized, hnone]
  split <;> rfl

/-- the normalized spelling of a generic enum (`Option_T`, `Result_T_E`): when none of its '_'-separated arguments is a
    parameter the name is kept exactly — empty parts included -/
theorem normalized_without_params_kept (enumP : Str → Bool) (σ : TMap) (s : Str) (h : lookup σ s = none)
    (hp : ∀ e, baseEnd enumP s = some e → ∀ p ∈ splitOnChar '_' (s.drop (e + 1)), lookup σ p = none) :
    substIdent enumP σ s = s := by
  simp only [substIdent, h, substNormalized]
  split
  · cases hbe : baseEnd enumP s with
    | none => rfl
    | some e =>
      obtain ⟨_, h2, _⟩ := baseEnd_sound enumP s e hbe
      have hmap : (splitOnChar '_' (s.drop (e + 1))).map (fun p => '_' :: substPart σ p)
          = (splitOnChar '_' (s.drop (e + 1))).map ('_' :: ·) := by
        apply List.map_congr_left
        intro p hp'
        simp [substPart, hp e hbe p hp']
      show s.take e ++ _ = s
      rw [hmap, splitOnChar_join, take_cons_drop_succ s e '_' h2]
  · rfl

/-- the normalized spelling with base `b` (a known generic enum, and the longest such prefix) and arguments `ps`:
    every argument that is a parameter is replaced, the others are kept -/
theorem normalized_args_replaced (enumP : Str → Bool) (σ : TMap) (b : Str) (ps : List Str)
    (hb : b ≠ []) (hps : ps ≠ []) (hnu : ∀ p ∈ ps, '_' ∉ p)
    (he : enumP b = true)
    (hlong : ∀ pos, b.length < pos → enumP ((b ++ (ps.map ('_' :: ·)).flatten).take pos) = false)
    (hl : lookup σ (b ++ (ps.map ('_' :: ·)).flatten) = none) :
    substIdent enumP σ (b ++ (ps.map ('_' :: ·)).flatten) = b ++ (ps.map (fun p => '_' :: substPart σ p)).flatten := by
  obtain ⟨p, ps', rfl⟩ := List.exists_cons_of_ne_nil hps
  have hbpos : 1 ≤ b.length := by
    cases b with
    | nil => exact absurd rfl hb
    | cons _ _ => simp
  have hbe : baseEnd enumP (b ++ ((p :: ps').map ('_' :: ·)).flatten) = some b.length := by
    apply baseEndAux_last
    · omega
    · simp
    · refine ⟨hbpos, ?_, ?_⟩
      · simp
      · simpa using he
    · intro q hq _ ht
      have := hlong q hq
      rw [ht.2.2] at this
      cases this
  have hc : (b ++ ((p :: ps').map ('_' :: ·)).flatten).contains '_' = true := by simp
  simp only [substIdent, hl, hc, if_true, substNormalized, hbe]
  have hdrop : (b ++ ((p :: ps').map ('_' :: ·)).flatten).drop (b.length + 1)
      = p ++ (ps'.map ('_' :: ·)).flatten := by
    rw [← List.drop_drop, List.drop_left' rfl]
    simp
  rw [hdrop, List.take_left' rfl,
    splitOnChar_joined '_' p ps' (hnu p (by simp)) (fun q hq => hnu q (by simp [hq]))]

/-- a whole declarator without parameters and without generic-enum spellings is unchanged -/
theorem no_params_unchanged (enumP : Str → Bool) (σ : TMap) (ts : List Tok) (h : WFToks ts)
    (hn : ∀ s, Tok.ident s ∈ ts → lookup σ s = none ∧ ∀ pos, 1 ≤ pos → pos < s.length → enumP (s.take pos) = false) :
    substIdents enumP σ (render ts) = render ts := by
  rw [substIdents_tokenwise enumP σ ts h]
  unfold render
  congr 1
  apply List.map_congr_left
  intro t ht
  cases t with
  | sym c => rfl
  | ident s =>
    obtain ⟨h1, h2⟩ := hn s ht
    exact underscore_ident_kept enumP σ s h1 h2

/-! ## generic type names  Box<T>, Pair<A, Box<B>> -/

inductive GTy where
  | leaf (s : Str)
  | app (name : Str) (args : List GTy)

mutual
def GTy.render : GTy → Str
  | .leaf s => s
  | .app n args => n ++ '<' :: (joinCommaSpace (GTy.renderList args) ++ ['>'])
def GTy.renderList : List GTy → List Str
  | [] => []
  | t :: r => t.render :: GTy.renderList r
end

mutual
def GTy.subst (σ : TMap) : GTy → GTy
  | .leaf s => .leaf (substPart σ s)
  | .app n args => .app n (GTy.substList σ args)
def GTy.substList (σ : TMap) : List GTy → List GTy
  | [] => []
  | t :: r => t.subst σ :: GTy.substList σ r
end

mutual
def GTy.depth : GTy → Nat
  | .leaf _ => 0
  | .app _ args => GTy.depthList args + 1
def GTy.depthList : List GTy → Nat
  | [] => 0
  | t :: r => max t.depth (GTy.depthList r)
end

def plainName (s : Str) : Prop := '<' ∉ s ∧ '>' ∉ s ∧ ',' ∉ s

/- leaves are non-empty names without brackets / commas that neither start nor end with a blank; applied names contain no
   brackets / commas and do not start with a blank -/
mutual
def GTy.WF : GTy → Prop
  | .leaf s => s ≠ [] ∧ plainName s ∧ (∀ c, s.head? = some c → isBlank c = false) ∧ (∀ c, s.getLast? = some c → isBlank c = false)
  | .app n args => plainName n ∧ (∀ c, n.head? = some c → isBlank c = false) ∧ GTy.WFList args
def GTy.WFList : List GTy → Prop
  | [] => True
  | t :: r => t.WF ∧ GTy.WFList r
end

/-- substitute_generic_type_name substitutes exactly the leaves of the type tree, at every nesting depth -/
theorem substGeneric_tree (σ : TMap) (t : GTy) (h : t.WF) (fuel : Nat) (hf : t.depth < fuel) :
    substGeneric σ fuel t.render = (t.subst σ).render := by
  -- rendered well-formed trees are passed over by the splitter and survive trimming
  have hcg : ∀ t : GTy, t.WF → Closed t.render ∧ Good t.render := by
    intro t
    refine GTy.rec (motive_1 := fun t => t.WF → Closed t.render ∧ Good t.render)
      (motive_2 := fun l => GTy.WFList l → ∀ q ∈ GTy.renderList l, Closed q ∧ Good q) ?_ ?_ ?_ ?_ t
    · intro s hwf
      simp only [GTy.WF] at hwf
      simp only [GTy.render]
      exact ⟨closed_plain s hwf.2.1, hwf.1, hwf.2.2.1, hwf.2.2.2⟩
    · intro n args ih hwf
      simp only [GTy.WF] at hwf
      simp only [GTy.render]
      exact ⟨closed_app n _ hwf.1 (inner_join _ (fun p hp => (ih hwf.2.2 p hp).1)), good_bracketed n _ hwf.2.1⟩
    · intro _ q hq
      simp [GTy.renderList] at hq
    · intro t r iht ihr hwf q hq
      simp only [GTy.WFList] at hwf
      simp only [GTy.renderList, List.mem_cons] at hq
      rcases hq with rfl | hq
      · exact iht hwf.1
      · exact ihr hwf.2 q hq
  have hcgl : ∀ l : List GTy, GTy.WFList l → ∀ q ∈ GTy.renderList l, Closed q ∧ Good q := by
    intro l
    induction l with
    | nil => intro _ q hq; simp [GTy.renderList] at hq
    | cons t r ih =>
      intro hwf q hq
      simp only [GTy.WFList] at hwf
      simp only [GTy.renderList, List.mem_cons] at hq
      rcases hq with rfl | hq
      · exact hcg t hwf.1
      · exact ih hwf.2 q hq
  have main : ∀ (t : GTy) (fuel : Nat), t.WF → t.depth < fuel →
      substGeneric σ fuel t.render = (t.subst σ).render := by
    intro t
    refine GTy.rec
      (motive_1 := fun t => ∀ fuel : Nat, t.WF → t.depth < fuel →
        substGeneric σ fuel t.render = (t.subst σ).render)
      (motive_2 := fun l => ∀ fuel : Nat, GTy.WFList l → GTy.depthList l < fuel →
        (GTy.renderList l).map (substGeneric σ fuel) = GTy.renderList (GTy.substList σ l)) ?_ ?_ ?_ ?_ t
    · intro s fuel hwf hd
      cases fuel with
      | zero => omega
      | succ f =>
        simp only [GTy.WF] at hwf
        simp only [GTy.render, GTy.subst]
        exact substGeneric_leaf σ f s hwf.2.1.1
    · intro n args ih fuel hwf hd
      cases fuel with
      | zero => omega
      | succ f =>
        simp only [GTy.WF] at hwf
        simp only [GTy.depth] at hd
        simp only [GTy.render, GTy.subst]
        rw [substGeneric_app σ f n _ hwf.1.1 (hcgl args hwf.2.2), ih f hwf.2.2 (by omega)]
    · intro fuel _ _
      simp [GTy.renderList, GTy.substList]
    · intro t r iht ihr fuel hwf hd
      simp only [GTy.WFList] at hwf
      simp only [GTy.depthList] at hd
      simp only [GTy.renderList, GTy.substList, List.map_cons]
      rw [iht fuel hwf.1 (by omega), ihr fuel hwf.2 (by omega)]
  exact main t fuel h hf

/-- … and the fuel substitute_type_string passes is always enough -/
theorem depth_lt_length (t : GTy) : t.depth < t.render.length + 1 := by
  have key : t.depth ≤ t.render.length := by
    refine GTy.rec (motive_1 := fun t => t.depth ≤ t.render.length)
      (motive_2 := fun l => GTy.depthList l ≤ (joinCommaSpace (GTy.renderList l)).length) ?_ ?_ ?_ ?_ t
    · intro s
      simp [GTy.depth]
    · intro n args ih
      simp only [GTy.depth, GTy.render, List.length_append, List.length_cons, List.length_nil]
      omega
    · simp [GTy.depthList]
    · intro t r iht ihr
      simp only [GTy.depthList, GTy.renderList]
      have h1 := length_le_join_head t.render (GTy.renderList r)
      have h2 := join_tail_length_le t.render (GTy.renderList r)
      omega
  omega

/-- substitute_type_string on a generic type followed by a declarator suffix ("*", "&", "[3]"): the tree is substituted,
    the suffix kept -/
theorem substTypeString_generic (enumP : Str → Bool) (σ : TMap) (n : Str) (args : List GTy) (suffix : Str)
    (h : (GTy.app n args).WF) (hs : '<' ∉ suffix ∧ '>' ∉ suffix) :
    substTypeString enumP σ ((GTy.app n args).render ++ suffix) = ((GTy.app n args).subst σ).render ++ suffix := by
  have hrender : (GTy.app n args).render = n ++ '<' :: (joinCommaSpace (GTy.renderList args) ++ ['>']) := by
    simp only [GTy.render]
  rw [hrender, substTypeString_bracketed enumP σ n _ suffix hs.2, ← hrender]
  congr 1
  apply substGeneric_tree σ _ h
  have := depth_lt_length (GTy.app n args)
  simp only [List.length_append]
  omega

/-- substitute_type_string on a declarator without '<' is the token-wise substitution -/
theorem substTypeString_declarator (enumP : Str → Bool) (σ : TMap) (ts : List Tok) (h : WFToks ts)
    (hlt : ∀ c, Tok.sym c ∈ ts → c ≠ '<') :
    substTypeString enumP σ (render ts) = (ts.map (substTok enumP σ)).flatten := by
  have hno : ∀ ts : List Tok, WFToks ts → (∀ c, Tok.sym c ∈ ts → c ≠ '<') → '<' ∉ render ts := by
    intro ts
    induction ts with
    | nil => intro _ _; simp [render]
    | cons t r ih =>
      intro hwf hlt
      cases t with
      | sym c =>
        have ihr := ih hwf.2 (fun c hc => hlt c (by simp [hc]))
        have hc := hlt c (by simp)
        simp only [render, List.map_cons, List.flatten_cons, Tok.render] at ihr ⊢
        intro hm
        simp only [List.mem_append, List.mem_singleton] at hm
        rcases hm with hm | hm
        · exact hc hm.symm
        · exact ihr hm
      | ident s =>
        obtain ⟨⟨c, cs, rfl, hc, hcs⟩, _, hr⟩ := hwf
        have ihr := ih hr (fun c hc => hlt c (by simp [hc]))
        have hall : (c :: cs).all isIdChar = true := by
          simp only [List.all_cons, Bool.and_eq_true]
          exact ⟨isIdChar_of_isIdStart hc, hcs⟩
        have hs := lt_not_mem_of_all_idChar _ hall
        simp only [render, List.map_cons, List.flatten_cons, Tok.render] at ihr ⊢
        intro hm
        rcases List.mem_append.mp hm with hm | hm
        · exact hs hm
        · exact ihr hm
  rw [substTypeString_no_lt enumP σ _ (hno ts h hlt)]
  exact substIdents_tokenwise enumP σ ts h

/-! ## non-vacuity: the hypotheses are met by ordinary type names -/

def sigma : TMap := [("T".toList, "int".toList), ("U".toList, "Box<long>".toList)]
def isOpt (s : Str) : Bool := s == "Option".toList

example : WFToks [.ident "const".toList, .sym ' ', .ident "T".toList, .sym '*', .sym '[', .sym '3', .sym ']'] := by
  refine ⟨⟨'c', "onst".toList, by decide, by decide, by decide⟩, by decide, by decide,
    ⟨'T', [], by decide, by decide, by decide⟩, by decide, by decide, by decide, by decide, by decide, trivial⟩
example : substIdents isOpt sigma "const T*[3]".toList = "const int*[3]".toList := by decide
example : substIdents isOpt sigma "Tmp T1 xT _N Tail_ Node_T Option_T".toList = "Tmp T1 xT _N Tail_ Node_T Option_int".toList := by decide
example : (GTy.app "Pair".toList [.leaf "T".toList, .app "Box".toList [.leaf "U".toList]]).WF := by
  simp only [GTy.WF, GTy.WFList, plainName]
  decide
example : substTypeString isOpt sigma "Pair<T, Box<U>>*".toList = "Pair<int, Box<Box<long>>>*".toList := by decide

end CbProps.C11Subst
