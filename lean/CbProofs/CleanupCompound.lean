/-
  C06 — compound objects.  Proof structure:
  * unfolding lemmas in projection form (`sexecList_cons`, `siter_succ`, `sexecList_singleton`);
  * fuel monotonicity of the specification (`sexec_mono` / `sexecList_mono` / `siter_mono`);
  * splitting a statement list (`sexecList_append_norm` / `sexecList_append_abort`);
  * id invariant: all registered objects and all ctor/dtor events carry ids in 1..99 (`ok_all`);
  * the simulation `sim_all` (joint induction on fuel) and the two theorems.
-/
import CbModel.CleanupCompound
import CbProofs.Cleanup
namespace CbModel.Cleanup

/-! ### unfolding lemmas -/

theorem sexec_ifS_true (fs : Funcs) (fuel : Nat) (body : List Sk) (sc : Scope) :
    sexec fs (fuel+1) (.ifS true body) sc = sexec fs fuel (.block body) sc := by
  simp only [sexec, if_true]

theorem sexec_ifS_false (fs : Funcs) (fuel : Nat) (body : List Sk) (sc : Scope) :
    sexec fs (fuel+1) (.ifS false body) sc = (.norm, sc, []) := by
  simp [sexec]

theorem sexecList_cons (fs : Funcs) (fuel : Nat) (sk : Sk) (rest : List Sk) (sc : Scope) :
    sexecList fs (fuel+1) (sk :: rest) sc =
      if (sexec fs fuel sk sc).1 = .norm then
        ((sexecList fs fuel rest (sexec fs fuel sk sc).2.1).1,
         (sexecList fs fuel rest (sexec fs fuel sk sc).2.1).2.1,
         (sexec fs fuel sk sc).2.2 ++ (sexecList fs fuel rest (sexec fs fuel sk sc).2.1).2.2)
      else sexec fs fuel sk sc := by
  rw [sexecList.eq_3]
  generalize sexec fs fuel sk sc = q
  obtain ⟨sg, sc1, e1⟩ := q
  cases sg <;> simp

theorem siter_succ (fs : Funcs) (fuel n : Nat) (body : List Sk) (sc : Scope) :
    siter fs (fuel+1) (n+1) body sc =
      if (sexec fs fuel (.block body) sc).1 = .norm ∨ (sexec fs fuel (.block body) sc).1 = .cont then
        ((siter fs fuel n body (sexec fs fuel (.block body) sc).2.1).1,
         (siter fs fuel n body (sexec fs fuel (.block body) sc).2.1).2.1,
         (sexec fs fuel (.block body) sc).2.2 ++
           (siter fs fuel n body (sexec fs fuel (.block body) sc).2.1).2.2)
      else if (sexec fs fuel (.block body) sc).1 = .brk then
        (.norm, (sexec fs fuel (.block body) sc).2.1, (sexec fs fuel (.block body) sc).2.2)
      else sexec fs fuel (.block body) sc := by
  rw [siter.eq_3]
  generalize sexec fs fuel (.block body) sc = q
  obtain ⟨sg, sc1, e1⟩ := q
  cases sg <;> simp

theorem sexecList_singleton (fs : Funcs) (fuel : Nat) (sk : Sk) (sc : Scope) :
    sexecList fs (fuel+1) [sk] sc = sexec fs fuel sk sc := by
  rw [sexecList_cons]
  cases fuel with
  | zero => simp [sexec]
  | succ fuel =>
    split
    · next h => simp [sexecList, ← h]
    · rfl

/-! ### fuel monotonicity of the specification -/

def MonoE (fs : Funcs) (fuel : Nat) : Prop :=
  ∀ sk sc, (sexec fs fuel sk sc).1 ≠ .oof → sexec fs (fuel+1) sk sc = sexec fs fuel sk sc
def MonoL (fs : Funcs) (fuel : Nat) : Prop :=
  ∀ l sc, (sexecList fs fuel l sc).1 ≠ .oof → sexecList fs (fuel+1) l sc = sexecList fs fuel l sc
def MonoI (fs : Funcs) (fuel : Nat) : Prop :=
  ∀ n body sc, (siter fs fuel n body sc).1 ≠ .oof →
    siter fs (fuel+1) n body sc = siter fs fuel n body sc

theorem monoE_succ {fs : Funcs} {fuel : Nat} (hE : MonoE fs fuel) (hL : MonoL fs fuel)
    (hI : MonoI fs fuel) : MonoE fs (fuel+1) := by
  intro sk sc h
  cases sk with
  | obj id => simp [sexec]
  | defer id => simp [sexec]
  | mark id => simp [sexec]
  | block body =>
    rw [sexec_block] at h
    rw [sexec_block, sexec_block, hL body _ h]
  | ifS taken body =>
    cases taken with
    | true =>
      rw [sexec_ifS_true] at h
      rw [sexec_ifS_true, sexec_ifS_true, hE _ _ h]
    | false => simp [sexec_ifS_false]
  | loop n body =>
    rw [sexec_loop] at h
    rw [sexec_loop, sexec_loop, hI _ _ _ h]
  | call f =>
    cases hf : fs[f]? with
    | none => rw [sexec_call_none _ _ _ _ hf] at h; exact absurd rfl h
    | some body =>
      rw [sexec_call_some _ _ _ _ _ hf] at h
      rw [sexec_call_some _ _ _ _ _ hf, sexec_call_some _ _ _ _ _ hf, hL body _ (callSig_ne_oof.1 h)]
  | ret => simp [sexec]
  | brk => simp [sexec]
  | cont => simp [sexec]

theorem monoL_succ {fs : Funcs} {fuel : Nat} (hE : MonoE fs fuel) (hL : MonoL fs fuel) :
    MonoL fs (fuel+1) := by
  intro l sc h
  cases l with
  | nil => simp [sexecList]
  | cons sk rest =>
    rw [sexecList_cons] at h
    rw [sexecList_cons, sexecList_cons]
    have h1 : (sexec fs fuel sk sc).1 ≠ .oof := by
      intro h'
      rw [if_neg (by rw [h']; decide)] at h
      exact h h'
    rw [hE sk sc h1]
    by_cases hn : (sexec fs fuel sk sc).1 = .norm
    · rw [if_pos hn] at h
      rw [if_pos hn, if_pos hn, hL rest _ h]
    · rw [if_neg hn, if_neg hn]

theorem monoI_succ {fs : Funcs} {fuel : Nat} (hE : MonoE fs fuel) (hI : MonoI fs fuel) :
    MonoI fs (fuel+1) := by
  intro n body sc h
  cases n with
  | zero => simp [siter]
  | succ n =>
    rw [siter_succ] at h
    rw [siter_succ, siter_succ]
    have h1 : (sexec fs fuel (.block body) sc).1 ≠ .oof := by
      intro h'
      rw [if_neg (by rw [h']; decide), if_neg (by rw [h']; decide)] at h
      exact h h'
    rw [hE _ sc h1]
    by_cases hn : (sexec fs fuel (.block body) sc).1 = .norm ∨ (sexec fs fuel (.block body) sc).1 = .cont
    · rw [if_pos hn] at h
      rw [if_pos hn, if_pos hn, hI n body _ h]
    · rw [if_neg hn, if_neg hn]

theorem mono_all (fs : Funcs) (fuel : Nat) : MonoE fs fuel ∧ MonoL fs fuel ∧ MonoI fs fuel := by
  induction fuel with
  | zero =>
    refine ⟨?_, ?_, ?_⟩
    · intro sk sc h; simp [sexec] at h
    · intro l sc h; simp [sexecList] at h
    · intro n body sc h; simp [siter] at h
  | succ fuel ih =>
    obtain ⟨hE, hL, hI⟩ := ih
    exact ⟨monoE_succ hE hL hI, monoL_succ hE hL, monoI_succ hE hI⟩

theorem sexec_mono {fs : Funcs} {fuel fuel' : Nat} {sk : Sk} {sc : Scope}
    (h : (sexec fs fuel sk sc).1 ≠ .oof) (hle : fuel ≤ fuel') :
    sexec fs fuel' sk sc = sexec fs fuel sk sc := by
  induction hle with
  | refl => rfl
  | step _ ih => rw [(mono_all fs _).1 sk sc (by rw [ih]; exact h), ih]

theorem sexecList_mono {fs : Funcs} {fuel fuel' : Nat} {l : List Sk} {sc : Scope}
    (h : (sexecList fs fuel l sc).1 ≠ .oof) (hle : fuel ≤ fuel') :
    sexecList fs fuel' l sc = sexecList fs fuel l sc := by
  induction hle with
  | refl => rfl
  | step _ ih => rw [(mono_all fs _).2.1 l sc (by rw [ih]; exact h), ih]

theorem siter_mono {fs : Funcs} {fuel fuel' : Nat} {n : Nat} {body : List Sk} {sc : Scope}
    (h : (siter fs fuel n body sc).1 ≠ .oof) (hle : fuel ≤ fuel') :
    siter fs fuel' n body sc = siter fs fuel n body sc := by
  induction hle with
  | refl => rfl
  | step _ ih => rw [(mono_all fs _).2.2 n body sc (by rw [ih]; exact h), ih]

/-! ### splitting a statement list -/

theorem sexecList_append_abort (fs : Funcs) (l1 l2 : List Sk) :
    ∀ (F : Nat) (sc : Scope), (sexecList fs F l1 sc).1 ≠ .norm →
      sexecList fs F (l1 ++ l2) sc = sexecList fs F l1 sc := by
  induction l1 with
  | nil =>
    intro F sc h
    cases F with
    | zero => simp [sexecList]
    | succ F => simp [sexecList] at h
  | cons a l ih =>
    intro F sc h
    cases F with
    | zero => simp [sexecList]
    | succ F =>
      rw [sexecList_cons] at h
      rw [List.cons_append, sexecList_cons, sexecList_cons]
      by_cases hn : (sexec fs F a sc).1 = .norm
      · rw [if_pos hn] at h
        rw [if_pos hn, if_pos hn, ih F _ h]
      · rw [if_neg hn, if_neg hn]

theorem sexecList_append_norm (fs : Funcs) (l1 l2 : List Sk) :
    ∀ (F1 F2 : Nat) (sc : Scope), (sexecList fs F1 l1 sc).1 = .norm →
      (sexecList fs F2 l2 (sexecList fs F1 l1 sc).2.1).1 ≠ .oof →
      sexecList fs (F1 + F2) (l1 ++ l2) sc =
        ((sexecList fs F2 l2 (sexecList fs F1 l1 sc).2.1).1,
         (sexecList fs F2 l2 (sexecList fs F1 l1 sc).2.1).2.1,
         (sexecList fs F1 l1 sc).2.2 ++ (sexecList fs F2 l2 (sexecList fs F1 l1 sc).2.1).2.2) := by
  induction l1 with
  | nil =>
    intro F1 F2 sc h1 h2
    cases F1 with
    | zero => simp [sexecList] at h1
    | succ F =>
      simp only [sexecList] at h2 ⊢
      simp only [List.nil_append]
      rw [sexecList_mono h2 (by omega)]
  | cons a l ih =>
    intro F1 F2 sc h1 h2
    cases F1 with
    | zero => simp [sexecList] at h1
    | succ F =>
      rw [sexecList_cons] at h1 h2
      have hn : (sexec fs F a sc).1 = .norm := by
        by_cases hn : (sexec fs F a sc).1 = .norm
        · exact hn
        · rw [if_neg hn] at h1; exact absurd h1 hn
      rw [if_pos hn] at h1 h2
      simp only at h1 h2
      have e : F + 1 + F2 = (F + F2) + 1 := by omega
      rw [List.cons_append, e, sexecList_cons, sexecList_cons,
        sexec_mono (fuel := F) (by rw [hn]; decide) (by omega), if_pos hn, if_pos hn,
        ih F F2 _ h1 h2]
      simp [List.append_assoc]

/-! ### ids: all registered objects and all ctor/dtor events carry ids in 1..99 -/

def objsOk (l : List Nat) : Prop := ∀ x ∈ l, 0 < x ∧ x < 100

def evOk : Ev → Prop
  | .ctor n => 0 < n ∧ n < 100
  | .dtor n => 0 < n ∧ n < 100
  | _ => True

def evsOk (l : List Ev) : Prop := ∀ e ∈ l, evOk e

theorem objsOk_nil : objsOk [] := by simp [objsOk]
theorem evsOk_nil : evsOk [] := by simp [evsOk]
theorem evsOk_append {a b : List Ev} (ha : evsOk a) (hb : evsOk b) : evsOk (a ++ b) := by
  intro e he
  rcases List.mem_append.1 he with h | h
  · exact ha e h
  · exact hb e h

theorem evsOk_exitScope {sc : Scope} (h : objsOk sc.objs) : evsOk (exitScope sc) := by
  intro e he
  simp only [exitScope, runDefers, runDtors, List.mem_append, List.mem_map, List.mem_reverse] at he
  rcases he with ⟨a, _, rfl⟩ | ⟨a, ha, rfl⟩
  · trivial
  · exact h a ha

def Ok (q : Sig × Scope × List Ev) : Prop := objsOk q.2.1.objs ∧ evsOk q.2.2

def OkE (fs : Funcs) (fuel : Nat) : Prop :=
  ∀ sk sc, idsOkSk sk = true → objsOk sc.objs → Ok (sexec fs fuel sk sc)
def OkL (fs : Funcs) (fuel : Nat) : Prop :=
  ∀ l sc, idsOkList l = true → objsOk sc.objs → Ok (sexecList fs fuel l sc)
def OkI (fs : Funcs) (fuel : Nat) : Prop :=
  ∀ n body sc, idsOkList body = true → objsOk sc.objs → Ok (siter fs fuel n body sc)

theorem idsOk_get {fs : Funcs} (hid : idsOk fs = true) {f : Nat} {body : List Sk}
    (hf : fs[f]? = some body) : idsOkList body = true := by
  simp only [idsOk, List.all_eq_true] at hid
  exact hid body (List.mem_of_getElem? hf)

theorem idsOkSk_block (b : List Sk) : idsOkSk (.block b) = idsOkList b := by simp [idsOkSk]
theorem idsOkSk_ifS (t : Bool) (b : List Sk) : idsOkSk (.ifS t b) = idsOkList b := by simp [idsOkSk]
theorem idsOkSk_loop (k : Nat) (b : List Sk) : idsOkSk (.loop k b) = idsOkList b := by simp [idsOkSk]
theorem idsOkList_cons (sk : Sk) (r : List Sk) :
    idsOkList (sk :: r) = (idsOkSk sk && idsOkList r) := by simp [idsOkList]

theorem ok_frame {fs : Funcs} {fuel : Nat} (hL : OkL fs fuel) {body : List Sk}
    (hb : idsOkList body = true) :
    evsOk ((sexecList fs fuel body ⟨[], []⟩).2.2 ++ exitScope (sexecList fs fuel body ⟨[], []⟩).2.1) := by
  have H := hL body ⟨[], []⟩ hb objsOk_nil
  exact evsOk_append H.2 (evsOk_exitScope H.1)

theorem okE_succ {fs : Funcs} (hid : idsOk fs = true) {fuel : Nat} (hE : OkE fs fuel)
    (hL : OkL fs fuel) (hI : OkI fs fuel) : OkE fs (fuel+1) := by
  intro sk sc hsk hsc
  cases sk with
  | obj id =>
    simp only [idsOkSk, Bool.and_eq_true, decide_eq_true_eq] at hsk
    refine ⟨?_, ?_⟩
    · intro x hx
      simp only [sexec, List.mem_append, List.mem_singleton] at hx
      rcases hx with hx | rfl
      · exact hsc x hx
      · exact hsk
    · intro e he
      simp only [sexec, List.mem_singleton] at he
      subst he; exact hsk
  | defer id => exact ⟨by simpa [sexec] using hsc, by simp [sexec, evsOk]⟩
  | mark id => exact ⟨by simpa [sexec] using hsc, by simp [sexec, evsOk, evOk]⟩
  | block body =>
    rw [idsOkSk_block] at hsk
    rw [sexec_block]
    exact ⟨hsc, ok_frame hL hsk⟩
  | ifS taken body =>
    rw [idsOkSk_ifS] at hsk
    cases taken with
    | true => rw [sexec_ifS_true]; exact hE _ sc (by rw [idsOkSk_block]; exact hsk) hsc
    | false => rw [sexec_ifS_false]; exact ⟨hsc, evsOk_nil⟩
  | loop n body =>
    rw [idsOkSk_loop] at hsk
    rw [sexec_loop]; exact hI n body sc hsk hsc
  | call f =>
    cases hf : fs[f]? with
    | none => rw [sexec_call_none _ _ _ _ hf]; exact ⟨hsc, evsOk_nil⟩
    | some body =>
      rw [sexec_call_some _ _ _ _ _ hf]
      exact ⟨hsc, ok_frame hL (idsOk_get hid hf)⟩
  | ret => exact ⟨by simpa [sexec] using hsc, by simp [sexec, evsOk]⟩
  | brk => exact ⟨by simpa [sexec] using hsc, by simp [sexec, evsOk]⟩
  | cont => exact ⟨by simpa [sexec] using hsc, by simp [sexec, evsOk]⟩

theorem okL_succ {fs : Funcs} {fuel : Nat} (hE : OkE fs fuel) (hL : OkL fs fuel) :
    OkL fs (fuel+1) := by
  intro l sc hl hsc
  cases l with
  | nil => exact ⟨by simpa [sexecList] using hsc, by simp [sexecList, evsOk]⟩
  | cons sk rest =>
    rw [idsOkList_cons, Bool.and_eq_true] at hl
    have H1 := hE sk sc hl.1 hsc
    rw [sexecList_cons]
    split
    · have H2 := hL rest _ hl.2 H1.1
      exact ⟨H2.1, evsOk_append H1.2 H2.2⟩
    · exact H1

theorem okI_succ {fs : Funcs} {fuel : Nat} (hE : OkE fs fuel) (hI : OkI fs fuel) :
    OkI fs (fuel+1) := by
  intro n body sc hb hsc
  cases n with
  | zero => exact ⟨by simpa [siter] using hsc, by simp [siter, evsOk]⟩
  | succ n =>
    have H1 := hE (.block body) sc (by rw [idsOkSk_block]; exact hb) hsc
    rw [siter_succ]
    split
    · have H2 := hI n body _ hb H1.1
      exact ⟨H2.1, evsOk_append H1.2 H2.2⟩
    · split
      · exact H1
      · exact H1

theorem ok_all {fs : Funcs} (hid : idsOk fs = true) (fuel : Nat) :
    OkE fs fuel ∧ OkL fs fuel ∧ OkI fs fuel := by
  induction fuel with
  | zero =>
    refine ⟨?_, ?_, ?_⟩
    · intro sk sc _ hsc; exact ⟨by simpa [sexec] using hsc, by simp [sexec, evsOk]⟩
    · intro l sc _ hsc; exact ⟨by simpa [sexecList] using hsc, by simp [sexecList, evsOk]⟩
    · intro n body sc _ hsc; exact ⟨by simpa [siter] using hsc, by simp [siter, evsOk]⟩
  | succ fuel ih =>
    obtain ⟨hE, hL, hI⟩ := ih
    exact ⟨okE_succ hid hE hL hI, okL_succ hE hL, okI_succ hE hI⟩

/-! ### view / expand computations -/

def expObj (n : Nat) : List Nat := if oform n = 0 then [n] else [mem1 n, mem2 n, n]
def expObjs (l : List Nat) : List Nat := l.flatMap expObj
def expSc (sc : Scope) : Scope := ⟨sc.defers, expObjs sc.objs⟩

theorem expSc_nil : expSc ⟨[], []⟩ = ⟨[], []⟩ := rfl

theorem view_append (a b : List Ev) : view (a ++ b) = view a ++ view b := by simp [view]
theorem expand_append (a b : List Ev) : expand (a ++ b) = expand a ++ expand b := by simp [expand]
theorem view_nil : view [] = [] := rfl
theorem expand_nil : expand [] = [] := rfl

theorem view_runDefers (d : List Nat) : view (runDefers d) = runDefers d := by
  simp only [view, runDefers, List.filter_eq_self, List.mem_map]
  rintro e ⟨a, _, rfl⟩; rfl

theorem expand_runDefers (d : List Nat) : expand (runDefers d) = runDefers d := by
  simp only [runDefers]
  induction d.reverse with
  | nil => rfl
  | cons a l ih =>
    rw [List.map_cons, ← List.singleton_append, expand_append, ih]; rfl

theorem runDtors_append (a b : List Nat) : runDtors (a ++ b) = runDtors b ++ runDtors a := by
  simp [runDtors]

theorem view_runDtors_expObj (a : Nat) (h : 0 < a ∧ a < 100) :
    view (runDtors (expObj a)) = expandEv (.dtor a) := by
  have h3 : a % 3 = 0 ∨ a % 3 = 1 ∨ a % 3 = 2 := by omega
  have hm : ¬ (a * 100 + 2 < 100) := by omega
  have hm' : ¬ (a * 100 + 1 < 100) := by omega
  rcases h3 with h3 | h3 | h3 <;>
    simp [view, runDtors, expObj, expandEv, visible, oform, mem1, mem2, h3, h.2, hm, hm']

theorem view_runDtors_expObjs (x : List Nat) (h : objsOk x) :
    view (runDtors (expObjs x)) = expand (runDtors x) := by
  induction x with
  | nil => rfl
  | cons a l ih =>
    have e1 : expObjs (a :: l) = expObj a ++ expObjs l := by simp [expObjs]
    have e2 : runDtors (a :: l) = runDtors l ++ [Ev.dtor a] := by simp [runDtors]
    rw [e1, e2, runDtors_append, view_append, expand_append,
      ih (fun y hy => h y (List.mem_cons_of_mem _ hy)),
      view_runDtors_expObj a (h a List.mem_cons_self)]
    simp [expand]

theorem view_exitScope_expSc (sc : Scope) (h : objsOk sc.objs) :
    view (exitScope (expSc sc)) = expand (exitScope sc) := by
  simp only [exitScope, expSc, view_append, expand_append, view_runDefers, expand_runDefers,
    view_runDtors_expObjs _ h]

/-! ### the simulation -/

theorem desugar_get {fs : Funcs} {f : Nat} {body : List Sk} (hf : fs[f]? = some body) :
    (desugar fs)[f]? = some (desugarList body) := by
  simp [desugar, hf]

theorem desugarList_cons (sk : Sk) (r : List Sk) :
    desugarList (sk :: r) = desugarSk sk ++ desugarList r := by simp [desugarList]

def Sim (fs' : Funcs) (l' : List Sk) (sc : Scope) (q : Sig × Scope × List Ev) : Prop :=
  ∃ F e', sexecList fs' F l' (expSc sc) = (q.1, expSc q.2.1, e') ∧ view e' = expand q.2.2

def SimIter (fs' : Funcs) (n : Nat) (body' : List Sk) (sc : Scope) (q : Sig × Scope × List Ev) : Prop :=
  ∃ F e', siter fs' F n body' (expSc sc) = (q.1, expSc q.2.1, e') ∧ view e' = expand q.2.2

def SimE (fs : Funcs) (fuel : Nat) : Prop :=
  ∀ sk sc, idsOkSk sk = true → objsOk sc.objs → (sexec fs fuel sk sc).1 ≠ .oof →
    Sim (desugar fs) (desugarSk sk) sc (sexec fs fuel sk sc)
def SimL (fs : Funcs) (fuel : Nat) : Prop :=
  ∀ l sc, idsOkList l = true → objsOk sc.objs → (sexecList fs fuel l sc).1 ≠ .oof →
    Sim (desugar fs) (desugarList l) sc (sexecList fs fuel l sc)
def SimI (fs : Funcs) (fuel : Nat) : Prop :=
  ∀ n body sc, idsOkList body = true → objsOk sc.objs → (siter fs fuel n body sc).1 ≠ .oof →
    SimIter (desugar fs) n (desugarList body) sc (siter fs fuel n body sc)

/-- one simple statement that is its own desugaring -/
theorem sim_single {fs' : Funcs} {sk : Sk} {sc : Scope} {q : Sig × Scope × List Ev}
    (h : ∃ F e', sexec fs' F sk (expSc sc) = (q.1, expSc q.2.1, e') ∧ view e' = expand q.2.2) :
    Sim fs' [sk] sc q := by
  obtain ⟨F, e', h1, h2⟩ := h
  exact ⟨F+1, e', by rw [sexecList_singleton, h1], h2⟩

theorem sim_frame {fs' : Funcs} {body' : List Sk} {ql : Sig × Scope × List Ev}
    (h : Sim fs' body' ⟨[], []⟩ ql) (hok : objsOk ql.2.1.objs) :
    ∃ F e', sexecList fs' F body' ⟨[], []⟩ = (ql.1, expSc ql.2.1, e') ∧
      view (e' ++ exitScope (expSc ql.2.1)) = expand (ql.2.2 ++ exitScope ql.2.1) := by
  obtain ⟨F, e', h1, h2⟩ := h
  rw [expSc_nil] at h1
  exact ⟨F, e', h1, by rw [view_append, expand_append, h2, view_exitScope_expSc _ hok]⟩

theorem simE_succ {fs : Funcs} (hid : idsOk fs = true) {fuel : Nat} (hE : SimE fs fuel)
    (hL : SimL fs fuel) (hI : SimI fs fuel) : SimE fs (fuel+1) := by
  intro sk sc hsk hsc h
  cases sk with
  | obj n =>
    simp only [idsOkSk, Bool.and_eq_true, decide_eq_true_eq] at hsk
    have hm : ¬ (n * 100 + 2 < 100) := by omega
    have hm' : ¬ (n * 100 + 1 < 100) := by omega
    by_cases h0 : oform n = 0
    · refine ⟨2, [.ctor n], ?_, ?_⟩
      · simp [desugarSk, h0, sexecList, sexec, expSc, expObjs, expObj]
      · simp [sexec, view, visible, expand, expandEv, hsk.2]
    · refine ⟨4, [.ctor (mem1 n), .ctor (mem2 n), .ctor n], ?_, ?_⟩
      · simp [desugarSk, h0, sexecList, sexec, expSc, expObjs, expObj]
      · simp [sexec, view, visible, expand, expandEv, hsk.2, mem1, mem2, hm, hm']
  | defer id =>
    exact sim_single ⟨1, [], by simp [sexec, expSc], by simp [sexec, view, expand]⟩
  | mark id =>
    exact sim_single ⟨1, [.mark id], by simp [sexec], by simp [sexec, view, visible, expand, expandEv]⟩
  | block body =>
    rw [idsOkSk_block] at hsk
    rw [sexec_block] at h ⊢
    have hok := ((ok_all hid fuel).2.1 body ⟨[], []⟩ hsk objsOk_nil).1
    obtain ⟨F, e', h1, h2⟩ := sim_frame (hL body ⟨[], []⟩ hsk objsOk_nil h) hok
    have : desugarSk (.block body) = [.block (desugarList body)] := by simp [desugarSk]
    rw [this]
    exact sim_single ⟨F+1, _, by rw [sexec_block, h1], h2⟩
  | ifS taken body =>
    rw [idsOkSk_ifS] at hsk
    have : desugarSk (.ifS taken body) = [.ifS taken (desugarList body)] := by simp [desugarSk]
    rw [this]
    cases taken with
    | true =>
      rw [sexec_ifS_true] at h ⊢
      have H := hE (.block body) sc (by rw [idsOkSk_block]; exact hsk) hsc h
      have : desugarSk (.block body) = [.block (desugarList body)] := by simp [desugarSk]
      rw [this] at H
      obtain ⟨F, e', h1, h2⟩ := H
      cases F with
      | zero => simp [sexecList] at h1; exact absurd h1.1.symm h
      | succ F =>
        rw [sexecList_singleton] at h1
        exact sim_single ⟨F+1, e', by rw [sexec_ifS_true, h1], h2⟩
    | false =>
      exact sim_single ⟨1, [], by simp [sexec_ifS_false], by simp [sexec_ifS_false, view, expand]⟩
  | loop n body =>
    rw [idsOkSk_loop] at hsk
    rw [sexec_loop] at h ⊢
    have : desugarSk (.loop n body) = [.loop n (desugarList body)] := by simp [desugarSk]
    rw [this]
    obtain ⟨F, e', h1, h2⟩ := hI n body sc hsk hsc h
    exact sim_single ⟨F+1, e', by rw [sexec_loop, h1], h2⟩
  | call f =>
    have : desugarSk (.call f) = [.call f] := by simp [desugarSk]
    rw [this]
    cases hf : fs[f]? with
    | none => rw [sexec_call_none _ _ _ _ hf] at h; exact absurd rfl h
    | some body =>
      have hb := idsOk_get hid hf
      rw [sexec_call_some _ _ _ _ _ hf] at h ⊢
      have hok := ((ok_all hid fuel).2.1 body ⟨[], []⟩ hb objsOk_nil).1
      obtain ⟨F, e', h1, h2⟩ :=
        sim_frame (hL body ⟨[], []⟩ hb objsOk_nil (callSig_ne_oof.1 h)) hok
      exact sim_single ⟨F+1, _, by rw [sexec_call_some _ _ _ _ _ (desugar_get hf), h1], h2⟩
  | ret => exact sim_single ⟨1, [], by simp [sexec], by simp [sexec, view, expand]⟩
  | brk => exact sim_single ⟨1, [], by simp [sexec], by simp [sexec, view, expand]⟩
  | cont => exact sim_single ⟨1, [], by simp [sexec], by simp [sexec, view, expand]⟩

theorem simL_succ {fs : Funcs} (hid : idsOk fs = true) {fuel : Nat} (hE : SimE fs fuel)
    (hL : SimL fs fuel) : SimL fs (fuel+1) := by
  intro l sc hl hsc h
  cases l with
  | nil => exact ⟨1, [], by simp [sexecList, desugarList], by simp [sexecList, view, expand]⟩
  | cons sk rest =>
    rw [idsOkList_cons, Bool.and_eq_true] at hl
    rw [sexecList_cons] at h ⊢
    rw [desugarList_cons]
    have h1 : (sexec fs fuel sk sc).1 ≠ .oof := by
      intro h'
      rw [if_neg (by rw [h']; decide)] at h
      exact h h'
    obtain ⟨F1, e1, a1, b1⟩ := hE sk sc hl.1 hsc h1
    by_cases hn : (sexec fs fuel sk sc).1 = .norm
    · rw [if_pos hn] at h ⊢
      have hok := ((ok_all hid fuel).1 sk sc hl.1 hsc).1
      obtain ⟨F2, e2, a2, b2⟩ := hL rest _ hl.2 hok h
      refine ⟨F1 + F2, e1 ++ e2, ?_, ?_⟩
      · rw [sexecList_append_norm _ _ _ F1 F2 _ (by rw [a1]; exact hn) (by rw [a1, a2]; exact h),
          a1, a2]
      · rw [view_append, expand_append, b1, b2]
    · rw [if_neg hn] at h ⊢
      exact ⟨F1, e1, by rw [sexecList_append_abort _ _ _ _ _ (by rw [a1]; exact hn), a1], b1⟩

theorem simI_succ {fs : Funcs} (hid : idsOk fs = true) {fuel : Nat} (hE : SimE fs fuel)
    (hI : SimI fs fuel) : SimI fs (fuel+1) := by
  intro n body sc hb hsc h
  cases n with
  | zero => exact ⟨1, [], by simp [siter], by simp [siter, view, expand]⟩
  | succ n =>
    have hbk : idsOkSk (.block body) = true := by rw [idsOkSk_block]; exact hb
    rw [siter_succ] at h ⊢
    have h1 : (sexec fs fuel (.block body) sc).1 ≠ .oof := by
      intro h'
      rw [if_neg (by rw [h']; decide), if_neg (by rw [h']; decide)] at h
      exact h h'
    have H := hE (.block body) sc hbk hsc h1
    have : desugarSk (.block body) = [.block (desugarList body)] := by simp [desugarSk]
    rw [this] at H
    obtain ⟨F1, e1, a1, b1⟩ := H
    cases F1 with
    | zero => simp [sexecList] at a1; exact absurd a1.1.symm h1
    | succ F1 =>
      rw [sexecList_singleton] at a1
      have a1n : (sexec (desugar fs) F1 (.block (desugarList body)) (expSc sc)).1 ≠ .oof := by
        rw [a1]; exact h1
      by_cases hn : (sexec fs fuel (.block body) sc).1 = .norm ∨
          (sexec fs fuel (.block body) sc).1 = .cont
      · rw [if_pos hn] at h ⊢
        have hok := ((ok_all hid fuel).1 _ sc hbk hsc).1
        obtain ⟨F2, e2, a2, b2⟩ := hI n body _ hb hok h
        have a2n : (siter (desugar fs) F2 n (desugarList body)
            (expSc (sexec fs fuel (.block body) sc).2.1)).1 ≠ .oof := by rw [a2]; exact h
        refine ⟨max F1 F2 + 1, e1 ++ e2, ?_, ?_⟩
        · rw [siter_succ, sexec_mono a1n (Nat.le_max_left _ _), a1, if_pos hn,
            siter_mono a2n (Nat.le_max_right _ _), a2]
        · rw [view_append, expand_append, b1, b2]
      · rw [if_neg hn] at h ⊢
        by_cases hbr : (sexec fs fuel (.block body) sc).1 = .brk
        · rw [if_pos hbr] at h ⊢
          exact ⟨F1 + 1, e1, by rw [siter_succ, a1, if_neg hn, if_pos hbr], b1⟩
        · rw [if_neg hbr] at h ⊢
          exact ⟨F1 + 1, e1, by rw [siter_succ, a1, if_neg hn, if_neg hbr], b1⟩

theorem sim_all {fs : Funcs} (hid : idsOk fs = true) (fuel : Nat) :
    SimE fs fuel ∧ SimL fs fuel ∧ SimI fs fuel := by
  induction fuel with
  | zero =>
    refine ⟨?_, ?_, ?_⟩
    · intro sk sc _ _ h; simp [sexec] at h
    · intro l sc _ _ h; simp [sexecList] at h
    · intro n body sc _ _ h; simp [siter] at h
  | succ fuel ih =>
    obtain ⟨hE, hL, hI⟩ := ih
    exact ⟨simE_succ hid hE hL hI, simL_succ hid hE hL, simI_succ hid hE hI⟩

theorem srun_eq (fs : Funcs) (fuel : Nat) :
    srun fs fuel = ((sexec fs fuel (.call 0) ⟨[], []⟩).1, (sexec fs fuel (.call 0) ⟨[], []⟩).2.2) := rfl

theorem compound_is_members_then_object (fs : Funcs) (fuel : Nat) (hid : idsOk fs = true)
    (h : (srun fs fuel).1 ≠ .oof) :
    ∃ fuel', (srun (desugar fs) fuel').1 = (srun fs fuel).1 ∧
      view (srun (desugar fs) fuel').2 = expand (srun fs fuel).2 := by
  rw [srun_eq] at h ⊢
  simp only at h ⊢
  obtain ⟨F, e', a, b⟩ := (sim_all hid fuel).1 (.call 0) ⟨[], []⟩ (by simp [idsOkSk]) objsOk_nil h
  have : desugarSk (.call 0) = [.call 0] := by simp [desugarSk]
  rw [this, expSc_nil] at a
  cases F with
  | zero => simp [sexecList] at a; exact absurd a.1.symm h
  | succ F =>
    rw [sexecList_singleton] at a
    exact ⟨F, by rw [srun_eq, a], by rw [srun_eq, a]; exact b⟩

/-! ### members are destroyed exactly once -/

theorem cD_cons (id : Nat) (e : Ev) (l : List Ev) : cD id (e :: l) = cD id [e] + cD id l := by
  rw [← cD_append]; rfl

theorem cD_single_dtor (id a : Nat) : cD id [Ev.dtor a] = if a = id then 1 else 0 := by
  simp only [cD, List.filter_cons, beq_dtor, List.filter_nil]
  by_cases h : a = id <;> simp [h]

theorem cD_expand_mem (n : Nat) (hn : oform n ≠ 0) (evs : List Ev) (hok : evsOk evs) :
    cD (mem1 n) (expand evs) = cD n evs ∧ cD (mem2 n) (expand evs) = cD n evs := by
  induction evs with
  | nil => exact ⟨rfl, rfl⟩
  | cons e l ih =>
    have ih := ih (fun x hx => hok x (List.mem_cons_of_mem _ hx))
    have he := hok e List.mem_cons_self
    have e1 : expand (e :: l) = expandEv e ++ expand l := by simp [expand]
    rw [e1, cD_append, cD_append, cD_cons n e l, ih.1, ih.2]
    suffices cD (mem1 n) (expandEv e) = cD n [e] ∧ cD (mem2 n) (expandEv e) = cD n [e] by
      rw [this.1, this.2]; exact ⟨rfl, rfl⟩
    cases e with
    | ctor k => exact ⟨rfl, rfl⟩
    | dfr k => exact ⟨rfl, rfl⟩
    | mark k => exact ⟨rfl, rfl⟩
    | dtor k =>
      simp only [evOk] at he
      simp only [oform] at hn
      have h3 : k % 3 = 0 ∨ k % 3 = 1 ∨ k % 3 = 2 := by omega
      rcases h3 with h3 | h3 | h3
      · have : expandEv (.dtor k) = [.dtor k] := by simp [expandEv, oform, h3]
        rw [this]
        simp only [cD_single_dtor, mem1, mem2]
        constructor <;> (repeat' split) <;> omega
      · have : expandEv (.dtor k) = [.dtor k, .dtor (mem2 k), .dtor (mem1 k)] := by
          simp [expandEv, oform, h3]
        rw [this, cD_cons _ _ [_, _], cD_cons _ _ [_], cD_cons _ _ [_, _], cD_cons _ _ [_]]
        simp only [cD_single_dtor, mem1, mem2]
        constructor <;> (repeat' split) <;> omega
      · have : expandEv (.dtor k) = [.dtor (mem2 k), .dtor (mem1 k)] := by
          simp [expandEv, oform, h3]
        rw [this, cD_cons _ _ [_], cD_cons _ _ [_]]
        simp only [cD_single_dtor, mem1, mem2]
        constructor <;> (repeat' split) <;> omega

theorem members_destroyed_once (fs : Funcs) (fuel : Nat) (n : Nat) (hn : oform n ≠ 0) (hid : idsOk fs = true)
    (h : (srun fs fuel).1 ≠ .oof) :
    ((expand (srun fs fuel).2).filter (· == Ev.dtor (mem1 n))).length =
      ((srun fs fuel).2.filter (· == Ev.ctor n)).length ∧
    ((expand (srun fs fuel).2).filter (· == Ev.dtor (mem2 n))).length =
      ((srun fs fuel).2.filter (· == Ev.ctor n)).length := by
  have hok : evsOk (srun fs fuel).2 :=
    ((ok_all hid fuel).1 (.call 0) ⟨[], []⟩ (by simp [idsOkSk]) objsOk_nil).2
  have H := cD_expand_mem n hn _ hok
  rw [← spec_destroyed_once fs fuel n h]
  exact H

end CbModel.Cleanup
