import CbOblig.C04
import CbOblig.C02
