import CbModel.Ladder
/-
  C02 — the assignment level on top of the precedence ladder
  (ExpressionParser::parseAssignment, expression_parser.cpp):
      left = parseTernary();
      if (tok ∈ assignment operators) { advance; right = parseAssignment();      // right-recursive
                                         target must be an lvalue, else "Invalid assignment target";
                                         return assign(op, left, right) }
      return left;
  The list of assignment operators is regenerated from the source (CbGen.assignOps).  In the token model a primary
  (identifier with its postfix chain) is an atom; lvalues are atoms and dereferences.  Parenthesised sub-expressions are
  parsed by the ladder (level 0), i.e. an assignment nested inside parentheses is outside this model.
  Core Lean only.
-/
namespace CbModel.Ladder

/-- an expression with the assignment level:  x1 op1 x2 op2 … e  -/
inductive AExpr where
  | base (e : LExpr)
  | assign (op : String) (target : LExpr) (rhs : AExpr)
  deriving Repr, BEq, DecidableEq, Inhabited

/-- what parseAssignment accepts as the left side -/
def isTarget : LExpr → Bool
  | .atom _ => true
  | .un op _ => op == "*"
  | _ => false

def parseAssign (t : Table) (aops : List String) : Nat → List Tok → Option (AExpr × List Tok)
  | 0, _ => none
  | fuel + 1, ts =>
    match parse t fuel 0 ts with
    | none => none
    | some (l, .op s :: r) =>
      if s ∈ aops then
        if isTarget l then
          match parseAssign t aops fuel r with
          | some (b, r1) => some (.assign s l b, r1)
          | none => none
        else none
      else some (.base l, .op s :: r)
    | some (l, r) => some (.base l, r)

/-- minimal-parenthesis print -/
def printAssign (t : Table) : AExpr → List Tok
  | .base e => printMin t 0 e
  | .assign op x r => printMin t 0 x ++ .op op :: printAssign t r

/-- the specification's assignment operators (docs/spec.md) -/
def specAssignOps : List String := ["=", "+=", "-=", "*=", "/=", "%=", "&=", "|=", "^=", "<<=", ">>="]

end CbModel.Ladder
