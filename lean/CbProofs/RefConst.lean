/-
  C09 support: writes to const cells are rejected; a const global keeps its value through every
  execution (instance of the generic preservation theorem).
-/
import CbProofs.RefInv
namespace CbModel.Ref

def ValConst : Val → Prop
  | .cell c => c.isConst = true
  | .struct _ fs => ∀ kc ∈ fs, kc.2.isConst = true

theorem writeCell_const (c : Cell) (idxs : List Int) (n : Int) (hc : c.isConst = true) :
    ∀ c', writeCell c idxs n ≠ .ok c' := by
  intro c' h
  unfold writeCell at h
  split at h
  · simp only [Cell.isConst] at hc; subst hc; simp at h
  · simp only [Cell.isConst] at hc; subst hc; simp at h
  · simp at h

theorem fieldFind_const (fs : List (String × Cell)) (f : String) (c : Cell)
    (hfs : ∀ kc ∈ fs, kc.2.isConst = true) (h : fieldFind fs f = some c) : c.isConst = true := by
  induction fs with
  | nil => simp [fieldFind] at h
  | cons kc r ih =>
    obtain ⟨k, w⟩ := kc
    unfold fieldFind at h
    split at h
    · simp only [Option.some.injEq] at h; subst h
      exact hfs (k, w) List.mem_cons_self
    · exact ih (fun x hx => hfs x (List.mem_cons_of_mem _ hx)) h

/-- no store path succeeds on a const object: scalar, element, member, member element -/
theorem writeVal_const (v : Val) (f : Option String) (idxs : List Int) (n : Int) (hv : ValConst v) :
    ∀ v', writeVal v f idxs n ≠ .ok v' := by
  intro v' h
  unfold writeVal at h
  split at h
  · rename_i c
    split at h <;> simp only [Res.ok.injEq, reduceCtorEq] at h
    rename_i c' hc'
    exact writeCell_const c _ _ hv c' hc'
  · rename_i sn fs f
    split at h
    · rename_i c hfind
      split at h <;> simp only [Res.ok.injEq, reduceCtorEq] at h
      rename_i c' hc'
      exact writeCell_const c _ _ (fieldFind_const fs f c hv hfind) c' hc'
    · simp at h
  · simp at h

theorem frameFind_set_ne (f : Frame) (x y : String) (v : Val) (h : (y == x) = false) :
    (f.set y v).find x = f.find x := by
  induction f with
  | nil => rfl
  | cons kv r ih =>
    obtain ⟨k, w⟩ := kv
    unfold Frame.set
    split
    · rename_i hk
      have hkx : (k == x) = false := by
        have : k = y := by simpa using hk
        subst this; exact h
      simp [Frame.find, hkx]
    · simp only [Frame.find]
      split
      · rfl
      · exact ih

/-- the invariant: global `x` holds the const value `v` -/
def GConst (x : String) (v : Val) (s : St) : Prop := s.globals.find x = some v

theorem putVar_gconst (x : String) (v : Val) (y : String) (w : Val) (s : St)
    (hs : GConst x v s)
    (hne : (s.frame.find y).isSome = false → (s.statics.find (staticKey s.fname y)).isSome = false →
            (y == x) = false) :
    GConst x v (putVar y w s).2 := by
  unfold putVar
  split
  · exact hs
  · rename_i h1
    split
    · exact hs
    · rename_i h2
      split
      · have := hne (by simpa using h1) (by simpa using h2)
        show ({ s with globals := s.globals.set y w }).globals.find x = some v
        simp only
        rw [frameFind_set_ne _ _ _ _ this]; exact hs
      · exact hs

theorem writeRef_gconst (x : String) (v : Val) (hv : ValConst v) (r : LRef) (n : Int) :
    Preserves (GConst x v) (writeRef r n) := by
  unfold writeRef
  refine pres_bind_val (Inv := GConst x v) (ro_getVar _) ?_
  intro v0 s hs hget
  show GConst x v ((M.bind (liftRes (writeVal v0 r.f r.idxs n)) _) s).2
  unfold M.bind liftRes
  split <;> rename_i heq <;> simp only [Prod.mk.injEq] at heq <;> obtain ⟨h1, rfl⟩ := heq <;> try exact hs
  rename_i v'
  apply putVar_gconst x v r.x v' _ hs
  intro hf hst
  -- if the write resolves to the global named x, the value read was v, and writing a const fails
  cases hxy : (r.x == x) with
  | false => rfl
  | true =>
    exfalso
    have hxe : r.x = x := by simpa using hxy
    unfold getVar at hget
    have hf' : s.frame.find r.x = none := by
      cases h : s.frame.find r.x with
      | none => rfl
      | some _ => simp [h] at hf
    have hst' : s.statics.find (staticKey s.fname r.x) = none := by
      cases h : s.statics.find (staticKey s.fname r.x) with
      | none => rfl
      | some _ => simp [h] at hst
    rw [hf', hst'] at hget
    simp only at hget
    rw [hxe, hs] at hget
    simp only [Res.ok.injEq] at hget
    subst hget
    exact writeVal_const v r.f r.idxs n hv v' h1

theorem primOK_gconst (x : String) (v : Val) (hv : ValConst v) : PrimOK (GConst x v) where
  emit := fun _ _ hs => hs
  writeRef := writeRef_gconst x v hv
  declInt := by
    intro st c ty y n s hs
    unfold declInt
    show GConst x v ((M.bind (liftRes (storeChecked ty n)) _) s).2
    unfold M.bind liftRes
    split <;> rename_i heq <;> simp only [Prod.mk.injEq] at heq <;> obtain ⟨_, rfl⟩ := heq <;> try exact hs
    split <;> exact hs
  declArrInit := by
    intro c ty y dims vs s hs
    unfold declArrInit
    split
    · exact hs
    · show GConst x v ((M.bind (liftRes (storeAllR ty vs)) _) s).2
      unfold M.bind liftRes
      split <;> rename_i heq <;> simp only [Prod.mk.injEq] at heq <;> obtain ⟨_, rfl⟩ := heq <;> exact hs
  declDefault := fun _ _ _ _ _ hs => hs
  declStructVar := fun _ _ _ hs => hs
  declStructInitVar := by
    intro c sd y vs s hs
    unfold declStructInitVar
    show GConst x v ((M.bind (liftRes (initFields c sd.fields vs)) _) s).2
    unfold M.bind liftRes
    split <;> rename_i heq <;> simp only [Prod.mk.injEq] at heq <;> obtain ⟨_, rfl⟩ := heq <;> exact hs
  enterCall := by
    intro α fn args m hm s hs
    unfold enterCall
    show GConst x v ((M.bind (liftRes (bindParams fn.params args)) _) s).2
    unfold M.bind liftRes
    split <;> rename_i heq <;> simp only [Prod.mk.injEq] at heq <;> obtain ⟨_, rfl⟩ := heq <;> try exact hs
    rename_i fr _
    unfold withFrame
    exact hm { s with frame := fr, fname := fn.name } hs

end CbModel.Ref
