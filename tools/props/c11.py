"""C11 — generic code equals its hand-specialised copy; instantiations are independent.

Theorems: lean/CbProps/C11.lean (cache keys are injective on well-formed names / type arguments; the
instantiation cache is transparent: every use executes what a fresh instantiation would; second use = first).
Obligations on tables regenerated from the C++ on every run (CbOblig/C11.lean): the key format is the modelled
one; clone_ast_node copies every child-node field of struct ASTNode.
Tie: (S1) random core programs in which functions are made generic mechanically (a type of the signature becomes a
type parameter, call sites get explicit type arguments): the generic program and the original (= its
hand-specialised twin) must behave identically, and like the reference semantics CbRef; (S2) templates of generic
functions / structs instantiated at all tuples over {tiny, short, int, long, bool, char, string, struct} in several
call orders vs the mechanically monomorphised twin (incl. generic functions with static locals calling generic and
non-generic void helpers that have their own statics); (S3) generic aggregates vs the hand-specialised twin: an
interface implemented for a generic struct (methods with T parameters / locals / arithmetic), generic constructor and
destructor, a generic enum with payload matched in main and in a generic function, generic structs declared at the
type parameters inside a generic function (with and without the same instantiation occurring in main).
"""
import itertools, json, os, re
import common, gen_core, refrun
from common import Rng
from props.refprops import all_findings, all_gates

PID = "C11"
THEOREMS = {"CbProps.C11": ["CbProps.C11." + t for t in ["keyL_injective", "cache_transparent", "second_use_hits"]],
            "CbProps.C11Subst": ["CbProps.C11Subst." + t for t in [
                "substIdents_tokenwise", "param_replaced", "plain_ident_kept", "underscore_ident_kept", "normalized_without_params_kept",
                "normalized_args_replaced", "no_params_unchanged", "substGeneric_tree", "depth_lt_length", "substTypeString_generic",
                "substTypeString_declarator"]],
            "CbOblig.C11": ["CbOblig.C11.key_format_is_modelled", "CbOblig.C11.clone_copies_every_child", "CbOblig.C11.subst_visits_every_child", "CbOblig.C11.clone_copies_every_field"]}

TYWORDS = ["tiny", "short", "int", "long", "char", "bool"]
FUNC_RE = re.compile(r"^([a-z][\w ]*?) (\w+)\(([^\n]*)\) \{\n(.*?)^\}\n", re.S | re.M)


def outside_strings_sub(text, word, repl):
    """replace whole-word occurrences outside string literals"""
    parts = re.split(r'("(?:[^"\\]|\\.)*")', text)
    for i in range(0, len(parts), 2):
        parts[i] = re.sub(r"\b%s\b" % word, repl, parts[i])
    return "".join(parts)


def generify(source, r, max_funcs=2):
    """returns (generic source, description) or None"""
    funcs = [m for m in FUNC_RE.finditer(source) if m.group(2) != "main"]
    cands = []
    for m in funcs:
        text = m.group(0)
        if "unsigned" in text:
            continue
        header_types = [w for w in TYWORDS if re.search(r"\b%s\b" % w, m.group(1) + " " + m.group(3))]
        if header_types:
            cands.append((m, header_types))
    if not cands:
        return None
    for i in range(len(cands) - 1, 0, -1):
        j = r.below(i + 1)
        cands[i], cands[j] = cands[j], cands[i]
    chosen = cands[:max_funcs] if r.chance(40) else cands[:1]
    out = source
    plan = []
    for m, hts in chosen:
        name, text = m.group(2), m.group(0)
        xs = [r.choice(hts)]
        if len(hts) > 1 and r.chance(40):
            xs.append(r.choice([t for t in hts if t != xs[0]]))
        params = ["T", "U"][:len(xs)]
        out = out.replace(text, "\0%s\0" % name)          # while the text still matches the original
        plan.append((name, text, xs, params))
    desc = []
    news = {}
    for name, text, xs, params in plan:
        new = text
        for x, p in zip(xs, params):
            new = outside_strings_sub(new, x, p)
        brace = new.index("{")
        head, body = new[:brace], new[brace:]
        head = re.sub(r"\b%s\(" % name, "%s<%s>(" % (name, ", ".join(params)), head, count=1)
        body = re.sub(r"\b%s\(" % name, "%s<%s>(" % (name, ", ".join(params)), body)      # recursion
        news[name] = head + body
        desc.append("%s<%s> at <%s>" % (name, ",".join(params), ",".join(xs)))
    for name in news:
        out = out.replace("\0%s\0" % name, news[name])
    # call sites everywhere else (also inside interpolated strings and inside other generic bodies)
    for name, text, xs, params in plan:
        out = re.sub(r"\b%s\(" % name, "%s<%s>(" % (name, ", ".join(xs)), out)
    return out, desc


# ---------------------------------------------------------------- S2 templates
# each template: (name, type params, generic source with params T/U, main-body generator)
SAMPLES = {"tiny": ["100", "-7", "0"], "short": ["30000", "-5", "1"], "int": ["2000000000", "-3", "42"],
           "long": ["5000000000", "-9", "7"], "bool": ["true", "false", "true"], "char": ["'a'", "'z'", "'Q'"],
           "string": ['"s1"', '""', '"hello w"'], "P": ["p1", "p2", "p1"]}
NUMERIC = ["tiny", "short", "int", "long"]

TEMPLATES = [
    # name, params, applicable types per param, generic text, call builder(types, k) -> statements printing results
    ("ident", 1, None, "T ident<T>(T v) {\n    return v;\n}\n",
     lambda f, ts, k: "    %s r%d = %s(%s);\n%s" % (ts[0], k, f, SAMPLES[ts[0]][k % 3], pr(ts[0], "r%d" % k))),
    ("second", 2, None, "U second<T, U>(T a, U b) {\n    return b;\n}\n",
     lambda f, ts, k: "    %s r%d = %s(%s, %s);\n%s" % (ts[1], k, f, SAMPLES[ts[0]][k % 3], SAMPLES[ts[1]][(k + 1) % 3], pr(ts[1], "r%d" % k))),
    ("first", 2, None, "T first<T, U>(T a, U b) {\n    return a;\n}\n",
     lambda f, ts, k: "    %s r%d = %s(%s, %s);\n%s" % (ts[0], k, f, SAMPLES[ts[0]][k % 3], SAMPLES[ts[1]][(k + 1) % 3], pr(ts[0], "r%d" % k))),
    ("mx", 1, NUMERIC, "T mx<T>(T a, T b) {\n    return a > b ? a : b;\n}\n",
     lambda f, ts, k: "    println(%s(%s, %s));\n" % (f, SAMPLES[ts[0]][k % 3], SAMPLES[ts[0]][(k + 1) % 3])),
    ("mx2", 1, NUMERIC, "T mx2<T>(T a, T b) {\n    if (a > b) {\n        return a;\n    } else {\n        return b;\n    }\n}\n",
     lambda f, ts, k: "    println(%s(%s, %s));\n" % (f, SAMPLES[ts[0]][k % 3], SAMPLES[ts[0]][(k + 1) % 3])),
    ("sumto", 1, NUMERIC, "T sumto<T>(T n) {\n    T s = 0;\n    for (T i = 1; i <= n; i++) {\n        s += i;\n    }\n    return s;\n}\n",
     lambda f, ts, k: "    println(%s(%d));\n" % (f, 3 + k)),
    ("cntdown", 1, NUMERIC, "T cntdown<T>(T n) {\n    T c = 0;\n    while (n > 0) {\n        n = n - 1;\n        c++;\n    }\n    return c;\n}\n",
     lambda f, ts, k: "    println(%s(%d));\n" % (f, 2 + k)),
    ("arr3", 1, NUMERIC, "T arr3<T>(T v) {\n    T[3] a = [v, v, v];\n    a[1] = a[0] + 1;\n    a[2] = a[1] + 1;\n    return a[1] + a[2];\n}\n",
     lambda f, ts, k: "    println(%s(%d));\n" % (f, 5 + k)),
    ("counter", 1, None, "int counter<T>(T v) {\n    static int calls = 0;\n    calls++;\n    return calls;\n}\n",
     lambda f, ts, k: "    println(%s(%s));\n" % (f, SAMPLES[ts[0]][k % 3])),
    ("wrapmul", 1, NUMERIC, "T wrapmul<T>(T a, T b) {\n    T r = a * b;\n    return r;\n}\n",
     lambda f, ts, k: "    println(%s(%d, %d));\n" % (f, 3 + k, 4)),
    ("castsum", 2, NUMERIC, "U castsum<T, U>(T a, U b) {\n    U w = (U)a;\n    return w + b;\n}\n",
     lambda f, ts, k: "    println(%s(%d, %d));\n" % (f, 3 + k, 10)),
    ("interp", 1, None, "void interp<T>(T v) {\n    println(\"v={v};\");\n}\n",
     lambda f, ts, k: "    %s(%s);\n" % (f, SAMPLES[ts[0]][k % 3])),
    ("twice", 1, NUMERIC, "T twice<T>(T v) {\n    return ident<T>(v) + ident<T>(v);\n}\n",
     lambda f, ts, k: "    println(%s(%d));\n" % (f, 20 + k)),
    ("note", 1, None, "void note<T>(T v) {\n    static int seen = 0;\n    seen++;\n    println(\"note\", seen);\n}\n",
     lambda f, ts, k: "    %s(%s);\n" % (f, SAMPLES[ts[0]][k % 3])),
    ("tally", 1, None, "int tally<T>(T v) {\n    static int calls = 0;\n    note<T>(v);\n    calls = calls + 10;\n    return calls;\n}\n",
     lambda f, ts, k: "    println(%s(%s));\n" % (f, SAMPLES[ts[0]][k % 3])),
    ("tally2", 1, None, "int tally2<T>(T v) {\n    static int calls = 0;\n    plain_note(1);\n    calls = calls + 10;\n    return calls;\n}\n",
     lambda f, ts, k: "    println(%s(%s));\n" % (f, SAMPLES[ts[0]][k % 3])),
    ("spread", 1, NUMERIC, "T spread<T>(T v) {\n    T[4] a = [v, v, v, v];\n    int i = 0;\n    a[i++] += 10;\n    a[i++] *= 2;\n    a[--i] -= 1;\n    return a[0] + a[1] + a[2] + a[3] + i;\n}\n",
     lambda f, ts, k: "    println(%s(%d));\n" % (f, 2 + k)),
    ("sw", 1, NUMERIC, "int sw<T>(T v) {\n    switch (v) {\n        case (1) {\n            return 10;\n        }\n        case (2) {\n            return 20;\n        }\n        else {\n            return 30;\n        }\n    }\n    return 0;\n}\n",
     lambda f, ts, k: "    println(%s(%d));\n" % (f, 1 + k % 3)),
]


DEPS = {"twice": "ident", "tally": "note"}      # generic function -> the generic function its body calls


def pr(t, e):
    if t == "P":
        return "    println(%s.x, %s.y);\n" % (e, e)
    return "    println(%s);\n" % e


def mono_name(name, ts):
    return "%s__%s" % (name, "_".join(ts))


def mono_text(gen_text, name, nparams, ts):
    t = gen_text
    t = re.sub(r"\b%s<[^>]*>\(" % name, mono_name(name, ts) + "(", t, count=1)
    for p, x in zip(["T", "U"], ts):
        t = re.sub(r"\b%s\b" % p, x, t)
    # nested generic calls  ident<int>(v) -> ident__int(v)
    t = re.sub(r"\b(\w+)<([\w, ]+)>\(", lambda m: mono_name(m.group(1), [a.strip() for a in m.group(2).split(",")]) + "(", t)
    return t


def template_case(r, quick):
    """one program: 1-3 templates, several instantiations each, calls in a random order"""
    tpls = [r.choice(TEMPLATES) for _ in range(r.range(1, 3))]
    names = {t[0] for t in tpls}
    for n_, d_ in DEPS.items():
        if n_ in names:
            tpls.append([t for t in TEMPLATES if t[0] == d_][0])
    seen = set()
    tpls = [t for t in tpls if not (t[0] in seen or seen.add(t[0]))]
    uses = []
    for (name, np, types, text, call) in tpls:
        dom = types or ["tiny", "short", "int", "long", "bool", "char", "string", "P"]
        if name == "interp":
            dom = ["tiny", "short", "int", "long", "string"]
        for _ in range(r.range(2, 4)):
            ts = [r.choice(dom) for _ in range(np)]
            if np == 2 and r.chance(50):
                uses.append((name, [ts[1], ts[0]]))
            uses.append((name, ts))
    # repeat some uses (the n-th use of an instantiation) and shuffle the order
    uses = uses + [r.choice(uses) for _ in range(r.range(1, 4))]
    order = list(range(len(uses)))
    for i in range(len(order) - 1, 0, -1):
        j = r.below(i + 1)
        order[i], order[j] = order[j], order[i]
    uses = [uses[i] for i in order]
    by_name = {t[0]: t for t in TEMPLATES}
    pre = "struct P { int x; int y; };\nvoid plain_note(int v) {\n    static int seen = 0;\n    seen = seen + v;\n    println(\"plain\", seen);\n}\n"
    gen_defs = "".join(by_name[n][3] for n in dict.fromkeys(t[0] for t in tpls))
    insts = list(dict.fromkeys((n, tuple(ts)) for n, ts in uses))
    for n, ts in list(insts):
        if n in DEPS and (DEPS[n], ts) not in insts:
            insts.append((DEPS[n], ts))
    # monomorphised definitions, callees first
    insts_sorted = sorted(insts, key=lambda it: it[0] in DEPS)
    mono_defs = "".join(mono_text(by_name[n][3], n, by_name[n][1], list(ts)) for n, ts in insts_sorted)
    gmain, mmain = [], []
    for k, (n, ts) in enumerate(uses):
        gmain.append(by_name[n][4]("%s<%s>" % (n, ", ".join(ts)), ts, k))
        mmain.append(by_name[n][4](mono_name(n, ts), ts, k))
    decl = "    P p1 = {1, 2};\n    P p2 = {-3, 4};\n"
    gsrc = pre + gen_defs + "int main() {\n" + decl + "".join(gmain) + "    println(\"END\");\n    return 0;\n}\n"
    msrc = pre + mono_defs + "int main() {\n" + decl + "".join(mmain) + "    println(\"END\");\n    return 0;\n}\n"
    return gsrc, msrc, ["%s<%s>" % (n, ",".join(ts)) for n, ts in uses]


GSTRUCT = """struct Box<T> { T v; };
struct Pair<A, B> { A a; B b; };
struct Acct<T> { const T id; T bal; int[2] tag; };
"""


def struct_case(r):
    """generic structs at several tuples: layouts must not be shared"""
    dom = ["tiny", "short", "int", "long", "bool", "char", "string"]
    uses = []
    for _ in range(r.range(2, 5)):
        if r.chance(50):
            uses.append(("Box", [r.choice(dom)]))
        else:
            a, b = r.choice(dom), r.choice(dom)
            uses.append(("Pair", [a, b]))
            if r.chance(50):
                uses.append(("Pair", [b, a]))
    g, m = [], []
    mdefs = {}
    # member qualifiers and array members survive instantiation: the first store to a const member is its initialisation, the
    # second is rejected — in the generic program exactly where it is rejected in the twin
    acct = None
    if r.chance(40):
        x = r.choice(["tiny", "short", "int", "long"])
        acct = x
        uses.append(("Acct", [x]))
    for k, (n, ts) in enumerate(uses):
        mn = mono_name(n, ts)
        if n == "Acct":
            mdefs[mn] = "struct %s { const %s id; %s bal; int[2] tag; };\n" % (mn, ts[0], ts[0])
            again = r.chance(60)
            for (T, out) in (("Acct<%s>" % ts[0], g), (mn, m)):
                out.append("    %s ac%d;\n    ac%d.id = 7;\n    ac%d.bal = %s;\n    ac%d.tag[1] = 5;\n    println(ac%d.id, ac%d.bal, ac%d.tag[1]);\n" % (
                    T, k, k, k, SAMPLES[ts[0]][k % 3], k, k, k, k))
                if again:
                    out.append("    println(\"second store\");\n    ac%d.id = 8;\n    println(\"accepted\", ac%d.id);\n" % (k, k))
            continue
        if n == "Box":
            mdefs[mn] = "struct %s { %s v; };\n" % (mn, ts[0])
            for (T, out) in (("Box<%s>" % ts[0], g), (mn, m)):
                out.append("    %s b%d;\n    b%d.v = %s;\n    println(b%d.v);\n" % (T, k, k, SAMPLES[ts[0]][k % 3], k))
        else:
            mdefs[mn] = "struct %s { %s a; %s b; };\n" % (mn, ts[0], ts[1])
            for (T, out) in (("Pair<%s, %s>" % (ts[0], ts[1]), g), (mn, m)):
                out.append("    %s q%d;\n    q%d.a = %s;\n    q%d.b = %s;\n    println(q%d.a, q%d.b);\n" % (
                    T, k, k, SAMPLES[ts[0]][k % 3], k, SAMPLES[ts[1]][(k + 1) % 3], k, k))
    # read everything again at the end (a later instantiation must not have disturbed an earlier value)
    tail = []
    for k, (n, ts) in enumerate(uses):
        tail.append("    println(b%d.v);\n" % k if n == "Box" else ("    println(ac%d.id, ac%d.bal);\n" % (k, k) if n == "Acct" else "    println(q%d.a, q%d.b);\n" % (k, k)))
    gsrc = GSTRUCT + "int main() {\n" + "".join(g) + "".join(tail) + "    println(\"END\");\n    return 0;\n}\n"
    msrc = "".join(mdefs.values()) + "int main() {\n" + "".join(m) + "".join(tail) + "    println(\"END\");\n    return 0;\n}\n"
    return gsrc, msrc, ["%s<%s>" % (n, ",".join(ts)) for n, ts in uses]


# ---- S3: generic aggregates (struct + impl via interface, constructor/destructor, enum + match, generic structs used
#          inside generic functions) vs the hand-specialised twin
AGG_VALUES = {"tiny": ["50", "-60", "7"], "short": ["10000", "-12000", "300"], "int": ["1000000000", "-900000000", "70000"],
              "long": ["3000000000", "-4000000000", "5"], "string": ['"ab"', '"x"', '"hello"']}
AGG_DOM = ["tiny", "short", "int", "long", "string"]


def M(name, ts):
    return mono_name(name, ts)


def agg_holder(r):
    """interface Holder<T> implemented for Box<T>; methods with T locals, T arithmetic, a counter member"""
    gdefs = ("interface Holder<T> {\n    T get();\n    void put(T v);\n    T twice();\n    int count();\n};\n"
             "struct Box<T> {\n    T value;\n    int n;\n};\n"
             "impl Holder<T> for Box<T> {\n    T get() {\n        return self.value;\n    }\n"
             "    void put(T v) {\n        self.value = v;\n        self.n = self.n + 1;\n    }\n"
             "    T twice() {\n        T t = self.value;\n        t = t + t;\n        return t;\n    }\n"
             "    int count() {\n        return self.n;\n    }\n};\n")

    def mono(x):
        return (gdefs.replace("Holder<T>", M("Holder", [x])).replace("Box<T>", M("Box", [x]))
                .replace("T ", x + " ").replace("(T ", "(" + x + " "))
    types = [r.choice(AGG_DOM) for _ in range(r.range(2, 4))]
    g, m = [], []
    for k, x in enumerate(types):
        for (ty, out) in (("Box<%s>" % x, g), (M("Box", [x]), m)):
            out.append("    %s b%d;\n    b%d.n = 0;\n" % (ty, k, k))
    ops = []
    for _ in range(r.range(3, 8)):
        k = r.below(len(types))
        if r.chance(40):
            ops.append("    b%d.put(%s);\n" % (k, r.choice(AGG_VALUES[types[k]])))
        else:
            ops.append("    b%d.put(%s);\n    println(b%d.get(), b%d.twice(), b%d.count());\n" % (k, r.choice(AGG_VALUES[types[k]]), k, k, k))
    tail = "".join("    println(b%d.get(), b%d.count());\n" % (k, k) for k in range(len(types)))
    return gdefs, "".join(mono(x) for x in dict.fromkeys(types)), "".join(g) + "".join(ops) + tail, \
        "".join(m) + "".join(ops) + tail, ["holder<%s>" % x for x in types]


def agg_ctor(r):
    """impl Box<T> with constructor / destructor"""
    gdefs = ("struct Cell<T> {\n    T value;\n    int tag;\n};\n"
             "impl Cell<T> {\n    self(T v, int tag) {\n        T t = v;\n        self.value = t;\n        self.tag = tag;\n"
             "        println(\"ctor\", t, tag);\n    }\n    ~self() {\n        println(\"dtor\", self.value, self.tag);\n    }\n}\n")

    def mono(x):
        return gdefs.replace("Cell<T>", M("Cell", [x])).replace("T ", x + " ").replace("(T ", "(" + x + " ")
    types = [r.choice(AGG_DOM) for _ in range(r.range(2, 4))]
    g, m = [], []
    for k, x in enumerate(types):
        # (a leading '-' in the first constructor argument of a NON-generic struct is a parse error on the pinned tree,
        #  which would break the twin, not the generic program: constructor arguments are non-negative here)
        val = r.choice([w for w in AGG_VALUES[x] if not w.startswith("-")])
        if r.chance(30):
            g.append("    {\n        Cell<%s> c%d(%s, %d);\n        println(c%d.value);\n    }\n" % (x, k, val, k, k))
            m.append("    {\n        %s c%d(%s, %d);\n        println(c%d.value);\n    }\n" % (M("Cell", [x]), k, val, k, k))
        else:
            g.append("    Cell<%s> c%d(%s, %d);\n    println(c%d.value);\n" % (x, k, val, k, k))
            m.append("    %s c%d(%s, %d);\n    println(c%d.value);\n" % (M("Cell", [x]), k, val, k, k))
    return gdefs, "".join(mono(x) for x in dict.fromkeys(types)), "".join(g), "".join(m), ["ctor<%s>" % x for x in types]


def agg_enum(r):
    """generic enum with a payload, matched in main and inside a generic function"""
    gdefs = ("enum Maybe<T> {\n    Just(T),\n    Nothing\n};\n"
             "int show<T>(Maybe<T> m) {\n    match (m) {\n        Just(v) => {\n            T w = v;\n            println(\"just\", w);\n        }\n"
             "        Nothing => {\n            println(\"nothing\");\n        }\n    }\n    return 0;\n}\n")

    def mono(x):
        return (gdefs.replace("show<T>", M("show", [x])).replace("Maybe<T>", M("Maybe", [x])).replace("(T)", "(%s)" % x)
                .replace("T w", x + " w"))
    types = [r.choice(AGG_DOM) for _ in range(r.range(2, 4))]
    g, m = [], []
    for k, x in enumerate(types):
        ctor = "Just(%s)" % r.choice(AGG_VALUES[x]) if r.chance(75) else "Nothing"
        g.append("    Maybe<%s> e%d = Maybe<%s>::%s;\n" % (x, k, x, ctor))
        m.append("    %s e%d = %s::%s;\n" % (M("Maybe", [x]), k, M("Maybe", [x]), ctor))
    for _ in range(r.range(2, 5)):
        k = r.below(len(types))
        x = types[k]
        if r.chance(50):
            g.append("    show<%s>(e%d);\n" % (x, k))
            m.append("    %s(e%d);\n" % (M("show", [x]), k))
        else:
            t = "    match (e%d) {\n        Just(v) => {\n            println(\"main just\", v);\n        }\n        Nothing => {\n            println(\"main nothing\");\n        }\n    }\n" % k
            g.append(t)
            m.append(t)
    return gdefs, "".join(mono(x) for x in dict.fromkeys(types)), "".join(g), "".join(m), ["enum<%s>" % x for x in types]


def agg_struct_in_fn(r):
    """generic structs used at the type parameters inside a generic function; the instantiation may or may not also occur
    in main"""
    gdefs = ("struct Slot<T> {\n    T value;\n};\nstruct Duo<A, B> {\n    A a;\n    B b;\n};\n"
             "U pick<T, U>(T x, U y) {\n    Duo<T, U> d;\n    d.a = x;\n    d.b = y;\n    Slot<U> s;\n    s.value = d.b;\n"
             "    println(d.a, s.value);\n    return s.value;\n}\n")
    pairs = [(r.choice(AGG_DOM), r.choice(AGG_DOM)) for _ in range(r.range(1, 3))]
    if r.chance(50):
        pairs.append((pairs[0][1], pairs[0][0]))
    mdefs = {}
    g, m = [], []
    pre = r.chance(50)
    for k, (x, y) in enumerate(pairs):
        mdefs[M("Slot", [y])] = "struct %s {\n    %s value;\n};\n" % (M("Slot", [y]), y)
        mdefs[M("Duo", [x, y])] = "struct %s {\n    %s a;\n    %s b;\n};\n" % (M("Duo", [x, y]), x, y)
    for k, (x, y) in enumerate(dict.fromkeys(pairs)):
        mdefs["fn" + M("pick", [x, y])] = (
            "%s %s(%s x, %s y) {\n    %s d;\n    d.a = x;\n    d.b = y;\n    %s s;\n    s.value = d.b;\n    println(d.a, s.value);\n    return s.value;\n}\n"
            % (y, M("pick", [x, y]), x, y, M("Duo", [x, y]), M("Slot", [y])))
    for k, (x, y) in enumerate(pairs):
        if pre:
            g.append("    Duo<%s, %s> pd%d;\n    Slot<%s> ps%d;\n" % (x, y, k, y, k))
            m.append("    %s pd%d;\n    %s ps%d;\n" % (M("Duo", [x, y]), k, M("Slot", [y]), k))
        vx, vy = r.choice(AGG_VALUES[x]), r.choice(AGG_VALUES[y])
        g.append("    println(pick<%s, %s>(%s, %s));\n" % (x, y, vx, vy))
        m.append("    println(%s(%s, %s));\n" % (M("pick", [x, y]), vx, vy))
    return gdefs, "".join(mdefs.values()), "".join(g), "".join(m), ["structfn%s<%s,%s>" % ("+pre" if pre else "", x, y) for x, y in pairs]


def agg_enum_in_fn(r):
    """a generic enum constructed and matched at the type parameter inside a generic function; the instantiation may or may
    not also be spelled in main"""
    gdefs = ("enum Maybe<T> {\n    Just(T),\n    Nothing\n};\n"
             "int wrap<T>(T v, int some) {\n    Maybe<T> m = Maybe<T>::Nothing;\n    if (some > 0) {\n        m = Maybe<T>::Just(v);\n    }\n"
             "    match (m) {\n        Just(w) => {\n            println(\"just\", w);\n        }\n        Nothing => {\n            println(\"nothing\");\n        }\n    }\n    return some;\n}\n")

    def mono(x):
        return (gdefs.replace("wrap<T>", M("wrap", [x])).replace("Maybe<T>", M("Maybe", [x])).replace("(T)", "(%s)" % x)
                .replace("(T v", "(%s v" % x))
    types = [r.choice(AGG_DOM) for _ in range(r.range(1, 3))]
    pre = r.chance(40)
    g, m = [], []
    for k, x in enumerate(types):
        if pre:
            g.append("    Maybe<%s> pre%d = Maybe<%s>::Nothing;\n" % (x, k, x))
            m.append("    %s pre%d = %s::Nothing;\n" % (M("Maybe", [x]), k, M("Maybe", [x])))
    for _ in range(r.range(2, 5)):
        k = r.below(len(types))
        x = types[k]
        val, some = r.choice(AGG_VALUES[x]), r.below(2)
        g.append("    println(wrap<%s>(%s, %d));\n" % (x, val, some))
        m.append("    println(%s(%s, %d));\n" % (M("wrap", [x]), val, some))
    return gdefs, "".join(mono(x) for x in dict.fromkeys(types)), "".join(g), "".join(m), ["enumfn%s<%s>" % ("+pre" if pre else "", x) for x in types]


# ---- S4: substitute_type_string (hook H5) vs CbModel.TypeSubst
S4_IDENTS = ["T", "U", "K", "V", "E", "Tmp", "T1", "xT", "TT", "_N", "Tail_", "Node_T", "My__node", "Option_T", "Result_T_E", "Option_int",
             "My_opt_T", "My_opt", "Option", "Result", "Opt__T", "Option_", "_", "__", "T_", "_T", "Option_T_", "int", "long", "string",
             "Box", "Pair", "unsigned", "const", "a1_b2", "Result_K_V_T"]
S4_ARGS = ["int", "long", "string", "Box<long>", "T", "U*", "", "Pair<int, long>", "my_type", "unsigned int", "K"]
S4_ENUMS = ["Option", "Result", "My_opt", "Node", "My", "Opt", "Option_T", "a1", "T", "_"]


def s4_declarator(r):
    out = []
    if r.chance(30):
        out.append(r.choice(["const ", "unsigned ", "const unsigned ", " ", "\t"]))
    out.append(r.choice(S4_IDENTS))
    for _ in range(r.below(4)):
        out.append(r.choice(["*", "**", "&", "[3]", "[N]", "[T]", " ", "[]", "[3][4]", " T", "3", "::U", "(T)", ", U", "-T", "T"]))
    return "".join(out)


def s4_tree(r, depth):
    if depth == 0 or r.chance(45):
        return r.choice(S4_IDENTS + ["T*", " T", "T ", "const T", "T[3]", "U&", "unsigned int", "\tK"])
    args = [s4_tree(r, depth - 1) for _ in range(r.range(0, 3))]
    sep = r.choice([", ", ", ", ",", " , ", ",  ", ",\t"])
    return r.choice(["Box", "Pair", "Map", "T", "Option", "", "const Box", "My_opt"]) + "<" + sep.join(args) + ">"


def s4_case(r):
    k = r.below(100)
    if k < 35:
        ty = s4_declarator(r)
    elif k < 75:
        ty = s4_tree(r, 3) + r.choice(["", "", "*", "&", "[3]", " ", "**", "[T]", ">", "<", "> x", " T"])
    elif k < 85:
        # damaged generic names: missing / extra brackets, stray commas
        t = s4_tree(r, 2)
        i = r.below(len(t) + 1)
        ty = t[:i] + r.choice(["<", ">", ",", "", " ", ">>", "<<"]) + t[i + r.below(2):]
    else:
        ty = "".join(r.choice("TU_<>,*&[] 3ab\tK") for _ in range(r.range(0, 14)))
    keys = []
    for _ in range(r.range(0, 3)):
        kname = r.choice(["T", "U", "K", "V", "E", "Node", "T1", "Option", "int", "_N", "T*", ""])
        if kname not in keys:
            keys.append(kname)
    kv = []
    for kname in keys:
        kv += [kname, r.choice(S4_ARGS)]
    enums = [e for e in S4_ENUMS if r.chance(30)]
    return [ty, ";".join(enums)] + kv


def agg_narrow(r):
    """methods of a generic impl whose RETURN EXPRESSION may leave the range of T at a narrow instantiation (tiny / short / int):
    the generic program and its hand-specialised twin must both stop with the range error at the same call, or both go on"""
    gdefs = ("interface Summing<T> {\n    T part();\n    T total();\n    T scaled(int k);\n    int count();\n};\n"
             "struct Acc<T> {\n    T a;\n    T b;\n};\n"
             "impl Summing<T> for Acc<T> {\n    T part() {\n        return self.a + self.b;\n    }\n"
             "    T total() {\n        return self.part() + self.part();\n    }\n"
             "    T scaled(int k) {\n        return self.a * k;\n    }\n"
             "    int count() {\n        return 2;\n    }\n};\n")

    def mono(x):
        return (gdefs.replace("Summing<T>", M("Summing", [x])).replace("Acc<T>", M("Acc", [x]))
                .replace("T ", x + " ").replace("(T ", "(" + x + " "))
    x = r.choice(["tiny", "short", "int", "long"])
    hi = {"tiny": 127, "short": 32767, "int": 2**31 - 1, "long": 2**40}[x]
    a_ = r.choice([hi // 2, hi // 3, hi // 4 + 1, 30, hi // 2 + 1])
    b_ = r.choice([1, 12, hi // 4, hi // 2])
    if a_ + b_ > hi:
        b_ = 1
    g = "    Acc<%s> c;\n    c.a = %d;\n    c.b = %d;\n" % (x, a_, b_)
    m = "    %s c;\n    c.a = %d;\n    c.b = %d;\n" % (M("Acc", [x]), a_, b_)
    ops = ["    println(c.part(), c.count());\n"]
    for _ in range(r.range(2, 4)):
        k = r.below(3)
        if k == 0:
            ops.append("    println(c.scaled(%d));\n" % r.range(1, 5))
        elif k == 1:
            ops.append("    println(c.total());\n")
        else:
            ops.append("    long w%d = c.scaled(%d);\n    println(w%d);\n" % (len(ops), r.range(2, 5), len(ops)))
    return gdefs, mono(x), g + "".join(ops), m + "".join(ops), ["narrow<%s>" % x]


def agg_implstatic(r):
    """static locals in methods of a generic impl, and impl-level statics: one copy per instantiation, shared by all objects of
    that instantiation"""
    gdefs = ("interface Cnt<T> {\n    int bump();\n    int other();\n    T keep(T v);\n};\n"
             "struct Cell<T> {\n    T v;\n};\n"
             "impl Cnt<T> for Cell<T> {\n    int bump() {\n        static int n = 0;\n        n = n + 1;\n        return n;\n    }\n"
             "    int other() {\n        static int n = 100;\n        n = n + 10;\n        return n;\n    }\n"
             "    T keep(T v) {\n        static T last = 0;\n        T old = last;\n        last = v;\n        return old;\n    }\n};\n")

    def mono(x):
        return (gdefs.replace("Cnt<T>", M("Cnt", [x])).replace("Cell<T>", M("Cell", [x]))
                .replace("T ", x + " ").replace("(T ", "(" + x + " "))
    dom = ["tiny", "short", "int", "long"]
    types = [r.choice(dom) for _ in range(r.range(2, 4))]
    g, m = [], []
    for k, x in enumerate(types):
        g.append("    Cell<%s> c%d;\n    c%d.v = %d;\n" % (x, k, k, k))
        m.append("    %s c%d;\n    c%d.v = %d;\n" % (M("Cell", [x]), k, k, k))
    ops = []
    for _ in range(r.range(4, 9)):
        k = r.below(len(types))
        c = r.below(3)
        if c == 0:
            ops.append("    println(\"b\", %d, c%d.bump());\n" % (k, k))
        elif c == 1:
            ops.append("    println(\"o\", %d, c%d.other());\n" % (k, k))
        else:
            ops.append("    println(\"k\", %d, c%d.keep(%d));\n" % (k, k, r.range(1, 99)))
    return gdefs, "".join(mono(x) for x in dict.fromkeys(types)), "".join(g) + "".join(ops), "".join(m) + "".join(ops), \
        ["implstatic<%s>" % x for x in types]


AGGS = [("implstatic", agg_implstatic), ("narrow", agg_narrow), ("enumfn", agg_enum_in_fn), ("holder", agg_holder), ("ctor", agg_ctor), ("enum", agg_enum), ("structfn", agg_struct_in_fn)]


def aggregate_case(r):
    name, fn = r.choice(AGGS)
    gdefs, mdefs, gmain, mmain, uses = fn(r)
    gsrc = gdefs + "int main() {\n" + gmain + "    println(\"END\");\n    return 0;\n}\n"
    msrc = mdefs + "int main() {\n" + mmain + "    println(\"END\");\n    return 0;\n}\n"
    return gsrc, msrc, uses, name


def main(a):
    v = common.Verdict(PID, a.tier, a.seed)
    common.run_translators(v, ["generic"])
    driver_ok, failed = common.lean_obligations(v, ["CbProofs", "CbProps.C11", "CbProps.C11Subst", "CbOblig.C11"], THEOREMS)
    exe, blog = common.build_impl()
    if exe is None or not driver_ok:
        v.violation("cannot build the interpreter / driver: " + (blog or "")[-600:], {"log": (blog or "")[-2000:]}, no_input=True)
        return v.finish()
    quick = a.tier == "quick"
    findings = [f for f in all_findings() if f["property"] == PID]
    known_tpl = {}
    for f in findings:
        for c in f.get("cells", []):
            known_tpl[c] = f["id"]
    cell_known, census = {}, {}
    reported = [0]
    nontrivial = set()
    dist = {}
    r = Rng(a.seed, 111)

    def report(suite, what, replay, cells=()):
        if os.environ.get("CB_VERIF_CENSUS"):
            census.setdefault((suite,) + tuple(sorted(set(c for c in cells if not c.startswith("ty:")))), []).append(what)
            return
        for c in cells:
            if c in known_tpl:
                cell_known[known_tpl[c]] = cell_known.get(known_tpl[c], 0) + 1
                return
        if reported[0] >= 6:
            return
        reported[0] += 1
        replay["suite"] = suite
        v.violation("suite %s: %s" % (suite, what), replay)

    if a.replay:
        rp = json.load(open(a.replay))
        if "line" in rp:
            _, m1, _ = common.run_lines([common.driver_path(), "c11subst"], [rp["line"]])
            _, i1, _ = common.run_lines(["env", "CB_VERIF_SUBST=1", exe], [rp["line"]])
            if m1 != i1:
                report("replay", "substitute_type_string: model %r, implementation %r" % (m1, i1), rp)
            return v.finish()
        outs = common.run_programs(exe, [rp["generic_program"], rp["twin_program"]], timeout=10)
        if outs[0][0] != outs[1][0] or outs[0][1] != outs[1][1]:
            report("replay", "generic and twin differ: %r (%s) vs %r (%s)" % (outs[0][0][-100:], outs[0][1], outs[1][0][-100:], outs[1][1]), rp)
        return v.finish()

    # ---- S1: generified core programs
    n = 250 if quick else 40000
    gates = all_gates()
    sexps = [gen_core.gen_program(a.seed, 112, k, gates, size=22, features={"calls": True, "no_defaults": True, "no_structs": True})[0]
             for k in range(n)]
    res = refrun.model_run(sexps)
    gens, twins, metas = [], [], []
    for s, mr in zip(sexps, res):
        if refrun.expected_class(mr.status) is None or not mr.source:
            continue
        g = generify(mr.source, r)
        if g is None:
            continue
        gens.append(g[0])
        twins.append(mr.source)
        metas.append((s, mr, g[1]))
    og = common.run_programs(exe, gens, timeout=10)
    ot = common.run_programs(exe, twins, timeout=10)
    dist["generified-core"] = len(gens)
    agree_model = 0
    for gsrc, tsrc, (s, mr, desc), o1, o2 in zip(gens, twins, metas, og, ot):
        nontrivial.add(("s1", hash(gsrc) % 100000))
        twin_ok = (o2[1] == refrun.expected_class(mr.status)) and (o2[0] == mr.stdout)
        agree_model += 1 if twin_ok else 0
        same = o1[1] == o2[1] and o1[0] == o2[0]
        if same:
            continue
        report("generified-core", "%s: generic %r (%s) vs twin %r (%s)%s" % (
            desc, o1[0][-80:], o1[1], o2[0][-80:], o2[1], "" if twin_ok else " [twin itself deviates from CbRef]"),
            {"generic_program": gsrc, "twin_program": tsrc, "sexp": s, "instantiations": desc, "generic_stdout": o1[0],
             "generic_exit_class": o1[1], "generic_stderr": o1[2][-300:], "twin_stdout": o2[0], "twin_exit_class": o2[1]},
            cells=feature_cells(gsrc))
    # ---- S2: templates
    n2 = 120 if quick else 20000
    cases = [template_case(r, quick) for _ in range(n2)] + [struct_case(r) for _ in range(n2 // 3)]
    og = common.run_programs(exe, [c[0] for c in cases], timeout=10)
    ot = common.run_programs(exe, [c[1] for c in cases], timeout=10)
    dist["templates"] = len(cases)
    for (gsrc, msrc, uses), o1, o2 in zip(cases, og, ot):
        nontrivial.add(("s2", tuple(uses)))
        if o1[1] == o2[1] and o1[0] == o2[0]:
            continue
        d = first_diff(o2[0], o1[0])
        report("templates", "uses %s: generic differs from the monomorphised twin: twin %r vs generic %r (%s / %s)" % (
            uses, d[1] if d else "", d[2] if d else "", o2[1], o1[1]),
            {"generic_program": gsrc, "twin_program": msrc, "instantiations": uses, "generic_stdout": o1[0], "generic_exit_class": o1[1],
             "generic_stderr": o1[2][-300:], "twin_stdout": o2[0], "twin_exit_class": o2[1]},
            cells=["tpl:" + u.split("<")[0] for u in uses] + ["ty:" + t for u in uses for t in u[u.index("<") + 1:-1].split(",")])
    # ---- S3: generic aggregates
    n3 = 120 if quick else 12000
    cases = [aggregate_case(r) for _ in range(n3)]
    og = common.run_programs(exe, [c[0] for c in cases], timeout=10)
    ot = common.run_programs(exe, [c[1] for c in cases], timeout=10)
    dist["aggregates"] = len(cases)
    for (gsrc, msrc, uses, name), o1, o2 in zip(cases, og, ot):
        nontrivial.add(("s3", tuple(uses), hash(gsrc) % 1000))
        if o1[1] == o2[1] and o1[0] == o2[0]:
            continue
        d = first_diff(o2[0], o1[0])
        report("aggregates", "uses %s: generic differs from the hand-specialised twin: twin %r vs generic %r (%s / %s)" % (
            uses, d[1] if d else "", d[2] if d else "", o2[1], o1[1]),
            {"generic_program": gsrc, "twin_program": msrc, "instantiations": uses, "generic_stdout": o1[0], "generic_exit_class": o1[1],
             "generic_stderr": o1[2][-300:], "twin_stdout": o2[0], "twin_exit_class": o2[1]},
            cells=["agg:" + u.split("<")[0] for u in uses])
    # ---- S4: the type-name substitution itself (hook H5) vs the model the theorems of CbProps.C11Subst are about
    n4 = 4000 if quick else 400000
    cases4 = [s4_case(r) for _ in range(n4)]
    lines4 = ["\t".join(common.esc(f) for f in c) for c in cases4]
    _, mo4, _ = common.run_lines_parallel([common.driver_path(), "c11subst"], lines4)
    rc4, io4, ie4 = common.run_lines_parallel(["env", "CB_VERIF_SUBST=1", exe], lines4)
    dist["type-substitution"] = len(cases4)
    changed = 0
    if len(mo4) != len(lines4) or len(io4) != len(lines4):
        v.violation("S4: the substitution hook / driver did not answer every line (model %d, implementation %d of %d; rc %s; %s)" % (
            len(mo4), len(io4), len(lines4), rc4, (ie4 or "")[-300:]), {"lines": lines4[:20]}, no_input=True)
    else:
        for c, l, m_, i_ in zip(cases4, lines4, mo4, io4):
            nontrivial.add(("s4", l))
            changed += 1 if common.unesc(m_) != c[0] else 0
            if m_ != i_:
                report("type-substitution", "substitute_type_string(%r, map %r, generic enums %r): model %r, implementation %r" % (
                    c[0], dict(zip(c[2::2], c[3::2])), c[1], common.unesc(m_), common.unesc(i_)),
                    {"fields": c, "line": l, "model": m_, "implementation": i_})
    v.coverage["type_strings_changed_by_substitution"] = changed
    for key, whats in sorted(census.items(), key=lambda kv: str(kv[0])):
        common.log("CENSUS %s x%d: %s" % (key, len(whats), whats[0][:300]))
    for f in findings:
        if f["id"] in cell_known:
            v.known_finding(f["what"] + " [%d cases]" % cell_known[f["id"]])
    v.coverage.update({
        "evaluations": sum(dist.values()) * 2, "distinct_nontrivial": len(nontrivial), "distribution": dist,
        "generified_twins_agreeing_with_CbRef": agree_model,
        "rule": "S1: random core programs with calls (gen_core); 1-2 functions are made generic mechanically (one or two types "
                "of the signature become T / U throughout the function, call sites get explicit type arguments); the generic "
                "program must behave like the original (its hand-specialised twin) — also compared with CbRef. S2: 14 generic "
                "function templates (identity, selection, ?:, if/else, for, while, local arrays, static counter, arithmetic, cast, "
                "interpolation, nested generic call, switch) and generic structs Box<T> / Pair<A,B>, instantiated at random "
                "tuples over {tiny, short, int, long, bool, char, string, struct P} incl. swapped tuples, repeated uses, shuffled "
                "call order, vs the mechanically monomorphised twin. S3: four families of generic aggregates (impl of a generic "
                "interface for a generic struct, generic constructor / destructor, generic enum + match, generic structs inside "
                "a generic function) at 2-4 type arguments over {tiny, short, int, long, string} with values that fit the "
                "instantiation's own type only, random operation sequences, vs the hand-specialised twin. non-trivial = distinct "
                "program / use sequence",
        "exhaustive": False})
    v.assumptions += ["S3 covers generic impl blocks (interface methods, constructor / destructor), generic enums with a payload and generic structs inside generic functions through four families of templates, not arbitrary bodies",
                      "the twin of S2 is produced by the harness's textual substitution (trusted)"]
    return v.finish()


def first_diff(exp, got):
    e, g = exp.split("\n"), got.split("\n")
    for i in range(max(len(e), len(g))):
        x = e[i] if i < len(e) else "<missing>"
        y = g[i] if i < len(g) else "<missing>"
        if x != y:
            return i, x, y
    return None


def feature_cells(gsrc):
    """syntactic features inside generic function bodies (for attributing a failure to a listed finding)"""
    cells = []
    for m in re.finditer(r"^[^\n]*\b\w+<[TU, ]+>\([^\n]*\) \{\n(.*?)^\}\n", gsrc, re.S | re.M):
        b = m.group(1)
        for name, pat in (("for", r"\bfor \("), ("ternary", r" \? "), ("while", r"\bwhile \("), ("index", r"\w\["), ("incdec", r"\+\+|--"),
                          ("static", r"\bstatic\b"), ("interp", r'"[^"\n]*\{'), ("compound", r" [-+*/%&|^]= "), ("else", r"\belse\b"),
                          ("cast", r"\([TU]\)"), ("shr", r">>"), ("tarray", r"\b[TU]\[")):
            if re.search(pat, b):
                cells.append("body:" + name)
    return sorted(set(cells))
