/-
  Obligation on the sleep test regenerated from the C++: the task stays asleep exactly while now < wake, and the
  deadline is (time of the call) + ms — the two facts CbModel.Sched.staysAsleep / sleepWake model.
-/
import CbGen.Sleep
namespace CbOblig.C15

theorem sleep_test_is_modelled :
    CbGen.sleepStaysWhen = "<" ∧
    (CbGen.sleepWakeExprs.all fun e => e == "current_time_ms + milliseconds") = true ∧
    CbGen.sleepWakeExprs ≠ [] := by decide

end CbOblig.C15
