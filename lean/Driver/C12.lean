import CbModel.Iface
import Driver.Proto
namespace Driver
open CbModel.Iface

def splitToks (s : String) (sep : String) : List (List String) :=
  ((s.splitOn sep).filter (· ≠ "")).map fun x => (x.splitOn " ").filter (· ≠ "")

/-- fields: impls "i j a b c d;…", concrete vars "j v;…", interface of each iface var "i i …", ops.
    output: printed values, then "|ok" or "|rej" (an operation was rejected) -/
def c12Line (fs : List (List Char)) : String :=
  match fs with
  | [im, cv, iv, ops] =>
    let impls : Option Impls := (splitToks (String.ofList im) ";").mapM fun t =>
      match t.mapM String.toInt? with
      | some [i, j, a, b, c, d] => some ((i.toNat, j.toNat), ⟨a, b, c, d⟩)
      | _ => none
    let conc : Option (List (Nat × Int)) := (splitToks (String.ofList cv) ";").mapM fun t =>
      match t.mapM String.toInt? with
      | some [j, v] => some (j.toNat, v)
      | _ => none
    let ifs : Option (List Nat) := (((String.ofList iv).splitOn " ").filter (· ≠ "")).mapM String.toNat?
    let opl : Option (List Op) := (splitToks (String.ofList ops) ";").mapM fun t =>
      match t with
      | ["A", p, c] => do let p ← p.toNat?; let c ← c.toNat?; pure (Op.assign p c)
      | ["O", p] => p.toNat?.map Op.obs
      | ["M", p, k] => do let p ← p.toNat?; let k ← k.toInt?; pure (Op.mut p k)
      | ["S", p] => p.toNat?.map Op.stat
      | ["R", c] => c.toNat?.map Op.rd
      | ["W", c, k] => do let c ← c.toNat?; let k ← k.toInt?; pure (Op.wr c k)
      | ["F", p] => p.toNat?.map Op.viaParam
      | ["B", p, k] => do let p ← p.toNat?; let k ← k.toInt?; pure (Op.mutRet p k)
      | _ => none
    match impls, conc, ifs, opl with
    | some t, some c, some iface, some os =>
      let ifaceOf := fun p => iface.getD p 0
      let s0 : St := ⟨c, iface.map (fun _ => none), [], []⟩
      let rec go (os : List Op) (s : St) : St × Bool :=
        match os with
        | [] => (s, true)
        | o :: r => match step t ifaceOf s o with
          | some s' => go r s'
          | none => (s, false)
      let (s, ok) := go os s0
      String.intercalate " " (s.out.map toString) ++ (if ok then "|ok" else "|rej")
    | _, _, _, _ => "bad-op"
  | _ => "bad-op"

end Driver
