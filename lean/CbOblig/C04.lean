/-
  Obligation tying the specification's range table (CbModel.Ref.Ty.range) to the table regenerated
  from TypeManager::check_type_range on every run.
-/
import CbGen.RangeTable
import CbModel.Ref.Eval
namespace CbOblig.C04
open CbModel.Ref

def baseOf (s : String) : Option Base :=
  match s with
  | "tiny" => some .tiny | "short" => some .short | "int" => some .int | "long" => some .long
  | "char" => some .char
  | _ => none

/-- every row the implementation has agrees with the documented range of that type … -/
def rowOK (row : String × Bool × Int × Int) : Bool :=
  match baseOf row.1 with
  | some b => (Ty.range ⟨b, row.2.1⟩ == (row.2.2.1, row.2.2.2))
  | none => false

/-- … and every documented integer type has a row (so none is left unchecked) -/
def covered : Bool :=
  ["tiny", "short", "int", "long", "char"].all fun n =>
    [true, false].all fun u => CbGen.rangeTable.any fun row => row.1 == n && row.2.1 == u

theorem rangeTable_is_spec : CbGen.rangeTable.all rowOK = true ∧ covered = true := by decide

end CbOblig.C04
