import CbGen.RangeTable
import CbGen.Ladder
import CbGen.FfiTable
