import CbGen.RangeTable
import CbGen.Ladder
import CbGen.FfiTable
import CbGen.ErrClass
import CbGen.Generic
import CbGen.Sleep
import CbGen.RunLoop
