/-
  C09 — const objects are never modified after initialisation.
  Theorems about the reference semantics CbRef.
-/
import CbProofs.RefConst
namespace CbProps.C09
open CbModel.Ref

/-- **Every mutation path is rejected.**  Whatever the access shape — the object itself, an element,
    a member, an element of a member — and whatever value is stored (plain assignment, compound
    assignment, increment and decrement all go through this primitive), a store to a const object never succeeds. -/
theorem every_mutation_path_rejected (v : Val) (hv : ValConst v) (f : Option String) (idxs : List Int)
    (n : Int) : ∀ v', writeVal v f idxs n ≠ .ok v' :=
  writeVal_const v f idxs n hv

/-- a rejected store to a const local leaves the whole state as it was, and is not a success -/
theorem const_local_store_rejected (s : St) (x : String) (v : Val) (hv : ValConst v)
    (hx : s.frame.find x = some v) (f : Option String) (idxs : List Int) (n : Int) :
    (writeRef ⟨x, f, idxs⟩ n s).2 = s ∧ ∀ u, (writeRef ⟨x, f, idxs⟩ n s).1 ≠ .ok u := by
  have hget : getVar x s = (.ok v, s) := by simp [getVar, hx]
  unfold writeRef
  show ((M.bind (getVar x) _) s).2 = s ∧ ∀ u, ((M.bind (getVar x) _) s).1 ≠ .ok u
  unfold M.bind
  rw [hget]
  simp only
  show ((M.bind (liftRes (writeVal v f idxs n)) _) s).2 = s ∧ ∀ u, ((M.bind (liftRes (writeVal v f idxs n)) _) s).1 ≠ .ok u
  unfold M.bind liftRes
  cases hw : writeVal v f idxs n with
  | ok v' => exact absurd hw (writeVal_const v f idxs n hv v')
  | _ => simp

/-- **Invariant.**  A const global holds the same value after any statements, loops and (recursive)
    calls of any program, at any fuel. -/
theorem const_global_invariant (p : Prog) (fuel : Nat) (ss : List Stmt) (s : St) (x : String) (v : Val)
    (hv : ValConst v) (h : s.globals.find x = some v) :
    (execSs p fuel ss s).2.globals.find x = some v :=
  (allPres (primOK_gconst x v hv) p fuel).execSs ss s h

theorem const_global_invariant_call (p : Prog) (fuel : Nat) (f : String) (args : List Int) (s : St)
    (x : String) (v : Val) (hv : ValConst v) (h : s.globals.find x = some v) :
    (callF p fuel f args s).2.globals.find x = some v :=
  (allPres (primOK_gconst x v hv) p fuel).callF f args s h

/-- a const parameter is bound as a const cell, so the laws above apply to it -/
theorem const_param_is_const (q : Param) (a : Int) (v : Int) (fr : Frame) (ps : List Param) (as : List Int)
    (hq : q.const = true) (h1 : storeChecked q.ty a = .ok v) (h2 : bindParams ps as = .ok fr) :
    bindParams (q :: ps) (a :: as) = .ok ((q.name, .cell (.int q.ty v true)) :: fr) := by
  unfold bindParams; rw [h1, h2, hq]

/-! non-vacuity -/
example : ValConst (.cell (.int ⟨.int, false⟩ 5 true)) := rfl
example : writeVal (.cell (.arr ⟨.int, false⟩ [3] [1, 2, 3] true)) none [1] 9 = .err .const := by
  simp [writeVal, writeCell]

end CbProps.C09
