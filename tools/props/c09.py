"""C09 — const objects and pointees are never modified after initialisation.

Theorems: lean/CbProps/C09.lean (every store path to a const object is rejected; a const global keeps its
value through every execution; a rejected store changes nothing).
Tie: the full matrix  const kind x mutation path  (each cell one program), pointer/reference programs whose
oracle is the property's own wording ("is rejected"), and random core programs rich in const objects.
"""
import common, gen_core
from props.refprops import RefCheck, all_findings

PID = "C09"
THEOREMS = {"CbProps.C09": ["CbProps.C09." + t for t in [
    "every_mutation_path_rejected", "const_local_store_rejected", "const_global_invariant",
    "const_global_invariant_call", "const_param_is_const"]]}

TYPES = ["tiny", "utiny", "short", "ushort", "int", "uint", "long", "ulong", "char"]


def lit(n):
    return "(lit %d)" % n


def cells():
    """(cell id, sexp program, path kind)"""
    out = []

    def prog(globs, funcs, body, structs=""):
        return "(prog (structs%s) (globals%s) (funcs %s(func main int (params) (%s (print (s \"END\")) (ret (lit 0))))))" % (
            (" " + structs) if structs else "", (" " + globs) if globs else "", funcs + " " if funcs else "", body)
    scalar_muts = [("assign", "(assign (var c) (lit 2))"), ("compound", "(compound add (var c) (lit 1))"),
                   ("postinc", "(expr (incdec post inc (var c)))"), ("predec", "(expr (incdec pre dec (var c)))"),
                   ("compound_mul", "(compound mul (var c) (lit 3))")]
    for ty in TYPES:
        for mid, m in scalar_muts:
            out.append(("local-%s-%s" % (ty, mid), prog("", "", "(decl c %s c (lit 1)) (print (e (var c))) %s (print (e (var c)))" % (ty, m)), mid))
            out.append(("global-%s-%s" % (ty, mid), prog("(decl c %s c (lit 1))" % ty, "", "(print (e (var c))) %s (print (e (var c)))" % m), mid))
            out.append(("static-%s-%s" % (ty, mid), prog("", "(func f void (params) ((decl cs %s c (lit 1)) (print (e (var c))) %s (print (e (var c)))))" % (ty, m),
                                                         "(expr (call f))"), mid))
            out.append(("staticmain-%s-%s" % (ty, mid), prog("", "", "(decl cs %s c (lit 1)) (print (e (var c))) %s (print (e (var c)))" % (ty, m)), mid))
            out.append(("param-%s-%s" % (ty, mid), prog("", "(func f void (params (%s c - c)) ((print (e (var c))) %s (print (e (var c)))))" % (ty, m),
                                                        "(expr (call f (lit 1)))"), mid))
    elem_muts = [("elem_assign", "(assign (idx a (lit 1)) (lit 9))"), ("elem_compound", "(compound add (idx a (lit 1)) (lit 1))"),
                 ("elem_postinc", "(expr (incdec post inc (idx a (lit 1))))"), ("elem_var_index", "(assign (idx a (var k)) (lit 9))")]
    for ty in ["int", "long", "tiny", "uint"]:
        for mid, m in elem_muts:
            out.append(("localarr-%s-%s" % (ty, mid), prog("", "", "(decl - int k (lit 2)) (declarr c %s a (dims 3) (init (lit 1) (lit 2) (lit 3))) (print (e (idx a (lit 1)))) %s (print (e (idx a (lit 1))))" % (ty, m)), mid))
            if mid != "elem_var_index":
                out.append(("globalarr-%s-%s" % (ty, mid), prog("(declarr c %s a (dims 3) (init (lit 1) (lit 2) (lit 3)))" % ty, "", "(print (e (idx a (lit 1)))) %s (print (e (idx a (lit 1))))" % m), mid))
    mem_muts = [("member_assign", "(assign (fld s x) (lit 9))"), ("member_compound", "(compound add (fld s y) (lit 1))"),
                ("member_postinc", "(expr (incdec post inc (fld s x)))")]
    for mid, m in mem_muts:
        out.append(("struct-%s" % mid, prog("", "", "(declstructinit c P s (lit 1) (lit 2)) (print (e (fld s x)) (e (fld s y))) %s (print (e (fld s x)))" % m,
                                            structs="(struct P (field int x) (field long y))"), mid))
    return out


def raw_cases():
    H = "struct P { int x; int y; };\n"
    def c(cid, body, cls, out=None, finding=None, pre=""):
        d = {"id": cid, "program": H + pre + "int main() {\n" + body + "\n    println(\"END\");\n    return 0;\n}\n", "expect_class": cls}
        if out is not None:
            d["expect_stdout"] = out
        if finding:
            d["finding"] = finding
        return d
    return [
        c("addr-of-const-into-mutable-ptr", "    const int k = 1;\n    int* p = &k;\n    *p = 9;\n    println(k);", "error"),
        c("store-through-ptr-to-const", "    int d = 3;\n    const int* p = &d;\n    *p = 9;\n    println(d);", "error", ""),
        c("store-through-ptr-to-const-of-const", "    const int k = 1;\n    const int* p = &k;\n    *p = 9;\n    println(k);", "error", ""),
        c("reseat-const-pointer", "    int d = 3;\n    int e = 4;\n    int* const p = &d;\n    p = &e;\n    println(*p);", "error", ""),
        c("read-through-ptr-to-const", "    const int k = 7;\n    const int* p = &k;\n    println(*p);", "ok", "7\nEND\n"),
        c("write-through-const-pointer", "    int d = 3;\n    int* const p = &d;\n    *p = 8;\n    println(d);", "ok", "8\nEND\n"),
        c("reseat-ptr-to-const", "    int d = 3;\n    int e = 4;\n    const int* p = &d;\n    p = &e;\n    println(*p);", "ok", "4\nEND\n"),
        c("const-via-reference-param", "    const int k = 1;\n    bump(k);\n    println(k);", "error",
          pre="void bump(int& r) { r = r + 1; }\n"),
        c("const-struct-via-pointer", "    const P s = {1, 2};\n    P* p = &s;\n    p->x = 5;\n    println(s.x);", "error"),
        c("ptr-to-const-struct-member", "    P s = {1, 2};\n    const P* p = &s;\n    p->x = 5;\n    println(s.x);", "error", "",
          ),
        c("const-double-array-elem", "    const double[3] a = [1.5, 2.5, 3.5];\n    a[1] = 9.5;\n    println(a[1]);", "error", ""),
        c("ptr-to-const-index-store", "    int[3] d = [1, 2, 3];\n    const int* p = &d[0];\n    p[1] = 9;\n    println(d[1]);", "error", ""),
        c("const-union-reassign", "    const U u = 5;\n    u = 7;\n    println(u);", "error", "", pre="typedef U = int | string;\n"),
        c("const-struct-from-call", "    const P p = mk();\n    p.y = 5;\n    println(p.y);", "error", "",
          pre="P mk() { P p; p.x = 1; p.y = 2; return p; }\n"),
        c("ptr-to-const-param-deref", "    int d = 3;\n    f(&d);\n    println(d);", "error", "", pre="void f(const int* q) { *q = 9; }\n"),
        c("const-struct-via-ptr-param", "    const P s = {1, 2};\n    f(&s);\n    println(s.x);", "error", "", finding="const_struct_via_ptr_param",
          pre="void f(P* q) { q->x = 9; }\n"),
        c("const-ptr-param-via-function-pointer", "    int d = 3;\n    void* g = &f;\n    g(&d);\n    println(d);", "error", "",
          finding="const_qualifier_lost_via_function_pointer", pre="void f(const int* q) { *q = 9; }\n"),
    ] + [
        # pointer-to-const PARAMETER x how the argument is written x how the callee stores through it
        c("const-ptr-param-%s-%s" % (an, sn), "    int d = 3;\n    int[3] arr = [1, 2, 3];\n    P s = {1, 2};\n" + decl + "    %s(%s);\n    println(d, arr[0], s.x);" % (fn, arg),
          "error", "", pre="void fi(const int* p) { %s }\nvoid fs(const P* p) { %s }\n" % (body if fn == "fi" else "*p = 0;", body if fn == "fs" else "p->x = 0;"))
        for (an, decl, argi, args) in [("addr", "", "&d", "&s"), ("ptrvar", "    int* q = &d;\n    P* sp = &s;\n", "q", "sp"),
                                        ("constptrvar", "    const int* q = &d;\n    const P* sp = &s;\n", "q", "sp"),
                                        ("elemaddr", "", "&arr[0]", "&s")]
        for (sn, fn, body) in [("deref", "fi", "*p = 9;"), ("index", "fi", "p[0] = 9;"), ("incr", "fi", "(*p)++;"),
                               ("arrow", "fs", "p->x = 9;"), ("starmember", "fs", "(*p).x = 9;")]
        for arg in [argi if fn == "fi" else args]
    ] + [
        # const arrays: element type x dimensions x store form x right-hand side
        c("const-array-%s-%dd-%s" % (ty, dims, sn),
          "    const %s%s a = %s;\n    %s\n    println(a%s);" % (ty, "[2]" if dims == 1 else "[2][2]",
                                                                   ("[%s, %s]" % (v1, v2)) if dims == 1 else ("[[%s, %s], [%s, %s]]" % (v1, v2, v2, v1)),
                                                                   store % ("a[1]" if dims == 1 else "a[0][1]"), "[1]" if dims == 1 else "[0][1]"),
          "error", "")
        for (ty, v1, v2, rhss) in [("int", "1", "2", ["9"]), ("long", "1", "2", ["9"]), ("short", "1", "2", ["9"]),
                                   ("double", "1.5", "2.5", ["9", "9.25"]), ("float", "1.5", "2.5", ["9", "9.25"]),
                                   ("char", "'a'", "'b'", ["'z'"]), ("bool", "true", "false", ["true"]), ("string", '"a"', '"b"', ['"z"'])]
        for dims in (1, 2)
        for (sn, store) in [("assign-" + ("f" if "." in rhs else "i"), "%%s = %s;" % rhs) for rhs in rhss] +
                           ([("addassign", "%s += 1;"), ("incr", "%s++;")] if ty in ("int", "long", "short", "double", "float") else []) +
                           ([("addassign-f", "%s += 1.5;")] if ty in ("double", "float") else [])
    ] + [
        c("const-ref-param-member-write", "    P s = {1, 2};\n    f(s);\n    println(s.x);", "error", "", pre="void f(const P& r) { r.x = 9; }\n"),
        c("const-struct-array-elem-member", "    const P[2] ps = [{1, 2}, {3, 4}];\n    ps[0].x = 9;\n    println(ps[0].x);", "error", ""),
        c("const-struct-array-elem-whole", "    const P[2] ps = [{1, 2}, {3, 4}];\n    P q = {7, 8};\n    ps[1] = q;\n    println(ps[1].x);", "error", "", finding="const_struct_array_element_assign"),
        # (the first store to a const member declared without initialiser is its initialisation — the implementation's documented rule)
        c("const-member-of-mutable-struct", "    R r;\n    r.v = 5;\n    r.id = 7;\n    println(r.id);\n    r.id = 9;\n    println(r.id);", "error", "7\n", pre="struct R { const int id; int v; };\n"),
        c("const-string-element", "    const string s = \"abc\";\n    s[0] = 'x';\n    println(s);", "error", ""),
        c("const-3d-array", "    const int[2][2][2] t = [[[1, 2], [3, 4]], [[5, 6], [7, 8]]];\n    t[1][0][1] = 9;\n    println(t[1][0][1]);", "error", ""),
        c("const-array-to-writing-param", "    const int[3] a = [1, 2, 3];\n    w(a);\n    println(a[0]);", "error", "", pre="void w(int[3] q) { q[0] = 9; }\n"),
        c("const-double-array-to-writing-param", "    const double[3] a = [1.5, 2.5, 3.5];\n    w(a);\n    println(a[0]);", "error", "", finding="const_array_written_through_array_parameter", pre="void w(double[3] q) { q[0] = 9.5; }\n"),
        c("const-string-array-to-writing-param", "    const string[2] a = [\"x\", \"y\"];\n    w(a);\n    println(a[0]);", "error", "", finding="const_array_written_through_array_parameter", pre="void w(string[2] q) { q[0] = \"z\"; }\n"),
        c("const-2d-array-to-writing-param", "    const int[2][2] a = [[1, 2], [3, 4]];\n    w(a);\n    println(a[0][0]);", "error", "", finding="const_array_written_through_array_parameter", pre="void w(int[2][2] q) { q[0][0] = 9; }\n"),
        c("const-long-array-to-writing-param-compound", "    const long[3] a = [1, 2, 3];\n    w(a);\n    println(a[1]);", "error", "", pre="void w(long[3] q) { q[1] += 5; }\n"),
        c("const-array-to-reading-param", "    const int[3] a = [1, 2, 3];\n    println(rd(a));", "ok", "6\nEND\n", pre="int rd(int[3] q) { return q[0] + q[1] + q[2]; }\n"),
        c("const-global-struct-method-write", "    K.bump();\n    println(K.x);", "error", "", pre="interface IB { void bump(); }\nimpl IB for P { void bump() { self.x = self.x + 1; } }\nconst P K = {1, 2};\n"),
        c("ptr-to-const-compound", "    int d = 3;\n    const int* p = &d;\n    *p += 1;\n    println(d);", "error", ""),
        c("ptr-to-const-arrow-incr", "    P s = {1, 2};\n    const P* p = &s;\n    p->x++;\n    println(s.x);", "error", ""),
        c("ptr-to-const-star-member-decr", "    P s = {1, 2};\n    const P* p = &s;\n    (*p).x--;\n    println(s.x);", "error", ""),
        c("ptr-to-const-star-incr", "    int d = 3;\n    const int* p = &d;\n    (*p)++;\n    println(d);", "error", ""),
        c("const-ptr-to-const-both", "    int d = 3;\n    int e = 4;\n    const int* const p = &d;\n    p = &e;\n    println(*p);", "error", ""),
        c("const-ptr-to-const-store", "    int d = 3;\n    const int* const p = &d;\n    *p = 8;\n    println(d);", "error", ""),
        c("ptr-to-const-from-function", "    int d = 3;\n    G = 5;\n    *(getp()) = 9;\n    println(G);", "error", "", finding="ptr_to_const_lost_in_return_and_copy", pre="int G = 1;\nconst int* getp() { return &G; }\n"),
        c("ptr-to-const-copied", "    int d = 3;\n    const int* p = &d;\n    const int* q = p;\n    *q = 9;\n    println(d);", "error", "", finding="ptr_to_const_lost_in_return_and_copy"),
        c("ptr-to-const-copied-to-plain", "    int d = 3;\n    const int* p = &d;\n    int* q = p;\n    *q = 9;\n    println(d);", "error", "", finding="ptr_to_const_lost_in_return_and_copy"),
        c("const-struct-copy-roundtrip", "    const P a = {1, 2};\n    P b = a;\n    b.x = 5;\n    println(a.x, b.x);", "ok", "1 5\nEND\n"),
        c("const-local-shadows-global", "    const int g = 5;\n    g = 6;\n    println(g);", "error", "", pre="int g = 1;\n"),
        c("const-struct-member-incr", "    const P a = {1, 2};\n    a.x++;\n    println(a.x);", "error", ""),
        c("const-array-elem-incr-2d", "    const int[2][2] m = [[1, 2], [3, 4]];\n    m[1][0]++;\n    println(m[1][0]);", "error", ""),
        c("const-ref-param-member-addassign", "    P s = {1, 2};\n    f(s);\n    println(s.x);", "error", "", pre="void f(const P& r) { r.x += 9; }\n"),
        c("const-ref-param-nested-member-write", "    Q s;\n    s.v = 1;\n    s.in.x = 2;\n    f(s);\n    println(s.in.x);", "error", "",
          pre="struct Q { int v; P in; };\nvoid f(const Q& r) { r.in.x = 9; }\n"),
        c("const-ref-param-scalar-write", "    int d = 3;\n    f(d);\n    println(d);", "error", "", pre="void f(const int& r) { r = 9; }\n"),
        c("const-ref-param-scalar-incr", "    int d = 3;\n    f(d);\n    println(d);", "error", "", pre="void f(const int& r) { r++; }\n"),
        c("const-ref-param-of-const-struct", "    const P s = {1, 2};\n    f(s);\n    println(s.x);", "error", "", pre="void f(const P& r) { r.y = 9; }\n"),
        c("const-ref-param-read", "    P s = {1, 2};\n    println(f(s));", "ok", "3\nEND\n", pre="int f(const P& r) { return r.x + r.y; }\n"),
    ] + [
        c("const-float", "    const float x = 1.5;\n    x = 2.5;\n    println(x);", "error", ""),
        c("const-string", "    const string s = \"a\";\n    s = \"b\";\n    println(s);", "error", ""),
        c("const-struct-whole-assign", "    const P a = {1, 2};\n    P b = {3, 4};\n    a = b;\n    println(a.x);", "error", ""),
        c("const-array-whole-assign", "    const int[3] a = [1, 2, 3];\n    int[3] b = [4, 5, 6];\n    a = b;\n    println(a[0]);", "error", ""),
        c("const-bool", "    const bool t = true;\n    t = false;\n    println(t);", "error", ""),
        c("const-char", "    const char ch = 'a';\n    ch = 'b';\n    println(ch);", "error", ""),
        c("static-const-string", "    static const string s = \"ab\";\n    s = \"cd\";\n    println(s);", "error", ""),
    ]


CS_FID = "const_struct_method_and_pointer_routes"


def const_struct_cases():
    """const struct x how it was initialised x where it lives x the route of the store: every store is rejected before anything
    after "start" is printed (oracle: the property)"""
    H = ("struct P { int x; int y; };\ninterface Mv { void setx(int v); void incx(); void addx(int v); int getx(); }\n"
         "impl Mv for P {\n    void setx(int v) { self.x = v; }\n    void incx() { self.x++; }\n    void addx(int v) { self.x += v; }\n"
         "    int getx() { return self.x; }\n}\nP mk() { P t; t.x = 1; t.y = 2; return t; }\n")
    inits = [("positional", "{1, 2}"), ("named", "{x: 1, y: 2}"), ("call", "mk()"), ("copy", "SRC")]
    routes = [("member-assign", "a.x = 9;"), ("member-addassign", "a.x += 1;"), ("member-incr", "a.x++;"),
              ("method-assign", "a.setx(9);"), ("method-incr", "a.incx();"), ("method-addassign", "a.addx(3);"),
              ("ptr-to-member", "int* p = &a.x;\n    *p = 9;"), ("ptr-to-struct", "P* p = &a;\n    p->x = 9;"),
              ("ptr-to-struct-method", "P* p = &a;\n    p->setx(9);"), ("whole-assign", "P b = {3, 4};\n    a = b;")]
    cases = []
    for iname, init in inits:
        for where in ("local", "global", "static"):
            if (where == "global" and iname in ("call", "copy")) or (where == "static" and iname == "copy"):
                continue        # global initialisers are literals; a static initialised from a variable is not supported
            for rname, store in routes:
                src = "    P src0 = {1, 2};\n" if iname == "copy" else ""
                ini = init.replace("SRC", "src0")
                if where == "local":
                    pre, decl = "", src + "    const P a = %s;\n" % ini
                elif where == "static":
                    pre, decl = "", src + "    static const P a = %s;\n" % ini
                else:
                    pre, decl = "const P a = %s;\n" % ini, ""
                prog = H + pre + "int main() {\n" + decl + "    println(\"start\", a.getx());\n    " + store + "\n    println(a.x);\n    println(\"END\");\n    return 0;\n}\n"
                cs_ = {"id": "cstruct-%s-%s-%s" % (iname, where, rname), "program": prog, "expect_class": "error", "expect_stdout": "start 1\n"}
                if rname == "method-incr" or (iname in ("call", "copy") and rname in ("method-assign", "method-addassign", "ptr-to-member")):
                    cs_["finding"] = CS_FID
                cases.append(cs_)
    # a mutable struct reached through a pointer to const / a const reference: methods that write are rejected too
    for rname, store in [("ptrconst-method", "const P* cp = &m;\n    cp->setx(9);"), ("ptrconst-method-incr", "const P* cp = &m;\n    cp->incx();"),
                         ("constref-method", "wr(m);")]:
        prog = H + "void wr(const P& r) { r.setx(9); }\nint main() {\n    P m = {1, 2};\n    println(\"start\", m.getx());\n    " + store + "\n    println(m.x);\n    println(\"END\");\n    return 0;\n}\n"
        cases.append({"id": "cstruct-" + rname, "program": prog, "expect_class": "error", "expect_stdout": "start 1\n",
                      "finding": CS_FID if rname.startswith("ptrconst") else None})
    # a member that is a pointer to const; a struct with a const member overwritten as a whole
    cases.append({"id": "cstruct-member-ptr-to-const", "expect_class": "error", "expect_stdout": "start\n", "finding": CS_FID,
                  "program": "struct H { const int* p; int k; };\nint main() {\n    int d = 3;\n    H h;\n    h.p = &d;\n    println(\"start\");\n    *h.p = 9;\n    println(d);\n    println(\"END\");\n    return 0;\n}\n"})
    cases.append({"id": "cstruct-const-member-whole-assign", "expect_class": "error", "expect_stdout": "start 7\n", "finding": CS_FID,
                  "program": "struct R { const int id; int v; };\nint main() {\n    R r;\n    r.id = 7;\n    r.v = 1;\n    R o;\n    o.id = 8;\n    o.v = 2;\n    println(\"start\", r.id);\n    r = o;\n    println(r.id);\n    println(\"END\");\n    return 0;\n}\n"})
    # controls: reading through every route is allowed
    cases.append({"id": "cstruct-read-controls", "expect_class": "ok", "expect_stdout": "1 2 1 1 2\nEND\n",
                  "program": H + "const P g = {x: 1, y: 2};\nint main() {\n    const P a = {x: 1, y: 2};\n    const P* cp = &a;\n    println(a.x, a.y, a.getx(), g.getx(), cp->y);\n    println(\"END\");\n    return 0;\n}\n"})
    return cases


def main(a):
    c = RefCheck(PID, a, ["CbProofs", "CbProps.C09"], THEOREMS)
    if not c.build():
        return c.v.finish()
    if a.replay:
        return c.replay(a.replay)
    c.witnesses()
    quick = a.tier == "quick"
    cl = cells()
    idx = {s: (cid, kind) for (cid, s, kind) in cl}
    specs = [(f["id"], f.get("cells", [])) for f in all_findings() if f["property"] == PID]

    def known_cell(r):
        cid, kind = idx[r.sexp]
        for fid, sp in specs:
            if any(kind == k for k in sp):
                return fid
        return None
    c.suite("matrix", [s for (_, s, _) in cl], nontrivial=lambda r: idx[r.sexp][0], known_cell=known_cell,
            max_report=6, shrink=False)
    c.raw_suite("pointers-and-references", raw_cases())
    c.raw_suite("const-structs", const_struct_cases(), max_report=6)
    n = 400 if quick else 30000
    rnd = [gen_core.gen_program(a.seed, 91, k, c.gates, size=25, features={"consts": True})[0] for k in range(n)]
    c.suite("random-const-rich", rnd, nontrivial=lambda r: hash(r.sexp) if r.status == "exit1:const" else None)
    return c.finish(
        rule="matrix: const kinds (local/global/static-local/parameter scalar of 9 types, local/global arrays of 4 types, struct) x "
             "mutation paths (=, +=, *=, x++, --x, a[i]=, a[i]+=, a[i]++, a[var]=, s.m=, s.m+=, s.m++), each cell one "
             "program expected to print the value once and stop with an error; pointer/reference programs with the "
             "property's own oracle; random core programs with ~30% const declarations. non-trivial = distinct cell / "
             "program ending in a const error",
        extra={"exhaustive": True, "matrix_cells": len(cl)},
        assumptions=["pointers and reference parameters are not in the Lean model; their cases are judged by the "
                     "property's wording (rejected / allowed), not by a model run"])
