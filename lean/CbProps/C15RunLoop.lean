/-
  C15 — the driver loop of run_event_loop() is round robin: with tasks that neither spawn nor block, the order in
  which tasks are stepped is round 0 (every task, in queue = spawn order), round 1 (every task that is not finished,
  same order), ... : no task is skipped, none runs twice in a round, every task gets exactly the steps it needs.
  Proofs: CbProofs/RunLoop.lean.
-/
import CbProofs.RunLoop
namespace CbProps.C15RunLoop
open CbModel.RunLoop

theorem run_is_round_robin (q : Queue) (fuel : Nat) (h : work q ≤ fuel) : run fuel q = schedule q :=
  CbModel.RunLoop.run_is_round_robin q fuel h

theorem run_steps_each_task_exactly (q : Queue) (fuel : Nat) (h : work q ≤ fuel) (t : Task) (ht : t ∈ q)
    (hd : (q.map (·.id)).Nodup) : (run fuel q).count t.id = max t.left 1 :=
  CbModel.RunLoop.run_steps_each_task_exactly q fuel h t ht hd

theorem run_first_round_is_queue_order (q : Queue) (fuel : Nat) (h : work q ≤ fuel) :
    (run fuel q).take q.length = q.map (·.id) :=
  CbModel.RunLoop.run_first_round_is_queue_order q fuel h

/-- non-vacuity: three tasks needing 2, 3 and 1 steps -/
example : run 6 [⟨1, 2⟩, ⟨2, 3⟩, ⟨3, 1⟩] = [1, 2, 3, 1, 2, 2] ∧ schedule [⟨1, 2⟩, ⟨2, 3⟩, ⟨3, 1⟩] = [1, 2, 3, 1, 2, 2] ∧
    work [⟨1, 2⟩, ⟨2, 3⟩, ⟨3, 1⟩] = 6 := by decide

end CbProps.C15RunLoop
