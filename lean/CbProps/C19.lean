/-
  C19 — standard-library Vector, Queue and Map behave as sequence, FIFO and ordered map.
  Map: theorems about the functional model of stdlib/std/map.cb (CbModel/Avl.lean), proved in
  CbProofs/Avl*.lean and restated here.  Vector/Queue: laws of the abstract models (CbModel/Seq.lean).
-/
import CbModel.Seq
import CbProofs.AvlBound
namespace CbProps.C19
open CbModel.Seq
open CbModel.Avl

/-! ## Map<K,V>: the functional model of stdlib/std/map.cb -/

/-- insertion keeps the search order, the stored heights and the AVL balance -/
theorem insert_inv (t : Tree) (k v : Int) (h : Inv t) : Inv (insert t k v) := CbModel.Avl.insert_inv t k v h

/-- removal (in-order successor replacement, rebalancing on the way up) keeps them too -/
theorem remove_inv (t : Tree) (k : Int) (h : Inv t) : Inv (remove t k) := CbModel.Avl.remove_inv t k h

/-- the tree is a finite map: a lookup after an insertion … -/
theorem lookup_insert (t : Tree) (k v k' : Int) (h : BST t) :
    lookup (insert t k v) k' = if k' = k then some v else lookup t k' := CbModel.Avl.lookup_insert t k v k' h

/-- … and after a removal -/
theorem lookup_remove (t : Tree) (k k' : Int) (h : BST t) :
    lookup (remove t k) k' = if k' = k then none else lookup t k' := CbModel.Avl.lookup_remove t k k' h

theorem size_insert (t : Tree) (k v : Int) (h : BST t) :
    size (insert t k v) = if (lookup t k).isSome then size t else size t + 1 := CbModel.Avl.size_insert t k v h

theorem size_remove (t : Tree) (k : Int) (h : BST t) :
    size (remove t k) = if (lookup t k).isSome then size t - 1 else size t := CbModel.Avl.size_remove t k h

/-- an AVL tree of height h has at least fib(h+2) - 1 nodes -/
theorem fib_le_size (t : Tree) (h1 : HOK t) (h2 : Balanced t) : fib (height t + 2) ≤ size t + 1 :=
  CbModel.Avl.fib_le_size t h1 h2

theorem height_eq_real (t : Tree) (h : HOK t) : height t = realHeight t := CbModel.Avl.height_eq_real t h

/-- **height ≤ 1.44·log2(n+2)**, written without real numbers: 2^(25h) ≤ (n+2)^36 -/
theorem height_bound_144 (t : Tree) (h1 : HOK t) (h2 : Balanced t) (hs : size t < 2 ^ 63) :
    2 ^ (25 * height t) ≤ (size t + 2) ^ 36 := CbModel.Avl.height_bound_144 t h1 h2 hs

/-- **Every reachable Map state**: after any sequence of inserts and removes from the empty map the tree
    satisfies all invariants and the reported size equals the number of live nodes -/
theorem map_count_and_inv (ops : List MapOp) :
    let m := ops.foldl applyOp Map.empty
    Inv m.root ∧ m.count = size m.root := CbModel.Avl.map_count_and_inv ops

/-! ## Vector<T>, Queue<T>: laws of the abstract models -/

/-- `smaller()` leaves the elements in ascending order … -/
theorem sort_sorted (l : List Int) :
    List.Pairwise (fun a b => a ≤ b) (vstep l .sortAsc).1 := by
  have := List.pairwise_mergeSort (le := fun (a b : Int) => decide (a ≤ b))
    (by intro a b c h1 h2; simp at *; omega) (by intro a b; simp; omega) l
  simpa [vstep] using this

/-- … and keeps exactly the same elements (a permutation) -/
theorem sort_perm (l : List Int) : (vstep l .sortAsc).1.Perm l ∧ (vstep l .sortDesc).1.Perm l := by
  exact ⟨List.mergeSort_perm _ _, List.mergeSort_perm _ _⟩

/-- Queue is first-in-first-out: after pushing `xs` onto an empty queue, popping |xs| times yields `xs` in
    the same order and leaves the queue empty -/
theorem queue_fifo (xs : List Int) :
    let q := xs.foldl (fun l x => (qstep l (.push x)).1) []
    q = xs ∧ (qstep q .pop).2 = xs.head? ∧ (qstep q .pop).1 = xs.drop 1 := by
  have h : ∀ (acc : List Int), xs.foldl (fun l x => (qstep l (.push x)).1) acc = acc ++ xs := by
    induction xs with
    | nil => intro acc; simp
    | cons x r ih =>
      intro acc
      rw [List.foldl_cons, ih]
      simp [qstep]
  intro q
  have hq : q = xs := by
    show xs.foldl (fun l x => (qstep l (.push x)).1) [] = xs
    rw [h]; simp
  rw [hq]
  exact ⟨rfl, rfl, rfl⟩

/-! ## Queue<T>, Vector<T>: laws over every history / every sequence (added after the first version) -/

/-- the values handed out by `pop`, in order, along a whole operation history (and the final queue) -/
def qrun : List Int → List QOp → List Int × List Int
  | q, [] => (q, [])
  | q, op :: r =>
    let s := qstep q op
    let t := qrun s.1 r
    (t.1, match op, s.2 with
          | .pop, some v => v :: t.2
          | _, _ => t.2)

/-- the values pushed along a history, in order -/
def pushes : List QOp → List Int
  | [] => []
  | .push v :: r => v :: pushes r
  | _ :: r => pushes r

/-- **FIFO for every interleaving**: along any history of push/pop/top/size/empty (no `clear`) from any
    queue `q`, the popped values followed by what is still queued are exactly the initial content followed
    by the pushed values, in order — nothing lost, duplicated or reordered -/
theorem queue_history_fifo (q : List Int) (ops : List QOp) (h : ∀ op ∈ ops, op ≠ QOp.clear) :
    (qrun q ops).2 ++ (qrun q ops).1 = q ++ pushes ops := by
  induction ops generalizing q with
  | nil => simp [qrun, pushes]
  | cons op r ih =>
    have hr : ∀ o ∈ r, o ≠ QOp.clear := fun o ho => h o (List.mem_cons_of_mem _ ho)
    cases op with
    | push v =>
      have := ih (q ++ [v]) hr
      simp only [qrun, qstep, pushes]
      rw [this]; simp
    | pop =>
      cases q with
      | nil => have := ih [] hr; simpa [qrun, qstep, pushes] using this
      | cons a t => have := ih t hr; simp [qrun, qstep, pushes, this]
    | top => have := ih q hr; cases hq : q.head? <;> simpa [qrun, qstep, pushes, hq] using this
    | size => have := ih q hr; simpa [qrun, qstep, pushes] using this
    | empty => have := ih q hr; simpa [qrun, qstep, pushes] using this
    | clear => exact absurd rfl (h _ (List.mem_cons_self))

/-- `clear` forgets everything queued before it: the history after the last `clear` alone decides the rest -/
theorem queue_clear_resets (q : List Int) (ops : List QOp) :
    qrun (qstep q .clear).1 ops = qrun [] ops := by simp [qstep]

example : qrun [] [.push 1, .push 2, .pop, .push 3, .pop, .top] = ([3], [1, 2]) := by decide

/-! Vector laws over every sequence -/

theorem vec_pushBack_popBack (l : List Int) (v : Int) :
    (vstep (vstep l (.pushBack v)).1 .popBack).1 = l := by simp [vstep]

theorem vec_pushFront_popFront (l : List Int) (v : Int) :
    (vstep (vstep l (.pushFront v)).1 .popFront).1 = l := by simp [vstep]

/-- the element pushed at the back is found at index `length`, and every earlier index is unchanged -/
theorem vec_at_pushBack (l : List Int) (v : Int) (i : Nat) :
    (vstep (vstep l (.pushBack v)).1 (.at i)).2 =
      if i < l.length then l[i]? else if i = l.length then some v else none := by
  simp only [vstep]
  by_cases h1 : i < l.length
  · simp [h1, List.getElem?_append_left h1]
  · by_cases h2 : i = l.length
    · subst h2; simp
    · have : l.length + 1 ≤ i := by omega
      simp [h1, h2, this]

/-- pushing at the front shifts every index by one -/
theorem vec_at_pushFront (l : List Int) (v : Int) (i : Nat) :
    (vstep (vstep l (.pushFront v)).1 (.at (i + 1))).2 = l[i]? ∧
    (vstep (vstep l (.pushFront v)).1 (.at 0)).2 = some v := by simp [vstep]

/-- the length after each operation -/
theorem vec_length_step (l : List Int) (op : VOp) :
    (vstep l op).1.length = match op with
      | .pushBack _ | .pushFront _ => l.length + 1
      | .popBack | .popFront => l.length - 1
      | .deleteAt i => if i < l.length then l.length - 1 else l.length
      | .clear => 0
      | _ => l.length := by
  cases op <;> simp [vstep, List.length_eraseIdx]

/-- `delete_at i` removes exactly position i: earlier indices keep their element, later ones shift down -/
theorem vec_at_deleteAt (l : List Int) (i j : Nat) :
    (vstep (vstep l (.deleteAt i)).1 (.at j)).2 = if j < i then l[j]? else l[j + 1]? := by
  simp [vstep, List.getElem?_eraseIdx]

/-- `find v` answers the first index holding `v`, and -1 exactly when `v` does not occur -/
theorem vec_find_spec (l : List Int) (v : Int) :
    match (vstep l (.find v)).2 with
    | some r => (r = -1 ↔ v ∉ l) ∧ (r ≠ -1 → ∃ i : Nat, r = i ∧ l[i]? = some v ∧ ∀ j < i, l[j]? ≠ some v)
    | none => False := by
  simp only [vstep]
  cases h : l.findIdx? (· == v) with
  | none =>
    simp only [List.findIdx?_eq_none_iff] at h
    refine ⟨⟨fun _ hm => ?_, fun _ => rfl⟩, fun hne => absurd rfl hne⟩
    have := h v hm; simp at this
  | some i =>
    rw [List.findIdx?_eq_some_iff_getElem] at h
    obtain ⟨hi, hv, hlt⟩ := h
    have hv' : l[i] = v := by simpa using hv
    refine ⟨⟨fun h0 => by exfalso; have h1 : (i : Int) = -1 := h0; omega, fun hn => absurd (hv' ▸ List.getElem_mem hi) hn⟩, fun _ => ⟨i, rfl, ?_, ?_⟩⟩
    · simp [hi, hv']
    · intro j hj hjv
      have hjl : j < l.length := by omega
      have := hlt j hj
      rw [List.getElem?_eq_getElem hjl] at hjv
      simp at hjv this
      exact this hjv

end CbProps.C19
