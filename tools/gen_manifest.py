#!/usr/bin/env python3
"""Regenerates /verif/MANIFEST.json from the table below (single source of truth)."""
import json, os
ROOT = os.path.dirname(os.path.dirname(os.path.abspath(__file__)))

CHECKS = {
    "C17": dict(
        text="Lean 4 theorems (CbProps/C17.lean): for every macro table and every well-nested source tree of any depth the "
             "conditional stack machine that mirrors Preprocessor::process emits exactly the tree selection, skipped "
             "blocks have no effect, unknown/unmatched/unclosed directives are errors; segmentation is lossless and lines "
             "without macro words are unchanged. The model is tied to the code by running it (cbdriver c17) and the real "
             "Preprocessor in-process on the same inputs: every directive sequence up to length 4 (5 thorough) over 3 "
             "names x all -D subsets up to renaming, malformed directives, random nested trees, macro lines. Added later: the model's macro expansion carries the set of macros being expanded (a macro is not expanded again inside its own expansion); cyclic tables and string literals ending in an escaped backslash are generated.",
        note="Trusted: Lean kernel (axioms propext/Classical.choice/Quot.sound only), the differential harness "
             "(h_preproc.cpp) and its generators. The positional multi-pass expandMacros is not mirrored line by line: it "
             "is compared with the token-level specification on generated lines only. __DATE__/__TIME__ not exercised.",
        technique="Lean 4 proof (refinement of a tree-selection spec by the stack machine, structural induction) + "
                  "in-process differential correspondence, exhaustive on small directive sequences",
        ref="DESIGN.md §6 C17"),
    "C05": dict(
        text="Lean 4 theorems (CbProps/C05.lean) about flatIndex, a line-by-line mirror of Variable::calculate_flat_index: "
             "succeeds iff arity matches and every index is inside its dimension (any number of dimensions), equals the "
             "row-major address, 0 <= k < size, injective and surjective on in-range tuples, rejected store produces no "
             "state, store/read-back laws. Tie: in-process calculate_flat_index vs flatIndex exhaustively on all shapes of "
             "<=3 dims with extents 1..5 and all index tuples in [-2,extent+2]; end-to-end access sequences through local, "
             "global, parameter, struct-member, pointer, checked and try paths vs the Lean flat store.",
        note="Trusted: Lean kernel; harness h_flat.cpp; generators. The other index computations in the interpreter "
             "(array.cpp Horner form, member paths) are covered only by the end-to-end correspondence (sampled in quick). "
             "array_get/array_set raw-memory built-ins are not covered. Known findings: 2-D/3-D struct member arrays.",
        technique="Lean 4 proof (induction over dimension lists; loop = row-major; bijection) + exhaustive in-process "
                  "correspondence + end-to-end differential runs",
        ref="DESIGN.md §6 C05"),
    "C01": dict(
        text="Lean 4 theorems (CbProps/C01.lean) on the reference semantics CbRef (CbModel/Ref/Eval.lean, a fuel-indexed "
             "big-step evaluator in a state/result monad): truncating division and sign-of-dividend remainder law, "
             "arithmetic right shift = floor division, division/modulo by zero are errors; output only grows for every "
             "program/fuel (instance of the generic preservation theorem allPres over all 11 mutually recursive evaluator "
             "functions), nothing executes after a runtime error, continue runs the for-update, break leaves the loop. "
             "Tie: generated core programs are run by the Lean semantics (cbdriver ref) and by the interpreter built from "
             "the working tree; stdout + exit class compared: every operator x boundary operand pairs in 8 evaluation "
             "contexts, plus type-directed random programs.",
        note="CbRef is a hand-written model of the documented language, not a translation of the C++; the tie is "
             "differential (this run's generated programs). int64 overflow and bool stores other than 0/1 are outside the "
             "fragment (discarded). Generator gates closed by listed findings (known_findings.json) are reported in the "
             "evidence. fuel_mono (a finished run is independent of extra fuel) is not proved yet.",
        technique="Lean 4 proof (generic invariant preservation over the evaluator, arithmetic laws) + end-to-end "
                  "differential correspondence with shrinking",
        ref="DESIGN.md §6 C01"),
    "C03": dict(
        text="Lean 4 theorems (CbProps/C03.lean) on CbRef, for all expressions/programs/states: a false left operand of && "
             "(true of ||) yields the result and state of the left operand alone, whatever the right operand is; ?: evaluates "
             "exactly the selected branch; strict binary operators and argument lists evaluate left to right, once each; "
             "and_error_origin: a && b can only fail inside a, or inside b after a produced non-zero (guards protect); "
             "division by a non-zero value is never a division error. Tie: programs whose operands are calls that print "
             "their id (the printed order is the evaluation order): every binary operator x truth values x 9 evaluation "
             "contexts, ternary, skipped failing operands, nestings, argument lists, index expressions, guard idioms; plus "
             "random programs with effectful leaves; model vs interpreter.",
        note="Differential tie on this run's programs. println argument contexts are kept free of failing effectful calls "
             "while finding println_reeval is open; multi-dimensional index expressions are kept pure (md_* findings).",
        technique="Lean 4 proof (unfolding lemmas on the reference evaluator, for all operands) + exhaustive effect-order "
                  "table run end-to-end",
        ref="DESIGN.md §6 C03"),
    "C04": dict(
        text="Lean 4 theorems (CbProps/C04.lean): RangeInv (every integer cell of globals, locals, statics, array elements "
             "and struct members lies in its declared type's range) is preserved by every statement, loop and (recursive) "
             "call of every CbRef program at every fuel (instance of the generic theorem allPres); reads yield in-range "
             "values; out-of-range stores are range errors, negative-to-unsigned clamps to 0, in-range values incl. both "
             "boundaries round-trip. Obligation rangeTable_is_spec (decide) ties the model's range table to the table the "
             "translator regenerates from TypeManager::check_type_range on every run. Correspondence: the full matrix 9 types "
             "x 13 store paths x boundary values x {literal, variable} plus random narrow-type programs, model vs interpreter.",
        note="Trusted: translator tools/translate/ranges.py (regex over one switch), differential harness. The many store "
             "paths of the C++ are covered by the matrix only, not proved; 7 listed findings (unchecked paths) are "
             "attributed per matrix cell.",
        technique="Lean 4 proof (whole-evaluator invariant by induction on fuel over 11 mutual functions) + translator-tied "
                  "table obligation (decide) + exhaustive store-path matrix",
        ref="DESIGN.md §6 C04"),
    "C08": dict(
        text="Lean 4 theorems (CbProps/C08.lean) on CbRef: running a callee in a fresh frame gives a result, globals, "
             "statics and output that do not depend on the caller's frame; every call returns with the caller's frame "
             "intact; the fresh frame holds exactly the parameters, bound positionally; too many / missing arguments are "
             "arity errors, declared defaults fill omitted trailing parameters; an in-range return value reaches the caller "
             "unchanged; an existing static is not re-initialised. Tie: targeted call graphs (recursion depth 1..50, mutual "
             "recursion, name reuse, all arity cells for 0..3 parameters, boundary return values, interleaved statics) and "
             "random call graphs with reused local names, model vs interpreter.",
        note="Frames are private by construction in the model (withFrame); that the implementation behaves so is only "
             "tested. Listed findings: arguments evaluated in the callee's scope, dynamic name lookup.",
        technique="Lean 4 proof (frame discipline lemmas on the reference semantics) + end-to-end differential call-graph "
                  "suites",
        ref="DESIGN.md §6 C08"),
    "C02": dict(
        text="Lean 4 theorems (CbProps/C02.lean) about parse, a table-driven model of the parser's precedence ladder "
             "(ternary on top, one left-associative loop per binary level, prefix unary, parenthesised primary): for EVERY "
             "well-formed table and every token string that denotes a tree with redundant parentheses anywhere (inductive "
             "grammar Derives), the parser returns exactly that tree (parse_of_derives, by induction on derivations with "
             "fuel monotonicity); corollaries parse_printMin, parse_printFull, paren_invariance, min_eq_full. Obligations "
             "(decide) on the table regenerated from expression_parser.cpp / parseTernary on every run: ladder_is_spec "
             "(equals the specification table) and ladder_wf. Correspondence: every expression over all ordered operator "
             "pairs (triples in thorough) and random trees, printed with minimal, full and random redundant parentheses, "
             "must evaluate to the reference value in the interpreter built from the working tree. The assignment level "
             "(CbModel/LadderAssign.lean, mirroring parseAssignment: left = parseTernary(), right = parseAssignment(), lvalue "
             "test) has its own theorems (CbProps/C02Assign.lean): every chain x1 op1 x2 op2 ... e, with operands parenthesised "
             "anyhow, parses to the RIGHT-nested tree (parseAssign_of_derives), the whole right-hand side incl. ?: belongs to the "
             "assignment, x = y = e is x = (y = e), a non-lvalue left side is rejected, fuel independence, parenthesis "
             "invariance; obligations assign_ops_are_spec / assign_ops_awf on the operator list regenerated from "
             "parseAssignment; end-to-end suite assignment-level (all 18 operators under a = b = x op y, chains, ?:, "
             "assignment as operand / condition / argument).",
        note="Trusted: translator tools/translate/ladder.py (recognises the level functions' `left = next(); while "
             "(check..)` shape; anything else is reported as a failed obligation), the differential harness. Postfix "
             "chains beyond [ ] and ( ), casts, await/try are outside the ladder model. `a < b > (c)` with an identifier b "
             "is a generic call by the grammar and is excluded from generated programs.",
        technique="Lean 4 proof (parser correct w.r.t. an inductive grammar, for all tables) + translator-regenerated table "
                  "with decide obligations + exhaustive operator-pair differential suite",
        ref="DESIGN.md §6 C02"),
    "C16": dict(
        text="Lean 4 theorems (CbProps/C16.lean) about the rendering functions the reference semantics uses: for every "
             "integer, reading back the decimal rendering gives the number (hence injective); hexadecimal rendering is the "
             "64-bit two's-complement pattern; padding never truncates, yields max(width, length) characters and keeps the "
             "text as suffix; zero padding puts the sign first; doubled braces unescape to the original text; text without "
             "% is passed verbatim by the printf machinery. Tie: ~450 boundary integers (every power of two and ten +-1) x "
             "{println, {v}, :x :X :b :Nd :0Nd, %d %lld %Nd %0Nd %Nlld} x widths, and random ASCII/UTF-8 text, braces, %% %s "
             "%c, surplus printf arguments, print without newline — model vs interpreter. Theorems (CbProps/C16Fixed.lean, 8) on "
             "CbModel/Fixed.lean, :.Nf as exact rational arithmetic on the value of the double: the printed numeral is a nearest "
             "one with N fraction digits (within half a unit of the last digit), exact values are printed exactly, ties go to "
             "the even neighbour, non-ties to the strictly nearer one, rounding is monotone, exactly N fraction digits are "
             "printed and the text reads back as the rounded value. Tie: {x:.Nf}, N = 0..12, on doubles from a fixed list "
             "(binary ties, decimal pseudo-ties, both signs) and random dyadic / decimal literals vs the model. Added later: conversion-looking text as last println argument, print / println of doubles without format against C's %.15g (calibration, Python oracle); padRight laws for left-aligned fields.",
        note="Calibrated to the implementation where the property is silent: println writes arguments one at a time; a "
             "sole literal is printed raw; surplus printf arguments are appended space-separated. Not generated: double "
             "quotes/backslashes in literals (lexer has no escaped quote), too few printf arguments, the `-` flag, %x/%o/%u, "
             "float / quad variables, width combined with precision, :e. The exact value of the double a literal denotes is "
             "supplied by the harness (Python float = correctly rounded strtod).",
        technique="Lean 4 proof (round-trip and padding laws by induction on digit lists) + exhaustive boundary-integer x "
                  "format table run end-to-end",
        ref="DESIGN.md §6 C16"),
    "C09": dict(
        text="Lean 4 theorems (CbProps/C09.lean) on CbRef: every store path to a const object (the object, an element, a "
             "member, an element of a member; plain, compound, ++/--) is rejected by the single store primitive; a rejected "
             "store to a const local leaves the whole state unchanged; a const GLOBAL keeps its value through every "
             "statement, loop and (recursive) call of every program at every fuel (instance of allPres); const parameters "
             "are bound as const cells. Tie: the full matrix const kind (local/global/parameter scalars of 9 types, "
             "local/global arrays, struct) x mutation path, pointer/reference programs judged by the property's own wording, "
             "and random const-rich core programs, model vs interpreter. Added later: const arrays of 8 element types in 1-D / 2-D under 5 store forms, const reference parameters, const struct arrays, pointers to const that travel through function results and copies, const arrays passed to writing array parameters.",
        note="Pointers and reference parameters are not in the Lean model (their cases have the direct oracle 'rejected'); "
             "the invariant for const LOCALS is proved per store and per call (C08 call_preserves_caller_locals), not as "
             "one induction. Listed findings: ++/-- on const, &const into a mutable pointer, const via T&, member store "
             "through pointer-to-const struct.",
        technique="Lean 4 proof (const rejection at the store primitive; whole-evaluator invariant for const globals) + "
                  "exhaustive kind x path matrix",
        ref="DESIGN.md §6 C09"),
    "C19": dict(
        text="Lean 4 theorems (CbProps/C19.lean) about a functional model that follows stdlib/std/map.cb function by "
             "function (stored heights, rotate_left/right, the rebalancing tail, in-order-successor removal, Map wrapper "
             "with count): insert and remove preserve BST order + correct stored heights + AVL balance; lookups after "
             "insert/remove are those of a finite map; size changes by exactly the presence of the key; after ANY sequence "
             "of inserts/removes from the empty map count = number of nodes and all invariants hold; fib(h+2) <= n+1 and "
             "hence 2^(25h) <= (n+2)^36 (height <= 1.44 log2(n+2)) for every tree of fewer than 2^63 nodes; sort is a "
             "sorted permutation; Queue is FIFO along EVERY push/pop/top/size/empty history (popped ++ queued = initial ++ pushed, "
             "queue_history_fifo) and clear resets it; Vector laws for every sequence (push/pop inverses at both ends, "
             "indexing after push_back/push_front/delete_at, length per operation, find = first index or -1). Tie (shape-exact): the real .cb containers run in the interpreter on "
             "generated operation sequences; after every Map mutation a Cb traversal prints the whole tree with heights, "
             "which must equal the model's tree; Vector/Queue contents and answers vs the list model; the CB_VERIF "
             "alloc/free log is checked for double frees and unreleased removed nodes.",
        note="Vector/Queue linked-list code is tied to abstract list models only (not mirrored). Element type int. "
             "`decide +kernel` is used for one finite table (heights 0..91 of the Fibonacci bound). Listed findings: "
             "container destructors release nothing at scope exit; pointer-declaration initialisers run twice (one leaked "
             "block per allocation).",
        technique="Lean 4 proof (AVL invariants, finite-map refinement, Fibonacci height bound) + shape-exact differential "
                  "correspondence + alloc/free log analysis",
        ref="DESIGN.md §6 C19"),
    "C06": dict(
        text="Lean 4 theorems (CbProps/C06.lean): exec, a mechanism model of the interpreter's two cleanup stacks with "
             "pushes/pops placed where cleanup.cpp, the statement-list/loop executors, return.cpp and the call code perform "
             "them, refines sexec, a structured specification in which every scope owns its registrations and leaving it by "
             "ANY path (fall-through, return from any depth, break, continue) runs its defers LIFO, then its destructors LIFO, "
             "inner scopes first: for every skeleton program and fuel the traces are equal and both stacks are balanced "
             "(exec_refines on arbitrary enclosing frames, run_refines_spec for whole programs); a call leaves the caller's "
             "frames exactly as they were; in the specification every object is destroyed exactly once. Tie: skeleton "
             "programs rendered to Cb (constructors/destructors/defers print tags): stdout must equal the specification "
             "trace; every callee body of <= 2 statements to depth 1 called from 3 cleanup-owning sites (exhaustive in "
             "thorough, sampled 1/3 in quick) plus random skeletons to depth 4 with up to 3 functions. Added later: every skeleton "
             "is rendered a second time with compound objects (own destructor + two value members with destructors, or members "
             "only); CbProps/C06Compound.lean proves that the expected trace of that rendering (expand) is exactly the visible "
             "trace of the skeleton in which each compound object is written as members-first-then-object, and that each "
             "member is destroyed as often as its object is constructed.",
        note="The model was written against the repaired tree (fix c0bbf6e); on the pinned tree the same check reports the "
             "caller-object destruction and the late defer with concrete skeletons. Recursion, cleanup inside async tasks "
             "and the position of the return expression's evaluation are not covered.",
        technique="Lean 4 proof (simulation between the stack mechanism and a structured scope semantics, joint induction "
                  "on fuel) + end-to-end trace correspondence on skeleton programs",
        ref="DESIGN.md §6 C06"),
    "C20": dict(
        text="Lean 4 theorems (CbProps/C20.lean), for ANY call table: rows that pass rowOK call a declared signature "
             "through a function pointer of exactly the declared C type with the k-th C argument taken from the k-th Cb "
             "argument by the extraction its type requires; a non-overlapping table selects at most one row; 32-bit int "
             "marshalling is the identity on the int range. Obligations (decide) on CbGen.ffiTable, regenerated from the "
             "if-chain of FFIManager::callFunction on every run: ffiTable_rows_ok, ffiTable_no_overlap. Tie: translator + "
             "an echo library compiled by the check: every supported signature x boundary values x every argument position, "
             "qualified and unqualified calls, 64-bit results; unsupported signatures must be reported, exit 1, and must not "
             "enter the native function (marker files). Added later: foreign calls nested in arguments and a second library with functions of the same names; "
             "out-of-range marshalling: toInt32_congr / toInt32_unique / toInt32_idem (the value an int parameter receives is the unique 32-bit value "
             "congruent mod 2^32), tied by `wrap` cases that pass long values to int parameters in every position.",
        note="Trusted: translator tools/translate/ffi.py, gcc, the SysV ABI, dlopen. Double equality is evaluated by the "
             "interpreter. Listed finding: void functions with unsupported parameters are silently skipped.",
        technique="Lean 4 proof (table laws) + translator-regenerated table with decide obligations + exhaustive echo suite",
        ref="DESIGN.md §6 C20"),
    "C12": dict(
        text="Lean 4 theorems (CbProps/C12.lean) on an object model (CbModel/Iface.lean: concrete objects, interface "
             "variables holding (dynamic type, state), an impl table of (interface, type) pairs, impl-block statics per pair): "
             "a method call through an interface variable runs the impl registered for (declared interface, DYNAMIC type) on "
             "the receiver's current state; writes through self are visible in the receiver afterwards; re-assignment changes "
             "which impl runs; a type without impl is rejected; a call that updates the static of one (interface, type) pair "
             "leaves every other pair's static unchanged; observers and by-value parameters change nothing. Tie: random "
             "programs over <= 3 interfaces x <= 4 types with 6..30 operations; cbdriver c12 predicts every printed value.",
        note="The model is a specification-level object model, not a mirror of the interpreter's dispatch code; the tie is "
             "differential. Methods are called through interface variables and by-value interface parameters only (a direct "
             "call on the concrete object cannot see impl statics — 'Undefined variable' — and is not generated; interface "
             "pointers not generated).",
        technique="Lean 4 proof (laws of a small-step object model) + differential correspondence on generated call sequences",
        ref="DESIGN.md §6 C12"),
    "C07": dict(
        text="Lean 4 theorems (CbProps/C07.lean) on a value-tree model of the object graph (CbModel/Heap.lean: variables are "
             "the children of one root tree, structs/arrays are nodes, access paths are direct or go through a pointer — "
             "reference parameters, array parameters and self are pointers to the argument / receiver): read-after-write, "
             "frame (a write leaves every non-overlapping cell unchanged), get_set_below, copy_independent (after dst = src "
             "both hold the value and no later write inside either is visible through the other), alias_reads_agree, "
             "alias_write_visible (a write through any access path is read through every other path to the same cell), "
             "alias_write_visible_above, write_frame, by-value calls change nothing, shape stability (paths stay valid). "
             "Tie: cbdriver c07 is the shadow heap; a fixed object graph (2 structs with scalar, nested-struct and array "
             "members, struct, struct array, 2 int arrays, scalar, struct pointer, int pointer); matrix of 40 operation "
             "kinds alone + random histories of 3..14 operations; after every operation every cell is read through 12 read "
             "kinds (plain, ->, (*p)., *q, interpolation, getters, reference/array/by-value parameters). Added later: a three-level object, ++/-- through every access path, and suite typed-members (a struct with string / double / long / bool members, 14 operation kinds, 5 read paths) against a shadow kept by the harness.",
        note="Specification-level model (the interpreter's two struct representations and their sync points are not "
             "mirrored); the tie is differential. Access forms the interpreter rejects with an error are not generated. 6 "
             "listed findings on the pinned tree; their operation kinds are excluded from the random histories and checked "
             "as matrix cells.",
        technique="Lean 4 proof (lens / aliasing laws of a value-tree heap) + differential correspondence against a shadow heap on generated operation histories",
        ref="DESIGN.md §6 C07"),
    "C10": dict(
        category="proof",
        text="PARTIAL. Lean 4 theorems (CbProps/C10.lean) on the loop shape of parseProgram / the lexer (CbModel/Progress.lean): "
             "progress_terminates (if every successful step consumes input the loop finishes or fails within len - pos "
             "iterations and never runs out of fuel), visited_increasing, no_progress_diverges (the hypothesis cannot be "
             "dropped). Tie: the hypothesis is OBSERVED on the real parser through hook H1 (parse_iter trace must increase "
             "strictly) and crashes / invalid memory accesses / undefined operations are OBSERVED under ASan+UBSan in "
             "parse-only mode on the repository's .cb files, token-level mutants, ~260 synthetic nesting inputs up to 8 KiB, "
             "random bytes, plus full execution of generated pointer-free core programs. Added later: type nesting in every declaration position, wide / self-referential / doubling macros, random directive sequences with unbalanced conditionals, inputs for the lexers not fed by the preprocessor (interpolation segments, imported modules, --no-preprocess), executed long / deep well-formed programs and print statements with odd formats; the parse-loop progress measure is the lexer offset per parser instance.",
        note="Not a proof of memory safety or of the absence of signals: those are runtime facts the model cannot exhibit; "
             "they are checked by sanitizers on the explored inputs only. Termination inside a single parse routine and of the "
             "lexer is bounded by the run's timeout, not by a theorem; the preprocessor's termination is covered by the total "
             "model of C17.",
        technique="Lean 4 proof of the termination argument (progress => bounded iterations) + hook-observed hypothesis + sanitizer runs on mutated corpus (observation, not proof)",
        ref="DESIGN.md §6 C10, §11"),
    "C11": dict(
        text="Lean 4 theorems (CbProps/C11.lean) on the instantiation cache and its key (CbModel/Generic.lean, mirroring "
             "generate_cache_key and the lookup-or-instantiate call site): keyL_injective (two uses get the same key only if "
             "they name the same generic function at the same type-argument tuple, for all names without '<' and all "
             "bracket-balanced type arguments — f<int,long> vs f<long,int>, one argument Pair<int,long> vs two arguments); "
             "cache_transparent (in every history of generic calls each call executes exactly what a fresh instantiation at "
             "its own arguments gives); second_use_hits. Obligations (decide) on tables regenerated from the C++ on every "
             "run: the key format is the modelled one; clone_ast_node copies, and substitute_type_parameters visits, every "
             "child-node field of struct ASTNode (ast.h). Tie (metamorphic): S1 random core programs whose functions are made "
             "generic mechanically vs the original program (= hand-specialised twin) on the implementation, the twin also vs "
             "CbRef; S2 14 generic function templates + generic structs instantiated at random tuples over {tiny, short, int, "
             "long, bool, char, string, struct}, swapped tuples, repeated uses, shuffled orders vs the monomorphised twin; "
             "S3 generic aggregates (interface implemented for a generic struct, generic constructor/destructor, generic enum + "
             "match, generic structs / enums used at the type parameters inside generic functions) vs the hand-specialised twin. "
             "Theorems (CbProps/C11Subst.lean, 11) on CbModel/TypeSubst.lean, the function-by-function model of "
             "substitute_type_string / substitute_generic_type_name / substitute_normalized_generic_type: the type names of an "
             "instantiated body are the generic body's with exactly the type parameters replaced — token-wise on declarators "
             "(whole identifiers only; qualifiers, *, &, dimensions kept; `_N`, `Node_T` kept; `Option_T` -> `Option_int`), at "
             "every depth of Box<Pair<A, B>> trees, for all strings / maps. Tie S4: the C++ function itself (hook H5) vs the "
             "model on random declarators, type trees, damaged names and random strings.",
        note="No theorem states 'generic program = monomorphised program' for a semantics of generic programs (CbRef has no "
             "generics; the statement would be definitional): that part of the property is carried by the metamorphic tie. "
             "The cache is currently disabled in call_impl.cpp (every call instantiates afresh); the theorems show that "
             "enabling it cannot change behaviour as long as the key obligations hold. 3 listed findings (T[N] locals, >> in "
             "generic bodies, statics shared between instantiations). Generic enums/impls only via Option/Result (C13).",
        technique="Lean 4 proof (cache-key injectivity, cache transparency) + translator-regenerated tables with decide obligations + metamorphic correspondence (generic vs hand-specialised twin, twin vs CbRef)",
        ref="DESIGN.md §6 C11, §11"),
    "C14": dict(
        text="Lean 4 theorems (CbProps/C14.lean) on the scheduler machine CbModel/Sched.lean (small-step model of the event "
             "loop with an explicit control stack: nested wait loops of `await`, one pop after every statement of a function "
             "body, per-task statement index and loop iteration): task_output_in_program_order (in EVERY reachable state, "
             "whatever the other tasks and the interleaving, the lines a task has printed are exactly those of the statements "
             "before its current one, each once, in order, plus the completed iterations of the loop it is in), "
             "finished_task_printed_whole_body, finished_is_final, await_in_task/main_delivers_result; and, at full strength on a "
             "specification-level task semantics with continuations (CbModel/SchedSpec.lean, CbProps/C14Spec.lean): for EVERY "
             "schedule (any sequence of task turns, any starvation) and yields placed anywhere in nested blocks / branches / "
             "loops, a task's output followed by what its remaining code prints alone equals what its body prints alone "
             "(any_schedule_preserves_task_meaning). Tie: (A) random programs "
             "of the modelled fragment — stdout (task lines and awaited values) equals the model's; the model is validated "
             "event-by-event against hook H3 by C15; (B) 1-3 tasks with parameters and locals whose structured bodies place "
             "`yield` by 15 features (top level, in for / while / if / else / block, nested loops, same counter name, changing "
             "condition, early return ...): each task's projection of stdout and its awaited result must equal a direct "
             "sequential evaluation of its body (running it alone). Added later: several tasks of the same function, assignments to the task's own parameters, long-typed tasks, tasks calling ordinary functions that contain loops.",
        note="The theorems are about the modelled fragment (suspension at top-level statements and top-level loop iterations, "
             "spawn DAGs, awaits of own children); suite B carries the rest of the quantifier and finds 3 classes of violations "
             "on the pinned tree (listed findings: yield in nested blocks skips the rest of the block, loop state across "
             "suspensions, conditions re-evaluated on resume) plus a 4th found through the model (await gives up while the "
             "awaited task is on the C++ stack). Awaited values are ints.",
        technique="Lean 4 proof (per-task output invariant over all reachable states of a small-step scheduler model) + trace-validated model + differential / metamorphic correspondence on generated task sets",
        ref="DESIGN.md §6 C14, §11.4"),
    "C15": dict(
        text="Lean 4 theorems (CbProps/C15.lean) on the same scheduler machine: reach_inv (every reachable state: ready queue "
             "duplicate-free, only valid unfinished ids, running tasks not queued), deterministic, queue_fifo (a transition "
             "only appends to the back, removes the head, or rotates a blocked head to the back), no_overtaking (b never gets "
             "its turn before an a that is ahead of it), suspended_goes_to_back, awaiting_task_not_scheduled, "
             "wait_ends_when_target_finished (or the queue ran empty), sleep_never_early. Obligation (decide) on the deadline "
             "test and deadline computation regenerated from simple_event_loop.cpp / call_impl.cpp on every run. Tie: hook H3: "
             "the interpreter's scheduler trace, including the queue snapshot at every run_one_cycle, must equal the model's "
             "event list step for step, and stdout the model's output, on an exhaustive family of small task sets and on random "
             "task programs (each run twice: determinism); sleep programs over a grid of durations check elapsed >= ms with "
             "now() and that a worker task keeps running meanwhile.",
        note="run_one_cycle gives ONE task a turn; round robin emerges from the FIFO rotation — which is what the theorems "
             "state. Fairness is proved for the model's queue discipline, not for wall-clock time. Sleep is judged by "
             "inequalities only.",
        technique="Lean 4 proof (invariants and FIFO laws of a small-step scheduler model) + translator-regenerated deadline test with a decide obligation + step-for-step trace correspondence through hook H3",
        ref="DESIGN.md §6 C15, §11.4"),
    "C18": dict(
        text="Lean 4 theorems (CbProps/C18.lean) on a mechanism model of handle_import_statement (CbModel/Imports.lean: set of "
             "loaded module paths + one global table, importing an unloaded module registers exactly its exported items, later "
             "registrations overwrite): import_exact (after an import a name resolves to the module's export of that name if it "
             "has one, else to what it resolved to before), hidden_not_visible, import_idempotent, lookup_after_imports (after "
             "ANY import list from the initial state a name resolves to b iff an imported module exports it as b), "
             "imports_order_and_repetition_irrelevant. Tie: generated module sets (<= 5 modules in nested directories, "
             "functions with statics, constants, struct+interface+impl, enums, typedefs, each exported or hidden; chains and "
             "diamonds): the program using every item the model says is visible must print what the single-file inlined "
             "program prints, for 3 orders / duplications of the import list; every item the model says is invisible must be "
             "rejected. Added later: qualified calls m.f, self-imports and import cycles, exported global variables, selective imports and a re-import after the module's state changed; theorem import_never_hides (imports only add).",
        note="Names are unique across modules (DisjointExports hypothesis). Selective imports and aliases are not generated. "
             "Listed finding: a module's own imports are not processed (transitive imports).",
        technique="Lean 4 proof (mechanism model of the import table) + differential correspondence on generated module graphs (model decides visibility, the inlined single-file program is the output oracle)",
        ref="DESIGN.md §6 C18, §11"),
    "C13": dict(
        text="Lean 4 theorems (CbProps/C13.lean) on the decision logic (CbModel/EnumM.lean): match selects arm i iff pattern i "
             "applies and no earlier one does; no applicable arm = no arm selected (error); a wildcard makes the match total; "
             "the binding is the scrutinee's payload; `?` chains: the result is the first Err and exactly the markers before it "
             "were printed; nests of depth d: the outermost failing level's Err with NO marker, else Ok(base + addends) and all "
             "markers innermost first; try/checked = Ok(v) iff the operand evaluates to v. Obligation (decide +kernel) on the "
             "classifier rules regenerated from classify_runtime_error on every run: the messages of the /, %, index and "
             "dereference sites map to DivisionByZeroError / IndexOutOfBoundsError / NullPointerError. Tie: generated programs: "
             "enum shapes x arm lists (exhaustive for 3 variants, <= 3 arms) x 9 transport modes x boundary payloads; ? chains "
             "and nests to depth 5 with the failing link at every position; random core expressions under try/checked with "
             "CbRef deciding value or error class. Added later: unit-only and explicit-valued C-style enums, arms left by break / continue / return, enum-valued payloads with bindings that shadow a variable in scope.",
        note="Enum value transport is modelled as the identity (payload_preserved is definitional); the tie carries that "
             "part. Payload types int/long/string only. 8 listed findings on the pinned tree (long payload beyond int, empty "
             "string payload, constructor assignment ignored, unit variants lost, constructor argument rejected, string lost "
             "via return-initialiser, try as initialiser, binding scope).",
        technique="Lean 4 proof (decision-logic laws) + translator-regenerated classifier table with a kernel-decided obligation + differential correspondence on generated programs",
        ref="DESIGN.md §6 C13"),
}

PENDING = {}
for i in range(1, 21):
    pid = "C%02d" % i
    if pid not in CHECKS:
        PENDING[pid] = "check not built yet in this revision of /verif (planned, see DESIGN.md §6); no claim is made"

# suites added in rounds 4b-5b (each after a seeded change the previous version missed); appended to the texts above
LATER = {
    "C01": "suites switch (if / else-if chains rewritten into switch statements in the rendered text) and incdec-values (pre / post ++ / -- on nine kinds of lvalue in nine value contexts, exhaustive).",
    "C02": "suites operator-pairs-compact / random-trees-compact: the rendered programs with every optional space removed (same token sequence).",
    "C03": "raw suite array-literals (effectful elements of array literals in declarations, assignments, member arrays, 2-D, loops).",
    "C04": "raw suites indirect-stores / indirect-steps (stores and ++ / -- / += through pointers, references, self, ->, struct-array members at every boundary), const-parameters (incl. constructor parameters) and initialisers (several declarators, array literals, struct literals).",
    "C05": "suite (c) access forms: &m[i][j] for every tuple around the dimensions (local / global / parameter, 3-D), arrays of structs, reads of 2-D string arrays; element paths long / short.",
    "C06": "a third rendering in which callees return a string and are called through function-pointer variables.",
    "C07": "suite struct-array-members (a struct with a struct-array member: element stores, whole copies by initialisation / assignment / result / by-value parameter, with and without reads between store and copy).",
    "C08": "raw suites default-expressions, method-statics (static locals of methods of different impls / a plain function of the same name) and struct-parameters (by-value struct parameters with nested members named like the caller's variable, recursion).",
    "C09": "raw suite const-structs (initialisation form x location x store route: member stores, methods writing through self, pointers to members / to the struct, pointer-to-const receivers, pointer-to-const members, whole-struct stores over const members).",
    "C10": "executed families exec-error-path-* (every kind of run-time error a pointer-free program can raise), wide-struct-diamond-exec and exec-addresslike, under ASan+UBSan.",
    "C11": "aggregates narrow (return expressions leaving the range of T at a narrow instantiation) and implstatic (statics in methods of a generic impl).",
    "C12": "impl blocks rendered with void and value-returning self-calls before the impl static is used, a by-value interface parameter named like the caller's variable, and five fixed programs with primitive receivers (impl I for int).",
    "C13": "travel modes gfn_explicit / gfn_inferred: the match stands inside a generic function.",
    "C14": "suite C many-tasks: int / long / string / struct results awaited late and repeatedly after up to 300 further tasks, a task awaiting its long-finished child.",
    "C15": "a third of the task loops end every iteration through continue; suite run-event-loop (tasks driven by run_event_loop(): every task's lines exactly once and in order, await after the child's end, all tasks finished, determinism) with CbProps/C15RunLoop.lean (the driver loop is round robin on tasks that neither spawn nor block) and a translator obligation on the loop body of SimpleEventLoop::run().",
    "C16": "raw suite nested-interpolation ({expr} segments calling functions that themselves interpolate, recursion, struct members).",
    "C17": "suite line-endings (CRLF files, stray \\r / \\v / \\f and blanks around directives).",
    "C18": "negatives through the qualified form (m2.f for a function of another imported module or of the importing file).",
    "C19": "vector histories over the whole int range and with Vector<long>, the operation sort(), and eight fixed programs at other element types (string, double, long in queues, string keys / values in maps).",
    "C20": "arguments with effects (evaluated exactly once; qualified and unqualified calls), double results used as operands, int arguments to double parameters.",
}


def main():
    checks = []
    for pid in sorted(CHECKS):
        c = dict(CHECKS[pid])
        if pid in LATER:
            c["text"] = c["text"].rstrip() + " Added in the last rounds: " + LATER[pid]
        checks.append({
            "property_id": pid,
            "quick_cmd": "python3 tools/check.py %s --tier quick" % pid,
            "thorough_cmd": "python3 tools/check.py %s --tier thorough" % pid,
            "evidence_file": "evidence/%s.json" % pid,
            "replay_cmd_template": "python3 tools/check.py %s --replay {path}" % pid,
            "engine": "lean4+correspondence",
            "level_claimed": {"category": c.get("category", "proof"), "text": c["text"], "design_ref": c["ref"]},
            "level_note": c["note"],
            "technique": c["technique"],
        })
    m = {
        "version": 1,
        "setup_cmd": "python3 tools/setup.py",
        "hooks": {
            "guard": "CB_VERIF",
            "enable": "out-of-tree build of the working tree with CFLAGS containing -DCB_VERIF (tools/common.py build_impl/build_harness)",
            "baseline_off_cmd": "bash tools/baseline_off.sh",
            "source_commits": json.load(open(os.path.join(ROOT, "hooks.json")))["source_commits"] if os.path.exists(os.path.join(ROOT, "hooks.json")) else [],
            "add_only": True,
        },
        "engines": [{"name": "lean4+correspondence", "path": "lean/ tools/ harness/",
                     "serves_properties": sorted(CHECKS),
                     "kind_free_text": "Lean 4 models + theorems (lake project lean/), tied to /repo by translators that "
                                       "regenerate Lean tables from the C++ source and by differential correspondence "
                                       "(cbdriver vs in-process harness / the interpreter built from the working tree)"}],
        "checks": checks,
        "not_applicable": [{"property_id": p, "reason": r} for p, r in sorted(PENDING.items())],
        "notes": "All checks rebuild from /repo's working tree in a private scratch dir under /var/tmp, removed at exit. "
                 "Known findings: known_findings.json. Seeded mutants: seeded/.",
    }
    json.dump(m, open(os.path.join(ROOT, "MANIFEST.json"), "w"), indent=1, ensure_ascii=False)
    print("MANIFEST.json: %d checks, %d not claimed" % (len(checks), len(PENDING)))

if __name__ == "__main__":
    main()
