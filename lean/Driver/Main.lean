import Driver.Proto
import Driver.C17
import Driver.C05
import Driver.Ref
import Driver.C19
import Driver.C06
import Driver.C12
import Driver.C13
import Driver.C07
import Driver.C18
import Driver.Sched
import Driver.C11
import Driver.Fixed

open Driver

def main (args : List String) : IO UInt32 := do
  let stdin ← IO.getStdin
  let stdout ← IO.getStdout
  match args with
  | ["c17"] =>
    forLines stdin fun l => stdout.putStrLn (c17Line (fields l))
    return 0
  | ["c05"] =>
    forLines stdin fun l => stdout.putStrLn (c05Line (fields l))
    return 0
  | ["c05seq"] =>
    forLines stdin fun l => stdout.putStrLn (c05Seq (fields l))
    return 0
  | ["ref"] =>
    forLines stdin fun l => stdout.putStrLn (refLine (fields l))
    return 0
  | ["c19map"] =>
    forLines stdin fun l => stdout.putStrLn (c19Map (fields l))
    return 0
  | ["c19vec"] =>
    forLines stdin fun l => stdout.putStrLn (c19Vec (fields l))
    return 0
  | ["c19queue"] =>
    forLines stdin fun l => stdout.putStrLn (c19Queue (fields l))
    return 0
  | ["c06"] =>
    forLines stdin fun l => stdout.putStrLn (c06Line (fields l))
    return 0
  | ["c12"] =>
    forLines stdin fun l => stdout.putStrLn (c12Line (fields l))
    return 0
  | ["c07"] =>
    forLines stdin fun l => stdout.putStrLn (c07Line (fields l))
    return 0
  | ["sched"] =>
    forLines stdin fun l => stdout.putStrLn (schedLine (fields l))
    return 0
  | ["schedinv"] =>
    forLines stdin fun l => stdout.putStrLn (schedInvLine (fields l))
    return 0
  | ["c18"] =>
    forLines stdin fun l => stdout.putStrLn (c18Line (fields l))
    return 0
  | ["c11subst"] =>
    forLines stdin fun l => stdout.putStrLn (c11SubstLine (fields l))
    return 0
  | ["c16fixed"] =>
    forLines stdin fun l => stdout.putStrLn (c16FixedLine (fields l))
    return 0
  | ["c13"] =>
    forLines stdin fun l => stdout.putStrLn (c13Line (fields l))
    return 0
  | _ =>
    IO.eprintln "usage: cbdriver <cmd>"
    return 2
