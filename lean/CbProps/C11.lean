/-
  C11 — instantiations are independent and the n-th use behaves like the first.
  Property theorems over the cache model (CbModel/Generic.lean).  Statements are fixed; proofs only.
-/
import CbModel.Generic
import CbProofs.Generic
namespace CbProps.C11
open CbModel.Generic

/-- **Keys are injective**: two uses get the same cache key only if they name the same generic function at the
    same type-argument tuple (f<int,long> vs f<long,int>, f<int> vs g<int>, Pair<int,long> as ONE argument vs
    int and long as TWO arguments, no arguments vs ... are all told apart) -/
theorem keyL_injective (n1 n2 : Str) (as1 as2 : List Str)
    (h1 : WFName n1) (h2 : WFName n2) (ha1 : ∀ a ∈ as1, WFArg a) (ha2 : ∀ a ∈ as2, WFArg a)
    (h : keyL n1 as1 = keyL n2 as2) : n1 = n2 ∧ as1 = as2 := by
  exact CbProofs.Generic.keyL_inj n1 n2 as1 as2 h1 h2 ha1 ha2 h

/-- the well-formedness side conditions cannot be dropped: without them two different uses collide -/
example : keyL "f".toList ["int".toList, "long".toList] = keyL "f".toList ["int,long".toList] := by
  decide

/-- **The cache is transparent**: in every history of (well-formed) generic calls starting from the empty cache,
    every call executes exactly the code a fresh instantiation at its own name and type arguments would give —
    whatever was instantiated before, in whatever order, and however often the same instantiation was used -/
theorem cache_transparent {Code : Type} (inst : Str → List Str → Code) (h : List (Str × List Str))
    (hwf : ∀ u ∈ h, WFName u.1 ∧ ∀ a ∈ u.2, WFArg a) :
    run inst [] h = h.map (fun u => inst u.1 u.2) := by
  exact CbProofs.Generic.run_transparent inst h [] hwf (CbProofs.Generic.inv_nil inst)

/-- the n-th use of an instantiation returns the same code as the first, and the cache is not changed by it -/
theorem second_use_hits {Code : Type} (inst : Str → List Str → Code) (c : Cache Code) (n : Str) (as : List Str) :
    use inst (use inst c n as).1 n as = ((use inst c n as).1, (use inst c n as).2) := by
  exact CbProofs.Generic.use_twice inst c n as

/-- non-vacuity of the hypotheses -/
example : WFName "swap".toList ∧ WFArg "Pair<int,long>".toList ∧ WFArg "int".toList := by
  unfold WFName WFArg; decide

end CbProps.C11
