"""C12 — interface calls dispatch on the receiver's actual type with self bound to it.

Theorems: lean/CbProps/C12.lean (laws of the object model CbModel/Iface.lean).
Tie: generated programs with up to 3 interfaces x up to 4 struct types; every impl's three methods are fixed by
four constants; random sequences of assignments (copy a concrete object into an interface variable), observer /
mutator / static-counter calls through interface variables, by-value interface parameters, direct field
reads/writes.  cbdriver c12 predicts the printed values; the interpreter must print the same.
"""
import json, os
import common
from common import Rng, esc

PID = "C12"
THEOREMS = {"CbProps.C12": ["CbProps.C12." + t for t in [
    "dispatch_selects_dynamic_type", "self_writes_visible", "reassign_changes_dispatch", "no_impl_rejected",
    "impl_statics_per_pair", "observers_change_nothing", "mutRet_is_mut_then_obs"]]}


def gen_case(r, allow_reject):
    ni, nt = r.range(1, 3), r.range(1, 4)
    impls = {}
    for i in range(ni):
        for j in range(nt):
            if r.chance(75):
                impls[(i, j)] = (r.range(1, 5), r.range(-9, 9), r.range(1, 4), r.range(1, 6))
    if not impls:
        impls[(0, 0)] = (2, 1, 1, 1)
    conc = [(r.below(nt), r.range(-20, 20)) for _ in range(r.range(1, 4))]
    ifv = [r.below(ni) for _ in range(r.range(1, 3))]
    assigned = {}
    ops = []
    for _ in range(r.range(6, 30)):
        k = r.below(100)
        p = r.below(len(ifv))
        if k < 22 or p not in assigned:
            c = r.below(len(conc))
            ok = (ifv[p], conc[c][0]) in impls
            if not ok and not (allow_reject and r.chance(10)):
                cands = [x for x in range(len(conc)) if (ifv[p], conc[x][0]) in impls]
                if not cands:
                    continue
                c = r.choice(cands)
                ok = True
            ops.append("A %d %d" % (p, c))
            if not ok:
                break           # rejected: the program ends here
            assigned[p] = conc[c][0]
        elif k < 45:
            ops.append("O %d" % p)
        elif k < 55:
            ops.append("M %d %d" % (p, r.range(-3, 5)))
        elif k < 62:
            ops.append("B %d %d" % (p, r.range(-3, 5)))
        elif k < 76:
            ops.append("S %d" % p)
        elif k < 84:
            ops.append("R %d" % r.below(len(conc)))
        elif k < 92:
            ops.append("W %d %d" % (r.below(len(conc)), r.range(-20, 20)))
        else:
            ops.append("F %d" % p)
    return impls, conc, ifv, ops, ni, nt


def model_line(case):
    impls, conc, ifv, ops, ni, nt = case
    return "\t".join([esc(";".join("%d %d %d %d %d %d" % (i, j, a, b, c, d) for (i, j), (a, b, c, d) in sorted(impls.items()))),
                      esc(";".join("%d %d" % cv for cv in conc)), esc(" ".join(map(str, ifv))), esc(";".join(ops))])


def impl_style(i, j, a, b, c, d):
    """rendering of an impl block: 0 plain, 1 m2 / m3 through void / observer self-calls, 2 m3 through a value-returning self-call"""
    return (a + b + c + d + i + j) % 3


def render(case):
    impls, conc, ifv, ops, ni, nt = case
    L = []
    for i in range(ni):
        L.append("interface I%d { int m0_%d(); void m1_%d(int k); int m2_%d(); int m3_%d(int k); int m4_%d(int k); }" % (i, i, i, i, i, i))
    for j in range(nt):
        L.append("struct T%d { int v; };" % j)
    for (i, j), (a, b, c, d) in sorted(impls.items()):
        L.append("impl I%d for T%d {" % (i, j))
        L.append("    static int s = 0;")
        L.append("    int m0_%d() { return self.v * %d + %d; }" % (i, a, b))
        L.append("    void m1_%d(int k) { self.v = self.v + k * %d; }" % (i, c))
        L.append("    int m4_%d(int k) { self.v = self.v + k * %d; return self.v * %d + %d; }" % (i, c, a, b))
        if impl_style(i, j, a, b, c, d) == 0:
            L.append("    int m2_%d() { s = s + %d; return s; }" % (i, d))
            L.append("    int m3_%d(int k) { self.v = self.v + k * %d; return self.v * %d + %d; }" % (i, c, a, b))
        elif impl_style(i, j, a, b, c, d) == 2:
            # a VALUE-RETURNING method of the receiver called on self: its member writes must stay in the receiver
            L.append("    int m2_%d() { s = s + %d; return s; }" % (i, d))
            L.append("    int m3_%d(int k) { int t = self.m4_%d(k); return self.m0_%d() + t - t; }" % (i, i, i))
        else:
            # the same meaning, written with calls of the receiver's own methods (self.m()) before the impl static is used
            L.append("    int m2_%d() { int t = self.m0_%d(); s = s + %d; self.m1_%d(0); return s + t - self.m0_%d(); }" % (i, i, d, i, i))
            L.append("    int m3_%d(int k) { self.m1_%d(k); return self.m0_%d(); }" % (i, i, i))
        L.append("}")
    for i in range(ni):
        # the by-value interface parameter is named like one of main's interface variables (p0 / p1): it is a fresh copy
        # nevertheless
        pn = "p%d" % (i % 2)
        L.append("void obs%d(I%d %s) { %s.m1_%d(1); println(%s.m0_%d()); }" % (i, i, pn, pn, i, pn, i))
    L.append("int main() {")
    for n, (j, v) in enumerate(conc):
        L.append("    T%d c%d; c%d.v = %d;" % (j, n, n, v))
    declared = set()
    # every call goes either through the interface variable or through a pointer to it (decided per operation by a
    # hash of its position: rendering only, the model treats both as the same receiver)
    def recv(p, n):
        return ("q%s->" % p) if (n * 7 + int(p)) % 3 == 0 else ("p%s." % p)
    for n_op, op in enumerate(ops):
        f = op.split(" ")
        if f[0] == "A":
            p, c = int(f[1]), int(f[2])
            if p in declared:
                L.append("    p%d = c%d;" % (p, c))
            else:
                L.append("    I%d p%d = c%d;" % (ifv[p], p, c))
                L.append("    I%d* q%d = &p%d;" % (ifv[p], p, p))
                declared.add(p)
        elif f[0] == "O":
            L.append("    println(%sm0_%d());" % (recv(f[1], n_op), ifv[int(f[1])]))
        elif f[0] == "M":
            L.append("    %sm1_%d(%s);" % (recv(f[1], n_op), ifv[int(f[1])], f[2]))
        elif f[0] == "S":
            L.append("    println(%sm2_%d());" % (recv(f[1], n_op), ifv[int(f[1])]))
        elif f[0] == "B":
            L.append("    println(%sm3_%d(%s));" % (recv(f[1], n_op), ifv[int(f[1])], f[2]))
        elif f[0] == "R":
            L.append("    println(c%s.v);" % f[1])
        elif f[0] == "W":
            L.append("    c%s.v = %s;" % (f[1], f[2]))
        elif f[0] == "F":
            L.append("    obs%d(p%s);" % (ifv[int(f[1])], f[1]))
    L += ["    println(\"END\");", "    return 0;", "}"]
    return "\n".join(L) + "\n"


PRIM_FID = "primitive_receiver_statics_and_self"
SELF_FID = "value_returning_self_call_loses_writes"


def primitive_cases():
    """receivers of a primitive type (impl I for int): fixed programs, expected output stated from the property"""
    hdr = ("interface Counter { int bump(); int peek(); int add(int k); };\n"
           "impl Counter for int {\n    static int total = 0;\n    int bump() { total = total + 1; return total; }\n"
           "    int peek() { return self; }\n    int add(int k) { total = total + self + k; return total; }\n};\n")
    st = ("struct Box { int v; };\nimpl Counter for Box {\n    static int total = 100;\n    int bump() { total = total + 1; return total; }\n"
          "    int peek() { return self.v; }\n    int add(int k) { total = total + self.v + k; return total; }\n};\n")
    cases = []

    def add(cid, pre, body, out):
        cases.append({"id": cid, "program": pre + "int main() {\n" + body + "    println(\"END\");\n    return 0;\n}\n",
                      "expect_stdout": "".join("%s\n" % x for x in out) + "END\n"})
    add("var", hdr, "    int x = 5;\n    Counter c = x;\n    println(c.peek());\n    println(c.bump());\n    println(c.bump());\n", [5, 1, 2])
    add("literal", hdr, "    Counter c = 5;\n    println(c.peek());\n    println(c.add(2));\n    println(c.add(0));\n", [5, 7, 12])
    add("two-vars-share", hdr, "    Counter c = 5;\n    Counter d = 7;\n    println(c.bump());\n    println(d.bump());\n    println(c.add(1));\n    println(d.peek());\n", [1, 2, 8, 7])
    add("param", hdr + "int feed(Counter p) { return p.bump() * 10 + p.peek(); }\n",
        "    Counter c = 4;\n    println(feed(c));\n    println(feed(c));\n    println(c.bump());\n", [14, 24, 3])
    add("struct-and-int", hdr + st, "    Box b;\n    b.v = 3;\n    Counter c = 5;\n    Counter d = b;\n    println(c.bump());\n    println(d.bump());\n"
        "    println(c.add(1));\n    println(d.add(1));\n    println(c.peek());\n    println(d.peek());\n", [1, 101, 7, 105, 5, 3])
    return cases


def main(a):
    v = common.Verdict(PID, a.tier, a.seed)
    driver_ok, failed = common.lean_obligations(v, ["CbProps.C12"], THEOREMS)
    exe, blog = common.build_impl()
    if exe is None or not driver_ok:
        v.violation("cannot build the interpreter / driver: " + (blog or "")[-600:], {"log": (blog or "")[-2000:]}, no_input=True)
        return v.finish()
    quick = a.tier == "quick"
    r = Rng(a.seed, 121)
    if a.replay:
        cases = [tuple(json.load(open(a.replay))["case"])]
        cases = [(dict((tuple(k), tuple(val)) for k, val in c[0]), [tuple(x) for x in c[1]], c[2], c[3], c[4], c[5]) for c in cases]
    else:
        cases = [gen_case(r, True) for _ in range(300 if quick else 100000)]
    _, mo, _ = common.run_lines_parallel([common.driver_path(), "c12"], [model_line(c) for c in cases])
    progs = [render(c) for c in cases]
    outs = common.run_programs(exe, progs, timeout=10)
    rep = 0
    nontrivial = set()
    samples = []
    nrej = 0
    listed0 = {f["id"]: f for f in common.load_findings(PID)}
    selfknown = 0
    for k, (c, m, o) in enumerate(zip(cases, mo, outs)):
        vals, st = m.rsplit("|", 1)
        exp_lines = [x for x in vals.split(" ") if x]
        if st == "ok":
            exp, cls = "".join(x + "\n" for x in exp_lines) + "END\n", "ok"
        else:
            exp, cls = "".join(x + "\n" for x in exp_lines), "error"
            nrej += 1
        if len(c[0]) > 1:
            nontrivial.add(m)
        if k % 41 == 0 and len(samples) < 5:
            samples.append({"ops": c[3][:10], "impls": len(c[0]), "expected": exp[-80:]})
        if o[0] != exp or o[1] != cls:
            if SELF_FID in listed0 and o[1] == cls and any(impl_style(i, j, *t) == 2 for (i, j), t in c[0].items()) \
                    and any(x.startswith("B ") for x in c[3]):
                selfknown += 1
                continue
            if rep >= 3:
                continue
            rep += 1
            v.violation("interface program: expected %r (%s) got %r (%s)" % (exp[-100:], cls, o[0][-100:], o[1]),
                        {"case": [sorted([list(k2), list(v2)] for k2, v2 in c[0].items()), c[1], c[2], c[3], c[4], c[5]],
                         "program": progs[k], "expected_stdout": exp, "expected_class": cls, "impl_stdout": o[0],
                         "impl_exit_class": o[1], "impl_stderr": o[2]})
    if selfknown:
        v.known_finding(listed0[SELF_FID]["what"] + " [%d generated programs]" % selfknown)
    # receivers of a primitive type
    findings = common.load_findings(PID)
    listed = {f["id"]: f for f in findings}
    pc = primitive_cases()
    po = common.run_programs(exe, [c["program"] for c in pc], timeout=10)
    pknown = 0
    for c, o in zip(pc, po):
        if o[0] == c["expect_stdout"] and o[1] == "ok":
            continue
        if PRIM_FID in listed:
            pknown += 1
            continue
        v.violation("primitive receiver case %s: expected %r got %r (%s)" % (c["id"], c["expect_stdout"], o[0][-100:], o[1]),
                    {"case_id": c["id"], "program": c["program"], "expected_stdout": c["expect_stdout"], "expected_class": "ok",
                     "impl_stdout": o[0], "impl_exit_class": o[1], "impl_stderr": o[2]})
    if pknown:
        v.known_finding(listed[PRIM_FID]["what"] + " [%d of %d fixed programs]" % (pknown, len(pc)))
    v.coverage.update({"primitive_receiver_programs": len(pc)})
    v.coverage.update({"evaluations": len(cases) + len(pc), "distinct_nontrivial": len(nontrivial),
                       "rule": "random programs over <= 3 interfaces x <= 4 struct types each interface's methods m0_i/m1_i/m2_i implemented by several types (a type may not implement two interfaces with a common method name); "
                               "sequences of 6..30 operations (assign concrete object to interface variable, observer, mutator "
                               "through self, impl-static counter, field read/write, by-value interface parameter); ~10% of "
                               "cases end with an assignment of a type that has no impl (must be rejected). non-trivial = "
                               "distinct expected output of a case with >= 2 impls",
                       "samples": samples, "rejected_assignment_cases": nrej, "exhaustive": False})
    v.assumptions += ["methods are called through interface variables, pointers to interface variables and by-value interface "
                      "parameters (direct calls on the concrete object are not generated)",
                      "half of the impl blocks are rendered with m2 / m3 written through calls of the receiver's own methods "
                      "(self.m0(), self.m1(k)); the model gives both renderings the same meaning"]
    return v.finish()
