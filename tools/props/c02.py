"""C02 — operator precedence and associativity follow the specification table; redundant
parentheses never change a program's result.

Theorems: lean/CbProps/C02.lean — for every well-formed ladder table, every token string that denotes a
tree (with redundant parentheses anywhere) parses to that tree (parse_printMin, parse_printFull,
paren_invariance).  Obligations (lean/CbOblig/C02.lean, `decide`): the ladder regenerated from
expression_parser.cpp equals the specification's table and is well formed.
Tie: translator (tools/translate/ladder.py) + end-to-end: every expression tree over all ordered operator
pairs (triples in the thorough tier) printed with minimal, full and random redundant parentheses must
evaluate to the reference value.
"""
import itertools
import common
from common import Rng
from props.refprops import RefCheck
from props.c01 import BIN

PID = "C02"
THEOREMS = {
    "CbOblig.C02": ["CbOblig.C02.ladder_is_spec", "CbOblig.C02.ladder_wf", "CbOblig.C02.assign_ops_are_spec", "CbOblig.C02.assign_ops_awf"],
    "CbProps.C02Assign": ["CbProps.C02Assign." + t for t in [
        "parseAssign_of_derives", "parseAssign_fuel_independent", "parseAssign_printAssign", "assign_paren_invariance",
        "assign_takes_whole_rhs", "assign_right_assoc", "non_target_rejected", "awf_of_check", "specAssign_awf"]],
    "CbProps.C02": ["CbProps.C02." + t for t in ["parse_printMin", "parse_printFull", "paren_invariance",
                                                  "min_eq_full", "specTable_wf", "wf_of_check"]]}

OPERANDS = [(7, 3, 2), (1, 0, 5), (-4, 6, 3), (2, 2, 2), (0, 1, 1), (5, -3, 4), (12, 5, 1)]


def lit(n):
    return "(lit %d)" % n


def full(e):
    """wrap every operand in explicit parentheses"""
    if e[0] in ("lit", "var"):
        return e
    if e[0] == "bin":
        return ("bin", e[1], ("paren", full(e[2])), ("paren", full(e[3])))
    if e[0] == "un":
        return ("un", e[1], ("paren", full(e[2])))
    if e[0] == "tern":
        return ("tern", ("paren", full(e[1])), ("paren", full(e[2])), ("paren", full(e[3])))
    return e


def rnd_paren(e, r):
    if e[0] in ("lit", "var"):
        out = e
    elif e[0] == "bin":
        out = ("bin", e[1], rnd_paren(e[2], r), rnd_paren(e[3], r))
    elif e[0] == "un":
        out = ("un", e[1], rnd_paren(e[2], r))
    else:
        out = ("tern", rnd_paren(e[1], r), rnd_paren(e[2], r), rnd_paren(e[3], r))
    while r.chance(30):
        out = ("paren", out)
    return out


def sx(e):
    if e[0] == "lit":
        return lit(e[1])
    if e[0] == "var":
        return "(var %s)" % e[1]
    if e[0] == "paren":
        return "(paren %s)" % sx(e[1])
    if e[0] == "bin":
        return "(bin %s %s %s)" % (e[1], sx(e[2]), sx(e[3]))
    if e[0] == "un":
        return "(un %s %s)" % (e[1], sx(e[2]))
    return "(tern %s %s %s)" % (sx(e[1]), sx(e[2]), sx(e[3]))


def safe(op, rhs_val_hint):
    return True


def shapes2(o1, o2, a, b, c):
    A, B, C = ("lit", a), ("lit", b), ("lit", c)
    yield ("bin", o2, ("bin", o1, A, B), C)
    yield ("bin", o1, A, ("bin", o2, B, C))


def shapes3(o1, o2, o3, a, b, c, d):
    A, B, C, D = ("lit", a), ("lit", b), ("lit", c), ("lit", d)
    yield ("bin", o3, ("bin", o2, ("bin", o1, A, B), C), D)
    yield ("bin", o3, ("bin", o1, A, ("bin", o2, B, C)), D)
    yield ("bin", o2, ("bin", o1, A, B), ("bin", o3, C, D))
    yield ("bin", o1, A, ("bin", o3, ("bin", o2, B, C), D))
    yield ("bin", o1, A, ("bin", o2, B, ("bin", o3, C, D)))


VAR_NAMES = ["N", "LIMIT", "MAX_SIZE", "Count", "k", "idx", "T", "Box", "Vec", "x1", "Int", "Value", "M", "node", "Size", "B"]


def with_variables(trees, seed):
    """the same trees with every literal operand replaced by a variable holding that value; the names are those a program would
    use: lower case, Capitalised, ALL_CAPS, one-letter and type-like names (an operand in redundant parentheses must never
    be taken for a cast or for the start of a generic type)"""
    r = Rng(seed, 207)
    decls, names = [], {}

    def conv(e):
        if e[0] == "lit":
            key = e[1]
            if key not in names:
                if len(names) >= len(VAR_NAMES):
                    return e
                names[key] = VAR_NAMES[(len(names) * 7 + r.below(3)) % len(VAR_NAMES)]
                while list(names.values()).count(names[key]) > 1:
                    names[key] = VAR_NAMES[r.below(len(VAR_NAMES))]
                decls.append("(decl - long %s %s)" % (names[key], lit(key)))
            return ("var", names[key])
        return (e[0],) + tuple(conv(x) if isinstance(x, tuple) else x for x in e[1:])
    out = [conv(t) for t in trees]
    return decls, out


def program(trees, seed, variables=False):
    r = Rng(seed, 202)
    body = []
    if variables:
        decls, trees = with_variables(trees, seed)
        body += decls
    for k, e in enumerate(trees):
        body.append("(print (s \"%d\") (e %s) (e %s) (e %s))" % (k, sx(e), sx(full(e)), sx(rnd_paren(e, r))))
    return "(prog (structs) (globals) (funcs (func main int (params) (%s (print (s \"END\")) (ret (lit 0))))))" % " ".join(body)


def fix_operands(trees):
    """avoid division by zero and over-long shifts: the suites are about grouping, not about errors"""
    def ok(e):
        if e[0] == "bin":
            if e[1] in ("div", "mod", "shl", "shr"):
                # the right operand must be a small positive literal
                rhs = e[3]
                while rhs[0] == "paren":
                    rhs = rhs[1]
                if rhs[0] != "lit" or not (1 <= rhs[1] <= 7):
                    return False
            return ok(e[2]) and ok(e[3])
        if e[0] == "un":
            return ok(e[1] if False else e[2])
        if e[0] == "tern":
            return ok(e[1]) and ok(e[2]) and ok(e[3])
        return True
    return [t for t in trees if ok(t)]


def pair_suite(seed):
    for o1 in BIN:
        for o2 in BIN:
            trees = []
            for (a, b, c) in OPERANDS:
                trees += list(shapes2(o1, o2, a, b, c))
                # unary and ternary nestings around the pair
                A, B, C = ("lit", a), ("lit", b), ("lit", c)
                trees.append(("bin", o1, ("un", "neg", A), ("un", "not", B)))
                trees.append(("un", "neg", ("bin", o1, A, B)))
                trees.append(("un", "bnot", ("bin", o2, B, C)))
                trees.append(("tern", ("bin", o1, A, B), ("bin", o2, B, C), ("bin", o1, C, A)))
                trees.append(("bin", o1, A, ("tern", B, C, A)))
                trees.append(("tern", A, ("tern", B, C, A), ("tern", C, A, B)))
            trees = fix_operands(trees)
            if trees:
                yield program(trees, seed)
                yield program(trees, seed, variables=True)


def triple_suite(seed, ops):
    for o1 in ops:
        for o2 in ops:
            trees = []
            for o3 in ops:
                for (a, b, c) in OPERANDS[:3]:
                    trees += list(shapes3(o1, o2, o3, a, b, c, a + 1))
            trees = fix_operands(trees)
            for k in range(0, len(trees), 60):
                yield program(trees[k:k + 60], seed)


def random_suite(seed, n):
    r = Rng(seed, 203)

    def gen(d):
        if d <= 0 or r.chance(25):
            return ("lit", r.range(-6, 9))
        k = r.below(10)
        if k < 7:
            op = r.choice(BIN)
            rhs = ("lit", r.range(1, 7)) if op in ("div", "mod", "shl", "shr") else gen(d - 1)
            return ("bin", op, gen(d - 1), rhs)
        if k < 8:
            return ("un", r.choice(["neg", "not", "bnot"]), gen(d - 1))
        return ("tern", gen(d - 1), gen(d - 1), gen(d - 1))
    for _ in range(n):
        ts = [gen(r.range(2, 5)) for _ in range(12)]
        yield program(ts, seed)
        yield program(ts, seed, variables=True)


CB_OP = {"add": "+", "sub": "-", "mul": "*", "div": "/", "mod": "%", "shl": "<<", "shr": ">>", "band": "&", "bor": "|", "bxor": "^",
         "lt": "<", "le": "<=", "gt": ">", "ge": ">=", "eq": "==", "ne": "!=", "land": "&&", "lor": "||"}


def py_bin(op, x, y):
    f = {"add": lambda: x + y, "sub": lambda: x - y, "mul": lambda: x * y, "div": lambda: int(x / y), "mod": lambda: x - y * int(x / y),
         "shl": lambda: x << y, "shr": lambda: x >> y, "band": lambda: x & y, "bor": lambda: x | y, "bxor": lambda: x ^ y,
         "lt": lambda: int(x < y), "le": lambda: int(x <= y), "gt": lambda: int(x > y), "ge": lambda: int(x >= y),
         "eq": lambda: int(x == y), "ne": lambda: int(x != y), "land": lambda: int(bool(x) and bool(y)), "lor": lambda: int(bool(x) or bool(y))}
    return f[op]()


def assignment_cases():
    """assignment is the lowest level of the table and groups to the right; the expected values are computed here (the ladder
    model stops at ?:)"""
    cases = []

    def c(cid, body, out):
        cases.append({"id": cid, "program": "int main() {\n    int a = 100;\n    int b = 200;\n    int c = 300;\n    int t = 1;\n" + body +
                      "    println(\"END\");\n    return 0;\n}\n", "expect_class": "ok", "expect_stdout": out + "END\n"})
    for op in BIN:
        for (x, y) in [(7, 3), (5, 2), (12, 5)]:
            v = py_bin(op, x, y)
            o = CB_OP[op]
            # a = b = x op y  must be  a = (b = (x op y))
            c("chain-%s-%d" % (op, x), "    a = b = %d %s %d;\n    println(a, b);\n" % (x, o, y), "%d %d\n" % (v, v))
            c("chain-paren-%s-%d" % (op, x), "    a = (b = (%d %s %d));\n    println(a, b);\n" % (x, o, y), "%d %d\n" % (v, v))
            c("compound-chain-%s-%d" % (op, x), "    a = 10;\n    a += b = %d %s %d;\n    println(a, b);\n" % (x, o, y), "%d %d\n" % (10 + v, v))
    c("chain3", "    a = b = c = 9;\n    println(a, b, c);\n", "9 9 9\n")
    c("chain3-paren", "    a = (b = (c = 9));\n    println(a, b, c);\n", "9 9 9\n")
    c("chain-ternary", "    a = b = t ? 4 : 5;\n    println(a, b);\n", "4 4\n")
    c("chain-ternary-0", "    t = 0;\n    a = b = t ? 4 : 5;\n    println(a, b);\n", "5 5\n")
    c("ternary-of-assign-paren", "    a = t ? (b = 6) : (c = 7);\n    println(a, b, c);\n", "6 6 300\n")
    c("assign-as-operand", "    a = (b = 2) + 1;\n    println(a, b);\n", "3 2\n")
    c("assign-in-condition", "    if ((a = b - 199) > 0) {\n        println(a);\n    }\n", "1\n")
    c("assign-in-argument", "    println((a = 5) * 2, a);\n", "10 5\n")
    c("compound-right-assoc", "    a = 1;\n    b = 2;\n    a += b += 3;\n    println(a, b);\n", "6 5\n")
    c("chain-element", "    int[3] z = [0, 0, 0];\n    a = z[1] = 9;\n    println(a, z[1]);\n", "9 9\n")
    return cases


def cast_cases():
    """casts bind like prefix operators (tighter than * / %): the minimal form must equal the fully parenthesised form and the
    value computed here; double operands make the grouping observable (values are dyadic, comparisons exact)"""
    V = "    double x = 7.5;\n    double h = 0.5;\n    double y = 2.25;\n    int n = 3;\n    int k = 2;\n"
    rows = [("(int)x * h", "((int)(x)) * (h)", "3.5"), ("(int)x / 2.0", "((int)(x)) / (2.0)", "3.5"), ("10.0 - (int)x * h", "(10.0) - (((int)(x)) * (h))", "6.5"),
            ("(int)x % 4 * h", "(((int)(x)) % (4)) * (h)", "1.5"), ("(int)-x * h", "((int)(-(x))) * (h)", "-3.5"), ("-(int)x * h", "(-((int)(x))) * (h)", "-3.5"),
            ("(int)(x + y) * h", "((int)((x) + (y))) * (h)", "4.5"), ("(long)x * (int)y * h", "(((long)(x)) * ((int)(y))) * (h)", "7.0"),
            ("(int)x + h * 2.0", "((int)(x)) + ((h) * (2.0))", "8.0"), ("h * (int)x", "(h) * ((int)(x))", "3.5"), ("h + (int)x * h", "(h) + (((int)(x)) * (h))", "4.0"),
            ("(int)x * (int)y * h", "(((int)(x)) * ((int)(y))) * (h)", "7.0"), ("(int)x * n * h", "(((int)(x)) * (n)) * (h)", "10.5"),
            ("n * (int)x * h", "((n) * ((int)(x))) * (h)", "10.5"), ("(int)(x) * h", "((int)(x)) * (h)", "3.5"), ("(N) - k * h", "(N) - ((k) * (h))", "4.0"),
            ("(int)x * h < 3.6 ? 1.0 : 2.0", "((((int)(x)) * (h)) < (3.6)) ? (1.0) : (2.0)", "1.0")]
    cases = []
    for i, (mn, fl, val) in enumerate(rows):
        body = V + "    int N = 5;\n    double r1 = %s;\n    double r2 = %s;\n    println(r1 == r2, r1 == %s, r2 == %s);\n" % (mn, fl, val, val)
        cases.append({"id": "cast-%d %s" % (i, mn), "program": "int main() {\n" + body + "    println(\"END\");\n    return 0;\n}\n",
                      "expect_class": "ok", "expect_stdout": "1 1 1\nEND\n"})
    return cases


def main(a):
    c = RefCheck(PID, a, ["CbGen", "CbProofs", "CbProps.C02", "CbProps.C02Assign", "CbOblig.C02"], THEOREMS, translators=["ladder"])
    if not c.build():
        return c.v.finish()
    if a.replay:
        return c.replay(a.replay)
    c.witnesses()
    quick = a.tier == "quick"
    c.suite("corpus", _corpus(), nontrivial=lambda r: hash(r.sexp))
    c.suite("operator-pairs", pair_suite(a.seed), nontrivial=lambda r: hash(r.sexp))
    tri_ops = ["add", "mul", "shl", "lt", "eq", "band", "bor", "land", "lor"] if quick else BIN
    c.suite("operator-triples", triple_suite(a.seed, tri_ops), nontrivial=lambda r: hash(r.sexp))
    c.suite("random-trees", random_suite(a.seed, 150 if quick else 15000), nontrivial=lambda r: hash(r.sexp))
    # the same token sequences written without optional white space (x<-1, a+-b, c?-1:2 ...): the lexer must cut them the same
    import refrun
    c.suite("operator-pairs-compact", pair_suite(a.seed), nontrivial=lambda r: hash(r.sexp), source_transform=refrun.compact_operators)
    c.suite("random-trees-compact", random_suite(a.seed + 1, 100 if quick else 8000), nontrivial=lambda r: hash(r.sexp),
            source_transform=refrun.compact_operators)
    c.raw_suite("assignment-level", assignment_cases())
    c.raw_suite("casts", cast_cases(), max_report=4)
    return c.finish(
        rule="each program prints, per expression tree, its value under minimal parentheses (the specification table), "
             "under full parentheses and under random redundant parentheses; all three must equal the reference value. "
             "operator-pairs: all 18x18 ordered binary pairs in both shapes x 7 operand triples, plus unary/ternary "
             "nestings (exhaustive); operator-triples: all 5 shapes over a 9-operator subset (all 18 in thorough); "
             "random trees to depth 5; operator pairs and random trees are run twice, with literal operands and with the literals "
             "replaced by variables named as programs name them (lower case, Capitalised, ALL_CAPS, type-like: N, LIMIT, Box, T ...); "
             "assignment-level: a = b = x op y for all 18 operators (plain, fully parenthesised, after a "
             "compound assignment), three-fold chains, assignment vs ?:, assignment used as operand / condition / argument, "
             "with values computed by the harness; operator-pairs-compact / random-trees-compact: the same programs with every "
             "optional space removed from the rendered text (same token sequence). non-trivial = distinct program",
        extra={"exhaustive": True, "exhaustive_note": "operator pairs are enumerated completely; triples over the stated "
               "operator set; random trees are a sample"},
        assumptions=["postfix chains beyond [ ], casts, await, try are outside the ladder model",
                     "the assignment level is modelled on top of the ladder (CbModel/LadderAssign.lean: chains x1 op1 x2 op2 ... e with "
                     "ladder operands); an assignment nested inside parentheses is outside that model and is checked end-to-end only"])


def _corpus():
    import json, os
    d = os.path.join(common.ROOT, "corpus", PID)
    out = []
    if os.path.isdir(d):
        for fn in sorted(os.listdir(d)):
            w = json.load(open(os.path.join(d, fn)))
            if "sexp" in w:
                out.append(w["sexp"])
    return out
