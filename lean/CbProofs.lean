import CbProofs.Preproc
import CbProofs.PreprocExpand
import CbProofs.FlatIndex
import CbProofs.RefPres
import CbProofs.RefInv
import CbProofs.Ladder
import CbProofs.Render
import CbProofs.RefConst
