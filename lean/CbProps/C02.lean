/-
  C02 — operator precedence and associativity follow the specification table; redundant
  parentheses never change the parse.
  `parse` is the table-driven model of the parser's ladder; the table is regenerated from the C++
  on every run (CbGen.ladder) and must equal the specification's table (CbOblig/C02.lean).
-/
import CbProofs.Ladder
namespace CbProps.C02
open CbModel.Ladder

/-- decidable form of the table's well-formedness -/
def wfCheck (t : Table) : Bool :=
  (List.range t.n).all fun i => (List.range t.n).all fun j =>
    i == j || (t.opsAt i).all fun s => !(t.opsAt j).contains s

theorem wf_of_check (t : Table) (h : wfCheck t = true) : t.WF := by
  intro i j s hi hj
  have hin : ∀ k, s ∈ t.opsAt k → k < t.n := by
    intro k hk
    by_cases hlt : k < t.n
    · exact hlt
    · exfalso
      have h0 : t.levels[k]? = none := List.getElem?_eq_none (by unfold Table.n at hlt; omega)
      simp [Table.opsAt, List.getD_eq_getElem?_getD, h0] at hk
  have h1 := hin i hi
  have h2 := hin j hj
  unfold wfCheck at h
  rw [List.all_eq_true] at h
  have := h i (List.mem_range.mpr h1)
  rw [List.all_eq_true] at this
  have := this j (List.mem_range.mpr h2)
  simp only [Bool.or_eq_true, beq_iff_eq] at this
  rcases this with h3 | h3
  · exact h3
  · rw [List.all_eq_true] at h3
    have := h3 s hi
    simp [hj] at this

/-- **Round trip, minimal parentheses.**  For every well-formed table and every expression tree over
    its operators, parsing the tree's minimal-parenthesis print gives back the tree: the parser groups
    exactly as the table's precedence and left-associativity (right-associativity of `?:`) say. -/
theorem parse_printMin (t : Table) (hwf : t.WF) (e : LExpr) (he : WFE t e) :
    ∃ f, parse t f 0 (printMin t 0 e) = some (e, []) :=
  parse_of_derives t hwf (printMin_derives t e he 0 (Nat.zero_le _))

/-- **Round trip, full parentheses.** -/
theorem parse_printFull (t : Table) (hwf : t.WF) (e : LExpr) (he : WFE t e) :
    ∃ f, parse t f 0 (printFull t e) = some (e, []) :=
  parse_of_derives t hwf (printFull_derives t e he)

/-- **Parenthesis invariance.**  Any two token strings that denote the same tree — i.e. that differ
    only by redundant parentheses placed anywhere — parse to the same tree, whatever the fuel. -/
theorem paren_invariance (t : Table) (hwf : t.WF) (e : LExpr) (ts ts' : List Tok)
    (h : Derives t 0 e ts) (h' : Derives t 0 e ts') (f f' : Nat) (r r' : LExpr × List Tok)
    (hp : parse t f 0 ts = some r) (hp' : parse t f' 0 ts' = some r') : r.1 = r'.1 := by
  obtain ⟨g, hg⟩ := parse_of_derives t hwf h
  obtain ⟨g', hg'⟩ := parse_of_derives t hwf h'
  rw [parse_fuel_independent t hp hg, parse_fuel_independent t hp' hg']

/-- minimal and full parenthesisation parse alike: an expression evaluates like its fully
    parenthesised form -/
theorem min_eq_full (t : Table) (hwf : t.WF) (e : LExpr) (he : WFE t e) :
    ∃ f, parse t f 0 (printMin t 0 e) = parse t f 0 (printFull t e) := by
  obtain ⟨f1, h1⟩ := parse_printMin t hwf e he
  obtain ⟨f2, h2⟩ := parse_printFull t hwf e he
  exact ⟨max f1 f2, by
    rw [parse_mono_le t h1 (Nat.le_max_left _ _), parse_mono_le t h2 (Nat.le_max_right _ _)]⟩

/-- the specification's table is well formed, so the theorems apply to it -/
theorem specTable_wf : specTable.WF := wf_of_check specTable (by decide)

/-! non-vacuity and the documented groupings, computed on the specification's table -/
example : parseTop specTable [.atom "1", .op "-", .atom "2", .op "-", .atom "3"] =
    some (.bin "-" (.bin "-" (.atom "1") (.atom "2")) (.atom "3")) := by decide
example : parseTop specTable [.atom "a", .op "==", .atom "b", .op "<", .atom "c"] =
    some (.bin "==" (.atom "a") (.bin "<" (.atom "b") (.atom "c"))) := by decide
example : parseTop specTable [.atom "a", .q, .atom "b", .colon, .atom "c", .q, .atom "d", .colon, .atom "e"] =
    some (.tern (.atom "a") (.atom "b") (.tern (.atom "c") (.atom "d") (.atom "e"))) := by decide

end CbProps.C02
