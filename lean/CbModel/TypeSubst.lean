/-
  C11 — substitution of type parameters in type-name strings.
  Mirrors, function by function, src/backend/interpreter/evaluator/functions/generic_instantiation.cpp:
    substIdents      = the identifier loop of substitute_type_string          (names without '<')
    substNormalized  = substitute_normalized_generic_type                     (Option_T: normalized generic ENUM spelling)
    substGeneric     = substitute_generic_type_name                           (Box<T>, Pair<A, Box<B>>)
    substTypeString  = substitute_type_string
  Strings are `List Char` (the C++ works on bytes; the correspondence check uses ASCII).  `TMap` is the std::map from type
  parameter to type argument (keys unique); `enumP` is the "is a generic enum" predicate the interpreter passes.
  Core Lean only.
-/
namespace CbModel.TypeSubst

abbrev Str := List Char
abbrev TMap := List (Str × Str)

def lookup (σ : TMap) (k : Str) : Option Str :=
  match σ with
  | [] => none
  | (k', v) :: r => if k' = k then some v else lookup r k

/-- std::isalpha(c) || c == '_'  (C locale) -/
def isIdStart (c : Char) : Bool := c.isAlpha || c == '_'
/-- std::isalnum(c) || c == '_' -/
def isIdChar (c : Char) : Bool := c.isAlphanum || c == '_'

/-- split at every occurrence of `sep`, keeping empty parts -/
def splitOnChar (sep : Char) : Str → List Str
  | [] => [[]]
  | c :: cs =>
    if c = sep then [] :: splitOnChar sep cs
    else match splitOnChar sep cs with
      | p :: ps => (c :: p) :: ps
      | [] => [[c]]

/-- base_end of substitute_normalized_generic_type: the LAST position pos >= 1 with name[pos] = '_' whose prefix is a known
    generic enum -/
def baseEndAux (enumP : Str → Bool) (name : Str) : Nat → Option Nat → Option Nat
  | 0, acc => acc
  | n + 1, acc =>
    -- positions are visited in increasing order: pos = name.length - (n+1)
    let pos := name.length - (n + 1)
    let acc' := if 1 ≤ pos ∧ name[pos]? = some '_' ∧ enumP (name.take pos) = true then some pos else acc
    baseEndAux enumP name n acc'

def baseEnd (enumP : Str → Bool) (name : Str) : Option Nat := baseEndAux enumP name name.length none

def substPart (σ : TMap) (p : Str) : Str :=
  match lookup σ p with
  | some a => a
  | none => p

def substNormalized (enumP : Str → Bool) (σ : TMap) (name : Str) : Str :=
  match baseEnd enumP name with
  | none => name
  | some e => name.take e ++ ((splitOnChar '_' (name.drop (e + 1))).map (fun p => '_' :: substPart σ p)).flatten

/-- what the identifier loop emits for one maximal identifier -/
def substIdent (enumP : Str → Bool) (σ : TMap) (ident : Str) : Str :=
  match lookup σ ident with
  | some a => a
  | none => if ident.contains '_' then substNormalized enumP σ ident else ident

/-- the identifier loop of substitute_type_string; `fuel` = number of loop iterations available (the length of the string is
    always enough: every iteration consumes at least one character) -/
def substIdentsF (enumP : Str → Bool) (σ : TMap) : Nat → Str → Str
  | 0, s => s
  | _ + 1, [] => []
  | fuel + 1, c :: cs =>
    if isIdStart c then
      substIdent enumP σ (c :: cs.takeWhile isIdChar) ++ substIdentsF enumP σ fuel (cs.dropWhile isIdChar)
    else c :: substIdentsF enumP σ fuel cs

def substIdents (enumP : Str → Bool) (σ : TMap) (s : Str) : Str := substIdentsF enumP σ s.length s

/-- position of the first `c` -/
def findChar (c : Char) : Str → Option Nat
  | [] => none
  | x :: xs => if x = c then some 0 else (findChar c xs).map (· + 1)

/-- position of the last `c` -/
def rfindChar (c : Char) : Str → Option Nat
  | [] => none
  | x :: xs =>
    match rfindChar c xs with
    | some i => some (i + 1)
    | none => if x = c then some 0 else none

def isBlank (c : Char) : Bool := c == ' ' || c == '\t'

/-- find_first_not_of / find_last_not_of (" \t") trimming; none when nothing is left -/
def trimBlank (s : Str) : Option Str :=
  let t := (s.dropWhile isBlank).reverse.dropWhile isBlank |>.reverse
  if t.isEmpty then none else some t

/-- the parameter splitter of substitute_generic_type_name: commas at depth 0 split, each piece is trimmed, pieces that are
    empty after trimming are dropped; `cur` is kept reversed -/
def splitParams : Str → Int → Str → List Str → List Str
  | [], _, cur, acc =>
    if cur.isEmpty then acc.reverse
    else match trimBlank cur.reverse with
      | some t => (t :: acc).reverse
      | none => acc.reverse
  | c :: cs, depth, cur, acc =>
    if c = '<' then splitParams cs (depth + 1) (c :: cur) acc
    else if c = '>' then splitParams cs (depth - 1) (c :: cur) acc
    else if c = ',' ∧ depth = 0 then
      match trimBlank cur.reverse with
      | some t => splitParams cs depth [] (t :: acc)
      | none => splitParams cs depth [] acc
    else splitParams cs depth (c :: cur) acc

def joinCommaSpace : List Str → Str
  | [] => []
  | [a] => a
  | a :: b :: r => a ++ ',' :: ' ' :: joinCommaSpace (b :: r)

/-- substitute_generic_type_name; `fuel` bounds the nesting depth (any fuel >= the length of the string is enough) -/
def substGeneric (σ : TMap) : Nat → Str → Str
  | 0, s => s
  | fuel + 1, s =>
    match findChar '<' s with
    | none => substPart σ s
    | some lt =>
      match rfindChar '>' s with
      | none => s
      | some gt =>
        -- substr(lt + 1, gt - lt - 1) with size_t arithmetic: gt < lt makes the count wrap around (rest of the string)
        let inner := if lt < gt then (s.drop (lt + 1)).take (gt - lt - 1) else s.drop (lt + 1)
        let params := splitParams inner 0 [] []
        s.take lt ++ '<' :: (joinCommaSpace (params.map (substGeneric σ fuel)) ++ ['>'])

def substTypeString (enumP : Str → Bool) (σ : TMap) (s : Str) : Str :=
  if s.isEmpty then s
  else if s.contains '<' then
    match rfindChar '>' s with
    | none => s
    | some gt => substGeneric σ (s.length + 1) (s.take (gt + 1)) ++ s.drop (gt + 1)
  else substIdents enumP σ s

end CbModel.TypeSubst
