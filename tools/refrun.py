"""Shared by the CbRef-based checks: run S-expression programs through the Lean reference
semantics (cbdriver ref) and through the interpreter built from the working tree; compare
stdout and exit class."""
import common
from common import esc, unesc


class RefResult:
    __slots__ = ("sexp", "status", "stdout", "source", "impl_out", "impl_class", "impl_err")


def model_run(sexps):
    rc, out, err = common.run_lines_parallel([common.driver_path(), "ref"], [esc(s) for s in sexps])
    if len(out) != len(sexps):
        raise RuntimeError("cbdriver ref: %d lines for %d programs (rc %d): %s" % (len(out), len(sexps), rc, err[-500:]))
    res = []
    for s, o in zip(sexps, out):
        r = RefResult()
        r.sexp = s
        f = o.split("\t")
        if len(f) != 3:
            r.status, r.stdout, r.source = "bad-op", "", ""
        else:
            r.status, r.stdout, r.source = f[0], unesc(f[1]), unesc(f[2])
        res.append(r)
    return res


def expected_class(status):
    if status == "exit0":
        return "ok"
    if status.startswith("exit1"):
        return "error"
    return None   # undef / oof / bad-op: discarded


import re
# `a < b > (c)` with an identifier (or type-like text) between the angle brackets is, by the grammar, a generic
# call `a<b>(c)` (the same ambiguity as in C++); generated programs that contain it are not compared
LT_GT_PAREN = re.compile(r"[A-Za-z_]\w*\s*<\s*[A-Za-z_][\w\s,\*\[\]<>]*>\s*\(")


def source_ok(src, gates):
    return not LT_GT_PAREN.search(src)


def join_chains(source):
    """metamorphic rewriting of a rendered program: two consecutive statements `X = E;` / `Y = X;` (X, Y plain identifiers,
    same indentation) become the chained assignment `Y = X = E;` — same meaning under right-associative assignment.
    Returns the new source, or None when the program has no such pair."""
    import re
    lines = source.split("\n")
    out, i, joined = [], 0, 0
    pat1 = re.compile(r"^(\s*)([A-Za-z_]\w*) = (.+);$")
    while i < len(lines):
        m1 = pat1.match(lines[i])
        if m1 and i + 1 < len(lines):
            m2 = re.match(r"^%s([A-Za-z_]\w*) = %s;$" % (re.escape(m1.group(1)), re.escape(m1.group(2))), lines[i + 1])
            if m2 and m2.group(1) != m1.group(2) and "=" not in m1.group(3).replace("==", "").replace("!=", "").replace("<=", "").replace(">=", ""):
                out.append("%s%s = %s = %s;" % (m1.group(1), m2.group(1), m1.group(2), m1.group(3)))
                i += 2
                joined += 1
                continue
        out.append(lines[i])
        i += 1
    return "\n".join(out) if joined else None


def run_suite(exe, sexps, timeout=10, gates=(), source_transform=None):
    """returns (results, mismatches, discarded) ; a mismatch is a RefResult with impl_* filled.
    source_transform: optional fn(source) -> source or None, a meaning-preserving rewriting of the rendered program; programs
    for which it returns None are discarded"""
    res = model_run(sexps)
    live = [r for r in res if expected_class(r.status) is not None and source_ok(r.source, gates)]
    if source_transform:
        kept = []
        for r in live:
            t = source_transform(r.source)
            if t is not None:
                r.source = t
                kept.append(r)
        live = kept
    outs = common.run_programs(exe, [r.source for r in live], timeout=timeout)
    bad = []
    for r, o in zip(live, outs):
        r.impl_out, r.impl_class, r.impl_err = o
        if r.impl_out != r.stdout or r.impl_class != expected_class(r.status):
            bad.append(r)
    return res, bad, len(res) - len(live)


def replay_obj(r, extra=None):
    d = {"sexp": r.sexp, "program": r.source, "model_status": r.status, "model_stdout": r.stdout,
         "impl_stdout": r.impl_out, "impl_exit_class": r.impl_class, "impl_stderr": r.impl_err}
    if extra:
        d.update(extra)
    return d


def shrink_mismatch(exe, r, gates=()):
    """shrink a mismatching program; the property-level observation that must persist:
    model accepts the program and (stdout, exit class) differ"""
    import shrink as sh

    def still(cands):
        res, bad, _ = run_suite(exe, cands, timeout=1, gates=gates)
        # a candidate that reads an undefined name is ill-formed unless the original did so too
        # ... and a candidate whose expected output contains a NUL byte (a %c of 0 made by the shrinker) or whose
        # model status differs from the original's is a different failure, not a smaller form of this one
        badset = {id(b) for b in bad if (b.status != "exit1:other" or r.status == "exit1:other")
                  and ("\x00" not in b.stdout or "\x00" in r.stdout) and b.status == r.status}
        return [id(x) in badset for x in res]
    small = sh.shrink(r.sexp, still)
    res, bad, _ = run_suite(exe, [small], gates=gates)
    return bad[0] if bad else r


# ------------------------------------------------------------------------------------------
# metamorphic rewriting: if / else-if chains over one plain variable  ->  switch statement
# ------------------------------------------------------------------------------------------

_ALT_EQ = re.compile(r"^([A-Za-z_]\w*) == (\d+)$")
_ALT_RANGE = re.compile(r"^([A-Za-z_]\w*) >= (\d+) && \1 <= (\d+)$")


def _switch_pattern(cond):
    """(scrutinee, case text) when `cond` is  v == K | v >= A && v <= B | v == K1 || v == K2 ...  else None"""
    m = _ALT_RANGE.match(cond)
    if m:
        return m.group(1), "%s...%s" % (m.group(2), m.group(3))
    parts = cond.split(" || ")
    ms = [_ALT_EQ.match(p) for p in parts]
    if all(ms) and len({m.group(1) for m in ms}) == 1:
        return ms[0].group(1), " || ".join(m.group(2) for m in ms)
    return None


def _parse_block(lines, i):
    """lines[i:] up to the line closing the current block -> (nodes, index of the closing line)"""
    nodes = []
    while i < len(lines):
        t = lines[i].strip()
        if t.startswith("}"):
            return nodes, i
        if t.endswith("{"):
            body, j = _parse_block(lines, i + 1)
            node = {"head": t, "body": body, "else": None}
            while lines[j].strip() == "} else {":
                eb, j = _parse_block(lines, j + 1)
                node["else"] = eb
            nodes.append(node)
            i = j + 1
        else:
            nodes.append(t)
            i += 1
    return nodes, i


def _emit(nodes, ind, out, stats):
    p = "    " * ind
    for n in nodes:
        if isinstance(n, str):
            out.append(p + n)
            continue
        m = re.match(r"^if \((.*)\) \{$", n["head"])
        sp = _switch_pattern(m.group(1)) if m else None
        if sp:
            # collect the chain: else blocks that consist of exactly one if over the same variable
            clauses, cur, final = [], n, None
            while True:
                mm = re.match(r"^if \((.*)\) \{$", cur["head"])
                clauses.append((_switch_pattern(mm.group(1))[1], cur["body"]))
                e = cur["else"]
                if e is None:
                    break
                if len(e) == 1 and not isinstance(e[0], str):
                    m2 = re.match(r"^if \((.*)\) \{$", e[0]["head"])
                    s2 = _switch_pattern(m2.group(1)) if m2 else None
                    if s2 and s2[0] == sp[0]:
                        cur = e[0]
                        continue
                final = e
                break
            stats[0] += 1
            out.append(p + "switch (%s) {" % sp[0])
            for k, (cs, body) in enumerate(clauses):
                out.append(p + "    " + ("} " if k else "") + "case (%s) {" % cs)
                _emit(body, ind + 2, out, stats)
            if final is not None:
                out.append(p + "    } else {")
                _emit(final, ind + 2, out, stats)
            out.append(p + "    }")
            out.append(p + "}")
            continue
        out.append(p + n["head"])
        _emit(n["body"], ind + 1, out, stats)
        if n["else"] is not None:
            out.append(p + "} else {")
            _emit(n["else"], ind + 1, out, stats)
        out.append(p + "}")


def ifchain_to_switch(source):
    """rewrite every if / else-if chain whose conditions test one plain variable against literals (==, a closed range, or an
    `||` of equalities) into `switch (v) { case (K) {...} case (A...B) {...} else {...} }`.  A switch runs the first clause
    that matches and nothing else, which is what the chain means as long as the scrutinee is a plain variable.
    Returns None when the program has no such chain."""
    lines = [l for l in source.split("\n")]
    nodes, _ = _parse_block(lines, 0)
    out, stats = [], [0]
    _emit(nodes, 0, out, stats)
    return "\n".join(out) + "\n" if stats[0] else None


# ------------------------------------------------------------------------------------------
# metamorphic rewriting: the same token sequence written without optional white space
# ------------------------------------------------------------------------------------------

# two-character sequences that are (or start) one token of the language: a space between such characters is kept
_MERGE = {"++", "--", "+=", "-=", "*=", "/=", "%=", "==", "!=", "<=", ">=", "&&", "||", "<<", ">>", "&=", "|=", "^=", "->", "::",
          "=>", "//", "/*", "*/", "..", "?.", "??"}


def compact_operators(source):
    """remove every space inside println(...) / assignment statements that does not separate two tokens which would otherwise
    lex differently (identifier / number characters on both sides, or two operator characters that form a longer operator).
    The token sequence — and so the meaning — is unchanged; `x < -1` becomes `x<-1`.  String literals are left alone."""
    out_lines, changed = [], 0
    for line in source.split("\n"):
        ind = len(line) - len(line.lstrip(" "))
        body = line[ind:]
        if not (body.startswith("println(") or re.match(r"^[A-Za-z_]\w* [-+*/%&|^<>]*= ", body) or re.match(r"^(long|int) [A-Za-z_]\w* = ", body)):
            out_lines.append(line)
            continue
        res, i, in_str = [], 0, False
        while i < len(body):
            ch = body[i]
            if in_str:
                res.append(ch)
                if ch == "\\" and i + 1 < len(body):
                    res.append(body[i + 1])
                    i += 1
                elif ch == '"':
                    in_str = False
            elif ch == '"':
                in_str = True
                res.append(ch)
            elif ch == " ":
                j = i
                while j < len(body) and body[j] == " ":
                    j += 1
                c1 = res[-1] if res else ""
                c2 = body[j] if j < len(body) else ""
                wordy = lambda c: c.isalnum() or c == "_"
                if (wordy(c1) and wordy(c2)) or (c1 + c2) in _MERGE or c1 == "" or c2 == "":
                    res.append(" ")
                else:
                    changed += 1
                i = j - 1
            else:
                res.append(ch)
            i += 1
        out_lines.append(" " * ind + "".join(res))
    return "\n".join(out_lines) if changed else None
