import CbOblig.C04
import CbOblig.C02
import CbOblig.C20
import CbOblig.C13
import CbOblig.C11
import CbOblig.C15
import CbOblig.C15Run
