// C17 in-process harness: drives the real PreprocessorNS::Preprocessor.
// fields: k, (name,value)*k, file, source  ->  errs, output
#include "proto.h"
#include "src/frontend/preprocessor/preprocessor.h"
int main() {
    std::ios::sync_with_stdio(false);
    std::string line;
    while (std::getline(std::cin, line)) {
        auto f = proto::fields(line);
        size_t k = std::stoul(f[0]);
        if (f.size() != 1 + 2 * k + 2) { std::cout << "bad-op\n"; continue; }
        PreprocessorNS::Preprocessor pp;
        for (size_t i = 0; i < k; i++) pp.define(f[1 + 2 * i], f[2 + 2 * i]);
        std::string out = pp.process(f[1 + 2 * k + 1], f[1 + 2 * k]);
        std::cout << proto::join({std::to_string(pp.getErrors().size()), out}) << "\n";
    }
    return 0;
}
