#!/usr/bin/env python3
"""Run registered quick checks against a seeded change:  seeded_run.py <seeded-dir> [ID ...]
Applies seeded/<dir>/patch.diff to /repo, runs the quick check(s), and ALWAYS restores /repo."""
import json, os, subprocess, sys, time
ROOT = os.path.dirname(os.path.dirname(os.path.abspath(__file__)))
d = sys.argv[1]
sd = d if os.path.isabs(d) else os.path.join(ROOT, "seeded", d)
meta = json.load(open(os.path.join(sd, "meta.json")))
ids = sys.argv[2:] or [meta["property"]]
st = subprocess.run(["git", "-C", "/repo", "status", "--porcelain"], capture_output=True, text=True).stdout
if st.strip():
    print("refusing: /repo has local changes"); sys.exit(2)
r = subprocess.run(["git", "-C", "/repo", "apply", os.path.join(sd, "patch.diff")])
if r.returncode != 0:
    print("patch does not apply"); sys.exit(2)
res = {}
try:
    for pid in ids:
        t0 = time.time()
        p = subprocess.run(["python3", os.path.join(ROOT, "tools/check.py"), pid, "--tier", "quick"],
                           cwd=ROOT, capture_output=True, text=True)
        viol = [l for l in p.stdout.split("\n") if l.startswith("VIOLATION")]
        res[pid] = {"exit": p.returncode, "violations": viol[:5], "wall_s": round(time.time() - t0, 1)}
        print(pid, "exit", p.returncode, viol[:2])
finally:
    subprocess.run(["git", "-C", "/repo", "checkout", "--", "."])
json.dump(res, open(os.path.join(sd, "result.json"), "w"), indent=1)
