/-
  C17 — Preprocessor keeps exactly the selected lines; expands whole-word macros only.
  Property theorems only (helper lemmas live in CbProofs/Preproc*.lean).
-/
import CbProofs.Preproc
import CbProofs.PreprocExpand
namespace CbProps.C17
open CbModel.Preproc

/-- **Refinement.**  For every macro table and every well-nested source tree of any depth, the
    conditional stack machine (mirror of `Preprocessor::process`) computes exactly the tree
    selection: emitted lines, definitions in force and errors are those of `sel`, which visits only
    selected branches; the stack ends empty, so `finish` reports no "unclosed" error. -/
theorem run_flatten_eq_select (d0 : Defs) (items : Items) :
    finish (run ⟨d0, [], [], 0⟩ (flatten items)) = St.ofAcc (sel ⟨d0, [], 0⟩ items) [] := by
  rw [sel_items items ⟨d0, [], [], 0⟩ rfl]
  simp [finish, St.ofAcc, St.acc]

/-- the same inside any enclosing active context (any nesting depth, any pending frames) -/
theorem run_flatten_eq_select_nested (st : St) (items : Items) (h : skipping st.stack = false) :
    run st (flatten items) = St.ofAcc (sel st.acc items) st.stack :=
  sel_items items st h

/-- `#define`/`#undef` (and everything else) inside a skipped branch have no effect -/
theorem skipped_block_no_effect (st : St) (items : Items) (h : skipping st.stack = true) :
    run st (flatten items) = st :=
  skip_items items st h

/-- an unknown directive in an active region is an error, never ignored -/
theorem unknown_active_is_error (st : St) (h : skipping st.stack = false) :
    (step st Dir.unknown).errs = st.errs + 1 := by
  simp [step, h]

/-- `#else`, `#elif`, `#endif` without an open conditional are errors -/
theorem unmatched_is_error (st : St) (h : st.stack = []) (n : List Char) :
    (step st Dir.els).errs = st.errs + 1 ∧ (step st Dir.endif).errs = st.errs + 1 ∧
    (step st (Dir.elif n)).errs = st.errs + 1 := by
  refine ⟨?_, ?_, ?_⟩ <;> simp only [step, h] <;> split <;> rfl

/-- an unclosed conditional is an error at end of input -/
theorem unclosed_is_error (st : St) (h : st.stack ≠ []) : (finish st).errs = st.errs + 1 := by
  unfold finish
  cases hs : st.stack with
  | nil => exact absurd hs h
  | cons c r => simp

/-- errors are never forgotten -/
theorem errs_monotone (st : St) (ds : List Dir) : st.errs ≤ (run st ds).errs := by
  induction ds generalizing st with
  | nil => exact Nat.le_refl _
  | cons d ds ih =>
    rw [run_cons]
    refine Nat.le_trans ?_ (ih _)
    cases d <;> simp only [step] <;> (repeat' split) <;> simp

/-- `-DNAME=V` equals a leading `#define NAME V` -/
theorem dash_D_is_leading_define (defs : Defs) (n v : List Char) :
    (step ⟨defs, [], [], 0⟩ (Dir.define n ⟨v, false⟩)).defs = defs.set n ⟨v, false⟩ := by
  simp [step, skipping]

/-- segmentation is lossless, hence a line none of whose words names an object-like macro is
    emitted unchanged (in particular: identifiers merely *containing* a macro name, and the inside
    of string literals, which are never `word` segments of their own) -/
theorem line_without_macro_word_unchanged (defs : Defs) (depth : Nat) (active : List (List Char)) (s : List Char)
    (h : ∀ w, Seg.word w ∈ segment (s.length + 1) s →
          defs.find w = none ∨ ∃ m, defs.find w = some m ∧ m.fnLike = true) :
    expandChars defs (depth + 1) active s = s := by
  have key : ∀ segs : List Seg, (∀ w, Seg.word w ∈ segs →
      defs.find w = none ∨ ∃ m, defs.find w = some m ∧ m.fnLike = true) →
      segs.flatMap (expSeg defs active (expandChars defs depth)) = unseg segs := by
    intro segs
    induction segs with
    | nil => intro _; rfl
    | cons sg r ih =>
      intro hw
      simp only [List.flatMap_cons, unseg]
      rw [show (List.flatMap Seg.text r) = unseg r from rfl, ← ih (fun w hm => hw w (List.mem_cons_of_mem _ hm))]
      congr 1
      cases sg with
      | word w =>
        rcases hw w (List.mem_cons_self) with h0 | ⟨m, h1, h2⟩
        · simp [expSeg, h0, Seg.text]
        · simp [expSeg, h1, h2, Seg.text]
      | str l => rfl
      | other c => rfl
  unfold expandChars
  rw [key _ h, unseg_segment _ _ (Nat.lt_succ_self _)]

/-- string literals and non-identifier characters are copied verbatim (they are never looked up
    in the macro table), whatever the table contains -/
theorem string_and_punct_verbatim (defs : Defs) (active : List (List Char)) (rec : List (List Char) → List Char → List Char)
    (l : List Char) (c : Char) :
    expSeg defs active rec (Seg.str l) = l ∧ expSeg defs active rec (Seg.other c) = [c] := ⟨rfl, rfl⟩

/-- a word that names an object-like macro is replaced by the expansion of the macro's body -/
theorem macro_word_replaced (defs : Defs) (active : List (List Char)) (rec : List (List Char) → List Char → List Char)
    (w : List Char) (m : Macro) (h : defs.find w = some m) (hf : m.fnLike = false) (ha : active.contains w = false) :
    expSeg defs active rec (Seg.word w) = rec (w :: active) m.body := by
  have ha' : w ∉ active := by
    intro hm
    have : active.contains w = true := List.contains_iff_mem.mpr hm
    rw [ha] at this; exact Bool.noConfusion this
  simp [expSeg, h, hf, ha']

/-- … unless that macro is being expanded already: inside its own expansion (directly, or through a cycle
    A -> B -> A) the name is left as it stands, so expansion always ends -/
theorem macro_inside_own_expansion_kept (defs : Defs) (active : List (List Char)) (rec : List (List Char) → List Char → List Char)
    (w : List Char) (h : active.contains w = true) :
    expSeg defs active rec (Seg.word w) = w := by
  have h' : w ∈ active := List.contains_iff_mem.mp h
  cases hf : defs.find w with
  | none => simp [expSeg, hf]
  | some m => by_cases hm : m.fnLike = true <;> simp [expSeg, hf, hm, h']

/-- a top-level occurrence is never "inside its own expansion": the line's own words are looked up with no macro active -/
theorem top_level_word_replaced (defs : Defs) (w : List Char) (m : Macro) (rec : List (List Char) → List Char → List Char)
    (h : defs.find w = some m) (hf : m.fnLike = false) :
    expSeg defs [] rec (Seg.word w) = rec [w] m.body := by
  simp [expSeg, h, hf]

/-! non-vacuity: a concrete nested source on which the theorem's two sides are computed -/
def exItems : Items :=
  .line (.define "A".toList ⟨"1".toList, false⟩) <|
  .cond false "A".toList
    (.cond true "B".toList (.line (.text "x A".toList) .nil) (.els (.line (.text "no".toList) .nil)) .nil)
    (.elif "C".toList (.line (.define "Z".toList ⟨"9".toList, false⟩) .nil) .endif)
    (.line (.text "Z end".toList) .nil)

example : (finish (run ⟨[], [], [], 0⟩ (flatten exItems))).out = ["x 1".toList, "Z end".toList] := by
  decide
example : (sel ⟨[], [], 0⟩ exItems).out = ["x 1".toList, "Z end".toList] := by decide

end CbProps.C17
