/-
  C18 — imports.  Mechanism model of Interpreter::handle_import_statement: a set of loaded module paths and one
  global table per definition kind; importing a module that is not loaded yet registers exactly its exported
  items (later registrations of a name overwrite earlier ones), importing a loaded module does nothing.
  A definition is identified by a body id; kinds (function, struct, enum, typedef, constant, interface, impl)
  share the mechanism, so one table stands for all of them (names carry their kind as a prefix).
  Core Lean only.
-/
namespace CbModel.Imports

structure Item where
  name : String
  exported : Bool
  body : Nat
  deriving Repr, DecidableEq, Inhabited

structure Module where
  path : String
  items : List Item
  deriving Repr, Inhabited

abbrev Table := List (String × Nat)

/-- `table[name] = body` -/
def register (t : Table) (it : Item) : Table := (it.name, it.body) :: t

/-- the newest registration of a name wins -/
def lookup (t : Table) (n : String) : Option Nat :=
  match t with
  | [] => none
  | (k, v) :: r => if k = n then some v else lookup r n

structure St where
  loaded : List String
  table : Table
  deriving Repr, Inhabited

def findModule (mods : List Module) (p : String) : Option Module :=
  match mods with
  | [] => none
  | m :: r => if m.path = p then some m else findModule r p

def exportsOf (m : Module) : List Item := m.items.filter (·.exported)

/-- `import p;` — `none` when the module file cannot be found -/
def importM (mods : List Module) (s : St) (p : String) : Option St :=
  if p ∈ s.loaded then some s
  else match findModule mods p with
    | none => none
    | some m => some ⟨p :: s.loaded, (exportsOf m).foldl register s.table⟩

/-- the import statements of a program, in order -/
def importAll (mods : List Module) : St → List String → Option St
  | s, [] => some s
  | s, p :: ps => match importM mods s p with
    | none => none
    | some s' => importAll mods s' ps

def init : St := ⟨[], []⟩

/-- the body a module exports under a name (its last exported item of that name) -/
def exportedBody (m : Module) (n : String) : Option Nat :=
  lookup ((exportsOf m).foldl register []) n

/-- no two different modules export the same name -/
def DisjointExports (mods : List Module) : Prop :=
  ∀ m1 ∈ mods, ∀ m2 ∈ mods, ∀ n, (exportedBody m1 n).isSome → (exportedBody m2 n).isSome → m1.path = m2.path

/-- module paths identify modules -/
def UniquePaths (mods : List Module) : Prop :=
  ∀ m1 ∈ mods, ∀ m2 ∈ mods, m1.path = m2.path → m1 = m2

end CbModel.Imports
