import CbModel.Imports
import Driver.Proto
namespace Driver
open CbModel.Imports

/-- fields: modules "path:name,exp,body;name,exp,body|path:…", imports "p1 p2 …", queried names "n1 n2 …".
    output: for each queried name "some <body>" or "none", separated by ';' ; "fail" when an import cannot be
    resolved -/
def c18Line (fs : List (List Char)) : String :=
  match fs.map String.ofList with
  | [ms, imps, qs] =>
    let mods : Option (List Module) := ((ms.splitOn "|").filter (· ≠ "")).mapM fun (m : String) =>
      match m.splitOn ":" with
      | [path, items] =>
        (((items.splitOn ";").filter (· ≠ "")).mapM fun (it : String) =>
          match it.splitOn "," with
          | [n, e, b] => b.toNat?.map fun b => (⟨n, e == "1", b⟩ : Item)
          | _ => none).map fun its => (⟨path, its⟩ : Module)
      | [path] => some ⟨path, []⟩
      | _ => none
    match mods with
    | some mods =>
      match importAll mods init ((imps.splitOn " ").filter (· ≠ "")) with
      | some s =>
        ";".intercalate (((qs.splitOn " ").filter (· ≠ "")).map fun n =>
          match lookup s.table n with
          | some b => "some " ++ toString b
          | none => "none")
      | none => "fail"
    | none => "bad-op"
  | _ => "bad-op"

end Driver
