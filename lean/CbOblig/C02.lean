/-
  Obligations tying the ladder regenerated from expression_parser.cpp to the specification table.
-/
import CbGen.Ladder
import CbProps.C02
namespace CbOblig.C02
open CbModel.Ladder

/-- the parser's ladder IS the specification's precedence table -/
theorem ladder_is_spec : CbGen.ladder = specTable := by decide

/-- (independent of the above) the parser's ladder is well formed, so the round-trip theorems hold
    for the parser as it is -/
theorem ladder_wf : CbProps.C02.wfCheck CbGen.ladder = true := by decide

end CbOblig.C02
