import CbProps.C17
import CbProps.C05
