/- line protocol shared by all driver commands: one case per line, TAB-separated fields,
   fields escaped (\\ \n \t \r) -/
namespace Driver

def unescape (s : List Char) : List Char :=
  match s with
  | [] => []
  | '\\' :: 'n' :: r => '\n' :: unescape r
  | '\\' :: 't' :: r => '\t' :: unescape r
  | '\\' :: 'r' :: r => '\r' :: unescape r
  | '\\' :: '\\' :: r => '\\' :: unescape r
  | c :: r => c :: unescape r

def escape (s : List Char) : List Char :=
  s.flatMap fun c =>
    if c == '\n' then ['\\', 'n'] else if c == '\t' then ['\\', 't']
    else if c == '\r' then ['\\', 'r'] else if c == '\\' then ['\\', '\\'] else [c]

def splitTab (s : List Char) : List (List Char) :=
  let rec go (cur : List Char) : List Char → List (List Char)
    | [] => [cur.reverse]
    | '\t' :: r => cur.reverse :: go [] r
    | c :: r => go (c :: cur) r
  go [] s

def fields (line : String) : List (List Char) :=
  let l := line.toList
  let l := if l.getLast? == some '\n' then l.dropLast else l
  (splitTab l).map unescape

def joinFields (fs : List (List Char)) : String :=
  String.ofList (List.intercalate ['\t'] (fs.map escape))

partial def forLines (h : IO.FS.Stream) (f : String → IO Unit) : IO Unit := do
  let line ← h.getLine
  if line.isEmpty then return ()
  f line
  forLines h f

end Driver
