/-
  C20 — foreign calls: the marshalling rules and the shape a call table must have.
  The table itself (CbGen.ffiTable) is regenerated from FFIManager::callFunction.  Core Lean only.
-/
namespace CbModel.Ffi

/-- a declared signature -/
structure Sig where
  ret : String
  params : List String
  deriving Repr, BEq, DecidableEq

/-- one branch of the call table -/
structure Row where
  rets : List String
  params : List String
  castRet : String
  castParams : List String
  argVia : List (String × Nat)
  deriving Repr, BEq, DecidableEq

def Row.matches (r : Row) (s : Sig) : Bool := r.rets.contains s.ret && r.params == s.params

/-- how an argument of a declared type must be taken out of the interpreter's value -/
def extractionFor (ty : String) : String :=
  if ty == "double" then "double_value" else if ty == "int" then "value_as_int"
  else if ty == "long" then "value_as_long" else "unsupported"

/-- the cast used by the branch is the declared signature's C type, argument k is taken from Cb argument k
    with the extraction that fits its declared type -/
def rowOK (r : Row) : Bool :=
  r.rets.all (· == r.castRet) && r.params == r.castParams &&
  r.argVia == (List.range r.params.length).map (fun k => (extractionFor (r.params.getD k ""), k))

def keys (t : List Row) : List (String × List String) := t.flatMap fun r => r.rets.map fun x => (x, r.params)

/-- no two branches accept the same declared signature -/
def noOverlap (t : List Row) : Bool := (keys t).Nodup

def lookup (t : List Row) (s : Sig) : Option Row := t.find? (·.matches s)

/-! ## marshalling -/

/-- `static_cast<int>(v)` of a 64-bit value -/
def toInt32 (v : Int) : Int := ((v + 2147483648) % 4294967296) - 2147483648

/-- a C `int` result widened to the interpreter's 64-bit value -/
def fromInt32 (v : Int) : Int := v

end CbModel.Ffi
