#!/usr/bin/env python3
"""Regenerate the table of seeded changes in DESIGN.md (between the SEEDED-TABLE markers) from seeded/*/meta.json
and the list of repairs from known_findings.json."""
import glob, json, os, re
ROOT = os.path.dirname(os.path.dirname(os.path.abspath(__file__)))
rows = ["| seeded | change | caught by | first version missed it |", "|---|---|---|---|"]
for d in sorted(glob.glob(os.path.join(ROOT, "seeded", "*"))):
    mp = os.path.join(d, "meta.json")
    if not os.path.exists(mp):
        continue
    m = json.load(open(mp))
    rows.append("| %s | %s | %s | %s |" % (os.path.basename(d), m.get("what", "").replace("|", "\\|")[:260],
                                         m.get("caught_by", "").replace("|", "\\|")[:300],
                                         "yes — check strengthened" if m.get("missed_by_first_version") else "no"))
kf = json.load(open(os.path.join(ROOT, "known_findings.json")))
fixed = ["* " + x for x in kf["fixed"]]
open_ = ["* **%s / %s** — %s" % (f["property"], f["id"], f["what"][:400]) for f in kf["findings"]]
text = "\n".join(rows) + "\n\n**Repairs committed to /repo (`fix:` commits), %d:**\n\n" % len(fixed) + "\n".join(fixed) + \
    "\n\n**Findings recorded, not repaired, %d:**\n\n" % len(open_) + "\n".join(open_) + "\n"
p = os.path.join(ROOT, "DESIGN.md")
s = open(p).read()
b, e = "<!-- SEEDED-TABLE-BEGIN -->", "<!-- SEEDED-TABLE-END -->"
if b not in s:
    raise SystemExit("markers missing in DESIGN.md")
s = s[:s.index(b) + len(b)] + "\n" + text + s[s.index(e):]
open(p, "w").write(s)
print("DESIGN.md: %d seeded rows, %d repairs, %d findings" % (len(rows) - 2, len(fixed), len(open_)))
