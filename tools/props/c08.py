"""C08 — calls get private frames and positional arguments; statics persist; no leakage.

Theorems: lean/CbProps/C08.lean (a callee's behaviour is independent of the caller's frame; a call
restores the caller's frame; binding/arity/default laws; static initialised once).
Tie: generated call graphs (recursion, name reuse across functions, defaults, all argument counts,
interleaved statics) — model (cbdriver ref) vs the interpreter built from the working tree.
"""
import common, gen_core
from props.refprops import RefCheck

PID = "C08"
THEOREMS = {"CbProps.C08": ["CbProps.C08." + t for t in [
    "callee_cannot_see_caller", "withFrame_restores", "call_preserves_caller_locals", "fresh_frame_has_only_params",
    "too_many_args_rejected", "missing_arg", "return_value_unchanged", "static_init_once"]]}


def lit(n):
    return "(lit %d)" % n


def prog(funcs, body, globs=""):
    return "(prog (structs) (globals%s) (funcs %s (func main int (params) (%s (print (s \"END\")) (ret (lit 0))))))" % (
        (" " + globs) if globs else "", funcs, body)


def targeted(gates):
    safe = "arg_new_param" in gates
    # recursion: each level has its own parameters and locals (depth 1..50)
    for n in (1, 2, 7, 30, 50):
        # sum with a local per level, printed on the way back
        f = ("(func down int (params (int n)) ((decl - int mine (bin mul (var n) (lit 3))) "
             "(if (bin le (var n) (lit 0)) ((ret (lit 0)))) "
             "(decl - int below (call down (bin sub (var n) (lit 1)))) "
             "(if (bin ne (var mine) (bin mul (var n) (lit 3))) ((print (s \"CLOBBERED\") (e (var n))))) "
             "(ret (bin add (var below) (var mine)))))")
        yield prog(f, "(print (e (call down %s)))" % lit(n))
    # mutual recursion with same-named locals
    f = ("(func ev int (params (int n)) ((decl - int k (bin add (var n) (lit 100))) (if (bin eq (var n) (lit 0)) ((ret (lit 1)))) "
         "(decl - int r (call od (bin sub (var n) (lit 1)))) (if (bin ne (var k) (bin add (var n) (lit 100))) ((print (s \"CLOBBERED\")))) (ret (var r)))) "
         "(func od int (params (int n)) ((decl - int k (bin sub (var n) (lit 100))) (if (bin eq (var n) (lit 0)) ((ret (lit 0)))) "
         "(decl - int r (call ev (bin sub (var n) (lit 1)))) (if (bin ne (var k) (bin sub (var n) (lit 100))) ((print (s \"CLOBBERED\")))) (ret (var r))))")
    for n in (0, 1, 6, 9):
        yield prog(f, "(print (e (call ev %s)) (e (call od %s)))" % (lit(n), lit(n)))
    # classic recursions whose arguments mention earlier parameters (natural form only when the finding is closed)
    if not safe:
        g = "(func gcd int (params (int a) (int b)) ((if (bin eq (var b) (lit 0)) ((ret (var a)))) (ret (call gcd (var b) (bin mod (var a) (var b))))))"
        for (x, y) in [(48, 18), (17, 5), (100, 75), (7, 0)]:
            yield prog(g, "(print (e (call gcd %s %s)))" % (lit(x), lit(y)))
    # the caller's locals survive a call that declares and writes the same names
    f = ("(func scribble int (params (int a)) ((decl - int x (lit 111)) (decl - int y (lit 222)) (assign (var a) (lit 333)) "
         "(assign (var x) (bin add (var x) (var a))) (ret (var x))))")
    yield prog(f, "(decl - int x (lit 1)) (decl - int y (lit 2)) (decl - int a (lit 3)) (decl - int r (call scribble (var a))) "
                  "(print (e (var x)) (e (var y)) (e (var a)) (e (var r)))")
    # by-value: writing a parameter does not change the argument variable
    f = "(func bump int (params (int p)) ((assign (var p) (bin add (var p) (lit 1))) (compound mul (var p) (lit 2)) (ret (var p))))"
    yield prog(f, "(decl - int v (lit 5)) (decl - int r (call bump (var v))) (print (e (var v)) (e (var r)))")
    # globals are shared, locals are not
    f = ("(func incg int (params) ((compound add (var g) (lit 1)) (decl - int loc (var g)) (ret (var loc)))) "
         "(func useg int (params) ((decl - int loc (lit 50)) (expr (call incg)) (ret (bin add (var loc) (var g)))))")
    yield prog(f, "(print (e (call incg)) (e (call useg)) (e (var g)))", globs="(decl - int g (lit 10))")
    # positional binding, defaults, every argument count
    for nparams in range(0, 4):
        for ndef in range(0, nparams + 1):
            ps = []
            for i in range(nparams):
                d = "" if i < nparams - ndef else " %d" % (70 + i)
                ps.append("(int q%d%s)" % (i, d))
            body = "(print (s \"f\") %s)" % " ".join("(e (var q%d))" % i for i in range(nparams)) if nparams else "(print (s \"f\"))"
            f = "(func f int (params%s) (%s (ret (lit %d))))" % ((" " + " ".join(ps)) if ps else "", body, nparams)
            for nargs in range(0, nparams + 2):
                args = " ".join(lit(10 + i) for i in range(nargs))
                yield prog(f, "(decl - int r (call f%s)) (print (s \"r\") (e (var r)))" % ((" " + args) if args else ""))
    # return values reach the caller unchanged (boundaries of every return type)
    for ty, (lo, hi) in gen_core.RANGE.items():
        if ty in ("bool", "uchar"):
            continue
        for v in (lo, hi, 0, 1):
            f = "(func give %s (params) ((ret %s)))" % (ty, lit(v))
            yield prog(f, "(decl - long r (call give)) (print (e (var r)) (e (bin eq (var r) %s)))" % lit(v))
    # statics: initialised once, kept between calls, separate per function
    f = ("(func c1 int (params) ((decl s int n (lit 10)) (compound add (var n) (lit 1)) (ret (var n)))) "
         "(func c2 int (params) ((decl s int n (lit 100)) (compound add (var n) (lit 5)) (ret (var n)))) "
         "(func c3 int (params (int k)) ((decl s int n (lit 0)) (decl s int m (lit 7)) (compound add (var n) (var k)) (compound add (var m) (lit 1)) (ret (bin add (bin mul (var n) (lit 1000)) (var m)))))")
    yield prog(f, "(print (e (call c1)) (e (call c2)) (e (call c1)) (e (call c1)) (e (call c2))) "
                  "(print (e (call c3 (lit 1))) (e (call c3 (lit 2))) (e (call c1)) (e (call c3 (lit 3))))")
    # a function that owns statics calls OTHER functions (with a same-named static, with a different one,
    # with none) and uses its own statics again afterwards
    f = ("(func leaf int (params (int q)) ((ret (bin add (var q) (lit 1))))) "
         "(func nid int (params) ((decl s int count (lit 100)) (compound add (var count) (lit 1)) (ret (var count)))) "
         "(func other int (params) ((decl s int zz (lit 7)) (compound add (var zz) (lit 2)) (ret (var zz)))) "
         "(func ticket int (params) ((decl s int count (lit 10)) (compound add (var count) (lit 1)) "
         "(decl - int i1 (call nid)) (compound add (var count) (lit 10)) (decl - int i2 (call other)) (compound add (var count) (lit 100)) "
         "(decl - int i3 (call leaf (var i1))) (compound add (var count) (lit 1000)) (print (s \"ticket\") (e (var count)) (e (var i1)) (e (var i2)) (e (var i3))) (ret (var count)))) "
         "(func logc int (params) ((decl s int calls (lit 0)) (compound add (var calls) (lit 1)) (expr (call leaf (lit 3))) (compound add (var calls) (lit 1)) (ret (var calls))))")
    yield prog(f, "(print (e (call ticket)) (e (call nid)) (e (call ticket)) (e (call other))) (print (e (call logc)) (e (call logc)) (e (call nid)))")
    f = ("(func fact int (params (int n)) ((decl s int calls (lit 0)) (compound add (var calls) (lit 1)) "
         "(if (bin le (var n) (lit 1)) ((ret (var calls)))) (ret (call fact (bin sub (var n) (lit 1))))))")
    yield prog(f, "(print (e (call fact (lit 5))) (e (call fact (lit 3))))")
    # a callee must not see a caller's local (rejected: undefined variable) — listed finding dynamic_scope
    if "dynamic_scope" not in gates:
        f = "(func peek int (params) ((ret (bin add (var secret) (lit 1)))))"
        yield prog(f, "(decl - int secret (lit 41)) (print (e (call peek)))")
        f = "(func poke int (params) ((assign (var secret) (lit 0)) (ret (lit 1))))"
        yield prog(f, "(decl - int secret (lit 41)) (expr (call poke)) (print (e (var secret)))")


MS_FID = "method_static_shared_between_impls"


def method_static_cases():
    """static locals of METHODS: a method is a function of its impl — two impls' methods of the same name have separate statics,
    all objects of one type share the method's static, a plain function of the same name has its own"""
    cases = []
    HDR = ("struct A { int v; };\nstruct B { int v; };\ninterface Cnt { int bump(); int other(); };\n"
           "impl Cnt for A {\n    int bump() {\n        static int n = 0;\n        n = n + 1;\n        return n;\n    }\n"
           "    int other() {\n        static int n = 100;\n        n = n + 10;\n        return n;\n    }\n};\n"
           "impl Cnt for B {\n    int bump() {\n        static int n = 0;\n        n = n + 1;\n        return n;\n    }\n"
           "    int other() {\n        static int n = 500;\n        n = n + 1;\n        return n;\n    }\n};\n"
           "int bump() {\n    static int n = 1000;\n    n = n + 1;\n    return n;\n}\n")

    def c(cid, body, out, finding=None):
        d = {"id": cid, "program": HDR + "int main() {\n    A a;\n    A a2;\n    B b;\n" + body + "    println(\"END\");\n    return 0;\n}\n", "expect_class": "ok", "expect_stdout": out + "END\n"}
        if finding:
            d["finding"] = finding
        cases.append(d)
    c("one-type-two-objects", "    println(a.bump(), a2.bump(), a.bump());\n", "1 2 3\n")
    c("two-methods-one-impl", "    println(a.bump(), a.other(), a.bump(), a.other());\n", "1 110 2 120\n")
    c("same-name-two-impls", "    println(a.bump(), a.bump(), b.bump(), a.bump(), b.bump());\n", "1 2 1 3 2\n", MS_FID)
    c("same-name-two-impls-other", "    println(a.other(), b.other(), a.other(), b.other());\n", "110 501 120 502\n", MS_FID)
    c("method-vs-function", "    println(a.bump(), bump(), a.bump(), bump());\n", "1 1001 2 1002\n", MS_FID)
    c("through-interface", "    Cnt ia = a;\n    Cnt ib = b;\n    println(ia.bump(), ib.bump(), ia.bump(), ib.bump());\n", "1 1 2 2\n", MS_FID)
    return cases


def struct_param_cases():
    """by-value struct / array parameters are private copies, also when the caller's variable has the SAME NAME as the parameter
    and the struct has nested struct / array members; recursion gives every level its own copy"""
    cases = []
    HDR = ("struct In { int a; int b; };\nstruct Out { In in; int k; int[2] ys; };\n"
           "void poke(Out o) {\n    o.in.a = o.in.a + 100;\n    o.k = o.k + 100;\n    o.ys[1] = o.ys[1] + 100;\n    println(\"poke sees\", o.in.a, o.in.b, o.k, o.ys[1]);\n}\n"
           "void poke2(Out q) {\n    q.in.b = q.in.b + 200;\n    q.k = q.k + 200;\n    println(\"poke2 sees\", q.in.a, q.in.b, q.k);\n}\n"
           "int walk(Out o, int n) {\n    o.in.a = o.in.a + 1;\n    o.k = o.k + 10;\n    if (n == 0) {\n        return o.in.a * 100 + o.k;\n    }\n    int r = walk(o, n - 1);\n    return r + o.in.a * 10000;\n}\n"
           "void pin(In in) {\n    in.a = 77;\n    println(\"pin sees\", in.a);\n}\n"
           "void parr(int[3] ys) {\n    println(\"parr sees\", ys[0]);\n}\n")
    SET = "    Out o;\n    o.in.a = 1;\n    o.in.b = 2;\n    o.k = 3;\n    o.ys[0] = 4;\n    o.ys[1] = 5;\n"

    def c(cid, body, out):
        cases.append({"id": cid, "program": HDR + "int main() {\n" + SET + body + "    println(\"END\");\n    return 0;\n}\n", "expect_class": "ok", "expect_stdout": out + "END\n"})
    c("same-name-nested", "    poke(o);\n    println(\"main has\", o.in.a, o.in.b, o.k, o.ys[1]);\n", "poke sees 101 2 103 105\nmain has 1 2 3 5\n")
    c("same-name-twice", "    poke(o);\n    poke(o);\n    println(\"main has\", o.in.a, o.k);\n", "poke sees 101 2 103 105\npoke sees 101 2 103 105\nmain has 1 3\n")
    c("other-name-nested", "    poke2(o);\n    println(\"main has\", o.in.a, o.in.b, o.k);\n", "poke2 sees 1 202 203\nmain has 1 2 3\n")
    c("recursion-same-name", "    println(walk(o, 2));\n    println(\"main has\", o.in.a, o.k);\n", "%d\nmain has 1 3\n" % ((4 * 100 + 33) + 3 * 10000 + 2 * 10000))
    # (a nested member passed directly, pin(o.in), is rejected by the implementation: not generated)
    c("member-type-same-name", "    In in;\n    in.a = 5;\n    in.b = 6;\n    pin(in);\n    println(\"main has\", in.a, o.in.a);\n", "pin sees 77\nmain has 5 1\n")
    return cases


def default_expr_cases():
    """default values that are expressions over EARLIER parameters of the same call (and over globals): evaluated in the callee's
    frame at every call; the values are computed here"""
    cases = []

    def c(cid, pre, body, out):
        cases.append({"id": cid, "program": pre + "int main() {\n" + body + "    println(\"END\");\n    return 0;\n}\n", "expect_class": "ok", "expect_stdout": out + "END\n"})
    SC = "int scale(int a, int b = a * 2) {\n    return a * 100 + b;\n}\n"
    c("earlier-param", SC, "    println(scale(1), scale(3), scale(1, 5));\n", "102 306 105\n")
    c("earlier-param-caller-local-same-name", SC, "    int a = 7;\n    int b = 9;\n    println(scale(1), scale(2));\n    println(a, b);\n", "102 204\n7 9\n")
    c("earlier-param-from-function", SC + "int twice(int a) {\n    int b = 50;\n    return scale(a) + scale(a + 1);\n}\n", "    println(twice(1), twice(4));\n", "306 918\n")
    c("recursion", "int rec(int n, int acc = n * n) {\n    if (n <= 1) {\n        return acc;\n    }\n    return acc + rec(n - 1);\n}\n", "    println(rec(3), rec(1), rec(4, 100));\n", "14 1 114\n")
    c("global-same-name", "int width = 80;\nint pad(int width, int total = width + 2) {\n    return width * 1000 + total;\n}\n", "    println(pad(5), pad(6, 1), width);\n", "5007 6001 80\n")
    c("global-in-default-changes", "int g = 1;\nint addg(int x, int y = g * 10) {\n    return x + y;\n}\n", "    println(addg(1));\n    g = 5;\n    println(addg(1), addg(1, 2));\n", "11\n51 3\n")
    c("two-defaults-chain", "int chain(int a, int b = a + 1, int c = b * a) {\n    return a * 10000 + b * 100 + c;\n}\n", "    println(chain(2), chain(2, 5), chain(2, 5, 7));\n", "20306 20510 20507\n")
    c("default-calls-function", "int sq(int v) {\n    return v * v;\n}\nint area(int w, int h = sq(w)) {\n    return w * 1000 + h;\n}\n", "    int w = 9;\n    println(area(3), area(3, 4));\n", "3009 3004\n")
    return cases


def main(a):
    c = RefCheck(PID, a, ["CbProofs", "CbProps.C08"], THEOREMS)
    if not c.build():
        return c.v.finish()
    if a.replay:
        return c.replay(a.replay)
    c.witnesses()
    quick = a.tier == "quick"
    c.suite("targeted", targeted(c.gates), nontrivial=lambda r: hash(r.sexp))
    c.raw_suite("default-expressions", default_expr_cases(), max_report=4)
    c.raw_suite("method-statics", method_static_cases(), max_report=4)
    c.raw_suite("struct-parameters", struct_param_cases(), max_report=4)
    n = 400 if quick else 30000
    rnd = [gen_core.gen_program(a.seed, 81, k, c.gates, size=20, features={"reuse_names": True, "calls": True})[0]
           for k in range(n)]
    c.suite("random-callgraphs", rnd, nontrivial=lambda r: hash(r.stdout) if "(call " in r.sexp and r.stdout.count("\n") > 1 else None)
    return c.finish(
        rule="targeted: recursion depth 1..50 with per-level locals, mutual recursion with same-named locals, caller/callee "
             "name reuse, by-value parameters, all (parameter count 0..3 x default count x argument count 0..n+1) arity cells, "
             "boundary return values of every type, interleaved statics; random: call graphs whose functions reuse the same "
             "local names. non-trivial = distinct program containing calls and printing more than one line",
        extra={"exhaustive": False},
        assumptions=["arguments are converted to the parameter type one by one, left to right (calibrated)"])
