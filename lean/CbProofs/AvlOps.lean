/-
  Helper lemmas for CbProofs/Avl.lean, part 2: insert / minKV / remove with respect to the
  search-tree order, lookup and size (no height reasoning).
-/
import CbProofs.AvlBasic
namespace CbModel.Avl

theorem lookup_none_of_not {p : Int → Prop} (t : Tree) (q : Int) (h : allKeys p t) (hq : ¬ p q) :
    lookup t q = none := by
  apply lookup_eq_none_of_allKeys
  refine allKeys_mono ?_ t h
  intro x hx e
  exact hq (e ▸ hx)

/-! ## insert -/

theorem allKeys_insert (p : Int → Prop) (t : Tree) (k v : Int) (h : allKeys p t) (hk : p k) :
    allKeys p (insert t k v) := by
  induction t with
  | nil => exact ⟨trivial, hk, trivial⟩
  | node l x xv hh r ihl ihr =>
    obtain ⟨h1, h2, h3⟩ := h
    rw [insert]
    split
    · exact ⟨h1, h2, h3⟩
    · split
      · rw [allKeys_rebalance]; exact ⟨ihl h1, h2, h3⟩
      · rw [allKeys_rebalance]; exact ⟨h1, h2, ihr h3⟩

theorem bst_insert (t : Tree) (k v : Int) (h : BST t) : BST (insert t k v) := by
  induction t with
  | nil => exact ⟨trivial, trivial, trivial, trivial⟩
  | node l x xv hh r ihl ihr =>
    obtain ⟨h1, h2, h3, h4⟩ := h
    rw [insert]
    split
    · exact ⟨h1, h2, h3, h4⟩
    · split
      · rw [bst_rebalance]
        exact ⟨ihl h1, h2, allKeys_insert _ _ _ _ h3 (by assumption), h4⟩
      · rw [bst_rebalance]
        exact ⟨h1, ihr h2, h3, allKeys_insert _ _ _ _ h4 (by omega)⟩

theorem lookup_insert' (t : Tree) (k v k' : Int) (h : BST t) :
    lookup (insert t k v) k' = if k' = k then some v else lookup t k' := by
  induction t with
  | nil => simp [insert, lookup]
  | node l x xv hh r ihl ihr =>
    have hb := h
    obtain ⟨h1, h2, h3, h4⟩ := h
    rw [insert]
    split
    · rename_i e; subst e
      simp only [lookup]
      by_cases e1 : k' = k <;> simp [e1]
    · split
      · rename_i hne hlt
        have hb' : BST (.node (insert l k v) x xv 0 r) :=
          ⟨bst_insert _ _ _ h1, h2, allKeys_insert _ _ _ _ h3 hlt, h4⟩
        rw [lookup_rebalance _ _ _ _ _ hb', ihl h1]
        simp only [lookup]
        by_cases e1 : k' = k
        · subst e1; simp [hne, hlt]
        · simp [e1]
      · rename_i hne hlt
        have hb' : BST (.node l x xv 0 (insert r k v)) :=
          ⟨h1, bst_insert _ _ _ h2, h3, allKeys_insert _ _ _ _ h4 (by omega)⟩
        rw [lookup_rebalance _ _ _ _ _ hb', ihr h2]
        simp only [lookup]
        by_cases e1 : k' = k
        · subst e1; simp [hne, hlt]
        · simp [e1]

theorem size_insert' (t : Tree) (k v : Int) (h : BST t) :
    size (insert t k v) = if (lookup t k).isSome then size t else size t + 1 := by
  induction t with
  | nil => simp [insert, lookup, size]
  | node l x xv hh r ihl ihr =>
    obtain ⟨h1, h2, h3, h4⟩ := h
    rw [insert]
    split
    · rename_i e; subst e
      simp [lookup, size]
    · split
      · rename_i hne hlt
        rw [size_rebalance, ihl h1]
        simp only [lookup, if_neg hne, if_pos hlt, size]
        split <;> omega
      · rename_i hne hlt
        rw [size_rebalance, ihr h2]
        simp only [lookup, if_neg hne, if_neg hlt, size]
        split <;> omega

/-! ## minKV -/

theorem minKV_none (t : Tree) (h : minKV t = none) : t = .nil := by
  induction t with
  | nil => rfl
  | node l k v hh r ihl _ =>
    cases l with
    | nil => simp [minKV] at h
    | node a xk xv xh b =>
      rw [minKV.eq_3 _ _ _ _ _ (by simp)] at h
      exact absurd (ihl h) (by simp)

theorem minKV_allKeys (p : Int → Prop) (t : Tree) (sk sv : Int) (h : minKV t = some (sk, sv))
    (hp : allKeys p t) : p sk := by
  induction t with
  | nil => simp [minKV] at h
  | node l k v hh r ihl _ =>
    cases l with
    | nil =>
      simp [minKV] at h
      exact h.1 ▸ hp.2.1
    | node a xk xv xh b =>
      rw [minKV.eq_3 _ _ _ _ _ (by simp)] at h
      exact ihl h hp.1

theorem minKV_size (t : Tree) (sk sv : Int) (h : minKV t = some (sk, sv)) : 1 ≤ size t := by
  cases t with
  | nil => simp [minKV] at h
  | node l k v hh r => simp [size]; omega

theorem minKV_bst (t : Tree) (sk sv : Int) (h : minKV t = some (sk, sv)) (hb : BST t) :
    allKeys (sk ≤ ·) t ∧ lookup t sk = some sv := by
  induction t with
  | nil => simp [minKV] at h
  | node l k v hh r ihl _ =>
    obtain ⟨h1, h2, h3, h4⟩ := hb
    cases l with
    | nil =>
      simp [minKV] at h
      obtain ⟨rfl, rfl⟩ := h
      refine ⟨⟨trivial, Int.le_refl _, allKeys_mono (fun x hx => Int.le_of_lt hx) _ h4⟩, ?_⟩
      simp [lookup]
    | node a xk xv xh b =>
      rw [minKV.eq_3 _ _ _ _ _ (by simp)] at h
      obtain ⟨i1, i2⟩ := ihl h h1
      have hlt : sk < k := minKV_allKeys (· < k) _ _ _ h h3
      refine ⟨⟨i1, Int.le_of_lt hlt, allKeys_mono (fun x hx => by omega) _ h4⟩, ?_⟩
      rw [lookup, if_neg (by omega), if_pos hlt, i2]

/-! ## remove: unfolding lemmas -/

theorem remove_lt {l : Tree} {k v : Int} {h : Nat} {r : Tree} {key : Int} (hlt : key < k) :
    remove (.node l k v h r) key = rebalance (remove l key) k v r := by
  cases l <;> simp only [remove, if_pos hlt]

theorem remove_gt {l : Tree} {k v : Int} {h : Nat} {r : Tree} {key : Int} (hgt : k < key) :
    remove (.node l k v h r) key = rebalance l k v (remove r key) := by
  have n : ¬ key < k := by omega
  cases l <;> simp only [remove, if_neg n, gt_iff_lt, if_pos hgt]

theorem remove_eq_lnil {k v : Int} {h : Nat} {r : Tree} :
    remove (.node .nil k v h r) k = r := by
  simp [remove]

theorem remove_eq_rnil {l : Tree} {k v : Int} {h : Nat} {r : Tree} (hl : l ≠ .nil)
    (hm : minKV r = none) : remove (.node l k v h r) k = l := by
  rw [remove.eq_3 _ _ _ _ _ _ hl]; simp [hm]

theorem remove_eq_two {l : Tree} {k v : Int} {h : Nat} {r : Tree} {sk sv : Int} (hl : l ≠ .nil)
    (hm : minKV r = some (sk, sv)) :
    remove (.node l k v h r) k = rebalance l sk sv (remove r sk) := by
  rw [remove.eq_3 _ _ _ _ _ _ hl]; simp [hm]

/-- case principle for `remove` on a node -/
theorem remove_node_cases (l : Tree) (k v : Int) (h : Nat) (r : Tree) (key : Int) :
    (key < k ∧ remove (.node l k v h r) key = rebalance (remove l key) k v r) ∨
    (k < key ∧ remove (.node l k v h r) key = rebalance l k v (remove r key)) ∨
    (key = k ∧ l = .nil ∧ remove (.node l k v h r) key = r) ∨
    (key = k ∧ l ≠ .nil ∧ r = .nil ∧ remove (.node l k v h r) key = l) ∨
    (key = k ∧ l ≠ .nil ∧ ∃ sk sv, minKV r = some (sk, sv) ∧
      remove (.node l k v h r) key = rebalance l sk sv (remove r sk)) := by
  rcases Int.lt_trichotomy key k with hlt | heq | hgt
  · exact Or.inl ⟨hlt, remove_lt hlt⟩
  · subst heq
    by_cases hl : l = .nil
    · subst hl; exact Or.inr (Or.inr (Or.inl ⟨rfl, rfl, remove_eq_lnil⟩))
    · cases hm : minKV r with
      | none =>
        exact Or.inr (Or.inr (Or.inr (Or.inl ⟨rfl, hl, minKV_none _ hm, remove_eq_rnil hl hm⟩)))
      | some p =>
        obtain ⟨sk, sv⟩ := p
        exact Or.inr (Or.inr (Or.inr (Or.inr ⟨rfl, hl, sk, sv, rfl, remove_eq_two hl hm⟩)))
  · exact Or.inr (Or.inl ⟨hgt, remove_gt hgt⟩)

/-! ## remove: order, lookup, size -/

theorem allKeys_remove (p : Int → Prop) (t : Tree) (key : Int) (h : allKeys p t) :
    allKeys p (remove t key) := by
  induction t generalizing key with
  | nil => exact trivial
  | node l k v hh r ihl ihr =>
    obtain ⟨h1, h2, h3⟩ := h
    rcases remove_node_cases l k v hh r key with ⟨_, e⟩ | ⟨_, e⟩ | ⟨_, _, e⟩ | ⟨_, _, _, e⟩ |
      ⟨_, _, sk, sv, hm, e⟩ <;> rw [e]
    · rw [allKeys_rebalance]; exact ⟨ihl _ h1, h2, h3⟩
    · rw [allKeys_rebalance]; exact ⟨h1, h2, ihr _ h3⟩
    · exact h3
    · exact h1
    · rw [allKeys_rebalance]; exact ⟨h1, minKV_allKeys _ _ _ _ hm h3, ihr _ h3⟩

theorem allKeys_ne_remove (t : Tree) (key : Int) (h : BST t) :
    allKeys (· ≠ key) (remove t key) := by
  induction t generalizing key with
  | nil => exact trivial
  | node l k v hh r ihl ihr =>
    obtain ⟨h1, h2, h3, h4⟩ := h
    rcases remove_node_cases l k v hh r key with ⟨c, e⟩ | ⟨c, e⟩ | ⟨c, _, e⟩ | ⟨c, _, _, e⟩ |
      ⟨c, _, sk, sv, hm, e⟩ <;> rw [e]
    · rw [allKeys_rebalance]
      exact ⟨ihl _ h1, by omega, allKeys_mono (fun x hx => by omega) _ h4⟩
    · rw [allKeys_rebalance]
      exact ⟨allKeys_mono (fun x hx => by omega) _ h3, by omega, ihr _ h2⟩
    · exact allKeys_mono (fun x hx => by omega) _ h4
    · exact allKeys_mono (fun x hx => by omega) _ h3
    · rw [allKeys_rebalance]
      have hsk : k < sk := minKV_allKeys (k < ·) _ _ _ hm h4
      exact ⟨allKeys_mono (fun x hx => by omega) _ h3, by omega,
        allKeys_remove _ _ _ (allKeys_mono (fun x hx => by omega) _ h4)⟩

/-- the node built in the two-children case of `remove` is ordered -/
theorem bst_remove_two (l r : Tree) (k sk sv : Int) (h1 : BST l) (h2' : BST (remove r sk))
    (h2 : BST r) (h3 : allKeys (· < k) l)
    (h4 : allKeys (k < ·) r) (hm : minKV r = some (sk, sv)) :
    BST (.node l sk sv 0 (remove r sk)) := by
  have hsk : k < sk := minKV_allKeys (k < ·) _ _ _ hm h4
  refine ⟨h1, h2', allKeys_mono (fun x hx => by omega) _ h3, ?_⟩
  have a1 := allKeys_remove _ _ sk (minKV_bst _ _ _ hm h2).1
  have a2 := allKeys_ne_remove r sk h2
  exact allKeys_mono (fun x hx => by omega) _ (allKeys_and _ a1 a2)

theorem bst_remove (t : Tree) (key : Int) (h : BST t) : BST (remove t key) := by
  induction t generalizing key with
  | nil => exact trivial
  | node l k v hh r ihl ihr =>
    obtain ⟨h1, h2, h3, h4⟩ := h
    rcases remove_node_cases l k v hh r key with ⟨c, e⟩ | ⟨c, e⟩ | ⟨c, _, e⟩ | ⟨c, _, _, e⟩ |
      ⟨c, _, sk, sv, hm, e⟩ <;> rw [e]
    · rw [bst_rebalance]; exact ⟨ihl _ h1, h2, allKeys_remove _ _ _ h3, h4⟩
    · rw [bst_rebalance]; exact ⟨h1, ihr _ h2, h3, allKeys_remove _ _ _ h4⟩
    · exact h2
    · exact h1
    · rw [bst_rebalance]
      exact bst_remove_two l r k sk sv h1 (ihr _ h2) h2 h3 h4 hm

theorem lookup_remove' (t : Tree) (key k' : Int) (h : BST t) :
    lookup (remove t key) k' = if k' = key then none else lookup t k' := by
  induction t generalizing key with
  | nil => simp [remove, lookup]
  | node l k v hh r ihl ihr =>
    obtain ⟨h1, h2, h3, h4⟩ := h
    rcases remove_node_cases l k v hh r key with ⟨c, e⟩ | ⟨c, e⟩ | ⟨c, hl, e⟩ | ⟨c, _, hr, e⟩ |
      ⟨c, _, sk, sv, hm, e⟩ <;> rw [e]
    · have hb' : BST (.node (remove l key) k v 0 r) :=
        ⟨bst_remove _ _ h1, h2, allKeys_remove _ _ _ h3, h4⟩
      rw [lookup_rebalance _ _ _ _ _ hb', ihl _ h1]
      simp only [lookup]
      by_cases e1 : k' = key
      · subst e1; simp [c, Int.ne_of_lt c]
      · simp [e1]
    · have hb' : BST (.node l k v 0 (remove r key)) :=
        ⟨h1, bst_remove _ _ h2, h3, allKeys_remove _ _ _ h4⟩
      rw [lookup_rebalance _ _ _ _ _ hb', ihr _ h2]
      simp only [lookup]
      by_cases e1 : k' = key
      · subst e1
        have : ¬ k' < k := by omega
        have : ¬ k' = k := by omega
        simp [*]
      · simp [e1]
    · subst c hl
      simp only [lookup]
      by_cases e1 : k' = key
      · rw [if_pos e1]; exact lookup_none_of_not _ _ h4 (by omega)
      · rw [if_neg e1, if_neg e1]
        split
        · exact lookup_none_of_not _ _ h4 (by omega)
        · rfl
    · subst c hr
      simp only [lookup]
      by_cases e1 : k' = key
      · rw [if_pos e1]; exact lookup_none_of_not _ _ h3 (by omega)
      · rw [if_neg e1, if_neg e1]
        split
        · rfl
        · exact lookup_none_of_not _ _ h3 (by omega)
    · subst c
      have hb' := bst_remove_two l r key sk sv h1 (bst_remove _ _ h2) h2 h3 h4 hm
      have hsk : key < sk := minKV_allKeys (key < ·) _ _ _ hm h4
      obtain ⟨m1, m2⟩ := minKV_bst _ _ _ hm h2
      rw [lookup_rebalance _ _ _ _ _ hb', ihr _ h2]
      simp only [lookup]
      by_cases e1 : k' = sk
      · subst e1
        rw [if_pos rfl, if_neg (by omega), if_neg (by omega), if_neg (by omega), m2]
      · rw [if_neg e1, if_neg e1]
        by_cases e2 : k' = key
        · subst e2
          rw [if_pos rfl, if_pos hsk]
          exact lookup_none_of_not _ _ h3 (by omega)
        · rw [if_neg e2, if_neg e2]
          by_cases e3 : k' < key
          · rw [if_pos e3, if_pos (by omega)]
          · rw [if_neg e3]
            by_cases e4 : k' < sk
            · rw [if_pos e4, lookup_none_of_not _ _ h3 (by omega),
                lookup_none_of_not _ _ m1 (by omega)]
            · rw [if_neg e4]

theorem size_remove' (t : Tree) (key : Int) (h : BST t) :
    size (remove t key) = if (lookup t key).isSome then size t - 1 else size t := by
  induction t generalizing key with
  | nil => simp [remove, lookup, size]
  | node l k v hh r ihl ihr =>
    obtain ⟨h1, h2, h3, h4⟩ := h
    rcases remove_node_cases l k v hh r key with ⟨c, e⟩ | ⟨c, e⟩ | ⟨c, hl, e⟩ | ⟨c, _, hr, e⟩ |
      ⟨c, _, sk, sv, hm, e⟩ <;> rw [e]
    · rw [size_rebalance, ihl _ h1]
      simp only [lookup, if_neg (Int.ne_of_lt c), if_pos c, size]
      split
      · rename_i hs
        have : 1 ≤ size l := by
          cases l with
          | nil => simp [lookup] at hs
          | node => simp [size]; omega
        omega
      · omega
    · rw [size_rebalance, ihr _ h2]
      have n1 : ¬ key = k := by omega
      have n2 : ¬ key < k := by omega
      simp only [lookup, if_neg n1, if_neg n2, size]
      split
      · rename_i hs
        have : 1 ≤ size r := by
          cases r with
          | nil => simp [lookup] at hs
          | node => simp [size]; omega
        omega
      · omega
    · subst c hl
      simp [lookup, size]
    · subst c hr
      simp [lookup, size]
    · subst c
      obtain ⟨m1, m2⟩ := minKV_bst _ _ _ hm h2
      have := minKV_size _ _ _ hm
      rw [size_rebalance, ihr _ h2, m2]
      simp [lookup, size]
      omega

end CbModel.Avl
