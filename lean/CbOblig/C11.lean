/-
  Obligations on the tables regenerated from generic_instantiation.cpp / ast.h (CbGen/Generic.lean):
  the cache key has the modelled format, and clone_ast_node copies every child-node field of struct ASTNode
  (a child the copier forgets is a generic body whose statements or operands silently disappear).
-/
import CbGen.Generic
namespace CbOblig.C11

theorem key_format_is_modelled : CbGen.keyFormat = CbModel.Generic.stdFormat := by decide

/-- clone_ast_node copies every child-node field of struct ASTNode, and substitute_type_parameters visits every
    child it copies: no statement, operand or type name below a generic function body is dropped or left
    unsubstituted -/
theorem clone_copies_every_child :
    (CbGen.astChildFields.all fun f => CbGen.clonedFields.contains f) = true ∧
    (CbGen.astChildVectors.all fun f => CbGen.clonedVectors.contains f) = true := by
  decide

theorem subst_visits_every_child :
    (CbGen.astChildFields.all fun f => CbGen.substFields.contains f) = true ∧
    (CbGen.astChildVectors.all fun f => CbGen.substVectors.contains f) = true := by
  decide

/-- the data members clone_ast_node deliberately does not assign: `node_type` is given to the constructor of the copy,
    `return_types` is rebuilt by instantiate_generic_function from the substituted return type -/
def notCloned : List String := ["node_type", "return_types"]

/-- every other data member of struct ASTNode — flags, names, literal values, operator strings, dimensions … — is assigned
    in the copy: no construct loses an attribute inside an instantiated generic body -/
theorem clone_copies_every_field :
    (CbGen.astAllFields.all fun f => CbGen.cloneAssigned.contains f || notCloned.contains f) = true := by
  decide

end CbOblig.C11
