import CbModel.FlatIndex
import Mathlib.Tactic.Ring
import Mathlib.Tactic.Linarith
namespace CbModel.FlatIndex

theorem loopRev_append (a b : List (Int × Nat)) (f m : Int) :
    loopRev (a ++ b) f m = (loopRev a f m).bind (fun p => loopRev b p.1 p.2) := by
  induction a generalizing f m with
  | nil => simp [loopRev]
  | cons p a ih =>
    obtain ⟨i, d⟩ := p
    simp only [List.cons_append, loopRev]
    split
    · simp
    · exact ih _ _

theorem loopRev_reverse (ps : List (Int × Nat)) (f m : Int) :
    loopRev ps.reverse f m = (rowMajor ps).map (fun k => (f + k * m, m * prodDims ps)) := by
  induction ps generalizing f m with
  | nil => simp [loopRev, rowMajor, prodDims]
  | cons p r ih =>
    obtain ⟨i, d⟩ := p
    simp only [List.reverse_cons, loopRev_append, ih, rowMajor, prodDims]
    cases hr : rowMajor r with
    | none => simp
    | some k =>
      simp only [Option.map_some, Option.bind_some, loopRev]
      split
      · rfl
      · simp only [Option.map_some, Option.some.injEq, Prod.mk.injEq]
        constructor <;> ring

theorem prodDims_pos (ps : List (Int × Nat)) (h : inRange ps) : 0 < prodDims ps := by
  induction ps with
  | nil => simp [prodDims]
  | cons p r ih =>
    obtain ⟨i, d⟩ := p
    have hp := h (i, d) (List.mem_cons_self)
    have hr := ih (fun q hq => h q (List.mem_cons_of_mem _ hq))
    simp only [prodDims]
    have : (0 : Int) < d := by omega
    exact Int.mul_pos this hr

theorem rowMajor_some_iff (ps : List (Int × Nat)) : (∃ k, rowMajor ps = some k) ↔ inRange ps := by
  induction ps with
  | nil => simp [rowMajor, inRange]
  | cons p r ih =>
    obtain ⟨i, d⟩ := p
    simp only [rowMajor]
    constructor
    · rintro ⟨k, hk⟩
      split at hk
      · simp at hk
      · rename_i hb
        cases hr : rowMajor r with
        | none => simp [hr] at hk
        | some k' =>
          have := ih.mp ⟨k', hr⟩
          intro q hq
          simp only [List.mem_cons] at hq
          rcases hq with rfl | hq
          · simp only; omega
          · exact this q hq
    · intro h
      have hp := h (i, d) (List.mem_cons_self)
      have hr := ih.mpr (fun q hq => h q (List.mem_cons_of_mem _ hq))
      obtain ⟨k', hk'⟩ := hr
      simp only at hp
      rw [if_neg (by omega), hk']
      exact ⟨_, rfl⟩

theorem rowMajor_bounds (ps : List (Int × Nat)) (k : Int) (h : rowMajor ps = some k) :
    0 ≤ k ∧ k < prodDims ps := by
  induction ps generalizing k with
  | nil => simp [rowMajor] at h; simp [prodDims, ← h]
  | cons p r ih =>
    obtain ⟨i, d⟩ := p
    simp only [rowMajor] at h
    split at h
    · simp at h
    · rename_i hb
      cases hr : rowMajor r with
      | none => simp [hr] at h
      | some k' =>
        simp only [hr, Option.map_some, Option.some.injEq] at h
        obtain ⟨h0, h1⟩ := ih k' hr
        subst h
        simp only [prodDims]
        have hi0 : 0 ≤ i := by omega
        have hid : i + 1 ≤ (d : Int) := by omega
        constructor
        · have := Int.mul_nonneg hi0 (Int.le_of_lt (Int.lt_of_le_of_lt h0 h1)); omega
        · have hP : 0 ≤ prodDims r := Int.le_of_lt (Int.lt_of_le_of_lt h0 h1)
          have := Int.mul_le_mul_of_nonneg_right hid hP
          nlinarith

/-- two in-range index tuples over the same extents with the same address are equal -/
theorem rowMajor_injective (ps qs : List (Int × Nat)) (hd : ps.map (·.2) = qs.map (·.2)) (k : Int)
    (hp : rowMajor ps = some k) (hq : rowMajor qs = some k) : ps = qs := by
  induction ps generalizing qs k with
  | nil =>
    cases qs with
    | nil => rfl
    | cons q qs => simp at hd
  | cons p r ih =>
    cases qs with
    | nil => simp at hd
    | cons q s =>
      obtain ⟨i, d⟩ := p
      obtain ⟨j, e⟩ := q
      simp only [List.map_cons, List.cons.injEq] at hd
      obtain ⟨hde, hrs⟩ := hd
      subst hde
      simp only [rowMajor] at hp hq
      split at hp
      · simp at hp
      split at hq
      · simp at hq
      cases hr : rowMajor r with
      | none => simp [hr] at hp
      | some kr =>
        cases hs : rowMajor s with
        | none => simp [hs] at hq
        | some ks =>
          simp only [hr, hs, Option.map_some, Option.some.injEq] at hp hq
          have br := rowMajor_bounds r kr hr
          have bs := rowMajor_bounds s ks hs
          have hprod : prodDims r = prodDims s := by
            clear hp hq hr hs br bs ih
            induction r generalizing s with
            | nil => cases s with
              | nil => rfl
              | cons _ _ => simp at hrs
            | cons a r ih2 =>
              cases s with
              | nil => simp at hrs
              | cons b s =>
                simp only [List.map_cons, List.cons.injEq] at hrs
                obtain ⟨a1, a2⟩ := a
                obtain ⟨b1, b2⟩ := b
                simp only at hrs
                simp only [prodDims, hrs.1, ih2 s hrs.2]
          rw [← hprod] at hq bs
          have hij : i = j := by
            by_contra hne
            rcases Int.lt_or_gt_of_ne hne with hlt | hgt
            · have : (i + 1) * prodDims r ≤ j * prodDims r :=
                Int.mul_le_mul_of_nonneg_right (by omega) (by omega)
              nlinarith
            · have : (j + 1) * prodDims r ≤ i * prodDims r :=
                Int.mul_le_mul_of_nonneg_right (by omega) (by omega)
              nlinarith
          subst hij
          have : kr = ks := by omega
          subst this
          rw [ih s hrs kr hr hs]

/-- every address below the size is hit by some in-range tuple -/
theorem rowMajor_surjective (ds : List Nat) (k : Int) (h0 : 0 ≤ k)
    (h1 : k < prodDims (ds.map (fun d => ((0 : Int), d)))) :
    ∃ ps : List (Int × Nat), ps.map (·.2) = ds ∧ rowMajor ps = some k := by
  induction ds generalizing k with
  | nil =>
    simp only [List.map_nil, prodDims] at h1
    exact ⟨[], rfl, by simp [rowMajor]; omega⟩
  | cons d r ih =>
    simp only [List.map_cons, prodDims] at h1
    set P := prodDims (r.map (fun d => ((0 : Int), d))) with hP
    have hPpos : 0 < P := by
      by_contra hn
      have : P ≤ 0 := by omega
      have : (d : Int) * P ≤ 0 := Int.mul_nonpos_of_nonneg_of_nonpos (by omega) this
      omega
    obtain ⟨ps, hps, hk⟩ := ih (k % P) (Int.emod_nonneg _ (by omega)) (Int.emod_lt_of_pos _ hPpos)
    have hprod : prodDims ps = P := by
      clear hk ih h1 hPpos
      rw [hP, ← hps]
      clear hps hP
      induction ps with
      | nil => rfl
      | cons a ps ih2 => obtain ⟨a1, a2⟩ := a; simp only [List.map_cons, prodDims, ih2]
    refine ⟨(k / P, d) :: ps, by simp [hps], ?_⟩
    have hq0 : 0 ≤ k / P := Int.ediv_nonneg h0 (by omega)
    have hqd : k / P < d := by
      rw [Int.ediv_lt_iff_lt_mul hPpos]; exact h1
    simp only [rowMajor]
    rw [if_neg (by omega), hk, hprod]
    simp only [Option.map_some, Option.some.injEq]
    have := Int.mul_ediv_add_emod k P
    rw [Int.mul_comm]; exact this

end CbModel.FlatIndex
