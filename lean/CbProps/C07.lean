/-
  C07 — structs and arrays copy by value; pointers, references and self alias coherently.
  Property theorems over the value-tree model (CbModel/Heap.lean), for an arbitrary type `α` of scalar leaves.  Statements are fixed; proofs only.
-/
import CbModel.Heap
import CbProofs.Heap
namespace CbProps.C07
open CbModel.Heap

variable {α : Type}

/-- a write is read back through the same cell -/
theorem get_set_same (p : Path) (t nv : Val α) (h : (get p t).isSome) : get p (set p t nv) = some nv := by
  exact CbProofs.Heap.get_set_same p t nv h

/-- a write into one cell leaves every non-overlapping cell unchanged -/
theorem get_set_disjoint (p q : Path) (t nv : Val α) (h : Disjoint p q) : get q (set p t nv) = get q t := by
  exact CbProofs.Heap.get_set_disjoint p q t nv h

/-- after replacing a subtree, the cells below it are the parts of the new value -/
theorem get_set_below (p r : Path) (t nv : Val α) (h : (get p t).isSome) :
    get (p ++ r) (set p t nv) = get r nv := by
  exact CbProofs.Heap.get_set_below p r t nv h



theorem disjoint_symm (p q : Path) (h : Disjoint p q) : Disjoint q p := by
  exact CbProofs.Heap.disjoint_symm p q h

theorem disjoint_append_left (p q r : Path) (h : Disjoint p q) : Disjoint (p ++ r) q := by
  exact CbProofs.Heap.disjoint_append_left p q r h

/-- **Copies are independent.**  After `dst = src` (two non-overlapping objects) both hold the same value, and a
    later write anywhere inside either one is never visible through the other -/
theorem copy_independent (s : St α) (dst src : Path) (v : Val α) (hd : Disjoint dst src)
    (hdv : (get dst s.root).isSome) (hs : get src s.root = some v) :
    get dst (copy s (.direct dst) (.direct src)).root = some v ∧
    get src (copy s (.direct dst) (.direct src)).root = some v ∧
    (∀ r n, get src (write (copy s (.direct dst) (.direct src)) (.direct (dst ++ r)) n).root = some v) ∧
    (∀ r n, get dst (write (copy s (.direct dst) (.direct src)) (.direct (src ++ r)) n).root = some v) := by
  have hc : (copy s (.direct dst) (.direct src)).root = CbModel.Heap.set dst s.root v := by
    simp [copy, resolve, CbModel.Heap.read, hs]
  have h1 : CbModel.Heap.get dst (CbModel.Heap.set dst s.root v) = some v :=
    CbProofs.Heap.get_set_same dst s.root v hdv
  have h2 : CbModel.Heap.get src (CbModel.Heap.set dst s.root v) = some v := by
    rw [CbProofs.Heap.get_set_disjoint dst src s.root v hd]; exact hs
  refine ⟨by rw [hc]; exact h1, by rw [hc]; exact h2, ?_, ?_⟩
  · intro r n
    rw [CbProofs.Heap.write_root _ _ (dst ++ r) n rfl, hc,
      CbProofs.Heap.get_set_disjoint _ _ _ _ (CbProofs.Heap.disjoint_append_left dst src r hd)]
    exact h2
  · intro r n
    rw [CbProofs.Heap.write_root _ _ (src ++ r) n rfl, hc,
      CbProofs.Heap.get_set_disjoint _ _ _ _
        (CbProofs.Heap.disjoint_append_left src dst r (CbProofs.Heap.disjoint_symm dst src hd))]
    exact h1

/-- **Aliases are coherent (1).**  Two access paths that denote the same cell always read the same value -/
theorem alias_reads_agree (s : St α) (a b : Acc) (h : resolve s a = resolve s b) : read s a = read s b := by
  simp only [CbModel.Heap.read, h]

/-- **Aliases are coherent (2).**  A write through any access path (plain name, member path, pointer, reference
    parameter, array parameter, self) is visible through every other access path to the same cell as soon as the
    write completes -/
theorem alias_write_visible (s : St α) (a b : Acc) (p : Path) (n : α)
    (ha : resolve s a = some p) (hb : resolve s b = some p) (hv : (get p s.root).isSome) :
    read (write s a n) b = some (.leaf n) := by
  rw [CbProofs.Heap.read_write s a b p p n ha hb]
  exact CbProofs.Heap.get_set_same p s.root (.leaf n) hv

/-- ... and through access paths to enclosing objects: reading a struct that contains the written cell sees the
    new scalar at that position -/
theorem alias_write_visible_above (s : St α) (a b : Acc) (p r : Path) (n : α)
    (ha : resolve s a = some (p ++ r)) (hb : resolve s b = some p) (hv : (get (p ++ r) s.root).isSome) :
    (read (write s a n) b).bind (get r) = some (.leaf n) := by
  rw [CbProofs.Heap.read_write s a b (p ++ r) p n ha hb, ← CbProofs.Heap.get_append]
  exact CbProofs.Heap.get_set_same (p ++ r) s.root (.leaf n) hv

/-- a write through one access path changes nothing that is read through a path to a non-overlapping cell -/
theorem write_frame (s : St α) (a b : Acc) (p q : Path) (n : α)
    (ha : resolve s a = some p) (hb : resolve s b = some q) (hd : Disjoint p q) :
    read (write s a n) b = read s b := by
  rw [CbProofs.Heap.read_write s a b p q n ha hb, CbProofs.Heap.get_set_disjoint p q s.root (.leaf n) hd]
  simp [CbModel.Heap.read, hb]

/-- a by-value call (the callee works on its own copy) changes nothing in the caller -/
theorem byvalue_call_changes_nothing (s : St α) : step s .nop = s := rfl

/-- layouts are stable: a scalar store keeps the shape of the whole object graph, and a copy between objects of
    the same shape does too (so every access path valid before an operation is valid after it) -/
theorem write_keeps_shape (s : St α) (a : Acc) (n m : α) (h : read s a = some (.leaf m)) :
    sameShape s.root (write s a n).root = true := by
  obtain ⟨p, hp, hg⟩ := CbProofs.Heap.read_eq_some s a _ h
  rw [CbProofs.Heap.write_root s a p n hp]
  exact CbProofs.Heap.sameShape_set p s.root (.leaf m) (.leaf n) hg (by simp [sameShape])

/-- an in-place update `x = f x` of a scalar cell is the store of `f` of the value read there -/
theorem modify_is_write {α : Type} (s : St α) (a : Acc) (f : α → α) (m : α) (h : read s a = some (.leaf m)) :
    modify s a f = write s a (f m) := by
  simp only [CbModel.Heap.modify, h]

/-- ... so it keeps the shape of the whole object graph, like a scalar store -/
theorem modify_keeps_shape {α : Type} (s : St α) (a : Acc) (f : α → α) (m : α) (h : read s a = some (.leaf m)) :
    sameShape s.root (modify s a f).root = true := by
  rw [modify_is_write s a f m h]
  exact write_keeps_shape s a (f m) m h

theorem copy_keeps_shape (s : St α) (dst src : Acc) (vd vs : Val α)
    (hd : read s dst = some vd) (hs : read s src = some vs) (hsh : sameShape vd vs = true) :
    sameShape s.root (copy s dst src).root = true := by
  obtain ⟨p, hp, hg⟩ := CbProofs.Heap.read_eq_some s dst _ hd
  have hc : (copy s dst src).root = CbModel.Heap.set p s.root vs := by
    simp [copy, hp, hs]
  rw [hc]
  exact CbProofs.Heap.sameShape_set p s.root vd vs hg hsh

/-- same shape = same set of valid paths -/
theorem sameShape_get_isSome (t u : Val α) (p : Path) (h : sameShape t u = true) :
    (get p t).isSome = (get p u).isSome := by
  exact CbProofs.Heap.sameShape_get_isSome t u p h

/-- non-vacuity: a concrete object graph  o1 = {1, {2, 3}, [6, 7]}, o2 = copy, pointer 0 -> o1 -/
example :
    let o : Val Int := .node [.leaf 1, .node [.leaf 2, .leaf 3], .node [.leaf 6, .leaf 7]]
    let s : St Int := ⟨.node [o, o], [[0]]⟩
    read (write s (.via 0 [1, 0]) 9) (.direct [0, 1, 0]) = some (.leaf 9) ∧
    read (write s (.via 0 [1, 0]) 9) (.direct [1, 1, 0]) = some (.leaf 2) := by
  intro o s
  exact ⟨rfl, rfl⟩

/-- the integer instance: `addTo` is `modify` with `(· + n)`, and `step (.upd a (· + n))` performs it -/
example :
    let s : St Int := ⟨.node [.leaf 1, .node [.leaf 2, .leaf 3]], [[1]]⟩
    read (addTo s (.via 0 [1]) 4) (.direct [1, 1]) = some (.leaf 7) ∧
    step s (.upd (.via 0 [1]) (· + 4)) = addTo s (.via 0 [1]) 4 := by
  intro s
  exact ⟨rfl, rfl⟩

/-- non-vacuity of the generalisation: string leaves.  A write through pointer 0 (-> the inner struct) is read back
    through the direct path; the other string is untouched; an in-place update appends through the pointer -/
example :
    let s : St String := ⟨.node [.leaf "ab", .node [.leaf "c"]], [[1]]⟩
    read (write s (.via 0 [0]) "xyz") (.direct [1, 0]) = some (.leaf "xyz") ∧
    read (write s (.via 0 [0]) "xyz") (.direct [0]) = some (.leaf "ab") ∧
    flatten (modify s (.via 0 [0]) (· ++ "d")).root = ["ab", "cd"] := by
  intro s
  exact ⟨rfl, rfl, by decide⟩

end CbProps.C07
