/- helper lemmas for CbProps/C18.lean -/
import CbModel.Imports
namespace CbProofs.Imports
open CbModel.Imports

theorem lookup_cons (k : String) (v : Nat) (r : Table) (n : String) :
    lookup ((k, v) :: r) n = if k = n then some v else lookup r n := rfl

theorem lookup_nil (n : String) : lookup [] n = none := rfl

/-- the fold over a start table is the fold over the empty table, falling back to the start table -/
theorem lookup_foldl (items : List Item) (t : Table) (n : String) :
    lookup (items.foldl register t) n = match lookup (items.foldl register []) n with
      | some b => some b
      | none => lookup t n := by
  induction items generalizing t with
  | nil => simp [lookup_nil]
  | cons it r ih =>
    simp only [List.foldl_cons]
    rw [ih (register t it), ih (register [] it)]
    cases h : lookup (r.foldl register []) n with
    | some b => rfl
    | none =>
      simp only [register, lookup_cons, lookup_nil]
      split <;> rfl

theorem lookup_foldl_none (items : List Item) (n : String)
    (h : ∀ it ∈ items, it.name ≠ n) : lookup (items.foldl register []) n = none := by
  induction items with
  | nil => rfl
  | cons it r ih =>
    simp only [List.foldl_cons]
    rw [lookup_foldl, ih (fun x hx => h x (List.mem_cons_of_mem _ hx))]
    simp only [register, lookup_cons, lookup_nil]
    rw [if_neg (h it List.mem_cons_self)]

theorem findModule_some (mods : List Module) (p : String) (m : Module)
    (h : findModule mods p = some m) : m ∈ mods ∧ m.path = p := by
  induction mods with
  | nil => simp [findModule] at h
  | cons a r ih =>
    simp only [findModule] at h
    split at h
    · next hp =>
      cases h
      exact ⟨List.mem_cons_self, hp⟩
    · exact ⟨List.mem_cons_of_mem _ (ih h).1, (ih h).2⟩

theorem importM_table (mods : List Module) (s s' : St) (p : String) (m : Module)
    (hn : p ∉ s.loaded) (hm : findModule mods p = some m) (h : importM mods s p = some s') :
    s' = ⟨p :: s.loaded, (exportsOf m).foldl register s.table⟩ := by
  simp only [importM, if_neg hn, hm] at h
  cases h; rfl

theorem import_exact (mods : List Module) (s s' : St) (p : String) (m : Module)
    (hn : p ∉ s.loaded) (hm : findModule mods p = some m) (h : importM mods s p = some s') (n : String) :
    lookup s'.table n = match exportedBody m n with
      | some b => some b
      | none => lookup s.table n := by
  rw [importM_table mods s s' p m hn hm h]
  exact lookup_foldl _ _ _

/-- the table invariant: a name resolves to `b` iff a loaded module exports it as `b` -/
def Inv (mods : List Module) (s : St) : Prop :=
  ∀ n b, lookup s.table n = some b ↔ ∃ m ∈ mods, m.path ∈ s.loaded ∧ exportedBody m n = some b

theorem inv_init (mods : List Module) : Inv mods init := by
  intro n b
  simp [init, lookup_nil]

theorem importM_loaded (mods : List Module) (s s' : St) (p : String)
    (h : importM mods s p = some s') : ∀ q, q ∈ s'.loaded ↔ q ∈ s.loaded ∨ q = p := by
  intro q
  unfold importM at h
  split at h
  · next hp =>
    cases h
    constructor
    · exact Or.inl
    · rintro (h | h)
      · exact h
      · exact h ▸ hp
  · split at h
    · cases h
    · cases h
      simp only [List.mem_cons]
      exact Or.comm

theorem importM_inv (mods : List Module) (s s' : St) (p : String)
    (hu : UniquePaths mods) (hd : DisjointExports mods)
    (h : importM mods s p = some s') (hi : Inv mods s) : Inv mods s' := by
  by_cases hp : p ∈ s.loaded
  · simp only [importM, if_pos hp] at h
    cases h; exact hi
  · cases hm : findModule mods p with
    | none => simp [importM, hp, hm] at h
    | some m =>
      obtain ⟨hmem, hpath⟩ := findModule_some mods p m hm
      have hex := import_exact mods s s' p m hp hm h
      have hl : s'.loaded = p :: s.loaded := by
        rw [importM_table mods s s' p m hp hm h]
      intro n b
      rw [hex n, hl]
      constructor
      · intro hlk
        cases he : exportedBody m n with
        | some b' =>
          rw [he] at hlk
          cases hlk
          exact ⟨m, hmem, by rw [hpath]; exact List.mem_cons_self, he⟩
        | none =>
          rw [he] at hlk
          obtain ⟨m2, h2, h2l, h2e⟩ := (hi n b).1 hlk
          exact ⟨m2, h2, List.mem_cons_of_mem _ h2l, h2e⟩
      · rintro ⟨m2, h2, h2l, h2e⟩
        rcases List.mem_cons.1 h2l with heq | hin
        · have : m2 = m := hu m2 h2 m hmem (heq.trans hpath.symm)
          subst this
          rw [h2e]
        · cases he : exportedBody m n with
          | some b' =>
            exfalso
            have := hd m hmem m2 h2 n (by rw [he]; rfl) (by rw [h2e]; rfl)
            apply hp
            rw [← hpath, this]; exact hin
          | none =>
            exact (hi n b).2 ⟨m2, h2, hin, h2e⟩

theorem importAll_inv (mods : List Module) (hu : UniquePaths mods) (hd : DisjointExports mods)
    (ps : List String) (s0 s : St) (h : importAll mods s0 ps = some s) (hi : Inv mods s0) :
    Inv mods s ∧ ∀ q, q ∈ s.loaded ↔ q ∈ s0.loaded ∨ q ∈ ps := by
  induction ps generalizing s0 with
  | nil =>
    simp only [importAll] at h
    cases h
    exact ⟨hi, fun q => by simp⟩
  | cons p r ih =>
    simp only [importAll] at h
    cases hm : importM mods s0 p with
    | none => rw [hm] at h; cases h
    | some s1 =>
      rw [hm] at h
      obtain ⟨hinv, hl⟩ := ih s1 h (importM_inv mods s0 s1 p hu hd hm hi)
      refine ⟨hinv, fun q => ?_⟩
      rw [hl q, importM_loaded mods s0 s1 p hm q, List.mem_cons, or_assoc]

theorem lookup_after_imports (mods : List Module) (ps : List String) (s : St)
    (hu : UniquePaths mods) (hd : DisjointExports mods) (h : importAll mods init ps = some s) (n : String) (b : Nat) :
    lookup s.table n = some b ↔ ∃ m ∈ mods, m.path ∈ ps ∧ exportedBody m n = some b := by
  obtain ⟨hinv, hl⟩ := importAll_inv mods hu hd ps init s h (inv_init mods)
  rw [hinv n b]
  have hl' : ∀ q, q ∈ s.loaded ↔ q ∈ ps := fun q => by rw [hl q]; simp [init]
  constructor
  · rintro ⟨m, a, b, c⟩; exact ⟨m, a, (hl' _).1 b, c⟩
  · rintro ⟨m, a, b, c⟩; exact ⟨m, a, (hl' _).2 b, c⟩

end CbProofs.Imports
