"""C01 — sequential core programs mean what the documented C-like semantics say.

Theorems: lean/CbProps/C01.lean (arithmetic laws, output discipline, loop rules on CbRef).
Tie: generated core programs run by cbdriver ref (Lean reference semantics) and by the interpreter
built from the working tree; stdout + exit class compared.
"""
import common, gen_core
from props.refprops import RefCheck

PID = "C01"
THEOREMS = {"CbProps.C01": ["CbProps.C01." + t for t in [
    "tdiv_tmod_spec", "div_mod_zero_is_error", "shr_floor", "output_prefix_monotone", "call_output_monotone",
    "nothing_after_error", "error_is_nonzero_exit", "for_continue_runs_update", "break_leaves_loop",
    "for_as_init_then_loop", "meaning_independent_of_fuel", "two_terminating_runs_agree"]]}

BIN = ["add", "sub", "mul", "div", "mod", "shl", "shr", "band", "bor", "bxor", "lt", "le", "gt", "ge", "eq", "ne",
       "land", "lor"]
VALS_Q = [0, 1, -1, 2, 7, -8, 127, 2**31 - 1, -2**31, 2**62, 2**63 - 1]
VALS_T = VALS_Q + [128, 255, 256, -129, 2**32, 2**31, -2**62, -2**63 + 1, 63, 64, 3]
SHIFTS = [0, 1, 2, 7, 31, 32, 33, 40, 62, 63]
CONTEXTS = ["init", "assign", "cond", "index", "arg", "ret", "print", "interp"]


def lit(n):
    return "(lit %d)" % n


def ctx_program(e_main, e_ret, a, b, contexts):
    """expression E over globals x=a, y=b observed in the given evaluation contexts"""
    body = []
    if "init" in contexts:
        body.append("(decl - long i1 %s) (print (s \"init\") (e (var i1)))" % e_main)
    if "assign" in contexts:
        body.append("(decl - long a1 (lit 0)) (assign (var a1) %s) (print (s \"assign\") (e (var a1)))" % e_main)
    if "cond" in contexts:
        body.append("(if %s ((print (s \"cond1\"))) ((print (s \"cond0\"))))" % e_main)
    if "index" in contexts:
        body.append("(declarr - long arr (dims 2) (init (lit 11) (lit 22))) "
                    "(print (s \"index\") (e (idx arr (bin band %s (lit 1)))))" % e_main)
    if "arg" in contexts:
        body.append("(print (s \"arg\") (e (call idl %s)))" % e_main)
    if "ret" in contexts:
        body.append("(print (s \"ret\") (e (call retf)))")
    if "print" in contexts:
        body.append("(print (s \"print\") (e %s))" % e_main)
    if "interp" in contexts:
        body.append("(printi (s \"interp \") (e %s) (s \";\"))" % e_main)
    body.append("(print (s \"END\")) (ret (lit 0))")
    return ("(prog (structs) (globals (decl - long x %s) (decl - long y %s)) (funcs "
            "(func idl long (params (long q)) ((ret (var q)))) "
            "(func retf long (params) ((ret %s))) "
            "(func main int (params) (%s))))" % (lit(a), lit(b), e_ret, " ".join(body)))


def context_suite(vals, gates):
    for op in BIN:
        for a in (vals if op not in ("shl", "shr") else vals + [2**40 + 5, -(2**40) - 5, 2**33]):
            for b in (vals if op not in ("shl", "shr") else SHIFTS):
                if op in ("shl", "shr") and not (0 <= b < 64):
                    continue
                if op == "mod" and b == -1 and a == -2**63 + 0:
                    continue
                e = "(bin %s (var x) (var y))" % op
                ctxs = list(CONTEXTS)
                if op in ("div", "mod") and b == 0:
                    # the error must surface in every context: one program per context
                    for c in ctxs:
                        yield ctx_program(e, e, a, b, [c])
                else:
                    yield ctx_program(e, e, a, b, ctxs)
    for op in ["neg", "not", "bnot"]:
        for a in vals:
            e = "(un %s (var x))" % op
            yield ctx_program(e, e, a, 0, CONTEXTS)
    for a in vals[:6]:
        for b in vals[:6]:
            e = "(tern (bin lt (var x) (var y)) (bin add (var x) (lit 1)) (bin sub (var y) (lit 1)))"
            ctxs = [c for c in CONTEXTS if not (c == "interp" and "interp_ternary" in gates)]
            yield ctx_program(e, e, a, b, ctxs)
    # literal operands (no variables): constant path
    for op in BIN:
        for (a, b) in [(7, 2), (-7, 2), (7, -2), (-7, -2), (1, 0), (0, 0), (2**31, 2), (-1, 63 if op in ("shl", "shr") else 5)]:
            if op in ("shl", "shr") and not (0 <= b < 64):
                continue
            e = "(bin %s %s %s)" % (op, lit(a), lit(b))
            yield ctx_program(e, e, a, b, CONTEXTS if not (op in ("div", "mod") and b == 0) else ["init"])


def incdec_value_programs():
    """the VALUE of ++ / -- (prefix: new, postfix: old) on every kind of integer lvalue, used in every kind of context"""
    lvs = [("(var x)", "(decl - int x (lit 20))", "(e (var x))"),
           ("(idx a (lit 1))", "(declarr - int a (dims 3) (init (lit 10) (lit 20) (lit 30)))", "(e (idx a (lit 1)))"),
           ("(idx a (var k))", "(declarr - int a (dims 3) (init (lit 10) (lit 20) (lit 30))) (decl - int k (lit 2))", "(e (idx a (lit 2)))"),
           ("(idx m (lit 1) (lit 0))", "(declarr - int m (dims 2 2)) (assign (idx m (lit 0) (lit 0)) (lit 1)) (assign (idx m (lit 0) (lit 1)) (lit 2)) (assign (idx m (lit 1) (lit 0)) (lit 20)) (assign (idx m (lit 1) (lit 1)) (lit 4))", "(e (idx m (lit 1) (lit 0)))"),
           ("(idx la (lit 0))", "(declarr - long la (dims 2) (init (lit 5000000000) (lit 7)))", "(e (idx la (lit 0)))"),
           ("(idx ta (lit 1))", "(declarr - tiny ta (dims 2) (init (lit 1) (lit 100)))", "(e (idx ta (lit 1)))"),
           ("(fld s f)", "(declstruct S s) (assign (fld s f) (lit 20)) (assign (fld s g) (lit 1))", "(e (fld s f))"),
           ("(fldidx s arr (lit 1))", "(declstruct S s) (assign (fldidx s arr (lit 0)) (lit 3)) (assign (fldidx s arr (lit 1)) (lit 20))", "(e (fldidx s arr (lit 1)))"),
           ("(idx ga (lit 1))", "", "(e (idx ga (lit 1)))")]
    out = []
    for lv, decl, show in lvs:
        for pre in ("pre", "post"):
            for inc in ("inc", "dec"):
                e = "(incdec %s %s %s)" % (pre, inc, lv)
                ctxs = ["(decl - long v %s) (print (e (var v)) %s)" % (e, show),
                        "(decl - long v (lit 0)) (assign (var v) %s) (print (e (var v)) %s)" % (e, show),
                        "(print (e %s) %s)" % (e, show),
                        "(print (e (bin add %s %s)) %s)" % (e, "(incdec pre %s %s)" % (inc, lv), show),
                        "(decl - long n (lit 0)) (while (bin gt %s (lit 17)) ((compound add (var n) (lit 1)) (if (bin gt (var n) (lit 9)) ((break))))) (print (e (var n)) %s)" % ("(incdec %s dec %s)" % (pre, lv), show),
                        "(print (e (call idf %s)) %s)" % (e, show),
                        "(print (e (tern (bin gt %s (lit 20)) (lit 1) (lit 2))) %s)" % (e, show),
                        "(decl - long v (bin mul %s (lit 2))) (print (e (var v)) %s)" % (e, show),
                        "(printi (s \"v=\") (e %s) (s \";\")) (print %s)" % (e, show)]
                for c in ctxs:
                    out.append("(prog (structs (struct S (field int f) (field int g) (field int arr 2))) (globals (declarr - int ga (dims 3) (init (lit 10) (lit 20) (lit 30)))) "
                               "(funcs (func idf long (params (long q)) ((ret (var q)))) (func main int (params) (%s %s (print (s \"END\")) (ret (lit 0))))))" % (decl, c))
    return out


def switch_programs(seed, n):
    """if / else-if chains over one plain variable (clauses overlap, bodies may change the tested variable or leave the
    enclosing loop); the rendered text is rewritten into a `switch` statement (refrun.ifchain_to_switch)"""
    from common import Rng
    r = Rng(seed, 71)

    def cond(var):
        k = r.below(3)
        if k == 0:
            return "(bin eq (var %s) (lit %d))" % (var, r.below(9))
        if k == 1:
            lo = r.below(8)
            return "(bin land (bin ge (var %s) (lit %d)) (bin le (var %s) (lit %d)))" % (var, lo, var, lo + r.range(0, 5))
        vs = [r.below(12) for _ in range(r.range(2, 3))]
        e = "(bin eq (var %s) (lit %d))" % (var, vs[0])
        for x in vs[1:]:
            e = "(bin lor %s (bin eq (var %s) (lit %d)))" % (e, var, x)
        return e

    def body(var, tag, in_loop):
        st = ["(assign (var r) (lit %d))" % tag]
        k = r.below(10)
        if k < 4:
            st.append("(assign (var %s) (lit %d))" % (var, r.below(12)))          # the tested variable changes
        elif k < 5:
            st.append("(compound add (var %s) (lit 1))" % var)
        elif k < 6 and in_loop:
            st.append("(print (s \"k\") (e (var r)))")
            st.append("(%s)" % r.choice(["break", "continue"]))
        elif k < 7:
            st.append("(print (s \"c\") (e (var %s)))" % var)
        return " ".join(st)

    def chain(var, in_loop):
        n_cl = r.range(2, 4)
        conds = [cond(var) for _ in range(n_cl)]
        bodies = [body(var, 10 + i, in_loop) for i in range(n_cl)]
        tail = "(%s)" % body(var, 99, in_loop) if r.below(3) else None
        txt = None
        for cnd, b in reversed(list(zip(conds, bodies))):
            if txt is None:
                txt = "(if %s (%s) %s)" % (cnd, b, tail) if tail else "(if %s (%s))" % (cnd, b)
            else:
                txt = "(if %s (%s) (%s))" % (cnd, b, txt)
        return txt

    for k in range(n):
        shape = k % 3
        if shape == 0:      # classify every value
            main = ("(for (decl - int v (lit 0)) (bin lt (var v) (lit 13)) (compound add (var v) (lit 1)) "
                    "((decl - int x (var v)) (decl - int r (lit 0)) %s (print (e (var v)) (e (var r)) (e (var x)))))" % chain("x", True))
        elif shape == 1:    # state machine: the clauses move the tested variable
            main = ("(decl - int st (lit %d)) (decl - int r (lit 0)) (decl - int t (lit 0)) "
                    "(while (bin land (bin ne (var st) (lit 11)) (bin lt (var t) (lit 12))) "
                    "((compound add (var t) (lit 1)) %s (print (e (var t)) (e (var st)) (e (var r)))))" % (r.below(6), chain("st", True)))
        else:               # in a function, twice in a row
            main = ("(decl - int x (lit %d)) (decl - int r (lit 0)) %s (print (e (var r)) (e (var x))) %s (print (e (var r)) (e (var x)))"
                    % (r.below(12), chain("x", False), chain("x", False)))
        yield "(prog (structs) (globals) (funcs (func main int (params) (%s (print (s \"END\")) (ret (lit 0))))))" % main


def main(a):
    c = RefCheck(PID, a, ["CbProofs", "CbProps.C01"], THEOREMS)
    if not c.build():
        return c.v.finish()
    if a.replay:
        return c.replay(a.replay)
    c.witnesses()
    quick = a.tier == "quick"
    c.suite("contexts", context_suite(VALS_Q if quick else VALS_T, c.gates),
            nontrivial=lambda r: hash(r.sexp) if r.status != "undef" else None)
    import refrun
    c.suite("incdec-values", incdec_value_programs(), nontrivial=lambda r: hash(r.sexp), max_report=4)
    c.suite("switch", list(switch_programs(a.seed, 150 if quick else 6000)), nontrivial=lambda r: hash(r.stdout),
            max_report=4, source_transform=refrun.ifchain_to_switch)
    n = 1500 if quick else 150000
    stats = {}
    batch = []
    for k in range(n):
        s, st = gen_core.gen_program(a.seed, 11, k, c.gates, size=30 if quick else 60)
        for kk, vv in st.items():
            stats[kk] = stats.get(kk, 0) + vv
        batch.append(s)
        if len(batch) >= 5000:
            c.suite("random-core", batch, nontrivial=lambda r: hash(r.stdout) if r.stdout.count("\n") > 2 else None)
            batch = []
    c.suite("random-core", batch, nontrivial=lambda r: hash(r.stdout) if r.stdout.count("\n") > 2 else None)
    return c.finish(
        rule="contexts: every binary/unary operator x boundary operand pairs observed in 8 evaluation contexts "
             "(exhaustive on the value list); switch: if / else-if chains over one variable with overlapping clauses and "
             "bodies that change it, rewritten in the rendered text into switch statements; random-core: type-directed programs (generator tools/gen_core.py) from "
             "VERIF_SEED; non-trivial = distinct program whose model run is inside the fragment and prints > 2 lines",
        extra={"generator_feature_counts": stats, "exhaustive": False},
        assumptions=["int64 overflow, shifts outside 0..63 and bool stores other than 0/1 are outside the fragment "
                     "(model says undef; such programs are discarded and counted)",
                     "floating point is not modelled"])
