/- CbRef syntax → Cb source text.  Binary/ternary expressions are printed fully parenthesised
   (precedence is C02's subject, not this printer's). -/
import CbModel.Ref.Syntax
namespace CbModel.Ref

def Ty.show (t : Ty) : String :=
  (if t.uns then "unsigned " else "") ++
  (match t.base with
   | .tiny => "tiny" | .short => "short" | .int => "int" | .long => "long"
   | .char => "char" | .bool => "bool")

def BinOp.sym : BinOp → String
  | .add => "+" | .sub => "-" | .mul => "*" | .div => "/" | .mod => "%" | .shl => "<<"
  | .shr => ">>" | .band => "&" | .bor => "|" | .bxor => "^" | .lt => "<" | .le => "<="
  | .gt => ">" | .ge => ">=" | .eq => "==" | .ne => "!=" | .land => "&&" | .lor => "||"

def UnOp.sym : UnOp → String
  | .neg => "-" | .not => "!" | .bnot => "~"

def showLit (n : Int) : String :=
  if n == -9223372036854775808 then "(-9223372036854775807 - 1)"
  else if n < 0 then "-" ++ toString (-n) else toString n

/-- binding strength used by the printer: the specification's table -/
def BinOp.prec : BinOp → Nat
  | .mul => 13 | .div => 13 | .mod => 13
  | .add => 12 | .sub => 12
  | .shl => 11 | .shr => 11
  | .lt => 10 | .le => 10 | .gt => 10 | .ge => 10 | .eq => 9 | .ne => 9
  | .band => 8 | .bxor => 7 | .bor => 6 | .land => 5 | .lor => 4

def wrapIf (b : Bool) (s : String) : String := if b then "(" ++ s ++ ")" else s

mutual
/-- print `e` in a context that requires binding strength at least `ctx`: minimal parentheses -/
partial def showP (ctx : Nat) (e : Expr) : String :=
  match e with
  | .lit n => if n < 0 && n != -9223372036854775808 then wrapIf (ctx > 14) (showLit n) else showLit n
  | .var x => x
  | .idx x is => x ++ String.join (is.map fun i => "[" ++ showP 0 i ++ "]")
  | .fld x f => x ++ "." ++ f
  | .fldIdx x f is => x ++ "." ++ f ++ String.join (is.map fun i => "[" ++ showP 0 i ++ "]")
  | .bin op a b =>
      let p := op.prec
      wrapIf (ctx > p) (showP p a ++ " " ++ op.sym ++ " " ++ showP (p + 1) b)
  | .un op a => wrapIf (ctx > 14) (op.sym ++ showP 15 a)
  | .tern c a b => wrapIf (ctx > 3) (showP 4 c ++ " ? " ++ showP 4 a ++ " : " ++ showP 4 b)
  | .call f args => f ++ "(" ++ String.intercalate ", " (args.map (showP 0)) ++ ")"
  | .incdec pre inc lv =>
      let o := if inc then "++" else "--"
      wrapIf (ctx > 14) (if pre then o ++ showP 15 lv else showP 15 lv ++ o)
  | .paren e => "(" ++ showP 0 e ++ ")"
end

def showExpr (e : Expr) : String := showP 0 e

def escStr (s : String) : String :=
  String.join (s.toList.map fun c =>
    if c == '"' then "\\\"" else if c == '\\' then "\\\\" else if c == '\n' then "\\n" else String.singleton c)

def showSpec : CbModel.Render.ISpec → String
  | .plain => ""
  | .hex false => ":x"
  | .hex true => ":X"
  | .bin => ":b"
  | .dec true w => ":0" ++ toString w ++ "d"
  | .dec false w => ":" ++ toString w ++ "d"

def showItem : PItem → String
  | .str s => "\"" ++ escStr s ++ "\""
  | .expr e => showExpr e
  | .exprF e _ => showExpr e

def showIPart : PItem → String
  | .str s => escStr (String.ofList (CbModel.Render.escBraces s.toList))
  | .expr e => "{" ++ showExpr e ++ "}"
  | .exprF e sp => "{" ++ showExpr e ++ showSpec sp ++ "}"

def ind (n : Nat) : String := String.ofList (List.replicate (4 * n) ' ')

def dimsStr (ds : List Nat) : String := String.join (ds.map fun d => "[" ++ toString d ++ "]")

mutual
partial def showStmt (n : Nat) (s : Stmt) : String :=
  match s with
  | .decl c st ty x init =>
      ind n ++ (if st then "static " else "") ++ (if c then "const " else "") ++ ty.show ++ " " ++ x ++
      (match init with | some e => " = " ++ showExpr e | none => "") ++ ";\n"
  | .declArr c ty x dims init =>
      ind n ++ (if c then "const " else "") ++ ty.show ++ dimsStr dims ++ " " ++ x ++
      (match init with
       | some es => " = [" ++ String.intercalate ", " (es.map showExpr) ++ "]"
       | none => "") ++ ";\n"
  | .declStruct sn x => ind n ++ sn ++ " " ++ x ++ ";\n"
  | .declStructInit c sn x es =>
      ind n ++ (if c then "const " else "") ++ sn ++ " " ++ x ++ " = {" ++
        String.intercalate ", " (es.map showExpr) ++ "};\n"
  | .assign lv e => ind n ++ showExpr lv ++ " = " ++ showExpr e ++ ";\n"
  | .compound op lv e => ind n ++ showExpr lv ++ " " ++ op.sym ++ "= " ++ showExpr e ++ ";\n"
  | .expr e => ind n ++ showExpr e ++ ";\n"
  | .print items => ind n ++ "println(" ++ String.intercalate ", " (items.map showItem) ++ ");\n"
  | .printI parts => ind n ++ "println(\"" ++ String.join (parts.map showIPart) ++ "\");\n"
  | .printF fmt args =>
      ind n ++ "println(\"" ++ escStr fmt ++ "\"" ++ String.join (args.map fun a => ", " ++ showItem a) ++ ");\n"
  | .printRaw items => ind n ++ "print(" ++ String.intercalate ", " (items.map showItem) ++ ");\n"
  | .ifS c t e =>
      ind n ++ "if (" ++ showExpr c ++ ") {\n" ++ showStmts (n + 1) t ++ ind n ++ "}" ++
      (match e with
       | some es => " else {\n" ++ showStmts (n + 1) es ++ ind n ++ "}\n"
       | none => "\n")
  | .whileS c b => ind n ++ "while (" ++ showExpr c ++ ") {\n" ++ showStmts (n + 1) b ++ ind n ++ "}\n"
  | .forS i c u b =>
      let hd (s : Option Stmt) : String :=
        match s with
        | some st => ((showStmt 0 st).dropEnd 2).toString    -- strip ";\n"
        | none => ""
      ind n ++ "for (" ++ hd i ++ "; " ++ showExpr c ++ "; " ++ hd u ++ ") {\n" ++
        showStmts (n + 1) b ++ ind n ++ "}\n"
  | .brk => ind n ++ "break;\n"
  | .cont => ind n ++ "continue;\n"
  | .ret e => ind n ++ "return" ++ (match e with | some e => " " ++ showExpr e | none => "") ++ ";\n"
  | .block ss => ind n ++ "{\n" ++ showStmts (n + 1) ss ++ ind n ++ "}\n"
partial def showStmts (n : Nat) (ss : List Stmt) : String := String.join (ss.map (showStmt n))
end

def showParam (p : Param) : String :=
  (if p.const then "const " else "") ++ p.ty.show ++ " " ++ p.name ++ (match p.dflt with | some d => " = " ++ showLit d | none => "")

def showFunc (f : Func) : String :=
  (match f.ret with | some t => t.show | none => "void") ++ " " ++ f.name ++ "(" ++
  String.intercalate ", " (f.params.map showParam) ++ ") {\n" ++ showStmts 1 f.body ++ "}\n"

def showStruct (s : StructDef) : String :=
  "struct " ++ s.name ++ " {\n" ++
  String.join (s.fields.map fun fd => "    " ++ fd.ty.show ++ dimsStr fd.dims ++ " " ++ fd.name ++ ";\n") ++ "};\n"

def showProg (p : Prog) : String :=
  String.join (p.structs.map showStruct) ++ showStmts 0 p.globals ++
  String.join (p.funcs.map fun f => showFunc f ++ "\n")

end CbModel.Ref
