import CbProps.C17
import CbProps.C05
import CbProps.C04
