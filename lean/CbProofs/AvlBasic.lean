/-
  Helper lemmas for CbProofs/Avl.lean, part 1: structural facts (toList, size, allKeys, BST,
  lookup) that do not depend on the stored heights being correct.
-/
import CbModel.Avl
namespace CbModel.Avl

/-! ## basics -/

@[simp] theorem height_nil : height .nil = 0 := rfl
@[simp] theorem height_node (l : Tree) (k v : Int) (h : Nat) (r : Tree) :
    height (.node l k v h r) = h := rfl
theorem height_mk (l : Tree) (k v : Int) (r : Tree) :
    height (mk l k v r) = max (height l) (height r) + 1 := rfl
theorem toList_mk (l : Tree) (k v : Int) (r : Tree) :
    toList (mk l k v r) = toList l ++ (k, v) :: toList r := rfl
theorem size_mk (l : Tree) (k v : Int) (r : Tree) :
    size (mk l k v r) = size l + 1 + size r := rfl

/-! ## rotations preserve the in-order list and the size -/

theorem toList_rotR (t : Tree) : toList (rotR t) = toList t := by
  cases t with
  | nil => rfl
  | node l k v h r =>
    cases l with
    | nil => rfl
    | node a xk xv xh b => simp [rotR, mk, toList]

theorem toList_rotL (t : Tree) : toList (rotL t) = toList t := by
  cases t with
  | nil => rfl
  | node l k v h r =>
    cases r with
    | nil => rfl
    | node a xk xv xh b => simp [rotL, mk, toList]

theorem size_rotR (t : Tree) : size (rotR t) = size t := by
  cases t with
  | nil => rfl
  | node l k v h r =>
    cases l with
    | nil => rfl
    | node a xk xv xh b => simp [rotR, mk, size]; omega

theorem size_rotL (t : Tree) : size (rotL t) = size t := by
  cases t with
  | nil => rfl
  | node l k v h r =>
    cases r with
    | nil => rfl
    | node a xk xv xh b => simp [rotL, mk, size]; omega

/-- `rebalance` returns one of five shapes -/
theorem rebalance_cases (l : Tree) (k v : Int) (r : Tree) :
    rebalance l k v r = mk l k v r ∨
    rebalance l k v r = rotR (mk l k v r) ∨
    rebalance l k v r = rotR (mk (rotL l) k v r) ∨
    rebalance l k v r = rotL (mk l k v r) ∨
    rebalance l k v r = rotL (mk l k v (rotR r)) := by
  unfold rebalance
  simp only
  split
  · split
    · simp
    · split <;> simp
  · split
    · split
      · simp
      · split <;> simp
    · simp

theorem toList_rebalance (l : Tree) (k v : Int) (r : Tree) :
    toList (rebalance l k v r) = toList l ++ (k, v) :: toList r := by
  rcases rebalance_cases l k v r with h | h | h | h | h <;>
    simp [h, toList_rotR, toList_rotL, toList_mk]

theorem size_rebalance (l : Tree) (k v : Int) (r : Tree) :
    size (rebalance l k v r) = size l + 1 + size r := by
  rcases rebalance_cases l k v r with h | h | h | h | h <;>
    simp [h, size_rotR, size_rotL, size_mk]

/-! ## allKeys / BST through the in-order list -/

theorem allKeys_iff (p : Int → Prop) (t : Tree) :
    allKeys p t ↔ ∀ kv ∈ toList t, p kv.1 := by
  induction t with
  | nil => simp [allKeys, toList]
  | node l k v h r ihl ihr =>
    simp only [allKeys, toList, ihl, ihr, List.mem_append, List.mem_cons]
    constructor
    · rintro ⟨h1, h2, h3⟩ kv (h | h | h)
      · exact h1 kv h
      · subst h; exact h2
      · exact h3 kv h
    · intro h
      exact ⟨fun kv hk => h kv (Or.inl hk), h (k, v) (Or.inr (Or.inl rfl)),
        fun kv hk => h kv (Or.inr (Or.inr hk))⟩

theorem allKeys_mono {p q : Int → Prop} (hpq : ∀ x, p x → q x) (t : Tree) (h : allKeys p t) :
    allKeys q t := by
  rw [allKeys_iff] at *
  exact fun kv hk => hpq _ (h kv hk)

theorem allKeys_and {p q : Int → Prop} (t : Tree) (h1 : allKeys p t) (h2 : allKeys q t) :
    allKeys (fun x => p x ∧ q x) t := by
  rw [allKeys_iff] at *
  exact fun kv hk => ⟨h1 kv hk, h2 kv hk⟩

theorem allKeys_rebalance (p : Int → Prop) (l : Tree) (k v : Int) (r : Tree) :
    allKeys p (rebalance l k v r) ↔ allKeys p l ∧ p k ∧ allKeys p r := by
  have : allKeys p (rebalance l k v r) ↔ allKeys p (.node l k v 0 r) := by
    rw [allKeys_iff, allKeys_iff, toList_rebalance]; rfl
  rw [this]; rfl

theorem bst_iff (t : Tree) : BST t ↔ (toList t).Pairwise (fun a b => a.1 < b.1) := by
  induction t with
  | nil => simp [BST, toList]
  | node l k v h r ihl ihr =>
    simp only [BST, toList, ihl, ihr, allKeys_iff, List.pairwise_append, List.pairwise_cons,
      List.mem_cons]
    constructor
    · rintro ⟨h1, h2, h3, h4⟩
      refine ⟨h1, ⟨h4, h2⟩, ?_⟩
      rintro a ha b (hb | hb)
      · subst hb; exact h3 a ha
      · exact Int.lt_trans (h3 a ha) (h4 b hb)
    · rintro ⟨h1, ⟨h4, h2⟩, h3⟩
      exact ⟨h1, h2, fun a ha => h3 a ha (k, v) (Or.inl rfl), h4⟩

theorem bst_rebalance (l : Tree) (k v : Int) (r : Tree) :
    BST (rebalance l k v r) ↔ BST l ∧ BST r ∧ allKeys (· < k) l ∧ allKeys (k < ·) r := by
  have : BST (rebalance l k v r) ↔ BST (.node l k v 0 r) := by
    rw [bst_iff, bst_iff, toList_rebalance]; rfl
  rw [this]; rfl

theorem bst_rotR (t : Tree) : BST (rotR t) ↔ BST t := by
  rw [bst_iff, bst_iff, toList_rotR]

theorem bst_rotL (t : Tree) : BST (rotL t) ↔ BST t := by
  rw [bst_iff, bst_iff, toList_rotL]

/-! ## lookup through the in-order list -/

theorem lookup_eq_none_of_allKeys (t : Tree) (q : Int) (h : allKeys (· ≠ q) t) :
    lookup t q = none := by
  induction t with
  | nil => rfl
  | node l k v hh r ihl ihr =>
    obtain ⟨h1, h2, h3⟩ := h
    simp only [lookup]
    rw [if_neg (fun e => h2 e.symm), ihl h1, ihr h3]
    split <;> rfl

theorem lookup_eq_some_iff (t : Tree) (q w : Int) (h : BST t) :
    lookup t q = some w ↔ (q, w) ∈ toList t := by
  induction t with
  | nil => simp [lookup, toList]
  | node l k v hh r ihl ihr =>
    obtain ⟨h1, h2, h3, h4⟩ := h
    rw [allKeys_iff] at h3 h4
    simp only [lookup, toList, List.mem_append, List.mem_cons, Prod.mk.injEq]
    by_cases e : q = k
    · subst e
      rw [if_pos rfl]
      constructor
      · intro hw; cases hw; exact Or.inr (Or.inl ⟨rfl, rfl⟩)
      · rintro (hm | ⟨_, hm⟩ | hm)
        · have := h3 _ hm; simp at this
        · rw [hm]
        · have := h4 _ hm; simp at this
    · rw [if_neg e]
      by_cases e2 : q < k
      · rw [if_pos e2, ihl h1]
        constructor
        · exact Or.inl
        · rintro (hm | ⟨hm, _⟩ | hm)
          · exact hm
          · exact absurd hm e
          · have := h4 _ hm; simp at this; omega
      · rw [if_neg e2, ihr h2]
        constructor
        · exact fun hm => Or.inr (Or.inr hm)
        · rintro (hm | ⟨hm, _⟩ | hm)
          · have := h3 _ hm; simp at this; omega
          · exact absurd hm e
          · exact hm

theorem lookup_congr (t1 t2 : Tree) (q : Int) (h : BST t1) (e : toList t1 = toList t2) :
    lookup t1 q = lookup t2 q := by
  have h2 : BST t2 := by rw [bst_iff, ← e, ← bst_iff]; exact h
  apply Option.ext
  intro w
  rw [lookup_eq_some_iff _ _ _ h, lookup_eq_some_iff _ _ _ h2, e]

theorem lookup_rebalance (l : Tree) (k v : Int) (r : Tree) (q : Int)
    (h : BST (.node l k v 0 r)) :
    lookup (rebalance l k v r) q =
      if q = k then some v else if q < k then lookup l q else lookup r q := by
  have : lookup (rebalance l k v r) q = lookup (.node l k v 0 r) q := by
    apply lookup_congr
    · exact (bst_rebalance l k v r).2 h
    · rw [toList_rebalance]; rfl
  rw [this]; rfl

end CbModel.Avl
