import CbModel.Preproc
import CbModel.PreprocSpec
import CbModel.FlatIndex
