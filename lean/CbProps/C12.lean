/-
  C12 — interface calls dispatch on the receiver's actual type with self bound to it.
  Laws of the object model CbModel/Iface.lean (the tie to the interpreter is the correspondence check).
-/
import CbModel.Iface
namespace CbProps.C12
open CbModel.Iface

/-- **Dispatch selects the implementation of the DYNAMIC type** of the receiver, with `self` = the receiver:
    the observer's answer is computed from the receiver's current field by the constants registered for
    (declared interface, dynamic type) -/
theorem dispatch_selects_dynamic_type (t : Impls) (ifaceOf : Nat → Nat) (s : St) (p j : Nat) (v : Int) (m : Impl)
    (hp : s.ifv[p]? = some (some (j, v))) (hm : t.get (ifaceOf p) j = some m) :
    step t ifaceOf s (.obs p) = some { s with out := s.out ++ [v * m.a + m.b] } := by
  simp [step, hp, hm]

/-- member writes made by a method through `self` are visible in the receiver after the call -/
theorem self_writes_visible (t : Impls) (ifaceOf : Nat → Nat) (s s1 : St) (p j : Nat) (v k : Int) (m : Impl)
    (hp : s.ifv[p]? = some (some (j, v))) (hm : t.get (ifaceOf p) j = some m)
    (h1 : step t ifaceOf s (.mut p k) = some s1) :
    ∃ s2, step t ifaceOf s1 (.obs p) = some s2 ∧ s2.out = s.out ++ [(v + k * m.c) * m.a + m.b] := by
  have hlt : p < s.ifv.length := by
    cases h : s.ifv[p]? with
    | none => simp [h] at hp
    | some _ => exact (List.getElem?_eq_some_iff.mp h).1
  simp only [step, hp, hm, Option.some.injEq] at h1
  subst h1
  refine ⟨{ s with ifv := s.ifv.set p (some (j, v + k * m.c)), out := s.out ++ [(v + k * m.c) * m.a + m.b] }, ?_, rfl⟩
  simp [step, List.getElem?_set, hlt, hm]

/-- re-assigning the interface variable changes which implementation runs -/
theorem reassign_changes_dispatch (t : Impls) (ifaceOf : Nat → Nat) (s s1 : St) (p c j : Nat) (v : Int) (m : Impl)
    (hc : s.conc[c]? = some (j, v)) (hm : t.get (ifaceOf p) j = some m)
    (h1 : step t ifaceOf s (.assign p c) = some s1) :
    step t ifaceOf s1 (.obs p) = some { s1 with out := s1.out ++ [v * m.a + m.b] } := by
  simp only [step, hc, hm] at h1
  split at h1
  · rename_i hlt
    simp only [Option.some.injEq] at h1
    subst h1
    simp [step, List.getElem?_set, hlt, hm]
  · simp at h1

/-- a value whose type has no impl for the interface is rejected where the interface is required -/
theorem no_impl_rejected (t : Impls) (ifaceOf : Nat → Nat) (s : St) (p c j : Nat) (v : Int)
    (hc : s.conc[c]? = some (j, v)) (hm : t.get (ifaceOf p) j = none) :
    step t ifaceOf s (.assign p c) = none := by
  simp [step, hc, hm]

theorem getStatic_setStatic_ne (s : List ((Nat × Nat) × Int)) (i j i' j' : Nat) (v : Int)
    (h : ¬ (i' = i ∧ j' = j)) : getStatic (setStatic s i j v) i' j' = getStatic s i' j' := by
  induction s with
  | nil =>
    simp only [setStatic, getStatic]
    rw [if_neg (fun hh => h ⟨hh.1.symm, hh.2.symm⟩)]
  | cons kv r ih =>
    obtain ⟨⟨a, b⟩, w⟩ := kv
    unfold setStatic
    split
    · rename_i hab
      obtain ⟨rfl, rfl⟩ := hab
      simp only [getStatic]
      rw [if_neg (fun hh => h ⟨hh.1.symm, hh.2.symm⟩), if_neg (fun hh => h ⟨hh.1.symm, hh.2.symm⟩)]
    · simp only [getStatic]
      split
      · rfl
      · exact ih

/-- **impl statics are per (interface, type) pair**: a call that updates the static of one pair leaves the
    static of every other pair unchanged -/
theorem impl_statics_per_pair (t : Impls) (ifaceOf : Nat → Nat) (s s1 : St) (p : Nat) (i' j' : Nat)
    (h1 : step t ifaceOf s (.stat p) = some s1)
    (hne : ∀ j v, s.ifv[p]? = some (some (j, v)) → ¬ (i' = ifaceOf p ∧ j' = j)) :
    getStatic s1.statics i' j' = getStatic s.statics i' j' := by
  simp only [step] at h1
  split at h1
  · rename_i j v hp
    split at h1
    · simp only [Option.some.injEq] at h1
      subst h1
      exact getStatic_setStatic_ne _ _ _ _ _ _ (hne j v hp)
    · simp at h1
  · simp at h1

/-- observers, field reads and by-value parameter passing do not change any object or static -/
theorem observers_change_nothing (t : Impls) (ifaceOf : Nat → Nat) (s s1 : St) (p : Nat)
    (h1 : step t ifaceOf s (.viaParam p) = some s1 ∨ step t ifaceOf s (.obs p) = some s1) :
    s1.conc = s.conc ∧ s1.ifv = s.ifv ∧ s1.statics = s.statics := by
  rcases h1 with h1 | h1 <;> simp only [step] at h1 <;> (repeat' split at h1) <;> simp_all <;>
    (subst h1; exact ⟨rfl, rfl, rfl⟩)

/-- a mutator that returns a value (`println(p.m3(k))`, also through a pointer `q->m3(k)` with `I* q = &p`) is the
    mutation followed by the observation: the write made through self is in the receiver when the call returns -/
theorem mutRet_is_mut_then_obs (t : Impls) (ifaceOf : Nat → Nat) (s : St) (p : Nat) (k : Int) :
    step t ifaceOf s (.mutRet p k) =
      (step t ifaceOf s (.mut p k)).bind fun s' => step t ifaceOf s' (.obs p) := by
  simp only [step]
  cases h : s.ifv[p]? with
  | none => simp
  | some o =>
    cases o with
    | none => simp
    | some jv =>
      obtain ⟨j, v⟩ := jv
      cases hm : t.get (ifaceOf p) j with
      | none => simp [hm]
      | some m =>
        have hp : p < s.ifv.length := by
          rcases List.getElem?_eq_some_iff.mp h with ⟨hp, _⟩
          exact hp
        simp [hm, List.getElem?_set_self hp]

end CbProps.C12
