/-
  C19 — abstract data types for stdlib Vector<T> (sequence) and Queue<T> (FIFO): the
  specification side; the Cb sources (doubly linked list / singly linked list) are tied to these by
  the correspondence check.  Core Lean only.
-/
namespace CbModel.Seq

inductive VOp where
  | pushBack (v : Int) | pushFront (v : Int) | popBack | popFront
  | deleteAt (i : Nat) | at (i : Nat) | find (v : Int) | sortAsc | sortDesc | length | clear
  deriving Repr, Inhabited

/-- one Vector operation: new sequence and the observable answer (if any) -/
def vstep (l : List Int) : VOp → List Int × Option Int
  | .pushBack v => (l ++ [v], none)
  | .pushFront v => (v :: l, none)
  | .popBack => (l.dropLast, none)
  | .popFront => (l.drop 1, none)
  | .deleteAt i => (l.eraseIdx i, none)
  | .at i => (l, l[i]?)
  | .find v => (l, some (match l.findIdx? (· == v) with | some i => (i : Int) | none => -1))
  | .sortAsc => (l.mergeSort (fun a b => a ≤ b), none)
  | .sortDesc => (l.mergeSort (fun a b => a ≥ b), none)
  | .length => (l, some l.length)
  | .clear => ([], none)

inductive QOp where
  | push (v : Int) | pop | top | size | empty | clear
  deriving Repr, Inhabited

def qstep (l : List Int) : QOp → List Int × Option Int
  | .push v => (l ++ [v], none)
  | .pop => (l.drop 1, l.head?)
  | .top => (l, l.head?)
  | .size => (l, some l.length)
  | .empty => (l, some (if l.isEmpty then 1 else 0))
  | .clear => ([], none)

end CbModel.Seq
