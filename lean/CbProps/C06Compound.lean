/-
  C06 — compound objects: what the harness expects for a skeleton with compound objects (`expand` of the
  specification trace) is exactly what is visible of the specification trace of the skeleton in which every
  compound object is written as "members first, then the object" (`desugar`).  Hence the statements of
  CbProps/C06 (every object destroyed exactly once, LIFO, inner scopes first, on every exit path) carry over
  to the members of compound objects.  Proofs: CbProofs/CleanupCompound.lean.
-/
import CbProofs.CleanupCompound
namespace CbProps.C06Compound
open CbModel.Cleanup

/-- the desugared skeleton needs at most three times the fuel (every statement becomes at most three) and
    then runs to the same signal, and its visible trace is the expansion of the original trace -/
theorem compound_is_members_then_object (fs : Funcs) (fuel : Nat) (hid : idsOk fs = true)
    (h : (srun fs fuel).1 ≠ .oof) :
    ∃ fuel', (srun (desugar fs) fuel').1 = (srun fs fuel).1 ∧
      view (srun (desugar fs) fuel').2 = expand (srun fs fuel).2 :=
  CbModel.Cleanup.compound_is_members_then_object fs fuel hid h

/-- in the expected trace of the original skeleton every member of a compound object is destroyed exactly as
    often as the object is constructed -/
theorem members_destroyed_once (fs : Funcs) (fuel : Nat) (n : Nat) (hn : oform n ≠ 0) (hid : idsOk fs = true)
    (h : (srun fs fuel).1 ≠ .oof) :
    ((expand (srun fs fuel).2).filter (· == Ev.dtor (mem1 n))).length =
      ((srun fs fuel).2.filter (· == Ev.ctor n)).length ∧
    ((expand (srun fs fuel).2).filter (· == Ev.dtor (mem2 n))).length =
      ((srun fs fuel).2.filter (· == Ev.ctor n)).length :=
  CbModel.Cleanup.members_destroyed_once fs fuel n hn hid h

/-- non-vacuity: a loop body that declares a W object and a P object -/
example : idsOk [[.loop 2 [.obj 1, .obj 2, .mark 3]]] = true ∧
    (srun [[.loop 2 [.obj 1, .obj 2, .mark 3]]] 20).1 ≠ .oof ∧
    expand (srun [[.loop 2 [.obj 1, .obj 2, .mark 3]]] 20).2 =
      [.ctor 1, .ctor 2, .mark 3, .dtor 202, .dtor 201, .dtor 1, .dtor 102, .dtor 101,
       .ctor 1, .ctor 2, .mark 3, .dtor 202, .dtor 201, .dtor 1, .dtor 102, .dtor 101] ∧
    view (srun (desugar [[.loop 2 [.obj 1, .obj 2, .mark 3]]]) 60).2 =
      expand (srun [[.loop 2 [.obj 1, .obj 2, .mark 3]]] 20).2 := by decide

end CbProps.C06Compound
