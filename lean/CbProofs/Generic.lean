/- helper lemmas for CbProps/C11.lean (add what you need) -/
import CbModel.Generic
namespace CbProofs.Generic
open CbModel.Generic

/-! ## step 1: the name is the prefix before the first '<' -/

theorem split_first {c : Char} : ∀ (n1 n2 r1 r2 : Str), c ∉ n1 → c ∉ n2 →
    n1 ++ c :: r1 = n2 ++ c :: r2 → n1 = n2 ∧ r1 = r2
  | [], [], _, _, _, _, h => by
      simp at h; exact ⟨rfl, h⟩
  | [], x :: n2, _, _, _, h2, h => by
      simp at h; simp at h2; exact absurd h.1 h2.1
  | x :: n1, [], _, _, h1, _, h => by
      simp at h; simp at h1; exact absurd h.1.symm h1.1
  | x :: n1, y :: n2, r1, r2, h1, h2, h => by
      simp at h h1 h2
      have := split_first n1 n2 r1 r2 h1.2 h2.2 h.2
      exact ⟨by rw [h.1, this.1], this.2⟩

/-! ## step 3: `balanced` strings cannot be proper "comma-prefixes" of one another -/

theorem balanced_cons (c : Char) (r : Str) (d : Nat) :
    balanced (c :: r) d =
      if c = '<' then balanced r (d + 1)
      else if c = '>' then (decide (d > 0) && balanced r (d - 1))
      else if c = ',' then (decide (d > 0) && balanced r d)
      else balanced r d := by
  by_cases h1 : c = '<'
  · subst h1; simp [balanced]
  · by_cases h2 : c = '>'
    · subst h2; simp [balanced]
    · by_cases h3 : c = ','
      · subst h3; simp [balanced]
      · rw [if_neg h1, if_neg h2, if_neg h3]
        rw [balanced.eq_5 d c r h1 h2 h3]

theorem balanced_nil (d : Nat) : balanced [] d = (d == 0) := by
  simp [balanced]

theorem balanced_comma_zero (r : Str) : balanced (',' :: r) 0 = false := by
  simp [balanced]

/-- a "tail" is either empty or starts with a comma -/
def Tail (x : Str) : Prop := x = [] ∨ ∃ r, x = ',' :: r

theorem balanced_prefix_unique : ∀ (a b x y : Str) (d : Nat),
    balanced a d = true → balanced b d = true → Tail x → Tail y →
    a ++ x = b ++ y → a = b ∧ x = y
  | [], [], x, y, d, _, _, _, _, h => by simpa using h
  | [], c :: b, x, y, d, ha, hb, hx, _, h => by
      exfalso
      have hd : d = 0 := by simpa [balanced_nil] using ha
      subst hd
      simp at h
      rcases hx with hx | ⟨r, hx⟩
      · rw [hx] at h; cases h
      · rw [hx] at h
        simp at h
        rw [← h.1, balanced_comma_zero] at hb
        cases hb
  | c :: a, [], x, y, d, ha, hb, _, hy, h => by
      exfalso
      have hd : d = 0 := by simpa [balanced_nil] using hb
      subst hd
      simp at h
      rcases hy with hy | ⟨r, hy⟩
      · rw [hy] at h; cases h
      · rw [hy] at h
        simp at h
        rw [h.1, balanced_comma_zero] at ha
        cases ha
  | c :: a, c' :: b, x, y, d, ha, hb, hx, hy, h => by
      simp at h
      obtain ⟨hc, h⟩ := h
      subst hc
      rw [balanced_cons] at ha hb
      have key : ∃ d', balanced a d' = true ∧ balanced b d' = true := by
        by_cases h1 : c = '<'
        · rw [if_pos h1] at ha hb; exact ⟨_, ha, hb⟩
        · rw [if_neg h1] at ha hb
          by_cases h2 : c = '>'
          · rw [if_pos h2] at ha hb
            simp at ha hb
            exact ⟨_, ha.2, hb.2⟩
          · rw [if_neg h2] at ha hb
            by_cases h3 : c = ','
            · rw [if_pos h3] at ha hb
              simp at ha hb
              exact ⟨_, ha.2, hb.2⟩
            · rw [if_neg h3] at ha hb
              exact ⟨_, ha, hb⟩
      obtain ⟨d', ha', hb'⟩ := key
      have := balanced_prefix_unique a b x y d' ha' hb' hx hy h
      exact ⟨by rw [this.1], this.2⟩

/-! ## `joinSep ','` is injective on well-formed argument lists -/

/-- what follows the first argument in a joined list -/
def rest : List Str → Str
  | [] => []
  | b :: r => ',' :: joinSep ',' (b :: r)

theorem joinSep_cons (a : Str) (r : List Str) : joinSep ',' (a :: r) = a ++ rest r := by
  cases r <;> simp [joinSep, rest]

theorem rest_tail (r : List Str) : Tail (rest r) := by
  cases r
  · exact Or.inl rfl
  · exact Or.inr ⟨_, rfl⟩

theorem joinSep_injective : ∀ (as1 as2 : List Str),
    (∀ a ∈ as1, WFArg a) → (∀ a ∈ as2, WFArg a) →
    joinSep ',' as1 = joinSep ',' as2 → as1 = as2
  | [], [], _, _, _ => rfl
  | [], a :: r, _, h2, h => by
      exfalso
      rw [joinSep_cons] at h
      have : a = [] := by
        have := h.symm
        simp [joinSep] at this
        exact this.1
      exact (h2 a (by simp)).1 this
  | a :: r, [], h1, _, h => by
      exfalso
      rw [joinSep_cons] at h
      have : a = [] := by
        simp [joinSep] at h
        exact h.1
      exact (h1 a (by simp)).1 this
  | a :: r, b :: s, h1, h2, h => by
      rw [joinSep_cons, joinSep_cons] at h
      have hab := balanced_prefix_unique a b (rest r) (rest s) 0
        (h1 a (by simp)).2 (h2 b (by simp)).2 (rest_tail r) (rest_tail s) h
      obtain ⟨hab, hrs⟩ := hab
      subst hab
      have h1' : ∀ x ∈ r, WFArg x := fun x hx => h1 x (by simp [hx])
      have h2' : ∀ x ∈ s, WFArg x := fun x hx => h2 x (by simp [hx])
      cases r with
      | nil =>
        cases s with
        | nil => rfl
        | cons _ _ => simp [rest] at hrs
      | cons r0 r =>
        cases s with
        | nil => simp [rest] at hrs
        | cons s0 s =>
          simp only [rest, List.cons.injEq, true_and] at hrs
          rw [joinSep_injective (r0 :: r) (s0 :: s) h1' h2' hrs]

theorem keyL_inj (n1 n2 : Str) (as1 as2 : List Str)
    (h1 : WFName n1) (h2 : WFName n2) (ha1 : ∀ a ∈ as1, WFArg a) (ha2 : ∀ a ∈ as2, WFArg a)
    (h : keyL n1 as1 = keyL n2 as2) : n1 = n2 ∧ as1 = as2 := by
  unfold keyL at h
  obtain ⟨hn, hr⟩ := split_first n1 n2 _ _ h1 h2 h
  have hj := List.append_cancel_right hr
  exact ⟨hn, joinSep_injective as1 as2 ha1 ha2 hj⟩

/-! ## the cache -/

/-- every cached entry is the fresh instantiation of a well-formed use with that key -/
def Inv {Code : Type} (inst : Str → List Str → Code) (c : Cache Code) : Prop :=
  ∀ k code, lookup c k = some code →
    ∃ n as, WFName n ∧ (∀ a ∈ as, WFArg a) ∧ k = keyL n as ∧ code = inst n as

theorem inv_nil {Code : Type} (inst : Str → List Str → Code) : Inv inst ([] : Cache Code) := by
  intro k code h
  simp [lookup] at h

theorem use_spec {Code : Type} (inst : Str → List Str → Code) (c : Cache Code) (n : Str) (as : List Str)
    (hn : WFName n) (has : ∀ a ∈ as, WFArg a) (hc : Inv inst c) :
    (use inst c n as).2 = inst n as ∧ Inv inst (use inst c n as).1 := by
  unfold use
  cases hl : lookup c (keyL n as) with
  | some code =>
    simp only
    obtain ⟨n', as', hn', has', hk, hcode⟩ := hc _ _ hl
    obtain ⟨e1, e2⟩ := keyL_inj n n' as as' hn hn' has has' hk
    subst e1; subst e2
    exact ⟨hcode, hc⟩
  | none =>
    simp only
    refine ⟨by first | rfl | trivial, ?_⟩
    intro k code h
    simp only [lookup] at h
    by_cases hk : keyL n as = k
    · rw [if_pos hk] at h
      cases h
      exact ⟨n, as, hn, has, hk.symm, rfl⟩
    · rw [if_neg hk] at h
      exact hc k code h

theorem run_transparent {Code : Type} (inst : Str → List Str → Code) :
    ∀ (h : List (Str × List Str)) (c : Cache Code),
      (∀ u ∈ h, WFName u.1 ∧ ∀ a ∈ u.2, WFArg a) → Inv inst c →
      run inst c h = h.map (fun u => inst u.1 u.2)
  | [], _, _, _ => rfl
  | (n, as) :: r, c, hwf, hc => by
      have hu := hwf (n, as) (by simp)
      obtain ⟨e, hc'⟩ := use_spec inst c n as hu.1 hu.2 hc
      have ih := run_transparent inst r (use inst c n as).1
        (fun u hu => hwf u (by simp [hu])) hc'
      simp only [run, List.map_cons]
      rw [e, ih]

theorem lookup_cons_self {Code : Type} (c : Cache Code) (k : Str) (v : Code) :
    lookup ((k, v) :: c) k = some v := by
  simp [lookup]

theorem use_twice {Code : Type} (inst : Str → List Str → Code) (c : Cache Code) (n : Str) (as : List Str) :
    use inst (use inst c n as).1 n as = ((use inst c n as).1, (use inst c n as).2) := by
  cases hl : lookup c (keyL n as) with
  | some code =>
    have e : use inst c n as = (c, code) := by simp [use, hl]
    rw [e]
    exact e
  | none =>
    have e : use inst c n as = ((keyL n as, inst n as) :: c, inst n as) := by simp [use, hl]
    rw [e]
    simp [use, lookup_cons_self]

end CbProofs.Generic
