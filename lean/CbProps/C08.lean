/-
  C08 — calls get private frames and positional arguments; statics persist; no leakage.
  Theorems about the reference semantics CbRef.
-/
import CbProofs.RefInv
namespace CbProps.C08
open CbModel.Ref

/-- **The callee cannot see the caller's locals**: result and every effect of running a body in a
    fresh frame are independent of what the caller's frame contains. -/
theorem callee_cannot_see_caller (fn : String) (fr : Frame) (m : M α) (s : St) (callerFrame : Frame) :
    (withFrame fn fr m { s with frame := callerFrame }).1 = (withFrame fn fr m s).1 ∧
    (withFrame fn fr m { s with frame := callerFrame }).2.globals = (withFrame fn fr m s).2.globals ∧
    (withFrame fn fr m { s with frame := callerFrame }).2.statics = (withFrame fn fr m s).2.statics ∧
    (withFrame fn fr m { s with frame := callerFrame }).2.out = (withFrame fn fr m s).2.out := by
  simp [withFrame]

/-- **A call leaves the caller's locals unchanged** (and returns to the caller's function) -/
theorem withFrame_restores (fn : String) (fr : Frame) (m : M α) (s : St) :
    (withFrame fn fr m s).2.frame = s.frame ∧ (withFrame fn fr m s).2.fname = s.fname := by
  simp [withFrame]

theorem call_preserves_caller_locals (p : Prog) (fuel : Nat) (f : String) (args : List Int) (s : St) :
    (callF p fuel f args s).2.frame = s.frame := by
  cases fuel with
  | zero => simp [callF, oofM]
  | succ fuel =>
    unfold callF
    cases hf : findFunc p f with
    | none => rfl
    | some fn =>
      simp only
      unfold catchM
      have key : (enterCall fn args (execSs p fuel fn.body) s).2.frame = s.frame := by
        unfold enterCall
        show ((M.bind (liftRes (bindParams fn.params args)) _) s).2.frame = s.frame
        unfold M.bind liftRes
        split <;> rename_i heq <;> simp only [Prod.mk.injEq] at heq <;> obtain ⟨_, rfl⟩ := heq <;>
          first | rfl | simp [withFrame]
      cases hcall : enterCall fn args (execSs p fuel fn.body) s with
      | mk r s' =>
        rw [hcall] at key
        simp only at key
        simp only
        cases r with
        | ok u => exact key
        | ret v =>
          simp only
          cases fn.ret with
          | none => exact key
          | some t => simp only [liftRes]; exact key
        | _ => exact key

/-- each recursion level gets its own frame: the frame a callee starts with contains exactly its
    own parameters -/
theorem fresh_frame_has_only_params (fn : Func) (args : List Int) (fr : Frame)
    (h : bindParams fn.params args = .ok fr) : fr.map (·.1) = fn.params.map (·.name) := by
  generalize fn.params = ps at h
  induction ps generalizing args fr with
  | nil =>
    cases args with
    | nil => simp [bindParams] at h; subst h; rfl
    | cons a as => simp [bindParams] at h
  | cons q ps ih =>
    cases args with
    | nil =>
      unfold bindParams at h
      split at h
      · split at h <;> simp only [Res.ok.injEq, reduceCtorEq] at h
        rename_i v fr' _ h2
        subst h
        simp [ih [] fr' h2]
      · simp at h
    | cons a as =>
      unfold bindParams at h
      split at h <;> simp only [Res.ok.injEq, reduceCtorEq] at h
      rename_i v fr' _ h2
      subst h
      simp [ih as fr' h2]

/-- more arguments than parameters is rejected -/
theorem too_many_args_rejected (args : List Int) (h : args ≠ []) :
    bindParams [] args = .err .arity := by
  cases args with
  | nil => exact absurd rfl h
  | cons a as => rfl

/-- a missing argument without a declared default is rejected; with one, the default is bound -/
theorem missing_arg (q : Param) (ps : List Param) :
    (q.dflt = none → bindParams (q :: ps) [] = .err .arity) ∧
    (∀ d v fr, q.dflt = some d → storeChecked q.ty d = .ok v → bindParams ps [] = .ok fr →
      bindParams (q :: ps) [] = .ok ((q.name, .cell (.int q.ty v q.const)) :: fr)) := by
  constructor
  · intro h; unfold bindParams; simp [h]
  · intro d v fr h1 h2 h3; unfold bindParams; simp [h1, h2, h3]

/-- the value given to `return` reaches the caller unchanged when it fits the declared type -/
theorem return_value_unchanged (t : Ty) (v : Int) (hb : t.base ≠ Base.bool)
    (h : t.range.1 ≤ v ∧ v ≤ t.range.2) (hu : ¬ (t.uns = true ∧ v < 0)) :
    storeChecked t v = .ok v := by
  unfold storeChecked
  split
  · rename_i hbb; exact absurd hbb hb
  · rw [if_neg hu, if_pos h]

/-- a `static` local is initialised once: when it already exists the declaration does nothing -/
theorem static_init_once (p : Prog) (fuel : Nat) (c : Bool) (ty : Ty) (x : String) (init : Option Expr)
    (s : St) (h : (s.statics.find (staticKey s.fname x)).isSome = true) :
    execS p (fuel + 1) (.decl c true ty x init) s = (.ok (), s) := by
  unfold execS
  simp only [↓reduceIte]
  show (M.bind (hasStatic x) _) s = _
  unfold M.bind hasStatic
  simp [h, pure, M.pure]

end CbProps.C08
