"""C15 — scheduling is deterministic round-robin; sleep never wakes early.

Theorems: lean/CbProps/C15.lean on the scheduler machine CbModel/Sched.lean (bookkeeping invariant of every
reachable state, FIFO discipline, no overtaking, a suspended task goes to the back, an awaiting task is not
scheduled, the wait loop ends only when the target finished, sleep_never_early) + CbOblig.C15 (the deadline test
and the deadline computation regenerated from the C++ are the modelled ones) + CbProps.C15RunLoop (the driver loop of
run_event_loop() is round robin on tasks that neither spawn nor block: the trace is round 0, round 1, ...; every task gets exactly
its steps; the first round is in queue order) + CbOblig.C15Run (the loop body of SimpleEventLoop::run(), regenerated from the C++,
performs front / pop_front / step / push_back-if-continue in the modelled order).
Tie: hook H3 — the interpreter's scheduler trace (spawn / cycle with queue snapshot / step / suspend / done /
await / resume / yield) must equal the model's event sequence step for step, and stdout the model's output, on
(1) an exhaustive family of small task sets, (2) random task programs; every program is run twice (determinism);
(3) sleep programs over a grid of durations measure elapsed time with now() and check that runnable tasks keep
running while another sleeps.
"""
import itertools, json, os
import common, sched
from common import Rng
from props.refprops import all_findings

PID = "C15"
THEOREMS = {"CbProps.C15": ["CbProps.C15." + t for t in [
    "reach_inv", "deterministic", "queue_fifo", "no_overtaking", "suspended_goes_to_back", "awaiting_task_not_scheduled",
    "wait_ends_when_target_finished", "sleep_never_early"]],
    "CbOblig.C15": ["CbOblig.C15.sleep_test_is_modelled"],
    "CbProps.C15RunLoop": ["CbProps.C15RunLoop." + t for t in ["run_is_round_robin", "run_steps_each_task_exactly", "run_first_round_is_queue_order"]],
    "CbOblig.C15Run": ["CbOblig.C15Run.run_loop_is_modelled"]}


def exhaustive(quick):
    """2-3 tasks whose bodies are all sequences of <= 2 statements over {print, yield, 1-iteration loop, 2-iteration
    loop}, spawned in order, awaited in every order / not at all"""
    atoms = [("m",), ("y",), ("l", 1), ("l", 2)]
    bodies = [list(c) for n in (1, 2) for c in itertools.product(atoms, repeat=n)]
    progs = []
    tag = [0]

    def inst(b, base):
        out = []
        for k, s in enumerate(b):
            if s[0] == "m":
                out.append(("m", base + k))
            elif s[0] == "y":
                out.append(("y",))
            else:
                out.append(("l", s[1], [base + k]))
        return out + [("r", base)]
    pairs = list(itertools.product(range(len(bodies)), repeat=2))
    if quick:
        pairs = pairs[::5]
    for (i, j) in pairs:
        funcs = [inst(bodies[i], 100), inst(bodies[j], 200)]
        for mode in range(4):
            main = [("s", 0, 0), ("s", 1, 1)]
            if mode == 1:
                main += [("a", 0), ("p", 0), ("a", 1), ("p", 1)]
            elif mode == 2:
                main += [("a", 1), ("p", 1), ("a", 0), ("p", 0)]
            elif mode == 3:
                main += [("m", 1), ("l", 2, [2]), ("a", 0), ("m", 3)]
            progs.append((funcs, main))
    # three tasks, single-statement bodies, the middle one awaits the third
    for (i, j, k) in itertools.product(range(4), repeat=3):
        funcs = [inst(bodies[i], 100), [("s", 2, 0), ("a", 0), ("p", 0), ("r", 5)], inst(bodies[k], 300)]
        main = [("s", 0, 0), ("s", 1, 1), ("a", 1), ("p", 1), ("a", 0)]
        progs.append((funcs, main))
    return progs


SLEEP_PROG = """async int sleeper(int ms) {
    long t0 = now();
    await sleep(ms);
    long t1 = now();
    long el = t1 - t0;
    if (el >= ms) {
        println("slept-ok");
    } else {
        println("WOKE-EARLY", el, ms);
    }
    return 1;
}
async int worker(int n) {
    for (int i = 0; i < n; i++) {
        println("w", i);
    }
    return 2;
}
int main() {
    Future<int> a = sleeper(%d);
    Future<int> b = worker(%d);
    int rb = await b;
    println("worker-done");
    int ra = await a;
    println("sleeper-done");
    long m0 = now();
    await sleep(%d);
    long m1 = now();
    long me = m1 - m0;
    if (me >= %d) {
        println("main-slept-ok");
    } else {
        println("MAIN-WOKE-EARLY", me);
    }
    return 0;
}
"""


def rel_programs(r, n):
    """tasks driven by run_event_loop(): workers with a counted loop, optionally an await of a child task, then an end line.
    Oracle (schedule-independent part of the property): every task prints exactly its own lines, in its own order, exactly
    once; a worker's end line comes after its child's last line; every task finishes before run_event_loop() returns; two
    runs are identical.  (Which task runs when is judged by the model-based suites; here main spawns the workers one statement at
    a time, so the early turns depend on the spawn positions.)"""
    out = []
    for k in range(n):
        nw = r.range(2, 4)
        ws = []
        for i in range(nw):
            ws.append({"name": "W%d" % i, "n": r.range(0, 4), "child": r.chance(55) if k % 4 else False, "yields": r.below(2)})
        L = ["async int child(int k) {\n    println(\"child {k} a\");\n    println(\"child {k} b\");\n    return k * 10;\n}\n"]
        for w in ws:
            body = "    for (int i = 0; i < %d; i = i + 1) {\n        println(\"%s {i}\");\n    }\n" % (w["n"], w["name"])
            if w["yields"]:
                body += "    yield;\n    println(\"%s mid\");\n" % w["name"]
            if w["child"]:
                body += "    int v = await child(%d);\n    println(\"%s end {v}\");\n" % (100 + int(w["name"][1:]), w["name"])
            else:
                body += "    println(\"%s end\");\n" % w["name"]
            L.append("async void f%s() {\n%s}\n" % (w["name"], body))
        L.append("void main() {\n" + "".join("    f%s();\n" % w["name"] for w in ws) + "    println(\"main: run\");\n    run_event_loop();\n    println(\"main: done\");\n}\n")
        out.append((ws, "".join(L)))
    return out


def rel_judge(ws, stdout, cls):
    lines = [l for l in stdout.split("\n") if l]
    if cls != "ok":
        return "program ended with %s" % cls
    if not lines or lines[-1] != "main: done":
        return "run_event_loop() did not return after all tasks (last line %r)" % (lines[-1] if lines else "")
    for w in ws:
        nm = w["name"]
        exp = ["%s %d" % (nm, i) for i in range(w["n"])] + (["%s mid" % nm] if w["yields"] else [])
        cid = 100 + int(nm[1:])
        exp += ["%s end %d" % (nm, cid * 10)] if w["child"] else ["%s end" % nm]
        got = [l for l in lines if l.startswith(nm + " ")]
        if got != exp:
            return "task %s printed %s, its body prints %s" % (nm, got, exp)
        if w["child"]:
            cg = [l for l in lines if l.startswith("child %d " % cid)]
            if cg != ["child %d a" % cid, "child %d b" % cid]:
                return "child of %s printed %s" % (nm, cg)
            if lines.index("child %d b" % cid) > lines.index("%s end %d" % (nm, cid * 10)):
                return "%s resumed before its awaited child had finished" % nm
    return None


def main(a):
    v = common.Verdict(PID, a.tier, a.seed)
    common.run_translators(v, ["sleep", "runloop"])
    has = os.path.exists(os.path.join(common.LEAN, "CbProps", "C15.lean"))
    driver_ok, failed = common.lean_obligations(v, ["CbGen", "CbProofs"] + (["CbProps.C15", "CbProps.C15RunLoop"] if has else []) + ["CbOblig.C15", "CbOblig.C15Run"],
                                                THEOREMS if has else {"CbOblig.C15": THEOREMS["CbOblig.C15"]})
    exe, blog = common.build_impl()
    if exe is None or not driver_ok:
        v.violation("cannot build the interpreter / driver: " + (blog or "")[-600:], {"log": (blog or "")[-2000:]}, no_input=True)
        return v.finish()
    drv = common.driver_path()
    quick = a.tier == "quick"
    reported = [0]
    unconfirmed = [0]
    nontrivial = set()
    dist = {}

    def report(suite, what, replay):
        if reported[0] >= 6:
            return
        reported[0] += 1
        replay["suite"] = suite
        v.violation("suite %s: %s" % (suite, what), replay)

    def run_suite(name, progs):
        _, mo, _ = common.run_lines_parallel([drv, "sched"], [sched.model_line(f, m) for f, m in progs])
        srcs = [sched.render(f, m) for f, m in progs]
        env = {"CB_VERIF_TRACE": "trace.txt"}
        o1 = common.run_programs(exe, srcs, timeout=10, env=env, collect="trace.txt")
        o2 = common.run_programs(exe, srcs, timeout=10, env=env, collect="trace.txt")
        dist[name] = len(progs)
        for (f, m), mm, src, x, y in zip(progs, mo, srcs, o1, o2):
            tr, out, ended = sched.split_events(mm)
            itr = sched.impl_trace(x[3], len(f))
            iout = [l for l in x[0].split("\n") if l]
            nontrivial.add((name, tuple(tr[:40]), len(tr)))
            if not ended:
                continue        # the model ran out of fuel: not compared
            rp = {"funcs": f, "main": m, "program": src, "expected_trace": tr, "expected_stdout": out, "impl_trace": itr,
                  "impl_stdout": iout, "impl_exit_class": x[1], "impl_stderr": x[2][-300:]}
            if itr != tr:
                i = next((k for k, (p, q) in enumerate(zip(tr + ["<end>"] * 5, itr + ["<end>"] * 5)) if p != q), len(tr))
                report(name, "scheduler trace differs from the model at event %d: model %r, implementation %r (context %s)" % (
                    i, (tr + ["<end>"])[min(i, len(tr))], (itr + ["<end>"])[min(i, len(itr))], tr[max(0, i - 4):i]), rp)
            elif iout != out or x[1] != "ok":
                report(name, "output differs from the model: expected %s got %s (%s)" % (out[:12], iout[:12], x[1]), rp)
            elif y[3] != x[3] or y[0] != x[0]:
                # confirm before claiming non-determinism: a run cut short by the time limit on a loaded machine also differs
                # (seen once in a thorough run next to other jobs; the replays did not reproduce).  Two further runs, one at a
                # time and with a generous limit, must differ from each other.
                c1 = common.run_programs(exe, [src], timeout=60, env=env, collect="trace.txt", jobs=1)[0]
                c2 = common.run_programs(exe, [src], timeout=60, env=env, collect="trace.txt", jobs=1)[0]
                if c1[3] != c2[3] or c1[0] != c2[0]:
                    report(name, "two runs of the same program gave different interleavings (scheduling is not deterministic)", rp)
                else:
                    unconfirmed[0] += 1

    if a.replay:
        rp = json.load(open(a.replay))
        if "funcs" in rp:
            f = [[tuple(s) for s in b] for b in rp["funcs"]]
            m = [tuple(s) for s in rp["main"]]
            f = [[(s[0], s[1], list(s[2])) if s[0] == "l" else s for s in b] for b in f]
            m = [(s[0], s[1], list(s[2])) if s[0] == "l" else s for s in m]
            run_suite("replay", [(f, m)])
        else:
            o = common.run_programs(exe, [rp["program"]], timeout=20)[0]
            if "EARLY" in o[0] or o[1] != "ok":
                report("replay", "sleep program: %r" % o[0][-200:], rp)
        return v.finish()

    run_suite("exhaustive-small", exhaustive(quick))
    r = Rng(a.seed, 151)
    run_suite("random", [sched.gen_program(r) for _ in range(300 if quick else 60000)])
    run_suite("random-large", [sched.gen_program(r, max_funcs=6, size=10) for _ in range(60 if quick else 10000)])
    # tasks driven by run_event_loop() (SimpleEventLoop::run, a driver outside the modelled machine): oracle from the property
    rl = rel_programs(r, 60 if quick else 6000)
    ro1 = common.run_programs(exe, [p for _, p in rl], timeout=10)
    ro2 = common.run_programs(exe, [p for _, p in rl], timeout=10)
    dist["run-event-loop"] = len(rl)
    for (ws, src), x, y in zip(rl, ro1, ro2):
        nontrivial.add(("rel", hash(src) % 1000003))
        why = rel_judge(ws, x[0], x[1])
        if why is None and (x[0] != y[0] or x[1] != y[1]):
            c1 = common.run_programs(exe, [src], timeout=60, jobs=1)[0]
            c2 = common.run_programs(exe, [src], timeout=60, jobs=1)[0]
            if c1[0] != c2[0] or c1[1] != c2[1]:
                why = "two runs gave different output (scheduling is not deterministic)"
            else:
                unconfirmed[0] += 1
        if why:
            if os.environ.get("CB_VERIF_CENSUS"):
                common.log("CENSUS rel: %s | %s" % (why, x[0].replace("\n", " / ")[:300]))
                continue
            report("run-event-loop", why, {"program": src, "impl_stdout": x[0], "impl_exit_class": x[1], "impl_stderr": x[2][-300:]})
    # sleep grid
    grid = [0, 1, 2, 5, 10, 20, 35, 60] if quick else list(range(0, 61, 3)) * 3
    sp = [SLEEP_PROG % (ms, r.range(1, 6), (ms * 7) % 23, (ms * 7) % 23) for ms in grid]
    so = common.run_programs(exe, sp, timeout=20)
    dist["sleep"] = len(sp)
    for ms, src, o in zip(grid, sp, so):
        nontrivial.add(("sleep", ms))
        lines = [l for l in o[0].split("\n") if l]
        ok = o[1] == "ok" and "EARLY" not in o[0] and "slept-ok" in lines and "main-slept-ok" in lines and \
            "worker-done" in lines and "sleeper-done" in lines and lines.index("worker-done") < lines.index("sleeper-done") or \
            (o[1] == "ok" and "EARLY" not in o[0] and "slept-ok" in lines and "main-slept-ok" in lines and "worker-done" in lines and "sleeper-done" in lines)
        n_w = sum(1 for l in lines if l.startswith("w "))
        if not ok or n_w == 0:
            report("sleep", "sleep(%d): expected slept-ok / worker lines / main-slept-ok, got %r (%s)" % (ms, o[0][-200:], o[1]),
                   {"program": src, "impl_stdout": o[0], "impl_exit_class": o[1], "impl_stderr": o[2][-300:]})
    v.coverage.update({
        "evaluations": sum(dist.values()) * 2, "distinct_nontrivial": len(nontrivial), "distribution": dist,
        "run_pairs_that_differed_but_were_not_confirmed_by_two_further_runs": unconfirmed[0],
        "rule": "exhaustive-small: 2 tasks x all bodies of <= 2 statements over {println, yield, 1- and 2-iteration loops} x 4 main "
                "patterns (no await, await in both orders, main loop + late await) and 3-task sets with a nested await; random: "
                "1-4 (large: 1-6) async functions forming a spawn DAG, bodies of println / yield / counted loops / spawns / "
                "awaits / prints of awaited values / return; every program run twice. Compared: the full scheduler trace "
                "(incl. the queue snapshot at every run_one_cycle) and stdout against CbModel.Sched. sleep: durations from a "
                "grid of 0..60 ms, elapsed time measured with now() in the sleeping task and in main, a worker task must keep "
                "running meanwhile. non-trivial = distinct trace prefix / duration",
        "exhaustive": not quick})
    v.assumptions += ["the fragment has suspension points at top-level statements and top-level loop iterations only (yield "
                      "inside nested blocks is the subject of C14's findings)",
                      "wall-clock: sleep programs are judged by inequalities only (elapsed >= ms), never by exact times",
                      "run_event_loop() (SimpleEventLoop::run) is not part of the modelled machine: the suite run-event-loop judges stdout by "
                      "the schedule-independent part of the property (each task's own lines once and in order, await after the child's end, "
                      "all tasks finished, determinism)"]
    return v.finish()
