import CbModel.TypeSubst
import Driver.Proto
namespace Driver
open CbModel.TypeSubst

/-- fields: type string, generic enum names separated by ';', then key / value fields alternating (the type map).
    output: the substituted type string (escaped) -/
def c11SubstLine (fs : List (List Char)) : String :=
  match fs with
  | ty :: enums :: kv =>
    let names := (splitOnChar ';' enums).filter (· ≠ [])
    let rec pairs : List (List Char) → Option TMap
      | [] => some []
      | k :: v :: r => (pairs r).map ((k, v) :: ·)
      | [_] => none
    match pairs kv with
    | some σ => String.ofList (escape (substTypeString (fun s => names.contains s) σ ty))
    | none => "bad-op"
  | _ => "bad-op"

end Driver
