/-
  C07 — value semantics of structs and arrays, aliasing through pointers / references / self.
  Specification-level model: the program's objects form one tree of values (the root's children are the
  variables; a struct or array is a node, a scalar a leaf).  An access path either names a cell directly or goes
  through a pointer (reference parameters, array parameters and `self` are pointers whose target is the argument /
  receiver).  Copying replaces a subtree by (a copy of) another; since values are immutable trees, the copy is
  independent by construction — the theorems in CbProps/C07.lean state that.  Core Lean only.
-/
namespace CbModel.Heap

inductive Val where
  | int (n : Int)
  | node (cs : List Val)
  deriving Repr, Inhabited

abbrev Path := List Nat

/-- the subtree at a path; `none` when the path leaves the tree -/
def get : Path → Val → Option Val
  | [], v => some v
  | i :: p, .node cs => (cs[i]?).bind (get p)
  | _ :: _, .int _ => none

/-- replace the subtree at a path (no effect when the path leaves the tree) -/
def set : Path → Val → Val → Val
  | [], _, nv => nv
  | i :: p, .node cs, nv => .node (cs.modify i (fun c => set p c nv))
  | _ :: _, .int n, _ => .int n

mutual
/-- all scalars of a value, left to right -/
def flatten : Val → List Int
  | .int n => [n]
  | .node cs => flattenL cs
def flattenL : List Val → List Int
  | [] => []
  | c :: cs => flatten c ++ flattenL cs
end

mutual
/-- same tree shape (struct / array layout), scalars may differ -/
def sameShape : Val → Val → Bool
  | .int _, .int _ => true
  | .node as, .node bs => sameShapeL as bs
  | _, _ => false
def sameShapeL : List Val → List Val → Bool
  | [], [] => true
  | a :: as, b :: bs => sameShape a b && sameShapeL as bs
  | _, _ => false
end

/-- neither path is a prefix of the other: the two cells do not overlap -/
def Disjoint : Path → Path → Prop
  | [], _ => False
  | _, [] => False
  | i :: p, j :: q => i ≠ j ∨ Disjoint p q

structure St where
  root : Val
  ptrs : List Path          -- pointer k points to the cell at ptrs[k]
  deriving Repr, Inhabited

/-- an access path as written in the program -/
inductive Acc where
  | direct (p : Path)               -- o1.in.a, ar1[2], oa[1].x
  | via (k : Nat) (sub : Path)      -- p->x, *q, r.x (reference parameter), self.x, a[i] (array parameter)
  deriving Repr, Inhabited

def resolve (s : St) : Acc → Option Path
  | .direct p => some p
  | .via k sub => (s.ptrs[k]?).map (· ++ sub)

def read (s : St) (a : Acc) : Option Val := (resolve s a).bind (fun p => get p s.root)

/-- a store of a scalar through an access path -/
def write (s : St) (a : Acc) (n : Int) : St :=
  match resolve s a with
  | some p => { s with root := set p s.root (.int n) }
  | none => s

/-- `dst = src` for structs / arrays (also parameter passing by value and return: the destination is the
    parameter / the assigned variable) -/
def copy (s : St) (dst src : Acc) : St :=
  match resolve s dst, read s src with
  | some p, some v => { s with root := set p s.root v }
  | _, _ => s

/-- `x = x + n` through an access path (a method that updates a member of self and returns it) -/
def addTo (s : St) (a : Acc) (n : Int) : St :=
  match read s a with
  | some (.int m) => write s a (m + n)
  | _ => s

/-- `p = &x` -/
def reseat (s : St) (k : Nat) (a : Acc) : St :=
  match resolve s a with
  | some p => { s with ptrs := s.ptrs.set k p }
  | none => s

inductive Op where
  | write (a : Acc) (n : Int)
  | copy (dst src : Acc)
  | reseat (k : Nat) (a : Acc)
  | add (a : Acc) (n : Int)
  | nop                          -- a by-value call: the callee works on its own copy
  deriving Repr, Inhabited

def step (s : St) : Op → St
  | .write a n => write s a n
  | .copy d c => copy s d c
  | .reseat k a => reseat s k a
  | .add a n => addTo s a n
  | .nop => s

end CbModel.Heap
