/-
  Obligations tying the ladder regenerated from expression_parser.cpp to the specification table.
-/
import CbGen.Ladder
import CbProps.C02
import CbProps.C02Assign
namespace CbOblig.C02
open CbModel.Ladder

/-- the parser's ladder IS the specification's precedence table -/
theorem ladder_is_spec : CbGen.ladder = specTable := by decide

/-- (independent of the above) the parser's ladder is well formed, so the round-trip theorems hold
    for the parser as it is -/
theorem ladder_wf : CbProps.C02.wfCheck CbGen.ladder = true := by decide

/-- the operators parseAssignment tests ARE the specification's assignment operators (level 14, right to left) -/
theorem assign_ops_are_spec : CbGen.assignOps = specAssignOps := by decide

/-- … and none of them is an operator of a ladder level of the parser as it is, so the assignment theorems apply to it -/
theorem assign_ops_awf : CbProps.C02Assign.awfCheck CbGen.ladder CbGen.assignOps = true := by decide

end CbOblig.C02
