/-
  C13 — match, Option/Result, `?`, try and checked preserve variants and payloads exactly.
  Laws of the decision logic (CbModel/EnumM.lean); the classifier table is regenerated from the C++.
-/
import CbModel.EnumM
namespace CbProps.C13
open CbModel.EnumM

/-- **First arm.**  `match` selects arm i exactly when pattern i applies and no earlier pattern does -/
theorem match_first_arm (arms : List Pat) (v : EVal) (i : Nat) :
    firstArm arms v = some i ↔
      (∃ h : i < arms.length, (arms[i]).matchesV v = true) ∧ ∀ j (hj : j < i) (h : j < arms.length), (arms[j]).matchesV v = false := by
  unfold firstArm
  rw [List.findIdx?_eq_some_iff_getElem]
  constructor
  · rintro ⟨h, hp, hlt⟩
    refine ⟨⟨h, hp⟩, ?_⟩
    intro j hj hjl
    have := hlt j hj
    simpa using this
  · rintro ⟨⟨h, hp⟩, hlt⟩
    refine ⟨h, hp, ?_⟩
    intro j hj
    have := hlt j hj (Nat.lt_trans hj h)
    simp [this]

/-- when no arm applies the match does not silently continue: there is no selected arm -/
theorem match_nonexhaustive_fails (arms : List Pat) (v : EVal)
    (h : ∀ p ∈ arms, p.matchesV v = false) : firstArm arms v = none := by
  unfold firstArm
  rw [List.findIdx?_eq_none_iff]
  intro p hp
  simp [h p hp]

/-- a wildcard arm makes the match total; arms after it are never selected -/
theorem wildcard_is_total (arms : List Pat) (v : EVal) (h : Pat.wildcard ∈ arms) :
    ∃ i, firstArm arms v = some i := by
  unfold firstArm
  cases hf : List.findIdx? (fun x => x.matchesV v) arms with
  | some i => exact ⟨i, rfl⟩
  | none =>
    rw [List.findIdx?_eq_none_iff] at hf
    have := hf _ h
    simp [Pat.matchesV] at this

/-- the selected arm binds the scrutinee's payload unchanged (0, negative values and boundaries included) -/
theorem payload_preserved (v : EVal) : boundPayload v = v.payload := rfl

/-- **`?` on Ok** yields the payload and execution continues; **on Err** the function returns that same Err
    before any later statement runs: the markers printed are exactly those before the first failing link -/
theorem question_semantics (steps : List Step) (acc : Int) :
    (∀ e, (chainQ steps acc).1 = .error e →
        ∃ pre post, steps = pre ++ Step.err e :: post ∧ (∀ s ∈ pre, ∃ v, s = Step.ok v) ∧
          (chainQ steps acc).2 = pre.length) ∧
    (∀ r, (chainQ steps acc).1 = .ok r → (∀ s ∈ steps, ∃ v, s = Step.ok v) ∧ (chainQ steps acc).2 = steps.length) := by
  induction steps generalizing acc with
  | nil =>
    constructor
    · intro e h; simp [chainQ] at h
    · intro r _; simp [chainQ]
  | cons s rest ih =>
    cases s with
    | ok v =>
      obtain ⟨ih1, ih2⟩ := ih (acc + v)
      constructor
      · intro e h
        simp only [chainQ] at h
        obtain ⟨pre, post, h1, h2, h3⟩ := ih1 e h
        refine ⟨Step.ok v :: pre, post, by simp [h1], ?_, by simp [chainQ, h3]⟩
        intro s hs
        simp only [List.mem_cons] at hs
        rcases hs with rfl | hs
        · exact ⟨v, rfl⟩
        · exact h2 s hs
      · intro r h
        simp only [chainQ] at h
        obtain ⟨h1, h2⟩ := ih2 r h
        refine ⟨?_, by simp [chainQ, h2]⟩
        intro s hs
        simp only [List.mem_cons] at hs
        rcases hs with rfl | hs
        · exact ⟨v, rfl⟩
        · exact h1 s hs
    | err e =>
      constructor
      · intro e' h
        simp only [chainQ, Except.error.injEq] at h
        subst h
        exact ⟨[], rest, rfl, by simp, by simp [chainQ]⟩
      · intro r h; simp [chainQ] at h

/-- **Nested propagation.**  In a nest of functions each applying `?` to the next, the result is the Err of the
    outermost failing level and NO marker is printed (every level above it returns at its `?`, the levels below
    never run); if no level fails, the result is Ok(base + all addends) and every level prints its marker,
    innermost first -/
theorem nest_semantics (ls : List (Option Int × Int)) (base : Int) :
    (∀ e, (nestQ ls base).1 = .error e →
        (nestQ ls base).2 = [] ∧
        ∃ pre post a, ls = pre ++ (some e, a) :: post ∧ ∀ l ∈ pre, l.1 = none) ∧
    (∀ r, (nestQ ls base).1 = .ok r →
        (∀ l ∈ ls, l.1 = none) ∧ r = base + (ls.map (·.2)).sum ∧
        (nestQ ls base).2 = (List.range ls.length).map id) := by
  induction ls with
  | nil =>
    constructor
    · intro e h; simp [nestQ] at h
    · intro r h; simp [nestQ] at h; simp [nestQ, h]
  | cons l rest ih =>
    obtain ⟨o, a⟩ := l
    cases o with
    | some e0 =>
      constructor
      · intro e h
        simp only [nestQ, Except.error.injEq] at h
        subst h
        exact ⟨by simp [nestQ], [], rest, a, rfl, by simp⟩
      · intro r h; simp [nestQ] at h
    | none =>
      obtain ⟨ih1, ih2⟩ := ih
      cases hr : nestQ rest base with
      | mk res ms =>
        cases res with
        | error e =>
          constructor
          · intro e' h
            simp only [nestQ, hr, Except.error.injEq] at h
            subst h
            obtain ⟨_, pre, post, a', h1, h2⟩ := ih1 e (by simp [hr])
            refine ⟨by simp [nestQ, hr], (none, a) :: pre, post, a', by simp [h1], ?_⟩
            intro l hl
            simp only [List.mem_cons] at hl
            rcases hl with rfl | hl
            · rfl
            · exact h2 l hl
          · intro r h; simp [nestQ, hr] at h
        | ok v =>
          constructor
          · intro e h; simp [nestQ, hr] at h
          · intro r h
            simp only [nestQ, hr, Except.ok.injEq] at h
            obtain ⟨h1, h2, h3⟩ := ih2 v (by simp [hr])
            refine ⟨?_, ?_, ?_⟩
            · intro l hl
              simp only [List.mem_cons] at hl
              rcases hl with rfl | hl
              · rfl
              · exact h1 l hl
            · simp only [List.map_cons, List.sum_cons]; omega
            · simp only [nestQ, hr, List.length_cons]
              rw [hr] at h3
              simp only at h3
              rw [h3, List.range_succ]
              simp

/-- `try e` / `checked e` is Ok(v) exactly when e evaluates to v without error -/
theorem try_ok_iff_no_error (rules : List Rule) (r : Except RtErr Int) (v : Int) :
    tryResult rules r = .ok v ↔ r = .ok v := by
  cases r <;> simp [tryResult]

end CbProps.C13
