import Driver.Main
