// C05 in-process harness: Variable::calculate_flat_index on (dims, idxs)
// fields: "d1 d2 ..", "i1 i2 .."  ->  k | err
#include "proto.h"
#include <sstream>
#include "src/backend/interpreter/core/interpreter.h"
static std::vector<int> ints(const std::string &s) {
    std::vector<int> v; std::istringstream is(s); long long x;
    while (is >> x) v.push_back((int)x);
    return v;
}
int main() {
    std::ios::sync_with_stdio(false);
    std::string line;
    while (std::getline(std::cin, line)) {
        auto f = proto::fields(line);
        if (f.size() != 2) { std::cout << "bad-op\n"; continue; }
        Variable v;
        for (int d : ints(f[0])) v.array_type_info.dimensions.push_back(ArrayDimension(d, false));
        try {
            int k = v.calculate_flat_index(ints(f[1]));
            std::cout << k << "\n";
        } catch (const std::exception &e) {
            std::cout << "err\n";
        }
    }
    return 0;
}
