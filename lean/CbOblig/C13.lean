/-
  Obligation on the classifier regenerated from classify_runtime_error: the messages thrown at the division, modulo,
  index and null-dereference sites are mapped to the three documented error classes.
-/
import CbGen.ErrClass
namespace CbOblig.C13
open CbModel.EnumM

theorem errClass_matches_sites :
    [RtErr.divzero, RtErr.modzero, RtErr.bounds, RtErr.nullptr].all
      (fun e => classify CbGen.errRules e.message "Custom" == e.cls) = true := by decide +kernel

end CbOblig.C13
