import CbModel.Fixed
import Driver.Proto
namespace Driver
open CbModel.Fixed

/-- fields: neg (0/1), numerator, denominator, precision  ->  the "%.Nf" rendering of (-1)^neg * num / den -/
def c16FixedLine (fs : List (List Char)) : String :=
  match fs.map String.ofList with
  | [neg, num, den, prec] =>
    match num.toNat?, den.toNat?, prec.toNat? with
    | some n, some d, some p => if d = 0 then "bad-op" else String.ofList (renderFixed (neg == "1") n d p)
    | _, _, _ => "bad-op"
  | _ => "bad-op"

end Driver
